(** Model/Codec.v — the structured-file steps of pypyr (C16).

    Mirrors, as they are written:
      json.dump(payload, f, indent=2, ensure_ascii=False)  -> [jprint] / [json_print]
         (pypyr.config: json_indent = 2, json_ascii = False; used by filewritejson and
          JsonRepresenter.dump)
      json.load(f)                                          -> [json_parse]
         (CPython json.decoder/scanner: whitespace, literals, ints, strings with the
          escapes, arrays, objects with last-duplicate-wins; floats are outside the model)
      pypyr.steps.filewrite{json,yaml,toml}.run_step        -> [write_step]
      pypyr.steps.fetch{json,yaml,toml}.run_step            -> [fetch_step]
      pypyr.parser.{jsonfile,yamlfile,tomlfile}             -> [file_parser]
      ObjectRewriterStep + ObjectRewriter.in_to_out         -> [fileformat_obj], [fileformat_step]
         (single existing in-file, out a file path or absent = in place)

    ruamel.yaml and tomllib/tomli-w are third-party code that is NOT modelled: the YAML
    and TOML steps are the same step functions instantiated with a [codec] record whose two
    functions are supplied from outside (a table of observations in the correspondence
    run, Section variables in the theorems).

    A file system is an association list path -> text.  The text is what the step hands
    to / gets from the file object, as UTF-8 bytes; the on-disk encoding chosen with the
    [encoding] input is outside the model (write and read use the same one).

    [Unsup] = outside the modelled fragment. *)
From PV Require Export Format.
Open Scope string_scope.

(** * json.dump(indent=2, ensure_ascii=False) *)
Definition nlc : ascii := ascii_of_nat 10.
Definition bslash : ascii := "\"%char.

(** "\n" + "  " * level *)
Definition nl (lvl : nat) : string := String nlc (repeat_char " "%char (2 * lvl)).

(** py_encode_basestring: quotes, backslash, the five short escapes, other C0 controls as
    \u00XX; everything else (DEL and all non-ASCII bytes included) verbatim. *)
Definition jquote (s : string) : string :=
  String dquote (json_str_body s ++ String dquote EmptyString).

(** dict keys: str as is; int / bool / None coerced to their JSON spelling *)
Definition jkey (k : val) : string :=
  match k with
  | VStr s => jquote s
  | VInt z => String dquote (str_of_Z z ++ String dquote EmptyString)
  | VBool true => jquote "true"
  | VBool false => jquote "false"
  | VNone => jquote "null"
  | _ => EmptyString
  end.

(** _make_iterencode with _indent = "  ", separators (",", ": ").  Total; meaningful on
    values accepted by [json_ok]. *)
Fixpoint jprint (lvl : nat) (v : val) : string :=
  let fix items (l : list val) : string :=
    match l with
    | [] => EmptyString
    | x :: r => "," ++ nl (S lvl) ++ jprint (S lvl) x ++ items r
    end in
  let fix pairs (l : list (val * val)) : string :=
    match l with
    | [] => EmptyString
    | (k, x) :: r => "," ++ nl (S lvl) ++ jkey k ++ ": " ++ jprint (S lvl) x ++ pairs r
    end in
  match v with
  | VNone => "null"
  | VBool true => "true"
  | VBool false => "false"
  | VInt z => str_of_Z z
  | VStr s => jquote s
  | VList l | VTuple l =>
      match l with
      | [] => "[]"
      | x :: r => "[" ++ nl (S lvl) ++ jprint (S lvl) x ++ items r ++ nl lvl ++ "]"
      end
  | VDict l =>
      match l with
      | [] => "{}"
      | (k, x) :: r =>
          "{" ++ nl (S lvl) ++ jkey k ++ ": " ++ jprint (S lvl) x ++ pairs r ++ nl lvl ++ "}"
      end
  | _ => EmptyString
  end.

Definition jkey_ok (k : val) : bool :=
  match k with VStr _ | VInt _ | VBool _ | VNone => true | _ => false end.

(** what json.dump serialises without raising (floats: outside the model) *)
Fixpoint json_ok (v : val) : bool :=
  let fix all (l : list val) : bool :=
    match l with [] => true | x :: r => json_ok x && all r end in
  let fix alld (l : list (val * val)) : bool :=
    match l with [] => true | (k, x) :: r => jkey_ok k && json_ok x && alld r end in
  match v with
  | VNone | VBool _ | VInt _ | VStr _ => true
  | VList l | VTuple l => all l
  | VDict l => alld l
  | _ => false
  end.

(** the JSON-representable payloads: what json.dump writes and json.load gives back
    unchanged - None, bool, int, str, lists, dicts with distinct str keys, nested to any
    depth.  (Tuples are written as arrays and come back as lists; non-str keys come back
    as str; floats are outside the model.) *)
Fixpoint uniq_keys (l : list (val * val)) : bool :=
  match l with
  | [] => true
  | (k, _) :: r => negb (dict_has k r) && uniq_keys r
  end.

Fixpoint json_rt (v : val) : bool :=
  let fix all (l : list val) : bool :=
    match l with [] => true | x :: r => json_rt x && all r end in
  let fix alld (l : list (val * val)) : bool :=
    match l with
    | [] => true
    | (k, x) :: r => (match k with VStr _ => true | _ => false end) && json_rt x && alld r
    end in
  match v with
  | VNone | VBool _ | VInt _ | VStr _ => true
  | VList l => all l
  | VDict l => alld l && uniq_keys l
  | _ => false
  end.

Definition json_representable (v : val) : Prop := json_rt v = true.

Definition json_print (v : val) : option string :=
  if json_ok v then Some (jprint 0 v) else None.

(** * json.load *)
Definition is_ws (c : ascii) : bool :=
  let n := nat_of_ascii c in
  Nat.eqb n 32 || Nat.eqb n 9 || Nat.eqb n 10 || Nat.eqb n 13.

Fixpoint skip_ws (s : string) : string :=
  match s with
  | EmptyString => EmptyString
  | String c r => if is_ws c then skip_ws r else s
  end.

Definition hexval (c : ascii) : option Z :=
  let n := nat_of_ascii c in
  if Nat.leb 48 n && Nat.leb n 57 then Some (Z.of_nat (n - 48))
  else if Nat.leb 97 n && Nat.leb n 102 then Some (Z.of_nat (n - 87))
  else if Nat.leb 65 n && Nat.leb n 70 then Some (Z.of_nat (n - 55))
  else None.

Definition hex4 (a b c d : ascii) : option Z :=
  match hexval a, hexval b, hexval c, hexval d with
  | Some x, Some y, Some z, Some w => Some (((x * 16 + y) * 16 + z) * 16 + w)%Z
  | _, _, _, _ => None
  end.

Definition byte (z : Z) : string := String (ascii_of_nat (Z.to_nat z)) EmptyString.

(** UTF-8 encoding of one code point (the model's strings are UTF-8 bytes) *)
Definition utf8 (cp : Z) : string :=
  if (cp <? 128)%Z then byte cp
  else if (cp <? 2048)%Z then byte (192 + cp / 64) ++ byte (128 + cp mod 64)
  else if (cp <? 65536)%Z then
    byte (224 + cp / 4096) ++ byte (128 + (cp / 64) mod 64) ++ byte (128 + cp mod 64)
  else byte (240 + cp / 262144) ++ byte (128 + (cp / 4096) mod 64)
       ++ byte (128 + (cp / 64) mod 64) ++ byte (128 + cp mod 64).

Definition is_high (z : Z) : bool := (55296 <=? z)%Z && (z <=? 56319)%Z.
Definition is_low (z : Z) : bool := (56320 <=? z)%Z && (z <=? 57343)%Z.

Definition simple_escape (e : ascii) : option ascii :=
  if Ascii.eqb e dquote then Some dquote
  else if Ascii.eqb e bslash then Some bslash
  else if Ascii.eqb e "/"%char then Some "/"%char
  else if Ascii.eqb e "b"%char then Some (ascii_of_nat 8)
  else if Ascii.eqb e "f"%char then Some (ascii_of_nat 12)
  else if Ascii.eqb e "n"%char then Some (ascii_of_nat 10)
  else if Ascii.eqb e "r"%char then Some (ascii_of_nat 13)
  else if Ascii.eqb e "t"%char then Some (ascii_of_nat 9)
  else None.

Definition prepend (p : string) (o : option (string * string)) : option (string * string) :=
  match o with Some (t, rest) => Some (p ++ t, rest) | None => None end.

(** scanstring (strict): input is what follows the opening quote; result is the decoded
    text and what follows the closing quote.  A lone surrogate escape has no UTF-8 form:
    [None]. *)
Fixpoint parse_str_body (s : string) : option (string * string) :=
  match s with
  | EmptyString => None
  | String c r =>
      if Ascii.eqb c dquote then Some (EmptyString, r)
      else if Ascii.eqb c bslash then
        match r with
        | EmptyString => None
        | String e r2 =>
            if Ascii.eqb e "u"%char then
              match r2 with
              | String h1 (String h2 (String h3 (String h4 r3))) =>
                  match hex4 h1 h2 h3 h4 with
                  | None => None
                  | Some hi =>
                      if is_high hi then
                        match r3 with
                        | String b (String u (String g1 (String g2 (String g3 (String g4 r4))))) =>
                            if Ascii.eqb b bslash && Ascii.eqb u "u"%char then
                              match hex4 g1 g2 g3 g4 with
                              | Some lo =>
                                  if is_low lo
                                  then prepend (utf8 (65536 + (hi - 55296) * 1024 + (lo - 56320)))
                                               (parse_str_body r4)
                                  else None
                              | None => None
                              end
                            else None
                        | _ => None
                        end
                      else if is_low hi then None
                      else prepend (utf8 hi) (parse_str_body r3)
                  end
              | _ => None
              end
            else
              match simple_escape e with
              | Some ch => prepend (String ch EmptyString) (parse_str_body r2)
              | None => None
              end
        end
      else if Nat.ltb (nat_of_ascii c) 32 then None
      else prepend (String c EmptyString) (parse_str_body r)
  end.

Fixpoint span_digits (s : string) : string * string :=
  match s with
  | EmptyString => (EmptyString, EmptyString)
  | String c r =>
      if is_digit c then let '(d, rest) := span_digits r in (String c d, rest)
      else (EmptyString, s)
  end.

Definition float_mark (c : ascii) : bool :=
  Ascii.eqb c "."%char || Ascii.eqb c "e"%char || Ascii.eqb c "E"%char.

(** NUMBER_RE, integer results only: optional minus, then 0 or a digit string without a
    leading zero, not followed by a fraction or exponent *)
Definition parse_int (s : string) : option (Z * string) :=
  let '(neg, s1) := match s with
                    | String c r => if Ascii.eqb c "-"%char then (true, r) else (false, s)
                    | EmptyString => (false, s)
                    end in
  let '(ds, rest) := span_digits s1 in
  match ds with
  | EmptyString => None
  | String d ds' =>
      if Ascii.eqb d "0"%char && negb (String.eqb ds' EmptyString) then None
      else if match rest with String c _ => float_mark c | EmptyString => false end then None
      else let n := digits_to_Z ds 0 in Some ((if neg then (- n)%Z else n), rest)
  end.

Fixpoint strip_prefix (p s : string) : option string :=
  match p with
  | EmptyString => Some s
  | String a p' =>
      match s with
      | String b s' => if Ascii.eqb a b then strip_prefix p' s' else None
      | EmptyString => None
      end
  end.

(** "key" ws : ws value, with [pv] the value parser *)
Definition parse_member (pv : string -> option (val * string)) (s : string)
  : option ((val * val) * string) :=
  match s with
  | String c r =>
      if Ascii.eqb c dquote then
        match parse_str_body r with
        | Some (k, r1) =>
            match skip_ws r1 with
            | String c2 r2 =>
                if Ascii.eqb c2 ":"%char then
                  match pv (skip_ws r2) with
                  | Some (x, r3) => Some ((VStr k, x), r3)
                  | None => None
                  end
                else None
            | EmptyString => None
            end
        | None => None
        end
      else None
  | EmptyString => None
  end.

(** scan_once / JSONArray / JSONObject.  [parse_elems] and [parse_members] are the loops
    positioned after a value: "," value ... "]".  Fuel: one unit per nested call. *)
Fixpoint parse_value (fuel : nat) (s : string) {struct fuel} : option (val * string) :=
  match fuel with
  | O => None
  | S f =>
      match s with
      | EmptyString => None
      | String c r =>
          if Ascii.eqb c dquote then
            match parse_str_body r with
            | Some (t, rest) => Some (VStr t, rest)
            | None => None
            end
          else if Ascii.eqb c "["%char then
            match skip_ws r with
            | EmptyString => None
            | String c2 r2 =>
                if Ascii.eqb c2 "]"%char then Some (VList [], r2)
                else
                  match parse_value f (String c2 r2) with
                  | Some (x, r3) =>
                      match parse_elems f r3 with
                      | Some (xs, r4) => Some (VList (x :: xs), r4)
                      | None => None
                      end
                  | None => None
                  end
            end
          else if Ascii.eqb c "{"%char then
            match skip_ws r with
            | EmptyString => None
            | String c2 r2 =>
                if Ascii.eqb c2 "}"%char then Some (VDict [], r2)
                else
                  match parse_member (parse_value f) (String c2 r2) with
                  | Some (kx, r3) =>
                      match parse_members f r3 with
                      | Some (kxs, r4) => Some (VDict (rebuild_dict (kx :: kxs)), r4)
                      | None => None
                      end
                  | None => None
                  end
            end
          else
            match strip_prefix "null" s with
            | Some rest => Some (VNone, rest)
            | None =>
                match strip_prefix "true" s with
                | Some rest => Some (VBool true, rest)
                | None =>
                    match strip_prefix "false" s with
                    | Some rest => Some (VBool false, rest)
                    | None =>
                        match parse_int s with
                        | Some (z, rest) => Some (VInt z, rest)
                        | None => None
                        end
                    end
                end
            end
      end
  end
with parse_elems (fuel : nat) (s : string) {struct fuel} : option (list val * string) :=
  match fuel with
  | O => None
  | S f =>
      match skip_ws s with
      | EmptyString => None
      | String c r =>
          if Ascii.eqb c ","%char then
            match parse_value f (skip_ws r) with
            | Some (x, r2) =>
                match parse_elems f r2 with
                | Some (xs, r3) => Some (x :: xs, r3)
                | None => None
                end
            | None => None
            end
          else if Ascii.eqb c "]"%char then Some ([], r)
          else None
      end
  end
with parse_members (fuel : nat) (s : string) {struct fuel}
  : option (list (val * val) * string) :=
  match fuel with
  | O => None
  | S f =>
      match skip_ws s with
      | EmptyString => None
      | String c r =>
          if Ascii.eqb c ","%char then
            match parse_member (parse_value f) (skip_ws r) with
            | Some (kx, r2) =>
                match parse_members f r2 with
                | Some (kxs, r3) => Some (kx :: kxs, r3)
                | None => None
                end
            | None => None
            end
          else if Ascii.eqb c "}"%char then Some ([], r)
          else None
      end
  end.

(** json.loads: leading whitespace, one value, trailing whitespace, end.  [None] = the
    text is not JSON, or uses something outside the model (floats, lone surrogates). *)
Definition json_parse (s : string) : option val :=
  match parse_value (S (String.length s)) (skip_ws s) with
  | Some (v, rest) =>
      match skip_ws rest with
      | EmptyString => Some v
      | _ => None
      end
  | None => None
  end.

(** * Codecs *)
Inductive fmt := FJson | FYaml | FToml.

Record codec := { c_print : val -> res string; c_parse : string -> res val }.

Definition json_codec : codec :=
  {| c_print := fun v => res_of_opt (json_print v);
     c_parse := fun s => match json_parse s with
                         | Some v => Ok v
                         | None => Unsup    (* JSONDecodeError, or outside the model *)
                         end |}.

(** A codec given by a finite table of observed (argument, result) pairs: how the YAML and
    TOML steps are instantiated in the correspondence run. *)
Fixpoint tbl_print (t : list (val * res string)) (v : val) : res string :=
  match t with
  | [] => Unsup
  | (a, r) :: t' => if val_eqb a v then r else tbl_print t' v
  end.

Fixpoint tbl_parse (t : list (string * res val)) (s : string) : res val :=
  match t with
  | [] => Unsup
  | (a, r) :: t' => if String.eqb a s then r else tbl_parse t' s
  end.

Definition table_codec (tp : list (val * res string)) (tl : list (string * res val)) : codec :=
  {| c_print := tbl_print tp; c_parse := tbl_parse tl |}.

(** * File system: path -> text *)
Definition fs := list (string * string).

Fixpoint fs_read (p : string) (f : fs) : option string :=
  match f with
  | [] => None
  | (q, t) :: r => if String.eqb p q then Some t else fs_read p r
  end.

Fixpoint fs_write (p t : string) (f : fs) : fs :=
  match f with
  | [] => [(p, t)]
  | (q, u) :: r => if String.eqb p q then (q, t) :: r else (q, u) :: fs_write p t r
  end.

(** * Step plumbing *)
Definition write_key (f : fmt) : string :=
  match f with FJson => "fileWriteJson" | FYaml => "fileWriteYaml" | FToml => "fileWriteToml" end.
Definition fetch_key (f : fmt) : string :=
  match f with FJson => "fetchJson" | FYaml => "fetchYaml" | FToml => "fetchToml" end.
Definition format_key (f : fmt) : string :=
  match f with FJson => "fileFormatJson" | FYaml => "fileFormatYaml" | FToml => "fileFormatToml" end.
Definition write_mod (f : fmt) : string :=
  match f with FJson => "pypyr.steps.filewritejson" | FYaml => "pypyr.steps.filewriteyaml"
             | FToml => "pypyr.steps.filewritetoml" end.
Definition fetch_mod (f : fmt) : string :=
  match f with FJson => "pypyr.steps.fetchjson" | FYaml => "pypyr.steps.fetchyaml"
             | FToml => "pypyr.steps.fetchtoml" end.
Definition format_mod (f : fmt) : string :=
  match f with FJson => "pypyr.steps.fileformatjson" | FYaml => "pypyr.steps.fileformatyaml"
             | FToml => "pypyr.steps.fileformattoml" end.

Definition E_KeyNotInContext := "pypyr.errors.KeyNotInContextError".
Definition E_KeyNoValue := "pypyr.errors.KeyInContextHasNoValueError".

(** asserts.assert_key_has_value(obj, key, caller, parent) on a dict *)
Definition assert_has_value (d : dict) (key caller : string) (parent : option string) : res val :=
  let where_ := match parent with
                | Some p => "context[" ++ repr_str p ++ "][" ++ repr_str key ++ "]"
                | None => "context[" ++ repr_str key ++ "]"
                end in
  match sget key d with
  | None => Err E_KeyNotInContext (where_ ++ " doesn't exist. It must exist for " ++ caller ++ ".")
  | Some VNone => Err E_KeyNoValue (where_ ++ " must have a value for " ++ caller ++ ".")
  | Some v => Ok v
  end.

(** Context.get_formatted(key): format the value under [key]; a key-lookup error from the
    formatter is re-raised as the same class with a longer message (only the class is
    compared). *)
Definition get_formatted (ctx : dict) (key : string) (v : val) : res val :=
  match format_value FUEL ctx v with
  | Err n m =>
      if String.eqb n E_KeyNotInContext
      then Err n ("Unable to format the value at context['" ++ key ++ "'], because " ++ m)
      else Err n m
  | r => r
  end.

Definition is_mapping (v : val) : bool := match v with VDict _ => true | _ => false end.

(** ** filewrite{json,yaml,toml}.run_step *)
Definition write_step (f : fmt) (c : codec) (ctx : dict) (files : fs) : res fs :=
  let* arg := assert_has_value ctx (write_key f) (write_mod f) None in
  let* inp := get_formatted ctx (write_key f) arg in
  match inp with
  | VDict d =>
      let* p := assert_has_value d "path" (write_mod f) (Some (write_key f)) in
      match p with
      | VStr path =>
          let* payload :=
            match sget "payload" d with
            | Some pl =>
                (* toml only: an explicit payload must be truthy *)
                match f with
                | FToml =>
                    if py_truth pl then Ok pl
                    else Err E_KeyNoValue
                             "payload must have a value to write to output TOML document."
                | _ => Ok pl
                end
            | None => format_value FUEL ctx (VDict ctx)   (* the whole context, formatted *)
            end in
          let* text := c_print c payload in
          Ok (fs_write path text files)
      | _ => Unsup
      end
  | _ => Unsup
  end.

Definition not_mapping_msg (f : fmt) : string :=
  match f with
  | FJson => "json input should describe an object at the top level when fetchJson.key isn't specified."
  | FYaml => "yaml input should describe a dictionary at the top level when fetchYaml.key isn't specified."
  | FToml => ""
  end.

(** ** fetch{json,yaml,toml}.run_step.  The key is used when truthy (any document, a
    scalar root included, is stored under it); otherwise the parsed mapping is merged into
    the context root.  (The closing log line takes len(payload) only when the payload has a
    length.) *)
Definition fetch_step (f : fmt) (c : codec) (ctx : dict) (files : fs) : res dict :=
  let* arg := assert_has_value ctx (fetch_key f) (fetch_mod f) None in
  let* inp := get_formatted ctx (fetch_key f) arg in
  let* pk :=
    match inp with
    | VStr p => Ok (VStr p, VNone)
    | VDict d =>
        let* p := assert_has_value d "path" (fetch_mod f) (Some (fetch_key f)) in
        Ok (p, match sget "key" d with Some k => k | None => VNone end)
    | _ => Unsup
    end in
  let '(p, key) := pk in
  match p with
  | VStr path =>
      match fs_read path files with
      | None => Err "FileNotFoundError" ("[Errno 2] No such file or directory: " ++ repr_str path)
      | Some text =>
          let* payload := c_parse c text in
            if py_truth key then
              match key with
              | VStr _ | VInt _ | VBool _ => Ok (dict_set key payload ctx)
              | _ => Unsup
              end
            else
              match payload with
              | VDict pl => Ok (dict_update ctx pl)
              | _ =>
                  match f with
                  | FToml => Unsup      (* a TOML document is always a table *)
                  | _ => Err "TypeError" (not_mapping_msg f)
                  end
              end
      end
  | _ => Unsup
  end.

(** ** pypyr.parser.{jsonfile,yamlfile,tomlfile}.get_parsed_context(args):
    the path is the args joined by one space; [Ok None] = the parser returns None. *)
Definition file_parser (f : fmt) (c : codec) (args : list string) (files : fs)
  : res (option val) :=
  match args with
  | [] =>
      match f with
      | FToml => Ok None
      | _ => Err "AssertionError" "pipeline must be invoked with context arg set."
      end
  | _ =>
      let path := join " " args in
      match fs_read path files with
      | None => Err "FileNotFoundError" ("[Errno 2] No such file or directory: " ++ repr_str path)
      | Some text =>
          let* payload := c_parse c text in
          match f with
          | FToml => Ok (Some payload)
          | _ => if is_mapping payload then Ok (Some payload)
                 else Err "TypeError" "input should describe a mapping at the top level."
          end
      end
  end.

(** ** fileformat{json,yaml,toml}: ObjectRewriter = dump ∘ format ∘ load *)
Definition fileformat_obj (c : codec) (ctx : dict) (text : string) : res string :=
  let* obj := c_parse c text in
  let* obj' := format_value FUEL ctx obj in
  c_print c obj'.

(** single in-file; [out] absent or None = edit in place *)
Definition fileformat_step (f : fmt) (c : codec) (ctx : dict) (files : fs) : res fs :=
  let* arg := assert_has_value ctx (format_key f) (format_mod f) None in
  let* inp := get_formatted ctx (format_key f) arg in
  match inp with
  | VDict d =>
      let* pin := assert_has_value d "in" (format_mod f) (Some (format_key f)) in
      match pin with
      | VStr path_in =>
          let* path_out :=
            match sget "out" d with
            | None | Some VNone => Ok path_in
            | Some (VStr o) => Ok o
            | Some _ => Unsup
            end in
          match fs_read path_in files with
          | None => Ok files    (* the glob matches nothing: nothing is rewritten *)
          | Some text =>
              let* out := fileformat_obj c ctx text in
              Ok (fs_write path_out out files)
          end
      | _ => Unsup
      end
  | _ => Unsup
  end.

(** values a parsed JSON / YAML / TOML document is made of: the nodes that the
    fileformat steps walk *)
Fixpoint is_doc (v : val) : bool :=
  let fix all (l : list val) : bool :=
    match l with [] => true | x :: r => is_doc x && all r end in
  let fix alld (l : list (val * val)) : bool :=
    match l with [] => true | (k, x) :: r => is_doc k && is_doc x && alld r end in
  match v with
  | VNone | VBool _ | VInt _ | VFloat _ | VStr _ => true
  | VList l => all l
  | VDict l => alld l
  | _ => false
  end.

(** * Domains of the third-party round-trip hypotheses (UTF-8 byte level) *)
Fixpoint has_sub2 (a b : nat) (s : string) : bool :=
  match s with
  | String c ((String d _) as r) =>
      (Nat.eqb (nat_of_ascii c) a && Nat.eqb (nat_of_ascii d) b) || has_sub2 a b r
  | _ => false
  end.

(** U+0085 NEL is C2 85 *)
Definition has_nel (s : string) : bool := has_sub2 194 133 s.

(** characters that make ruamel's emitter choose the double-quoted style: C0 controls
    other than LF, DEL, C1 controls (C2 80..9F), U+2028/9 (E2 80 A8/A9), U+FEFF (EF BB BF),
    U+FFFE/F (EF BF BE/BF), or a blank next to a line break *)
Fixpoint yaml_dq (s : string) : bool :=
  match s with
  | EmptyString => false
  | String c r =>
      let n := nat_of_ascii c in
      (Nat.ltb n 32 && negb (Nat.eqb n 10)) || Nat.eqb n 127
      || match r with
         | String d r2 =>
             let m := nat_of_ascii d in
             (Nat.eqb n 194 && Nat.leb 128 m && Nat.leb m 159)
             || (Nat.eqb n 32 && Nat.eqb m 10) || (Nat.eqb n 10 && Nat.eqb m 32)
             || match r2 with
                | String e _ =>
                    let k := nat_of_ascii e in
                    (Nat.eqb n 226 && Nat.eqb m 128 && (Nat.eqb k 168 || Nat.eqb k 169))
                    || (Nat.eqb n 239 && Nat.eqb m 187 && Nat.eqb k 191)
                    || (Nat.eqb n 239 && Nat.eqb m 191 && (Nat.eqb k 190 || Nat.eqb k 191))
                | EmptyString => false
                end
         | EmptyString => false
         end
      || yaml_dq r
  end.

(** the strings on which the YAML emitter/loader pair is assumed to round-trip:
    no NEL (emitted raw, read back as a line break), and not both double-quoted and
    containing a blank (a long double-quoted scalar can be folded without the
    continuation backslash, which reads back an extra blank) *)
Definition yaml_str_ok (s : string) : bool :=
  negb (has_nel s) && negb (yaml_dq s && contains_char " "%char s).

Fixpoint all_strings (p : string -> bool) (v : val) : bool :=
  let fix all (l : list val) : bool :=
    match l with [] => true | x :: r => all_strings p x && all r end in
  let fix alld (l : list (val * val)) : bool :=
    match l with [] => true | (k, x) :: r => all_strings p k && all_strings p x && alld r end in
  match v with
  | VStr s => p s
  | VList l | VTuple l | VSet l => all l
  | VDict l => alld l
  | VJsonify x => all_strings p x
  | _ => true
  end.

(** scalars/containers both YAML and TOML know; tuples come back as lists, so excluded *)
Fixpoint plain_data (allow_none : bool) (str_keys : bool) (v : val) : bool :=
  let fix all (l : list val) : bool :=
    match l with [] => true | x :: r => plain_data allow_none str_keys x && all r end in
  let fix alld (l : list (val * val)) : bool :=
    match l with
    | [] => true
    | (k, x) :: r =>
        (match k with
         | VStr _ => true
         | VInt _ | VBool _ | VNone => negb str_keys
         | _ => false
         end) && plain_data allow_none str_keys x && alld r
    end in
  match v with
  | VNone => allow_none
  | VBool _ | VInt _ | VFloat _ | VStr _ => true
  | VList l => all l
  | VDict l => alld l
  | _ => false
  end.

Definition yaml_representable (v : val) : bool :=
  plain_data true false v && all_strings yaml_str_ok v.

(** TOML: no None anywhere, string keys, and the document root is a non-empty table
    (filewritetoml refuses a falsy payload) *)
Definition toml_representable (v : val) : bool :=
  plain_data false true v && match v with VDict (_ :: _) => true | _ => false end.

(** document equality up to the order of mapping keys (TOML writes the scalar entries of
    a table before its sub-tables); strict on types *)
Fixpoint val_eqv (a b : val) : bool :=
  let fix go (l1 l2 : list val) : bool :=
    match l1, l2 with
    | [], [] => true
    | x :: xs, y :: ys => val_eqv x y && go xs ys
    | _, _ => false
    end in
  let fix sub (l1 : list (val * val)) (l2 : list (val * val)) : bool :=
    match l1 with
    | [] => true
    | (k, v) :: xs =>
        (fix find (l : list (val * val)) : bool :=
           match l with
           | [] => false
           | (k', v') :: r => if val_eqb k k' then val_eqv v v' else find r
           end) l2 && sub xs l2
    end in
  match a, b with
  | VList x, VList y => go x y
  | VDict x, VDict y => Nat.eqb (List.length x) (List.length y) && sub x y
  | VList _, _ | _, VList _ | VDict _, _ | _, VDict _ => false
  | _, _ => val_eqb a b
  end.

(** * Correspondence helpers: compare a model result with an observation.
    Errors are compared by class name only. *)
Definition verdict_n {A} (eqb : A -> A -> bool) (model obs : res A) : nat :=
  match model, obs with
  | Unsup, _ => 2%nat
  | Ok a, Ok b => if eqb a b then 0%nat else 1%nat
  | Err n _, Err n' _ => if String.eqb n n' then 0%nat else 1%nat
  | _, _ => 1%nat
  end.

Definition worst (a b : nat) : nat :=
  if Nat.eqb a 1 || Nat.eqb b 1 then 1%nat
  else if Nat.eqb a 0 && Nat.eqb b 0 then 0%nat else 2%nat.

Fixpoint worst_of (l : list nat) : nat :=
  match l with [] => 0%nat | x :: r => worst x (worst_of r) end.

Definition fs_eqb (a b : fs) : bool :=
  list_eqb (fun x y : string * string =>
              String.eqb (fst x) (fst y) && String.eqb (snd x) (snd y)) a b.

Definition opt_val_eqb (a b : option val) : bool :=
  match a, b with
  | Some x, Some y => val_eqb x y
  | None, None => true
  | _, _ => false
  end.

(** json_parse against json.load: [obs] = Some v when json.load succeeded *)
Definition check_json_parse (text : string) (obs : option val) : nat :=
  match json_parse text, obs with
  | Some v, Some o => if val_eqb v o then 0%nat else 1%nat
  | Some _, None => 1%nat
  | None, Some _ => 2%nat      (* outside the modelled JSON subset (floats, lone surrogates) *)
  | None, None => 0%nat
  end.

Definition check_bool (a b : bool) : nat := if Bool.eqb a b then 0%nat else 1%nat.
