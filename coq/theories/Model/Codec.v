(** Model/Codec.v — placeholder, to be written. *)
