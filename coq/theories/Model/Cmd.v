(** Model/Cmd.v — pypyr's command steps (cmd / shell / cmds / shells).

    Mirrors, function by function:
      CmdStep.__init__ / create_command        -> [sync_commands]
      pypyr.subproc.Command.run / _run          -> [run_strs] / [run1]
      CmdStep.run_step (results in finally)     -> [run_cmds], [sync_cmdout], [run_sync]
      AsyncCmdStep.__init__ / create_command    -> [async_commands]
      pypyr.aio.subproc.Command._spawn          -> [async_result]
      pypyr.aio.subproc.Command._run (sub-list) -> [begin] / [complete]  (one slot per task)
      Command.run + Commands._run (two gathers) -> [init_slots], [step], [run_machine]
      Commands.run (aggregation, MultiError)    -> [collect_results], [collect_errors], [run_async]
      AsyncCmdStep.run_step (cmdOut in finally) -> [async_cmdout]

    The operating system is an oracle [string -> outcome]: what a command line does when it
    is spawned.  The completion order of concurrently running processes is a SCHEDULE, an
    arbitrary [list nat]: pick k lets the (k mod r)-th of the r running processes finish.
    asyncio.gather is modelled by giving every awaited task its own result slot, kept in
    argument order; the schedule only decides WHEN a slot is written. *)
From PV Require Export PyVal.
Import ListNotations.
Open Scope string_scope.
Open Scope list_scope.

(** * The world outside pypyr *)
Inductive outcome :=
| Exited (rc : Z) (out err : string)          (* ran; exit status and raw captured output *)
| SpawnFail (ename msg : string).             (* could not even be spawned (e.g. FileNotFoundError) *)

Definition oracle := string -> outcome.

Fixpoint oracle_of (tbl : list (string * outcome)) (c : string) : outcome :=
  match tbl with
  | [] => Exited 0 "" ""
  | (k, o) :: r => if String.eqb k c then o else oracle_of r c
  end.

Definition exit_zero (orc : oracle) (c : string) : bool :=
  match orc c with Exited rc _ _ => Z.eqb rc 0 | SpawnFail _ _ => false end.

(** * Small string functions *)
(** [str.rstrip()] over ASCII: whitespace = 9..13, 28..32. *)
Definition is_py_space (a : ascii) : bool :=
  let n := nat_of_ascii a in
  (Nat.leb 9 n && Nat.leb n 13) || (Nat.leb 28 n && Nat.leb n 32).

Fixpoint rstrip (s : string) : string :=
  match s with
  | EmptyString => EmptyString
  | String a r =>
      let r' := rstrip r in
      if String.eqb r' "" && is_py_space a then EmptyString else String a r'
  end.

(** [shlex.split] restricted to command lines without quotes, escapes: split on runs of
    the shlex whitespace characters (space, tab, CR, LF). *)
Definition is_shlex_space (a : ascii) : bool :=
  let n := nat_of_ascii a in
  Nat.eqb n 32 || Nat.eqb n 9 || Nat.eqb n 10 || Nat.eqb n 13.

Fixpoint shlex_words (s : string) (cur : string) : list string :=
  match s with
  | EmptyString => if String.eqb cur "" then [] else [str_rev cur]
  | String a r =>
      if is_shlex_space a
      then (if String.eqb cur "" then shlex_words r "" else str_rev cur :: shlex_words r "")
      else shlex_words r (String a cur)
  end.

Definition shlex_split (s : string) : list string := shlex_words s "".

Definition is_quote_char (a : ascii) : bool :=
  let n := nat_of_ascii a in Nat.eqb n 34 || Nat.eqb n 39 || Nat.eqb n 92.

Fixpoint shlex_plain (s : string) : bool :=
  match s with
  | EmptyString => true
  | String a r => negb (is_quote_char a) && shlex_plain r
  end.

(** * What the steps produce *)
(** One element of [Command.results]: a [SubprocessResult] or, in the async steps, the
    exception raised while spawning. *)
Inductive res1 :=
| R1 (cmd : val) (rc : Z) (out err : val)
| X1 (ename msg : string).

(** One top-level entry of the async result list: a result, or the list of results of a
    serial sub-sequence. *)
Inductive rentry :=
| EOne (r : res1)
| ESer (l : list res1).

(** [context['cmdOut']] after the step. *)
Inductive cmdout :=
| OutUnset                         (* the step did not touch cmdOut *)
| OutSingle (r : res1)             (* cmd/shell with exactly one saved result: the bare object *)
| OutList (l : list rentry).       (* a list *)

(** An error object: [kind] is the class (subprocess.CalledProcessError for the serial
    steps, pypyr.errors.SubprocessError inside MultiError), or an exception from the spawn. *)
Inductive perr :=
| PErr (kind : string) (cmd : val) (rc : Z) (out err : val)
| PExn (ename msg : string).

Inductive raised :=
| NoError
| Raised (e : perr)                (* serial steps: the error of the failing command *)
| Multi (l : list perr).           (* async steps: one pypyr.errors.MultiError *)

Record obs := mkObs {
  ob_started : list string;        (* serial: in start order; async: in declaration order *)
  ob_wave : list string;           (* async: started before any process completed *)
  ob_err : raised;
  ob_out : cmdout }.

(** * Serial steps: pypyr.steps.cmd, pypyr.steps.shell *)
Inductive srun := RunStr (c : string) | RunList (l : list string).

(** expanded syntax {run, save, bytes} *)
Record smap := mkSmap { m_run : srun; m_save : bool; m_bytes : bool }.
Inductive sitem := IStr (c : string) | IMap (m : smap).
Inductive sconf := CfStr (c : string) | CfMap (m : smap) | CfList (l : list sitem).

(** pypyr.subproc.Command *)
Record scmd := mkScmd { sc_run : srun; sc_save : bool; sc_text : bool }.

Definition sync_create (m : smap) : scmd :=
  mkScmd (m_run m) (m_save m) (if m_save m then negb (m_bytes m) else false).

Definition sync_simple (c : string) : scmd := mkScmd (RunStr c) false false.

Definition sync_commands (cf : sconf) : list scmd :=
  match cf with
  | CfStr c => [sync_simple c]
  | CfMap m => [sync_create m]
  | CfList l => map (fun it => match it with IStr c => sync_simple c | IMap m => sync_create m end) l
  end.

Definition run_list (r : srun) : list string :=
  match r with RunStr c => [c] | RunList l => l end.

Section Serial.
  Variable orc : oracle.
  Variable shell : bool.

  Definition sync_args (c : string) : val :=
    if shell then VStr c else VList (map VStr (shlex_split c)).

  Definition sync_result (text : bool) (c : string) (rc : Z) (o e : string) : res1 :=
    R1 (sync_args c) rc
       (if text then VStr (rstrip o) else VBytes o)
       (if text then VStr (rstrip e) else VBytes e).

  (** [CalledProcessError] from [check_returncode] / [check=True]: raw, unstripped output
      when captured, [None] when not. *)
  Definition sync_error (save text : bool) (c : string) (rc : Z) (o e : string) : perr :=
    PErr "subprocess.CalledProcessError" (sync_args c) rc
         (if save then (if text then VStr o else VBytes o) else VNone)
         (if save then (if text then VStr e else VBytes e) else VNone).

  (** [Command._run]: results appended by this call, and the exception it raises. *)
  Definition run1 (k : scmd) (c : string) : list res1 * option perr :=
    match orc c with
    | SpawnFail n m => ([], Some (PExn n m))
    | Exited rc o e =>
        (if sc_save k then [sync_result (sc_text k) c rc o e] else [],
         if Z.eqb rc 0 then None else Some (sync_error (sc_save k) (sc_text k) c rc o e))
    end.

  (** [Command.run]: the run instructions in order, stopping at the first raise.
      Returns (spawned, results, raised). *)
  Fixpoint run_strs (k : scmd) (cs : list string) : list string * list res1 * option perr :=
    match cs with
    | [] => ([], [], None)
    | c :: r =>
        let '(rs, er) := run1 k c in
        match er with
        | Some e => ([c], rs, Some e)
        | None => let '(st, rs', er') := run_strs k r in (c :: st, rs ++ rs', er')
        end
    end.

  (** [CmdStep.run_step]: the commands in order; [results.extend(cmd.results)] in [finally]. *)
  Fixpoint run_cmds (ks : list scmd) : list string * list res1 * option perr :=
    match ks with
    | [] => ([], [], None)
    | k :: r =>
        let '(st, rs, er) := run_strs k (run_list (sc_run k)) in
        match er with
        | Some e => (st, rs, Some e)
        | None => let '(st', rs', er') := run_cmds r in (st ++ st', rs ++ rs', er')
        end
    end.

  (** the outer [finally]: nothing / the single object / the list *)
  Definition sync_cmdout (rs : list res1) : cmdout :=
    match rs with
    | [] => OutUnset
    | [r] => OutSingle r
    | _ => OutList (map EOne rs)
    end.

  Definition run_sync (cf : sconf) : obs :=
    let '(st, rs, er) := run_cmds (sync_commands cf) in
    mkObs st [] (match er with None => NoError | Some e => Raised e end) (sync_cmdout rs).
End Serial.

(** * Concurrent steps: pypyr.steps.cmds, pypyr.steps.shells *)
Inductive aentry := AOne (c : string) | ASer (l : list string).
Inductive arun := ARunStr (c : string) | ARunList (l : list aentry).
Record amap := mkAmap { am_run : arun; am_save : bool; am_bytes : bool }.
Inductive aitem := AIStr (c : string) | AISub (l : list string) | AIMap (m : amap).
Inductive aconf := ACfStr (c : string) | ACfMap (m : amap) | ACfList (l : list aitem).

(** pypyr.aio.subproc.Command *)
Record acmd := mkAcmd { ac_run : arun; ac_save : bool; ac_text : bool }.

Definition async_create (m : amap) : acmd :=
  mkAcmd (am_run m) (am_save m) (if am_save m then negb (am_bytes m) else false).

Definition async_simple (c : string) : acmd := mkAcmd (ARunStr c) false false.

(** a list item that is itself a list becomes [Command([item])]: ONE task running the
    sub-list serially *)
Definition async_sub (l : list string) : acmd := mkAcmd (ARunList [ASer l]) false false.

Definition async_commands (cf : aconf) : list acmd :=
  match cf with
  | ACfStr c => [async_simple c]
  | ACfMap m => [async_create m]
  | ACfList l => map (fun it => match it with
                                | AIStr c => async_simple c
                                | AISub s => async_sub s
                                | AIMap m => async_create m
                                end) l
  end.

(** The tasks of one Command: a str runs as the single awaited [_run]; a list is gathered,
    one task per item.  Either way one element of [_results] per entry. *)
Definition entries (k : acmd) : list aentry :=
  match ac_run k with ARunStr c => [AOne c] | ARunList l => l end.

Definition entry_cmds (e : aentry) : list string :=
  match e with AOne c => [c] | ASer l => l end.

(** A task's slot: owner's flags, what it has finished so far, what it is waiting on, what
    it would start next. *)
Record slot := mkSlot {
  sl_save : bool; sl_text : bool;
  sl_ser : bool;                         (* a serial sub-list (result is a list) *)
  sl_done : list (string * res1);        (* commands finished (or unspawnable), with results *)
  sl_cur : option string;                (* the process this task is awaiting *)
  sl_rest : list string }.               (* not started yet *)

Section Concurrent.
  Variable orc : oracle.
  Variable shell : bool.

  Definition async_args (c : string) : val :=
    if shell then VStr c else VList (map VStr (shlex_split c)).

  (** [_spawn] after [communicate()]: not saving -> nothing captured -> None; saving text ->
      decoded and stripped only when non-empty, the empty bytes object otherwise. *)
  Definition async_stream (save text : bool) (s : string) : val :=
    if save then
      (if text then (if String.eqb s "" then VBytes "" else VStr (rstrip s)) else VBytes s)
    else VNone.

  Definition async_result (save text : bool) (c : string) (rc : Z) (o e : string) : res1 :=
    R1 (async_args c) rc (async_stream save text o) (async_stream save text e).

  Definition finished (s : slot) (done : list (string * res1)) : slot :=
    mkSlot (sl_save s) (sl_text s) (sl_ser s) done None [].

  (** start the next command of the task, if any: a spawn failure is raised by
      [create_subprocess_*] at once, is caught, recorded and ends the task *)
  Definition begin (s : slot) (done : list (string * res1)) (cs : list string) : slot :=
    match cs with
    | [] => finished s done
    | c :: r =>
        match orc c with
        | SpawnFail n m => finished s (done ++ [(c, X1 n m)])
        | Exited _ _ _ => mkSlot (sl_save s) (sl_text s) (sl_ser s) done (Some c) r
        end
    end.

  (** the awaited process finishes: record the result; non-zero ends the sub-list *)
  Definition complete (s : slot) : slot :=
    match sl_cur s with
    | None => s
    | Some c =>
        match orc c with
        | Exited rc o e =>
            let done' := sl_done s ++ [(c, async_result (sl_save s) (sl_text s) c rc o e)] in
            if Z.eqb rc 0 then begin s done' (sl_rest s) else finished s done'
        | SpawnFail n m => finished s (sl_done s ++ [(c, X1 n m)])
        end
    end.

  Definition init_slot (k : acmd) (e : aentry) : slot :=
    let s0 := mkSlot (ac_save k) (ac_text k)
                     (match e with AOne _ => false | ASer _ => true end) [] None [] in
    begin s0 [] (entry_cmds e).

  (** every task of every Command is created before any is awaited: all heads start *)
  Definition init_slots (ks : list acmd) : list slot :=
    flat_map (fun k => map (init_slot k) (entries k)) ks.

  Definition is_running (s : slot) : bool :=
    match sl_cur s with Some _ => true | None => false end.

  Definition n_running (sls : list slot) : nat := List.length (filter is_running sls).

  (** complete the k-th running slot (declaration order) *)
  Fixpoint complete_nth (k : nat) (sls : list slot) : list slot :=
    match sls with
    | [] => []
    | s :: r =>
        if is_running s then
          match k with
          | O => complete s :: r
          | S k' => s :: complete_nth k' r
          end
        else s :: complete_nth k r
    end.

  Definition step (k : nat) (sls : list slot) : list slot :=
    match n_running sls with
    | O => sls
    | S _ => complete_nth (Nat.modulo k (n_running sls)) sls
    end.

  Fixpoint run_machine (fuel : nat) (sched : list nat) (sls : list slot) : list slot :=
    match fuel with
    | O => sls
    | S f =>
        match sched with
        | [] => run_machine f [] (step 0 sls)
        | k :: t => run_machine f t (step k sls)
        end
    end.

  Definition slot_work (s : slot) : nat :=
    match sl_cur s with Some _ => S (List.length (sl_rest s)) | None => O end.

  Definition total_work (sls : list slot) : nat :=
    fold_right (fun s n => (slot_work s + n)%nat) O sls.

  (** ** Aggregation, after [asyncio.run] returned *)
  Definition slot_started (s : slot) : list string :=
    map fst (sl_done s) ++ match sl_cur s with Some c => [c] | None => [] end.

  Definition slot_entry (s : slot) : rentry :=
    if sl_ser s then ESer (map snd (sl_done s))
    else match sl_done s with
         | (_, r) :: _ => EOne r
         | [] => ESer []          (* unreachable for finished slots of a non-empty entry *)
         end.

  (** [SubprocessResult.check_returncode] / exceptions, flattened by [_parse_result] *)
  Definition res_error (r : res1) : list perr :=
    match r with
    | R1 cmd rc o e =>
        if Z.eqb rc 0 then [] else [PErr "pypyr.errors.SubprocessError" cmd rc o e]
    | X1 n m => [PExn n m]
    end.

  Definition slot_errors (s : slot) : list perr :=
    flat_map (fun p => res_error (snd p)) (sl_done s).

  Definition collect_results (sls : list slot) : list rentry :=
    flat_map (fun s => if sl_save s then [slot_entry s] else []) sls.

  Definition collect_errors (sls : list slot) : list perr := flat_map slot_errors sls.

  Definition any_save (ks : list acmd) : bool := existsb ac_save ks.

  Definition async_cmdout (ks : list acmd) (sls : list slot) : cmdout :=
    if any_save ks then OutList (collect_results sls) else OutUnset.

  Definition async_raised (sls : list slot) : raised :=
    match collect_errors sls with [] => NoError | l => Multi l end.

  Definition run_async_cmds (sched : list nat) (ks : list acmd) : obs :=
    let s0 := init_slots ks in
    let sf := run_machine (total_work s0) sched s0 in
    mkObs (flat_map slot_started sf) (flat_map slot_started s0)
          (async_raised sf) (async_cmdout ks sf).

  Definition run_async (sched : list nat) (cf : aconf) : obs :=
    run_async_cmds sched (async_commands cf).
End Concurrent.

(** * Comparing with an observation of the implementation *)
Definition res1_eqb (a b : res1) : bool :=
  match a, b with
  | R1 c rc o e, R1 c' rc' o' e' => val_eqb c c' && Z.eqb rc rc' && val_eqb o o' && val_eqb e e'
  | X1 n m, X1 n' m' => String.eqb n n' && String.eqb m m'
  | _, _ => false
  end.

Definition rentry_eqb (a b : rentry) : bool :=
  match a, b with
  | EOne x, EOne y => res1_eqb x y
  | ESer x, ESer y => list_eqb res1_eqb x y
  | _, _ => false
  end.

Definition cmdout_eqb (a b : cmdout) : bool :=
  match a, b with
  | OutUnset, OutUnset => true
  | OutSingle x, OutSingle y => res1_eqb x y
  | OutList x, OutList y => list_eqb rentry_eqb x y
  | _, _ => false
  end.

Definition perr_eqb (a b : perr) : bool :=
  match a, b with
  | PErr k c rc o e, PErr k' c' rc' o' e' =>
      String.eqb k k' && val_eqb c c' && Z.eqb rc rc' && val_eqb o o' && val_eqb e e'
  | PExn n m, PExn n' m' => String.eqb n n' && String.eqb m m'
  | _, _ => false
  end.

Definition raised_eqb (a b : raised) : bool :=
  match a, b with
  | NoError, NoError => true
  | Raised x, Raised y => perr_eqb x y
  | Multi x, Multi y => list_eqb perr_eqb x y
  | _, _ => false
  end.

Definition obs_eqb (a b : obs) : bool :=
  list_eqb String.eqb (ob_started a) (ob_started b)
  && list_eqb String.eqb (ob_wave a) (ob_wave b)
  && raised_eqb (ob_err a) (ob_err b)
  && cmdout_eqb (ob_out a) (ob_out b).

Definition sconf_cmds (cf : sconf) : list string :=
  flat_map (fun k => run_list (sc_run k)) (sync_commands cf).

Definition aconf_cmds (cf : aconf) : list string :=
  flat_map (fun k => flat_map entry_cmds (entries k)) (async_commands cf).

(** In the modelled fragment: no quoting in any command line, no empty run list. *)
Definition sync_supported (cf : sconf) : bool :=
  forallb shlex_plain (sconf_cmds cf)
  && forallb (fun k => negb (is_nil (run_list (sc_run k)))) (sync_commands cf)
  && negb (is_nil (sync_commands cf)).

Definition async_supported (cf : aconf) : bool :=
  forallb shlex_plain (aconf_cmds cf)
  && forallb (fun k => negb (is_nil (entries k))) (async_commands cf)
  && negb (is_nil (async_commands cf)).

(** 0 agree / 1 disagree / 2 outside the model.  [wave_known] is false when the harness
    cannot see the first wave (real processes). *)
Definition check_sync (tbl : list (string * outcome)) (shell : bool) (cf : sconf) (o : obs) : nat :=
  if sync_supported cf
  then (if obs_eqb (run_sync (oracle_of tbl) shell cf) o then 0 else 1)%nat
  else 2%nat.

Definition check_async (tbl : list (string * outcome)) (shell : bool) (sched : list nat)
           (wave_known : bool) (cf : aconf) (o : obs) : nat :=
  if async_supported cf
  then
    let m := run_async (oracle_of tbl) shell sched cf in
    let m' := if wave_known then m else mkObs (ob_started m) [] (ob_err m) (ob_out m) in
    (if obs_eqb m' o then 0 else 1)%nat
  else 2%nat.

(** * Vocabulary of the definitions GENERATED from the source (Tie B: Gen/GenC17.v)

    tools/py2coq_c17.py translates pypyr.subproc.Command._run / run and CmdStep.run_step (and
    the sequential parts of pypyr.aio.subproc) statement by statement into terms over the
    combinators below: a state-and-exception monad whose state holds what those methods
    mutate.  Proofs/GenC17Proofs.v proves the generated terms equal to the functions above. *)

(** a [pypyr.subproc.Command] object (the attributes the translated methods read) *)
Record pycmd := mkPycmd { pc_cmd : srun; pc_is_shell : bool; pc_is_save : bool; pc_is_text : bool }.

(** [subprocess.CompletedProcess] *)
Record completed := mkCompleted { cp_args : val; cp_returncode : Z; cp_stdout : val; cp_stderr : val }.

Record gst := mkGst {
  g_trace : list (val * bool);     (* every spawn so far: (args, shell) as given to subprocess.run *)
  g_self : list res1;              (* [results] of the Command object being run *)
  g_local : list res1;             (* the local list [results] of CmdStep.run_step *)
  g_out : cmdout }.                (* context['cmdOut'] *)

Definition set_self (s : gst) (v : list res1) : gst := mkGst (g_trace s) v (g_local s) (g_out s).
Definition set_local (s : gst) (v : list res1) : gst := mkGst (g_trace s) (g_self s) v (g_out s).
Definition set_out (s : gst) (v : cmdout) : gst := mkGst (g_trace s) (g_self s) (g_local s) v.
Definition add_trace (s : gst) (a : val) (sh : bool) : gst :=
  mkGst (g_trace s ++ [(a, sh)]) (g_self s) (g_local s) (g_out s).

Inductive gout := GOk | GExc (e : perr).
Definition GR := (gout * gst)%type.
Inductive gval (A : Type) := GVal (a : A) | GRaise (e : perr).
Arguments GVal {A} a.
Arguments GRaise {A} e.

Definition andthen {S} (r : gout * S) (k : S -> gout * S) : gout * S :=
  match r with (GOk, s) => k s | (GExc e, s) => (GExc e, s) end.

Definition bindv {S A} (r : gval A * S) (k : A -> S -> gout * S) : gout * S :=
  match r with (GVal a, s) => k a s | (GRaise e, s) => (GExc e, s) end.

(** same, for a method that returns a value *)
Definition bindvv {S A B} (r : gval A * S) (k : A -> S -> gval B * S) : gval B * S :=
  match r with (GVal a, s) => k a s | (GRaise e, s) => (GRaise e, s) end.

Definition andthenv {S B} (r : gout * S) (k : S -> gval B * S) : gval B * S :=
  match r with (GOk, s) => k s | (GExc e, s) => (GRaise e, s) end.

(** [try: body finally: h] — the handler always runs; its own exception replaces the pending one *)
Definition finally_ {S} (r : gout * S) (h : S -> gout * S) : gout * S :=
  match r with
  | (o, s) => match h s with (GOk, s') => (o, s') | (GExc e, s') => (GExc e, s') end
  end.

(** [try: body except Exception as ex: h] *)
Definition catch_ {S} (r : gout * S) (h : perr -> S -> gout * S) : gout * S :=
  match r with (GOk, s) => (GOk, s) | (GExc e, s) => h e s end.

Fixpoint for_each {S A} (l : list A) (body : A -> S -> gout * S) (s : S) : gout * S :=
  match l with
  | [] => (GOk, s)
  | x :: r => andthen (body x s) (for_each r body)
  end.

(** a loop whose body ends in [if c: break]: the body returns whether to stop *)
Fixpoint for_each_until {S A} (l : list A) (body : A -> S -> gval bool * S) (s : S) : gout * S :=
  match l with
  | [] => (GOk, s)
  | x :: r =>
      match body x s with
      | (GVal true, s') => (GOk, s')
      | (GVal false, s') => for_each_until r body s'
      | (GRaise e, s') => (GExc e, s')
      end
  end.

Definition raise_new {S} (name : string) (s : S) : gout * S := (GExc (PExn name ""), s).

(** isinstance tests on the [cmd] attribute: a str is BOTH a SimpleCommandType and a Sequence
    (of its characters), a list only a Sequence *)
Definition is_simple (r : srun) : bool := match r with RunStr _ => true | RunList _ => false end.
Definition is_sequence (r : srun) : bool := true.
Definition as_str (r : srun) : string := match r with RunStr c => c | RunList _ => "" end.
Fixpoint str_chars (s : string) : list string :=
  match s with EmptyString => [] | String a r => String a EmptyString :: str_chars r end.
Definition seq_items (r : srun) : list string :=
  match r with RunStr c => str_chars c | RunList l => l end.

Definition val_rstrip (v : val) : val :=
  match v with VStr s => VStr (rstrip s) | VBytes s => VBytes (rstrip s) | _ => v end.

Definition first_res (l : list res1) : res1 :=
  match l with r :: _ => r | [] => X1 "builtins.IndexError" "list index out of range" end.

(** ** CPython's side of the calls, as the proofs instantiate the generated Section variables.
    [os args shell] is what the operating system does with an argv. *)
Definition py_subprocess_run (os : val -> bool -> outcome)
           (args : val) (capture check text shell : bool) (s : gst) : gval completed * gst :=
  let s' := add_trace s args shell in
  match os args shell with
  | SpawnFail n m => (GRaise (PExn n m), s')
  | Exited rc o e =>
      let so := if capture then (if text then VStr o else VBytes o) else VNone in
      let se := if capture then (if text then VStr e else VBytes e) else VNone in
      if check && negb (Z.eqb rc 0)
      then (GRaise (PErr "subprocess.CalledProcessError" args rc so se), s')
      else (GVal (mkCompleted args rc so se), s')
  end.

(** [CompletedProcess.check_returncode] *)
Definition py_check_returncode (cp : completed) (s : gst) : GR :=
  if Z.eqb (cp_returncode cp) 0 then (GOk, s)
  else (GExc (PErr "subprocess.CalledProcessError" (cp_args cp) (cp_returncode cp)
                   (cp_stdout cp) (cp_stderr cp)), s).

(** ** The asynchronous side (pypyr.aio.subproc, sequential parts only; the two gathers are
    the slot machine above and stay an assumption) *)

(** a spawned process: what [communicate()] will deliver and the exit status afterwards *)
Record proc := mkProc { pr_returncode : Z; pr_out : val; pr_err : val }.

(** a Command after [asyncio.run] returned, as Commands.run reads it *)
Record acmdo := mkAcmdo { ao_is_save : bool; ao_results : list rentry }.

Record ast_ := mkAst {
  a_trace : list (val * bool);     (* spawns: (command as given to create_subprocess_*, shell) *)
  a_local : list res1;             (* the local [results] of the serial sub-list loop *)
  a_ran : bool;                    (* asyncio.run(self._run()) has returned *)
  a_results : list rentry;         (* Commands._results *)
  a_errors : list perr;            (* the local [errors] of Commands.run *)
  a_out : cmdout }.                (* context['cmdOut'] *)

Definition aset_trace (s : ast_) (v : list (val * bool)) : ast_ :=
  mkAst v (a_local s) (a_ran s) (a_results s) (a_errors s) (a_out s).
Definition aset_local (s : ast_) (v : list res1) : ast_ :=
  mkAst (a_trace s) v (a_ran s) (a_results s) (a_errors s) (a_out s).
Definition aset_ran (s : ast_) (v : bool) : ast_ :=
  mkAst (a_trace s) (a_local s) v (a_results s) (a_errors s) (a_out s).
Definition aset_results (s : ast_) (v : list rentry) : ast_ :=
  mkAst (a_trace s) (a_local s) (a_ran s) v (a_errors s) (a_out s).
Definition aset_errors (s : ast_) (v : list perr) : ast_ :=
  mkAst (a_trace s) (a_local s) (a_ran s) (a_results s) v (a_out s).
Definition aset_out (s : ast_) (v : cmdout) : ast_ :=
  mkAst (a_trace s) (a_local s) (a_ran s) (a_results s) (a_errors s) v.

(** [cmd._results]: empty until the event loop has run the commands *)
Definition ao_results_now (s : ast_) (c : acmdo) : list rentry :=
  if a_ran s then ao_results c else [].

(** [raise MultiError(message, errs)]: the list handed to the aggregate error is kept in the state *)
Definition raise_multi (errs : list perr) (s : ast_) : gout * ast_ :=
  (GExc (PExn "pypyr.errors.MultiError" ""), aset_errors s errs).

(** accessors on result objects ([SubprocessResult] attributes; junk on exception objects) *)
Definition res_returncode (r : res1) : Z := match r with R1 _ rc _ _ => rc | X1 _ _ => 0%Z end.
Definition res_cmd (r : res1) : val := match r with R1 c _ _ _ => c | X1 _ _ => VNone end.
Definition res_stdout (r : res1) : val := match r with R1 _ _ o _ => o | X1 _ _ => VNone end.
Definition res_stderr (r : res1) : val := match r with R1 _ _ _ e => e | X1 _ _ => VNone end.
Definition res_of_exn (e : perr) : res1 :=
  match e with PExn n m => X1 n m | PErr k _ _ _ _ => X1 k "" end.
Definition exn_of_res (r : res1) : perr :=
  match r with X1 n m => PExn n m | R1 _ _ _ _ => PExn "" "" end.

(** isinstance on an element of [_results] *)
Definition rres_is_exn (r : rentry) : bool := match r with EOne (X1 _ _) => true | _ => false end.
Definition rres_is_result (r : rentry) : bool := match r with EOne (R1 _ _ _ _) => true | _ => false end.
Definition rres_is_list (r : rentry) : bool := match r with ESer _ => true | EOne _ => false end.
Definition rres_as_res (r : rentry) : res1 := match r with EOne x => x | ESer _ => X1 "" "" end.
Definition rres_as_exn (r : rentry) : perr := exn_of_res (rres_as_res r).
Definition rres_items (r : rentry) : list res1 := match r with ESer l => l | EOne _ => [] end.

(** the [cmd] argument of the async [_run]: a command line or a list of them *)
Definition aent_is_list (e : aentry) : bool := match e with ASer _ => true | AOne _ => false end.
Definition aent_items (e : aentry) : list string := match e with ASer l => l | AOne _ => [] end.
Definition aent_as_str (e : aentry) : string := match e with AOne c => c | ASer _ => "" end.

Definition perro_truth (o : option perr) : bool := match o with Some _ => true | None => false end.
Definition perro_get (o : option perr) : perr := match o with Some e => e | None => PExn "" "" end.

(** [bytes.decode(encoding)] on ASCII data *)
Definition val_decode (v : val) : val := match v with VBytes s => VStr s | _ => v end.

(** the unreachable final [else: raise TypeError] of an exhaustive isinstance chain in a generator *)
Definition dead_branch {A} : list A := [].

(** ** asyncio's side of the calls *)
Definition py_create_subprocess (os : val -> bool -> outcome)
           (args : val) (shell pipe_out pipe_err : bool) (s : ast_) : gval proc * ast_ :=
  let s' := aset_trace s (a_trace s ++ [(args, shell)]) in
  match os args shell with
  | SpawnFail n m => (GRaise (PExn n m), s')
  | Exited rc o e =>
      (GVal (mkProc rc (if pipe_out then VBytes o else VNone) (if pipe_err then VBytes e else VNone)), s')
  end.

Definition py_communicate (p : proc) (s : ast_) : gval (val * val) * ast_ :=
  (GVal (pr_out p, pr_err p), s).
