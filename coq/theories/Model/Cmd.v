(** Model/Cmd.v — placeholder, to be written. *)
