(** Model/Config.v — placeholder, to be written. *)
