(** Model/Config.v — pypyr/config.py [Config.__init__], [Config.init], [handle_path],
    [update], [load_yaml], [load_pyproject_toml] and the Linux branch of
    pypyr/platform.py ([Xdg.get_config_user], [Xdg.get_config_common]), as the code is.

    The file system is a total function from path text to file content; the content of a
    file is the value its parser returns (ruamel.yaml / tomllib are in the trusted base).
    Relative paths ("pyproject.toml", the local file name, a relative
    $PYPYR_CONFIG_GLOBAL) are looked up as they are: the file system is the view from the
    current working directory.  Base directories are assumed to be clean absolute paths
    (pathlib would normalise trailing or doubled separators).  The encoding with which a
    yaml file is decoded ([default_encoding], settable by a lower-precedence file) is not
    modelled: contents are taken to decode the same under every encoding in play. *)
From PV Require Export PyVal.
Open Scope string_scope.

(** * Attribute table of the scalar settings: string-keyed, fixed order *)
Definition smap := list (string * val).

Fixpoint sm_get (k : string) (m : smap) : option val :=
  match m with
  | [] => None
  | (k', v) :: r => if String.eqb k k' then Some v else sm_get k r
  end.

(** [setattr]: overwrite in place, append when new. *)
Fixpoint sm_set (k : string) (v : val) (m : smap) : smap :=
  match m with
  | [] => [(k, v)]
  | (k', v') :: r => if String.eqb k k' then (k', v) :: r else (k', v') :: sm_set k v r
  end.

(** [Config.scalar_props] = [all_writable_props - dict_props]. *)
Definition scalar_props : list string :=
  [ "json_ascii"; "json_indent"; "pipelines_subdir";
    "log_config"; "log_date_format"; "log_notify_format"; "log_detail_format";
    "default_backoff"; "default_cmd_encoding"; "default_encoding"; "default_loader";
    "default_group"; "default_success_group"; "default_failure_group";
    "no_cache" ].

(** [Config.dict_props]. *)
Definition dict_props : list string := [ "shortcuts"; "vars" ].

Definition is_known (k : val) : bool :=
  match k with
  | VStr s => str_in s scalar_props || str_in s dict_props
  | _ => false
  end.

(** * The Config object, as far as [init] touches it *)
Record config := mkConfig {
  c_scalars : smap;                              (* the 15 scalar attributes *)
  c_shortcuts : dict;
  c_vars : dict;
  c_loaded : list string;                        (* _config_loaded_paths, load order *)
  c_pyproject : option dict;                     (* _pyproject_toml *)
  c_skip_init : bool;                            (* _skip_init *)
  c_paths : option (string * list string)        (* _platform_paths: config_user, config_common *)
}.

Definition with_scalars (c : config) (s : smap) : config :=
  mkConfig s (c_shortcuts c) (c_vars c) (c_loaded c) (c_pyproject c) (c_skip_init c) (c_paths c).
Definition with_loaded (c : config) (p : string) : config :=
  mkConfig (c_scalars c) (c_shortcuts c) (c_vars c) (c_loaded c ++ [p]) (c_pyproject c)
           (c_skip_init c) (c_paths c).
Definition with_pyproject (c : config) (t : dict) : config :=
  mkConfig (c_scalars c) (c_shortcuts c) (c_vars c) (c_loaded c) (Some t) (c_skip_init c) (c_paths c).
Definition with_skip (c : config) : config :=
  mkConfig (c_scalars c) (c_shortcuts c) (c_vars c) (c_loaded c) (c_pyproject c) true (c_paths c).
Definition with_paths (c : config) (u : string) (cs : list string) : config :=
  mkConfig (c_scalars c) (c_shortcuts c) (c_vars c) (c_loaded c) (c_pyproject c) (c_skip_init c)
           (Some (u, cs)).

(** * Environment variables read by [Config.__init__], [Config.init] and [Xdg] *)
Record env := mkEnv {
  e_skip_init : option string;      (* PYPYR_SKIP_INIT *)
  e_global : option string;         (* PYPYR_CONFIG_GLOBAL *)
  e_local : option string;          (* PYPYR_CONFIG_LOCAL *)
  e_xdg_dirs : option string;       (* XDG_CONFIG_DIRS *)
  e_xdg_home : option string;       (* XDG_CONFIG_HOME *)
  e_home : string;                  (* HOME, for expanduser('~/.config') *)
  e_no_cache : option string;       (* PYPYR_NO_CACHE *)
  e_encoding : option string;       (* PYPYR_ENCODING *)
  e_cmd_encoding : option string    (* PYPYR_CMD_ENCODING *)
}.

Definition getenv (o : option string) (default : string) : string :=
  match o with Some s => s | None => default end.

(** [pypyr.utils.types.cast_str_to_bool]. *)
Definition cast_str_to_bool (s : string) : bool := str_in (lower s) ["true"; "1"; "1.0"].

Definition opt_str (o : option string) : val :=
  match o with Some s => VStr s | None => VNone end.

(** [Config.__init__]. *)
Definition defaults (e : env) : config :=
  mkConfig
    [ ("json_ascii", VBool false); ("json_indent", VInt 2); ("pipelines_subdir", VStr "pipelines");
      ("log_config", VNone); ("log_date_format", VStr "%Y-%m-%d %H:%M:%S");
      ("log_notify_format", VStr "%(message)s");
      ("log_detail_format", VStr "%(asctime)s %(levelname)s:%(name)s:%(funcName)s: %(message)s");
      ("default_backoff", VStr "fixed");
      ("default_cmd_encoding", opt_str (e_cmd_encoding e));
      ("default_encoding", opt_str (e_encoding e));
      ("default_loader", VStr "pypyr.loaders.file");
      ("default_group", VStr "steps");
      ("default_success_group", VStr "on_success");
      ("default_failure_group", VStr "on_failure");
      ("no_cache", VBool (cast_str_to_bool (getenv (e_no_cache e) "0"))) ]
    [] [] [] None false None.

(** * Platform paths (pypyr.platform.Xdg) *)
Definition is_space (c : ascii) : bool :=
  let n := nat_of_ascii c in
  Nat.eqb n 32 || (Nat.leb 9 n && Nat.leb n 13) || (Nat.leb 28 n && Nat.leb n 31).

(** [not s.strip()] *)
Fixpoint is_blank (s : string) : bool :=
  match s with
  | EmptyString => true
  | String c r => is_space c && is_blank r
  end.

(** [Path(base, 'pypyr', 'config.yaml')] for a clean base. *)
Definition cfg_file (base : string) : string := base ++ "/pypyr/config.yaml".

Definition user_path (e : env) : string :=
  let p := getenv (e_xdg_home e) "" in
  cfg_file (if is_blank p then e_home e ++ "/.config" else p).

Definition common_paths (e : env) : list string :=
  let p := getenv (e_xdg_dirs e) "" in
  let p := if is_blank p then "/etc/xdg" else p in
  map cfg_file (filter (fun d => negb (is_blank d)) (split_on ":"%char p "")).

Definition local_name (e : env) : string := getenv (e_local e) "pypyr-config.yaml".

(** [if env_config_path_str:] — set and non-empty. *)
Definition global_path (e : env) : option string :=
  match e_global e with
  | Some EmptyString => None
  | o => o
  end.

Definition skip_requested (e : env) : bool := cast_str_to_bool (getenv (e_skip_init e) "0").

(** * File system *)
Inductive fcontent := Absent | Content (v : val).
Definition fsys := string -> fcontent.

Fixpoint fs_of_list (l : list (string * val)) : fsys :=
  fun p => match l with
           | [] => Absent
           | (q, v) :: r => if String.eqb p q then Content v else fs_of_list r p
           end.

(** * Results *)
Inductive cerr :=
| EUnknownProps (keys : list val)   (* ConfigError: Unexpected config props: {...} *)
| ENotMapping (path : string)       (* ConfigError: Config file <path> should be a mapping ... *)
| ENotFound (path : string)         (* ConfigError: Could not open config file at <path>. *)
| EOther (name : string).           (* any other exception type escaping init *)

Definition is_config_error (e : cerr) : bool :=
  match e with EOther _ => false | _ => true end.

Inductive cres (A : Type) : Type :=
| COk (a : A)
| CErr (e : cerr)
| CUnsup.
Arguments COk {A} a.
Arguments CErr {A} e.
Arguments CUnsup {A}.

Definition cbind {A B} (r : cres A) (f : A -> cres B) : cres B :=
  match r with COk a => f a | CErr e => CErr e | CUnsup => CUnsup end.

(** * [Config.update] *)

(** Python [d.update(m)] for a mapping [m]: for every key of [m], [d[k] = m[k]]. *)
Definition map_update (d m : dict) : dict :=
  fold_left (fun acc k => match dict_get k m with
                          | Some v => dict_set k v acc
                          | None => acc
                          end) (dict_keys m) d.

(** [getattr(self, k).update(input[k])] for whatever value the file gave the key. *)
Definition update_dict_prop (cur : dict) (v : option val) : cres dict :=
  match v with
  | None => COk cur
  | Some (VDict m) => COk (map_update cur m)
  | Some (VList []) | Some (VTuple []) | Some (VStr EmptyString) => COk cur   (* empty iterable *)
  | Some VNone | Some (VBool _) | Some (VInt _) | Some (VFloat _) => CErr (EOther "TypeError")
  | Some _ => CUnsup      (* non-empty sequences / strings: pair-wise update or ValueError *)
  end.

(** [for k in scalars: setattr(self, k, input[k])] *)
Definition update_scalars (s : smap) (p : dict) : smap :=
  fold_left (fun acc name => match dict_get (VStr name) p with
                             | Some v => sm_set name v acc
                             | None => acc
                             end) scalar_props s.

Definition unknown_keys (p : dict) : list val :=
  filter (fun k => negb (is_known k)) (dict_keys p).

Definition update (c : config) (p : dict) : cres config :=
  match unknown_keys p with
  | _ :: _ => CErr (EUnknownProps (unknown_keys p))
  | [] =>
      match update_dict_prop (c_shortcuts c) (dict_get (VStr "shortcuts") p),
            update_dict_prop (c_vars c) (dict_get (VStr "vars") p) with
      | CUnsup, _ | _, CUnsup => CUnsup
      | CErr e, _ => CErr e
      | _, CErr e => CErr e
      | COk sh, COk vs =>
          COk (mkConfig (update_scalars (c_scalars c) p) sh vs (c_loaded c) (c_pyproject c)
                        (c_skip_init c) (c_paths c))
      end
  end.

(** * [Config.handle_path], after the payload is loaded *)
Definition is_mapping (v : val) : bool := match v with VDict _ => true | _ => false end.

Definition handle_payload (c : config) (path : string) (payload : val) : cres config :=
  match payload with
  | VNone => COk c                      (* file not found, or an empty document *)
  | VDict d =>
      if py_truth payload                (* an empty mapping is accepted, not merged, not listed *)
      then cbind (update c d) (fun c' => COk (with_loaded c' path))
      else COk c
  | _ => CErr (ENotMapping path)        (* anything else, falsy or not: [], 0, false, '' too *)
  end.

(** [Config.load_yaml] *)
Definition load_yaml (fs : fsys) (path : string) (raise_not_found : bool) : cres val :=
  match fs path with
  | Content v => COk v
  | Absent => if raise_not_found then CErr (ENotFound path) else COk VNone
  end.

Definition handle_yaml (fs : fsys) (c : config) (path : string) (raise_not_found : bool)
  : cres config :=
  cbind (load_yaml fs path raise_not_found) (handle_payload c path).

(** [Config.load_pyproject_toml] (never called with raise_error) *)
Definition load_pyproject (fs : fsys) (c : config) (path : string) : cres (config * val) :=
  match fs path with
  | Absent => COk (c, VNone)
  | Content (VDict toml) =>
      if is_nil toml then COk (c, VNone)
      else
        let c' := with_pyproject c toml in
        match dict_get (VStr "tool") toml with
        | None => COk (c', VNone)
        | Some tool =>
            if py_truth tool then
              match tool with
              | VDict t => COk (c', match dict_get (VStr "pypyr") t with
                                    | Some v => v
                                    | None => VNone
                                    end)
              | _ => CErr (EOther "AttributeError")
              end
            else COk (c', VNone)
        end
  | Content _ => CUnsup      (* a toml document is always a table *)
  end.

Definition handle_pyproject (fs : fsys) (c : config) (path : string) : cres config :=
  cbind (load_pyproject fs c path) (fun cv => handle_payload (fst cv) path (snd cv)).

(** the loop [for path in reversed(config_common): self.handle_path(path)] and its like *)
Fixpoint handle_yamls (fs : fsys) (c : config) (paths : list string) : cres config :=
  match paths with
  | [] => COk c
  | p :: r => cbind (handle_yaml fs c p false) (fun c' => handle_yamls fs c' r)
  end.

Definition pyproject_name : string := "pyproject.toml".

(** * [Config.init] *)
Definition init (e : env) (fs : fsys) (c : config) : cres config :=
  if skip_requested e then COk (with_skip c)
  else
    cbind
      (match global_path e with
       | Some g =>
           cbind (handle_yaml fs c g true) (fun c' => COk (with_paths c' g [g]))
       | None =>
           let c0 := with_paths c (user_path e) (common_paths e) in
           cbind (handle_yamls fs c0 (rev (common_paths e)))
                 (fun c1 => handle_yaml fs c1 (user_path e) false)
       end)
      (fun c2 =>
         cbind (handle_pyproject fs c2 pyproject_name)
               (fun c3 => handle_yaml fs c3 (local_name e) false)).

(** * Specification vocabulary (used by the theorems; written from the property text,
      not from [init]) *)

(** What a yaml file at [p] says: its top-level value; nothing when there is no file. *)
Definition payload_at (fs : fsys) (p : string) : val :=
  match fs p with Content v => v | Absent => VNone end.

(** The [tool.pypyr] entry of ./pyproject.toml; nothing when any level is missing. *)
Definition pyproject_payload (fs : fsys) : val :=
  match fs pyproject_name with
  | Content (VDict toml) =>
      match dict_get (VStr "tool") toml with
      | Some (VDict t) => match dict_get (VStr "pypyr") t with Some v => v | None => VNone end
      | _ => VNone
      end
  | _ => VNone
  end.

(** The consulted locations with what they say, HIGHEST precedence first:
    local file, pyproject [tool.pypyr], then either $PYPYR_CONFIG_GLOBAL alone, or the
    user file followed by the common directories in the order listed (last-listed lowest). *)
Definition precedence (e : env) (fs : fsys) : list (string * val) :=
  (local_name e, payload_at fs (local_name e)) ::
  (pyproject_name, pyproject_payload fs) ::
  match global_path e with
  | Some g => [(g, payload_at fs g)]
  | None => (user_path e, payload_at fs (user_path e)) ::
            map (fun p => (p, payload_at fs p)) (common_paths e)
  end.

(** the first (= highest-precedence) payload that has something to say *)
Fixpoint first_setting (says : val -> option val) (hi_to_lo : list val) : option val :=
  match hi_to_lo with
  | [] => None
  | v :: r => match says v with Some x => Some x | None => first_setting says r end
  end.

(** a file's top-level value for setting [k] *)
Definition file_sets (k : val) (payload : val) : option val :=
  match payload with VDict d => dict_get k d | _ => None end.

(** a file's value for key [k] inside its dict-valued setting [prop] (vars / shortcuts) *)
Definition file_sets_in (prop : string) (k : val) (payload : val) : option val :=
  match file_sets (VStr prop) payload with
  | Some (VDict m) => dict_get k m
  | _ => None
  end.

Definition or_else (o : option val) (d : option val) : option val :=
  match o with Some x => Some x | None => d end.

Definition setting (s : string) (c : config) : option val := sm_get s (c_scalars c).

(** What [config_loaded_paths] should list: the consulted positions, in load order, whose
    file is a non-empty mapping — one entry per POSITION, so a path consulted twice (a
    directory repeated in $XDG_CONFIG_DIRS, $XDG_CONFIG_HOME equal to a common directory)
    is loaded twice and listed twice. *)
Definition is_merged (v : val) : bool :=
  match v with VDict (_ :: _) => true | _ => false end.

Definition loaded_of (lo_to_hi : list (string * val)) : list string :=
  map fst (filter (fun pv => is_merged (snd pv)) lo_to_hi).

(** A payload every clause of the property accepts: no file / empty file, or a mapping
    whose keys are all known settings and whose vars / shortcuts, when given, are mappings. *)
Definition dict_prop_ok (o : option val) : bool :=
  match o with None => true | Some (VDict _) => true | Some _ => false end.

Definition payload_wellformed (v : val) : bool :=
  match v with
  | VNone => true
  | VDict d => is_nil (unknown_keys d)
               && dict_prop_ok (dict_get (VStr "shortcuts") d)
               && dict_prop_ok (dict_get (VStr "vars") d)
  | _ => false
  end.

(** ./pyproject.toml is absent, or a toml document whose [tool], when present, is a table. *)
Definition pyproject_wellformed (fs : fsys) : bool :=
  match fs pyproject_name with
  | Absent => true
  | Content (VDict toml) =>
      match dict_get (VStr "tool") toml with
      | None | Some (VDict _) => true
      | Some _ => false
      end
  | Content _ => false
  end.

(** * Comparison with an observation of the implementation *)
Fixpoint smap_eqb (a b : smap) : bool :=
  match a, b with
  | [], [] => true
  | (k, v) :: r, (k', v') :: r' => String.eqb k k' && val_eqb v v' && smap_eqb r r'
  | _, _ => false
  end.

Definition opt_eqb {A} (eqb : A -> A -> bool) (a b : option A) : bool :=
  match a, b with
  | None, None => true
  | Some x, Some y => eqb x y
  | _, _ => false
  end.

Definition paths_eqb (a b : string * list string) : bool :=
  String.eqb (fst a) (fst b) && list_eqb String.eqb (snd a) (snd b).

Definition config_eqb (a b : config) : bool :=
  smap_eqb (c_scalars a) (c_scalars b)
  && dict_eqb (c_shortcuts a) (c_shortcuts b)
  && dict_eqb (c_vars a) (c_vars b)
  && list_eqb String.eqb (c_loaded a) (c_loaded b)
  && opt_eqb dict_eqb (c_pyproject a) (c_pyproject b)
  && Bool.eqb (c_skip_init a) (c_skip_init b)
  && opt_eqb paths_eqb (c_paths a) (c_paths b).

Definition val_in (k : val) (l : list val) : bool := existsb (val_eqb k) l.
Definition same_set (a b : list val) : bool :=
  forallb (fun k => val_in k b) a && forallb (fun k => val_in k a) b.

(** the set in "Unexpected config props: {...}" prints in hash order: compared as a set *)
Definition cerr_eqb (a b : cerr) : bool :=
  match a, b with
  | EUnknownProps x, EUnknownProps y => same_set x y
  | ENotMapping p, ENotMapping q => String.eqb p q
  | ENotFound p, ENotFound q => String.eqb p q
  | EOther n, EOther m => String.eqb n m
  | _, _ => false
  end.

Definition check (model obs : cres config) : nat :=
  match model, obs with
  | CUnsup, _ => 2%nat
  | COk a, COk b => if config_eqb a b then 0%nat else 1%nat
  | CErr a, CErr b => if cerr_eqb a b then 0%nat else 1%nat
  | _, _ => 1%nat
  end.

(** the property lists of the implementation against the model's (sorted by the harness) *)
Definition props_check (scalars dicts : list string) : nat :=
  if forallb (fun s => str_in s scalars) scalar_props
     && forallb (fun s => str_in s scalar_props) scalars
     && forallb (fun s => str_in s dicts) dict_props
     && forallb (fun s => str_in s dict_props) dicts
  then 0%nat else 1%nat.

(** * Abbreviations for the case printer (harness/props/C20.py): plain names for the
      string literals that occur in every generated case, so that a shard of cases parses
      quickly.  Each is definitionally the literal. *)
Definition init_fresh (e : env) (fs : fsys) : cres config := init e fs (defaults e).

Definition k_json_ascii := "json_ascii".
Definition k_json_indent := "json_indent".
Definition k_pipelines_subdir := "pipelines_subdir".
Definition k_log_config := "log_config".
Definition k_log_date_format := "log_date_format".
Definition k_log_notify_format := "log_notify_format".
Definition k_log_detail_format := "log_detail_format".
Definition k_default_backoff := "default_backoff".
Definition k_default_cmd_encoding := "default_cmd_encoding".
Definition k_default_encoding := "default_encoding".
Definition k_default_loader := "default_loader".
Definition k_default_group := "default_group".
Definition k_default_success_group := "default_success_group".
Definition k_default_failure_group := "default_failure_group".
Definition k_no_cache := "no_cache".
Definition k_shortcuts := "shortcuts".
Definition k_vars := "vars".
Definition k_pipeline_name := "pipeline_name".
Definition k_args := "args".
Definition k_tool := "tool".
Definition k_pypyr := "pypyr".
Definition k_project := "project".
Definition d_pipelines := "pipelines".
Definition d_date := "%Y-%m-%d %H:%M:%S".
Definition d_notify := "%(message)s".
Definition d_detail := "%(asctime)s %(levelname)s:%(name)s:%(funcName)s: %(message)s".
Definition d_fixed := "fixed".
Definition d_loader := "pypyr.loaders.file".
Definition d_steps := "steps".
Definition d_on_success := "on_success".
Definition d_on_failure := "on_failure".
Definition p_home := "/SB/home".
Definition p_c1 := "/SB/c1/pypyr/config.yaml".
Definition p_c2 := "/SB/c2/pypyr/config.yaml".
Definition p_c3 := "/SB/c3/pypyr/config.yaml".
Definition p_u := "/SB/u/pypyr/config.yaml".
Definition p_hu := "/SB/home/.config/pypyr/config.yaml".
Definition p_etc := "/etc/xdg/pypyr/config.yaml".
Definition p_py := "pyproject.toml".
Definition p_loc := "pypyr-config.yaml".
Definition p_g := "/SB/g/global.yaml".
Definition p_grel := "glob.yaml".
Definition x_dirs12 := "/SB/c1:/SB/c2".
Definition x_dirs21 := "/SB/c2:/SB/c1".
Definition x_dirs132 := "/SB/c1:/SB/c3:/SB/c2".
Definition x_u := "/SB/u".
