(* Model/FormatSrc.v - placeholder: support definitions for the generated formatter *)
