(** Model/FormatSrc.v — the vocabulary the GENERATED formatter (Gen/GenC08.v, written by
    tools/py2coq_c08.py from the current pypyr/formatting.py) is expressed in, and the
    hand-written instances of the primitives the translator leaves abstract.

    Nothing here restates pypyr's logic: it is (1) Python data the source manipulates
    (RecursionSpec instances, the entries of the [result] list, the int-or-False
    [auto_arg_index]), (2) Python built-ins over the [val] universe (isinstance against the
    classes the source names, iteration, [obj.__class__(iterable)], [''.join], indexing,
    slicing, iterating the lazy [parse] generator), and (3) how CPython's [get_field] /
    [_vformat] and the special tags' [get_value] are instantiated by Model/Format.v. *)
From PV Require Export Format.
Open Scope string_scope.

(** * (1) data *)

(** a [RecursionSpec] instance: exactly the attributes [__init__] assigns *)
Record src_rspec := mk_src_rspec {
  rs_has_recursed : bool;
  rs_is_set : bool;
  rs_is_recursive : bool;
  rs_is_flat : bool;
  rs_format_spec : string }.

(** [x.attr = v] on an instance that nothing else refers to yet *)
Definition rs_set_has_recursed (b : bool) (r : src_rspec) : src_rspec :=
  mk_src_rspec b (rs_is_set r) (rs_is_recursive r) (rs_is_flat r) (rs_format_spec r).
Definition rs_set_is_set (b : bool) (r : src_rspec) : src_rspec :=
  mk_src_rspec (rs_has_recursed r) b (rs_is_recursive r) (rs_is_flat r) (rs_format_spec r).
Definition rs_set_is_recursive (b : bool) (r : src_rspec) : src_rspec :=
  mk_src_rspec (rs_has_recursed r) (rs_is_set r) b (rs_is_flat r) (rs_format_spec r).
Definition rs_set_is_flat (b : bool) (r : src_rspec) : src_rspec :=
  mk_src_rspec (rs_has_recursed r) (rs_is_set r) (rs_is_recursive r) b (rs_format_spec r).
Definition rs_set_format_spec (s : string) (r : src_rspec) : src_rspec :=
  mk_src_rspec (rs_has_recursed r) (rs_is_set r) (rs_is_recursive r) (rs_is_flat r) s.

(** an element of [_format_keep_type]'s [result] list: [(obj, is_literal, recursion_spec)];
    a literal text is the str object [VStr], its spec is [None] *)
Notation src_entry := (val * bool * option src_rspec)%type.

(** [auto_arg_index]: an int, or [False] once a numbered field was seen *)
Inductive autoidx := AutoOff | AutoAt (n : Z).

Definition auto_is_false (a : autoidx) : bool :=
  match a with AutoOff => true | AutoAt _ => false end.
Definition auto_truth (a : autoidx) : bool :=
  match a with AutoOff => false | AutoAt n => negb (Z.eqb n 0) end.
Definition auto_str (a : autoidx) : string :=
  match a with AutoOff => "False" | AutoAt n => str_of_Z n end.
Definition auto_add (a : autoidx) (k : Z) : autoidx :=     (* False + 1 = 1 *)
  match a with AutoOff => AutoAt k | AutoAt n => AutoAt (n + k) end.

(** * (2) built-ins *)

(** attribute access on something that may be [None] *)
Definition need_attr {A} (o : option A) (attr : string) : res A :=
  match o with
  | Some a => Ok a
  | None => Err "AttributeError" ("'NoneType' object has no attribute '" ++ attr ++ "'")
  end.

(** the classes (among those the translator knows by name) a value is an instance of;
    [Sequence] / [Mapping] / [Set] are the collections.abc registrations *)
Definition classes_of (v : val) : list string :=
  match v with
  | VNone => ["NoneType"]
  | VBool _ => ["bool"; "int"]
  | VInt _ => ["int"]
  | VFloat _ => ["float"]
  | VStr _ => ["str"; "Sequence"]
  | VBytes _ => ["bytes"; "Sequence"]
  | VList _ => ["list"; "Sequence"]
  | VTuple _ => ["tuple"; "Sequence"]
  | VSet _ => ["Set"]
  | VDict _ => ["dict"; "Mapping"]
  | VPy _ _ => ["PyString"; "SpecialTagDirective"]
  | VSic _ => ["SicString"; "SpecialTagDirective"]
  | VJsonify _ => ["Jsonify"; "SpecialTagDirective"]
  | VObj _ => []
  | VExn _ _ _ => ["BaseException"]
  end.

Definition isinst_val (v : val) (cls : string) : bool := str_in cls (classes_of v).

Fixpoint isinst_any (v : val) (classes : list string) : bool :=
  match classes with
  | [] => false
  | c :: r => isinst_val v c || isinst_any v r
  end.

(** [types and isinstance(v, types)] for an attribute that is None, a class or a tuple *)
Definition isinst_opt (v : val) (classes : option (list string)) : bool :=
  match classes with
  | Some cs => isinst_any v cs
  | None => false
  end.

(** passing an object where the callee needs a str *)
Definition as_str (v : val) : res string :=
  match v with VStr s => Ok s | _ => Unsup end.

Fixpoint str_take (n : nat) (s : string) : string :=      (* s[:n] *)
  match n, s with
  | S m, String c r => String c (str_take m r)
  | _, _ => EmptyString
  end.

Fixpoint str_drop (n : nat) (s : string) : string :=      (* s[n:] *)
  match n, s with
  | S m, String _ r => str_drop m r
  | _, _ => s
  end.

Definition list_get {A} (l : list A) (i : nat) : res A :=  (* l[i] *)
  match nth_error l i with
  | Some a => Ok a
  | None => Err "IndexError" "list index out of range"
  end.

(** [sep.join(items)]: items that are not str are outside the model *)
Fixpoint strs_of_vals (l : list val) : res (list string) :=
  match l with
  | [] => Ok []
  | VStr s :: r => let* rest := strs_of_vals r in Ok (s :: rest)
  | _ :: _ => Unsup
  end.

Definition str_join_vals (sep : string) (l : list val) : res string :=
  let* ss := strs_of_vals l in Ok (join sep ss).

(** [for x in obj] / [for k, v in obj.items()] *)
Definition py_iter (v : val) : res (list val) :=
  match v with
  | VList l | VTuple l | VSet l => Ok l
  | VDict l => Ok (map fst l)
  | _ => Unsup
  end.

Definition py_items (v : val) : res (list (val * val)) :=
  match v with VDict l => Ok l | _ => Unsup end.

(** [obj.__class__(iterable)] *)
Definition class_call_pairs (obj : val) (pairs : list (val * val)) : res val :=
  match obj with
  | VDict _ => Ok (VDict (rebuild_dict pairs))
  | _ => Unsup
  end.

Definition class_call_items (obj : val) (xs : list val) : res val :=
  match obj with
  | VList _ => Ok (VList xs)
  | VTuple _ => Ok (VTuple xs)
  | VSet _ => let* s := res_of_opt (set_of_list xs) in Ok (VSet s)
  | _ => Unsup
  end.

(** [for item in self.parse(s): body] — the generator is lazy: the items before a syntax
    error are processed, then the error is raised *)
Fixpoint for_items {S} (items : list item) (tl : ptail) (body : S -> item -> res S) (s : S)
  : res S :=
  match items with
  | [] => raise_tail tl (Ok s)
  | it :: r => let* s' := body s it in for_items r tl body s'
  end.

Definition for_parse {S} (p : list item * ptail) (body : S -> item -> res S) (s : S) : res S :=
  for_items (fst p) (snd p) body s.

(** how [Context] constructs and calls the formatter: [vformat(value, None, self)] *)
Record src_ambient := mk_src_ambient { amb_args_is_none : bool; amb_kwargs_is_context : bool }.

(** * (3) the primitives, instantiated by the hand model *)
Section Instances.
  Variable ctx : dict.

  (** [Formatter.get_field(name, None, context)] -> (obj, first) *)
  Definition src_get_field (name : string) : res (val * val) :=
    let* v := get_field ctx name in Ok (v, key_of_name (fst (split_first name))).

  (** [Formatter._vformat(spec, None, context, used, depth, auto_arg_index)]: with no
      positional arguments every auto-numbered or numbered field raises inside
      [get_field], so the index comes back as it went in; only the state before any
      such field is modelled *)
  Definition src_vformat (spec : string) (depth : Z) (a : autoidx) : res (string * autoidx) :=
    match a with
    | AutoAt 0%Z => let* s := vformat_std ctx (Z.to_nat (depth + 1)) spec in Ok (s, a)
    | _ => Unsup
    end.

  (** [PyString / SicString / Jsonify .get_value(context)] *)
  Definition src_special_value (rec : val -> bool -> res val) (v : val) : res val :=
    match v with
    | VPy src e => eval_pystring ctx src e
    | VSic s => Ok (VStr s)
    | VJsonify x =>
        let* y := rec x false in
        let* s := res_of_opt (json_dumps y) in Ok (VStr s)
    | _ => Unsup
    end.
End Instances.

(** the model's [rspec] / [entry] seen as the source's objects *)
Definition src_of_rspec (rs : rspec) (recursed : bool) : src_rspec :=
  mk_src_rspec recursed (r_recursive rs || r_flat rs) (r_recursive rs) (r_flat rs) (r_spec rs).

Definition enc_entry (e : entry) : src_entry :=
  match e with
  | ELit s => (VStr s, true, None)
  | EObj v rs recursed => (v, false, Some (src_of_rspec rs recursed))
  end.
