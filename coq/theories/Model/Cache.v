(** Model/Cache.v — placeholder, to be written. *)
