(** Model/Cache.v — pypyr/cache/cache.py [Cache.get] / [Cache.clear] as a transition
    system over an arbitrary scheduler, and the pipeline-cache key of
    [pypyr.cache.loadercache.Loader.get_pipeline] (a pair since commit 0c7650b).

    The instruction list is written by hand from the source; it is tied to /repo only by
    the correspondence run (harness/props/C13.py), which replays model schedules step for
    step on real threads and compares the event logs.

    {v
    def get(self, key, creator):                 pc
        if config.no_cache:                      P0          (IfNoCache)
            return creator()                     PNcEnter ; PNcExit ; PReturn | PRaise
        with self._lock:                         PAcquire    (blocked = no-op)
            if key in self._cache:               PIfContains
                obj = self._cache[key]           PLoad
            else:
                obj = creator()                  PCreateEnter ; PCreateExit
                self._cache[key] = obj           PStore
                                                 PRelease  (normal exit of the with block)
                                                 PReleaseExc (exit of the with block on an
                                                              exception; then PRaise)
        return obj                               PReturn

    def clear(self):
        with self._lock:                         P0          (Acquire; blocked = no-op)
            self._cache.clear()                  PClearAll
                                                 PCRelease ; PCReturn
    v}
    Assumed, not modelled: [threading.Lock] is a mutex (an acquire succeeds only when
    nobody holds it), each dict operation is atomic. *)
From PV Require Export PyStr.
From Coq Require Import Lia.
Open Scope string_scope.

Definition tid := nat.
Definition obj := Z.

(** * The pipeline cache key:  (f'{parent}' if parent else None, name)

    (since /repo commit 0c7650b; before that it was the string f'{parent}+{name}', on which
    ('/x','a+b') and ('/x+a','b') collided) *)

(** a request: (parent, name); [parent] is [None] or [Some (str parent)].  Python
    truthiness of a str parent is non-emptiness (a [Path] parent is always truthy and never
    renders as "").  Every other cache (steps, parsers, loaders, back-offs, namespaces,
    files) uses the name itself as key: that is a request with parent [None]. *)
Definition req := (option string * string)%type.

Definition truthy (p : option string) : bool :=
  match p with Some (String _ _) => true | _ => false end.

(** a key is the pair the code builds *)
Definition key := (option string * string)%type.

Definition pipeline_key (parent : option string) (name : string) : key :=
  (if truthy parent then parent else None, name).

Definition key_of (r : req) : key := pipeline_key (fst r) (snd r).

(** [None] and [""] are the same "no parent" to every consumer ([if parent:]); requests
    are compared modulo this normalisation. *)
Definition norm_req (r : req) : req := (if truthy (fst r) then fst r else None, snd r).

Definition req_eqb (a b : req) : bool :=
  andb (match fst a, fst b with
        | None, None => true
        | Some x, Some y => String.eqb x y
        | _, _ => false
        end) (String.eqb (snd a) (snd b)).
Definition key_eqb : key -> key -> bool := req_eqb.

(** * Programs, threads, shared state *)

Inductive op :=
| OGet (r : req) (ok : bool)   (* look-up of r; [ok]: what its creator does if invoked *)
| OClear.

Inductive pc :=
| P0 | PAcquire | PIfContains | PLoad | PCreateEnter | PCreateExit | PStore
| PRelease | PReturn | PReleaseExc | PRaise | PNcEnter | PNcExit
| PClearAll | PCRelease | PCReturn.

Record thread := mkTh { prog : list op; tpc : pc; reg : option obj }.

Inductive event :=
| EAcq (t : tid)
| ERel (t : tid)
| ECall (t : tid) (r : req)              (* creator entered *)
| ECreated (t : tid) (r : req) (o : obj) (* creator returned o *)
| EFailed (t : tid) (r : req)            (* creator raised *)
| ELoad (t : tid) (r : req) (o : obj)    (* obj = self._cache[key] *)
| EStore (t : tid) (r : req) (o : obj)   (* self._cache[key] = obj *)
| EClear (t : tid)                       (* self._cache.clear() *)
| ERet (t : tid) (r : req) (o : obj)     (* get returned o to its caller *)
| ERaise (t : tid) (r : req)             (* get propagated the creator's exception *)
| ECleared (t : tid).                    (* clear returned *)

Record state := mkSt {
  threads : tid -> thread;
  store : key -> option obj;
  lock : option tid;
  next : obj;               (* fresh-object counter *)
  nocache : bool;           (* config.no_cache *)
  log : list event          (* newest first *)
}.

Definition upd (f : tid -> thread) (t : tid) (th : thread) : tid -> thread :=
  fun t' => if Nat.eqb t' t then th else f t'.
Definition supd (s : key -> option obj) (k : key) (o : obj) : key -> option obj :=
  fun k' => if key_eqb k' k then Some o else s k'.
Definition sempty : key -> option obj := fun _ => None.

Definition goto (st : state) (t : tid) (th : thread) (p : pc) : tid -> thread :=
  upd (threads st) t (mkTh (prog th) p (reg th)).

(** one instruction of thread [t] *)
Definition step (t : tid) (st : state) : state :=
  let th := threads st t in
  match prog th with
  | [] => st
  | OGet r ok :: rest =>
      let k := key_of r in
      match tpc th with
      | P0 =>
          mkSt (goto st t th (if nocache st then PNcEnter else PAcquire))
               (store st) (lock st) (next st) (nocache st) (log st)
      | PAcquire =>
          match lock st with
          | None => mkSt (goto st t th PIfContains) (store st) (Some t) (next st)
                         (nocache st) (EAcq t :: log st)
          | Some _ => st
          end
      | PIfContains =>
          mkSt (goto st t th (match store st k with Some _ => PLoad | None => PCreateEnter end))
               (store st) (lock st) (next st) (nocache st) (log st)
      | PLoad =>
          match store st k with
          | Some o => mkSt (upd (threads st) t (mkTh (prog th) PRelease (Some o)))
                           (store st) (lock st) (next st) (nocache st)
                           (ELoad t r o :: log st)
          | None => (* KeyError inside the with block *)
                    mkSt (goto st t th PReleaseExc)
                         (store st) (lock st) (next st) (nocache st) (log st)
          end
      | PCreateEnter =>
          mkSt (goto st t th PCreateExit) (store st) (lock st) (next st) (nocache st)
               (ECall t r :: log st)
      | PCreateExit =>
          if ok then
            mkSt (upd (threads st) t (mkTh (prog th) PStore (Some (next st))))
                 (store st) (lock st) (next st + 1)%Z (nocache st)
                 (ECreated t r (next st) :: log st)
          else
            mkSt (goto st t th PReleaseExc) (store st) (lock st) (next st) (nocache st)
                 (EFailed t r :: log st)
      | PStore =>
          match reg th with
          | Some o => mkSt (goto st t th PRelease) (supd (store st) k o) (lock st) (next st)
                           (nocache st) (EStore t r o :: log st)
          | None => st
          end
      | PRelease =>
          mkSt (goto st t th PReturn) (store st) None (next st) (nocache st)
               (ERel t :: log st)
      | PReturn =>
          match reg th with
          | Some o => mkSt (upd (threads st) t (mkTh rest P0 None))
                           (store st) (lock st) (next st) (nocache st)
                           (ERet t r o :: log st)
          | None => st
          end
      | PReleaseExc =>
          mkSt (goto st t th PRaise) (store st) None (next st) (nocache st)
               (ERel t :: log st)
      | PRaise =>
          mkSt (upd (threads st) t (mkTh rest P0 None))
               (store st) (lock st) (next st) (nocache st) (ERaise t r :: log st)
      | PNcEnter =>
          mkSt (goto st t th PNcExit) (store st) (lock st) (next st) (nocache st)
               (ECall t r :: log st)
      | PNcExit =>
          if ok then
            mkSt (upd (threads st) t (mkTh (prog th) PReturn (Some (next st))))
                 (store st) (lock st) (next st + 1)%Z (nocache st)
                 (ECreated t r (next st) :: log st)
          else
            mkSt (goto st t th PRaise) (store st) (lock st) (next st) (nocache st)
                 (EFailed t r :: log st)
      | _ => st
      end
  | OClear :: rest =>
      match tpc th with
      | P0 =>
          match lock st with
          | None => mkSt (goto st t th PClearAll) (store st) (Some t) (next st)
                         (nocache st) (EAcq t :: log st)
          | Some _ => st
          end
      | PClearAll =>
          mkSt (goto st t th PCRelease) sempty (lock st) (next st) (nocache st)
               (EClear t :: log st)
      | PCRelease =>
          mkSt (goto st t th PCReturn) (store st) None (next st) (nocache st)
               (ERel t :: log st)
      | PCReturn =>
          mkSt (upd (threads st) t (mkTh rest P0 None))
               (store st) (lock st) (next st) (nocache st) (ECleared t :: log st)
      | _ => st
      end
  end.

(** the scheduler: ANY list of thread ids *)
Fixpoint run (sched : list tid) (st : state) : state :=
  match sched with
  | [] => st
  | t :: rest => run rest (step t st)
  end.

Definition init (nc : bool) (progs : list (list op)) : state :=
  mkSt (fun t => mkTh (nth t progs []) P0 None) sempty None 0%Z nc [].

(** * Log queries used by the theorems *)

Definition is_clear (e : event) : bool := match e with EClear _ => true | _ => false end.

(** events since the last [self._cache.clear()] (the current epoch) *)
Fixpoint since_clear (l : list event) : list event :=
  match l with
  | [] => []
  | e :: r => if is_clear e then [] else e :: since_clear r
  end.

(** objects successfully created for key [k] *)
Fixpoint created_for (k : key) (l : list event) : list obj :=
  match l with
  | [] => []
  | ECreated _ r o :: rest =>
      if key_eqb (key_of r) k then o :: created_for k rest else created_for k rest
  | _ :: rest => created_for k rest
  end.

(** objects handed out under the lock for key [k] (loaded or just stored) *)
Fixpoint got_for (k : key) (l : list event) : list obj :=
  match l with
  | [] => []
  | ELoad _ r o :: rest | EStore _ r o :: rest =>
      if key_eqb (key_of r) k then o :: got_for k rest else got_for k rest
  | _ :: rest => got_for k rest
  end.

Fixpoint all_created (l : list event) : list obj :=
  match l with
  | [] => []
  | ECreated _ _ o :: rest => o :: all_created rest
  | _ :: rest => all_created rest
  end.

Fixpoint calls_by (t : tid) (l : list event) : nat :=
  match l with
  | [] => 0
  | ECall t' _ :: rest => (if Nat.eqb t' t then 1 else 0) + calls_by t rest
  | _ :: rest => calls_by t rest
  end.

(** completed look-ups (returned or raised) of thread t *)
Fixpoint finished_by (t : tid) (l : list event) : nat :=
  match l with
  | [] => 0
  | ERet t' _ _ :: rest | ERaise t' _ :: rest =>
      (if Nat.eqb t' t then 1 else 0) + finished_by t rest
  | _ :: rest => finished_by t rest
  end.

(** a thread holds the lock exactly at these program points *)
Definition holds (th : thread) : bool :=
  match prog th with
  | [] => false
  | OGet _ _ :: _ =>
      match tpc th with
      | PIfContains | PLoad | PCreateEnter | PCreateExit | PStore | PRelease
      | PReleaseExc => true
      | _ => false
      end
  | OClear :: _ =>
      match tpc th with PClearAll | PCRelease => true | _ => false end
  end.

(** thread is inside the (locked) creator call for key k *)
Definition creating (th : thread) (k : key) : bool :=
  match prog th with
  | OGet r _ :: _ =>
      match tpc th with
      | PCreateEnter | PCreateExit => key_eqb (key_of r) k
      | _ => false
      end
  | _ => false
  end.

Definition op_ok (okf : key -> bool) (o : op) : bool :=
  match o with OGet r ok => Bool.eqb ok (okf (key_of r)) | OClear => true end.

(** * Correspondence: event equality and the check terms the harness evaluates *)

Definition opt_str_eqb (a b : option string) : bool :=
  match a, b with
  | None, None => true
  | Some x, Some y => String.eqb x y
  | _, _ => false
  end.

Definition event_eqb (a b : event) : bool :=
  match a, b with
  | EAcq t, EAcq u | ERel t, ERel u | EClear t, EClear u | ECleared t, ECleared u => Nat.eqb t u
  | ECall t r, ECall u s | EFailed t r, EFailed u s | ERaise t r, ERaise u s =>
      andb (Nat.eqb t u) (req_eqb r s)
  | ECreated t r o, ECreated u s p | ELoad t r o, ELoad u s p | EStore t r o, EStore u s p
  | ERet t r o, ERet u s p =>
      andb (Nat.eqb t u) (andb (req_eqb r s) (Z.eqb o p))
  | _, _ => false
  end.

Fixpoint events_eqb (a b : list event) : bool :=
  match a, b with
  | [], [] => true
  | x :: a', y :: b' => andb (event_eqb x y) (events_eqb a' b')
  | _, _ => false
  end.

(** what is visible without instrumenting lock and dict (sequential histories on the
    real Cache subclasses): creator calls and results *)
Definition op_level (e : event) : bool :=
  match e with
  | ECall _ _ | ECreated _ _ _ | EFailed _ _ | ERet _ _ _ | ERaise _ _ | ECleared _ => true
  | _ => false
  end.

Definition model_log (nc : bool) (progs : list (list op)) (sched : list tid) : list event :=
  rev (log (run sched (init nc progs))).

(** 0 = the implementation's event log (oldest first) is the model's *)
Definition check_full (nc : bool) (progs : list (list op)) (sched : list tid)
           (observed : list event) : nat :=
  if events_eqb (model_log nc progs sched) observed then 0 else 1.

Definition check_ops (nc : bool) (progs : list (list op)) (sched : list tid)
           (observed : list event) : nat :=
  if events_eqb (filter op_level (model_log nc progs sched)) observed then 0 else 1.

(** * pypyr.moduleloader.add_sys_path — the same check-then-act-under-a-lock shape

    {v
    def add_sys_path(path):                          pc
        if path in _known_dirs: return               A0
        path_obj = ...
        if not path_obj.exists():
            _known_dirs.add(path); return            (A0 ->) AKnown
        path_str = str(path_obj)
        with _sys_path_lock:                         AAcquire (blocked = no-op)
            if path_str not in sys.path:             ACheck
                sys.path.append(path_str)            AAppend
                                                     ARelease
        _known_dirs.add(path)                        AKnown
    v}
    [sys.path] = [base ++ added]; [base] is whatever it held before. *)
Inductive apc := A0 | AAcquire | ACheck | AAppend | ARelease | AKnown.
Definition aop := (string * bool)%type.   (* path, path exists on disk *)
Record athread := mkATh { aprog : list aop; apcv : apc }.
Inductive aevent :=
| AEAcq (t : tid) | AERel (t : tid) | AEAppend (t : tid) (p : string) | AEKnown (t : tid) (p : string).

Record astate := mkASt {
  athreads : tid -> athread;
  base : list string;
  added : list string;
  known : list string;
  alock : option tid;
  alog : list aevent
}.

Definition aupd (f : tid -> athread) (t : tid) (th : athread) : tid -> athread :=
  fun t' => if Nat.eqb t' t then th else f t'.

Definition astep (t : tid) (st : astate) : astate :=
  let th := athreads st t in
  match aprog th with
  | [] => st
  | (p, ex) :: rest =>
      let goto pc' := aupd (athreads st) t (mkATh (aprog th) pc') in
      match apcv th with
      | A0 =>
          if str_in p (known st)
          then mkASt (aupd (athreads st) t (mkATh rest A0)) (base st) (added st) (known st)
                     (alock st) (alog st)
          else mkASt (goto (if ex then AAcquire else AKnown)) (base st) (added st) (known st)
                     (alock st) (alog st)
      | AAcquire =>
          match alock st with
          | None => mkASt (goto ACheck) (base st) (added st) (known st) (Some t)
                          (AEAcq t :: alog st)
          | Some _ => st
          end
      | ACheck =>
          mkASt (goto (if str_in p (base st ++ added st) then ARelease else AAppend))
                (base st) (added st) (known st) (alock st) (alog st)
      | AAppend =>
          mkASt (goto ARelease) (base st) (added st ++ [p]) (known st) (alock st)
                (AEAppend t p :: alog st)
      | ARelease =>
          mkASt (goto AKnown) (base st) (added st) (known st) None (AERel t :: alog st)
      | AKnown =>
          mkASt (aupd (athreads st) t (mkATh rest A0)) (base st) (added st) (p :: known st)
                (alock st) (AEKnown t p :: alog st)
      end
  end.

Fixpoint arun (sched : list tid) (st : astate) : astate :=
  match sched with
  | [] => st
  | t :: rest => arun rest (astep t st)
  end.

Definition ainit (sp0 : list string) (progs : list (list aop)) : astate :=
  mkASt (fun t => mkATh (nth t progs []) A0) sp0 [] [] None [].

Definition aholds (th : athread) : bool :=
  match aprog th with
  | [] => false
  | _ :: _ => match apcv th with ACheck | AAppend | ARelease => true | _ => false end
  end.

Definition aevent_eqb (a b : aevent) : bool :=
  match a, b with
  | AEAcq t, AEAcq u | AERel t, AERel u => Nat.eqb t u
  | AEAppend t p, AEAppend u q | AEKnown t p, AEKnown u q => andb (Nat.eqb t u) (String.eqb p q)
  | _, _ => false
  end.

Fixpoint aevents_eqb (a b : list aevent) : bool :=
  match a, b with
  | [], [] => true
  | x :: a', y :: b' => andb (aevent_eqb x y) (aevents_eqb a' b')
  | _, _ => false
  end.

Fixpoint strs_eqb (a b : list string) : bool :=
  match a, b with
  | [], [] => true
  | x :: a', y :: b' => andb (String.eqb x y) (strs_eqb a' b')
  | _, _ => false
  end.

(** 0 = event log and the entries appended to sys.path agree *)
Definition check_asp (sp0 : list string) (progs : list (list aop)) (sched : list tid)
           (observed : list aevent) (appended : list string) : nat :=
  let st := arun sched (ainit sp0 progs) in
  if andb (aevents_eqb (rev (alog st)) observed) (strs_eqb (added st) appended) then 0 else 1.

(** * Tie B: a machine that runs the control-flow graph of the CURRENT source

    tools/py2coq_c13.py compiles the bodies of [Cache.get] and [Cache.clear] (as found in
    the repository at build time) into a table of the micro-instructions below — one node
    per point at which another thread can be scheduled, successors explicit, the [with]
    statement's release on the normal and on the exceptional exit made explicit — and
    writes the tables to Gen/GenC13.v.  [nstep] is what one instruction does; program
    counters are indices into the table.  Proofs/GenC13Proofs.v shows that this machine,
    on the generated tables, is the hand-written [step] above, for all states. *)
Inductive instr :=
| IIfNoCache (yes no : nat)        (* if config.no_cache *)
| IAcquire (next : nat)            (* with self._lock: enter (blocks while held) *)
| IIfContains (yes no : nat)       (* if key in self._cache *)
| ILoad (next exc : nat)           (* obj = self._cache[key]   (KeyError -> exc) *)
| ICallEnter (next : nat)          (* creator() is entered *)
| ICallExit (next exc : nat)       (* obj = its result | it raises *)
| IStore (next : nat)              (* self._cache[key] = obj *)
| IClearAll (next : nat)           (* self._cache.clear() *)
| IRelease (next : nat)            (* with self._lock: exit *)
| IReturnObj                       (* return obj *)
| IReturnNone                      (* fall off the end *)
| IRaise                           (* the exception leaves the function *)
| IHalt.

Record nthread := mkNTh { nprog : list op; npc : nat; nreg : option obj }.

Record nstate := mkNSt {
  nthreads : tid -> nthread;
  nstore : key -> option obj;
  nlock : option tid;
  nnext : obj;
  nnocache : bool;
  nlog : list event
}.

Definition nupd (f : tid -> nthread) (t : tid) (th : nthread) : tid -> nthread :=
  fun t' => if Nat.eqb t' t then th else f t'.

Definition nstep (getc clearc : list instr) (t : tid) (st : nstate) : nstate :=
  let th := nthreads st t in
  match nprog th with
  | [] => st
  | o :: rest =>
      let code := match o with OGet _ _ => getc | OClear => clearc end in
      let goto n := nupd (nthreads st) t (mkNTh (nprog th) n (nreg th)) in
      let finish := nupd (nthreads st) t (mkNTh rest 0 None) in
      match nth (npc th) code IHalt, o with
      | IIfNoCache y n, OGet _ _ =>
          mkNSt (goto (if nnocache st then y else n))
                (nstore st) (nlock st) (nnext st) (nnocache st) (nlog st)
      | IAcquire n, _ =>
          match nlock st with
          | None => mkNSt (goto n) (nstore st) (Some t) (nnext st) (nnocache st)
                          (EAcq t :: nlog st)
          | Some _ => st
          end
      | IIfContains y n, OGet r _ =>
          mkNSt (goto (match nstore st (key_of r) with Some _ => y | None => n end))
                (nstore st) (nlock st) (nnext st) (nnocache st) (nlog st)
      | ILoad n e, OGet r _ =>
          match nstore st (key_of r) with
          | Some ob => mkNSt (nupd (nthreads st) t (mkNTh (nprog th) n (Some ob)))
                             (nstore st) (nlock st) (nnext st) (nnocache st)
                             (ELoad t r ob :: nlog st)
          | None => mkNSt (goto e) (nstore st) (nlock st) (nnext st) (nnocache st) (nlog st)
          end
      | ICallEnter n, OGet r _ =>
          mkNSt (goto n) (nstore st) (nlock st) (nnext st) (nnocache st) (ECall t r :: nlog st)
      | ICallExit n e, OGet r ok =>
          if ok then
            mkNSt (nupd (nthreads st) t (mkNTh (nprog th) n (Some (nnext st))))
                  (nstore st) (nlock st) (nnext st + 1)%Z (nnocache st)
                  (ECreated t r (nnext st) :: nlog st)
          else
            mkNSt (goto e) (nstore st) (nlock st) (nnext st) (nnocache st)
                  (EFailed t r :: nlog st)
      | IStore n, OGet r _ =>
          match nreg th with
          | Some ob => mkNSt (goto n) (supd (nstore st) (key_of r) ob) (nlock st) (nnext st)
                             (nnocache st) (EStore t r ob :: nlog st)
          | None => st
          end
      | IClearAll n, _ =>
          mkNSt (goto n) sempty (nlock st) (nnext st) (nnocache st) (EClear t :: nlog st)
      | IRelease n, _ =>
          mkNSt (goto n) (nstore st) None (nnext st) (nnocache st) (ERel t :: nlog st)
      | IReturnObj, OGet r _ =>
          match nreg th with
          | Some ob => mkNSt finish (nstore st) (nlock st) (nnext st) (nnocache st)
                             (ERet t r ob :: nlog st)
          | None => st
          end
      | IReturnNone, OClear =>
          mkNSt finish (nstore st) (nlock st) (nnext st) (nnocache st) (ECleared t :: nlog st)
      | IRaise, OGet r _ =>
          mkNSt finish (nstore st) (nlock st) (nnext st) (nnocache st) (ERaise t r :: nlog st)
      | _, _ => st
      end
  end.

Fixpoint nrun (getc clearc : list instr) (sched : list tid) (st : nstate) : nstate :=
  match sched with
  | [] => st
  | t :: rest => nrun getc clearc rest (nstep getc clearc t st)
  end.

Definition ninit (nc : bool) (progs : list (list op)) : nstate :=
  mkNSt (fun t => mkNTh (nth t progs []) 0 None) sempty None 0%Z nc [].
