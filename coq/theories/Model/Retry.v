(** Model/Retry.v — placeholder, to be written. *)
