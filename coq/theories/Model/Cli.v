(** Model/Cli.v — placeholder, to be written. *)
