(** Model/Cli.v — the command line front end and the argument-to-context path.

      pypyr.cli.get_parser / get_args     -> [parse_argv]   (the argparse *configuration*
                                             of pypyr, for the documented call shapes)
      pypyr.cli.main                      -> [cli_main]     (try / except ladder, exit codes)
      sys.exit(main()) in __main__        -> [process_status]
      pypyr.pipelinerunner.run            -> [api_first_step_context] (context construction)
      Pipeline._get_parse_input           -> [get_parse_input]
      Pipeline._prepare_context
        + Pipeline._get_parsed_context    -> [prepare_context]

    argparse itself is standard library.  [parse_argv] models what pypyr's parser definition
    does with token lists of these shapes, and answers [Unsup] for everything else:
      - tokens not starting with '-' are positional; the first run of positionals is
        pipeline_name followed by context_args (nargs='*');
      - the exact long options --groups (nargs='*'), --success, --failure, --dir, --logpath
        (one value each), --log / --loglevel (one decimal value);
      - a single "--" after which every token is positional (options first, "--", then the
        pipeline name and context arguments).
    Abbreviated options, --opt=value, tokens starting with '-' that are not one of the exact
    option names, and positionals split in several runs are outside the model. *)
From PV Require Export Parsers.
Open Scope string_scope.

(** * argv *)
Record cli_args := mk_cli_args {
  a_name : string;
  a_ctx : list string;                (* context_args: a list, [] when none were given *)
  a_groups : option (list string);
  a_success : option string;
  a_failure : option string;
  a_dir : option string;              (* None = default config.cwd *)
  a_log : option Z;
  a_logpath : option string
}.

Inductive optname := OSuccess | OFailure | ODir | OLog | OLogPath.

Inductive mode :=
| MTop               (* between things *)
| MGroups            (* collecting the values of --groups *)
| MPos               (* inside the (first) run of positionals *)
| MVal (o : optname) (* the next token is the value of [o] *)
| MRest.             (* after "--": everything is positional *)

Record pstate := mk_pstate {
  p_mode : mode;
  p_seen : bool;                (* a run of positionals has started *)
  p_pos : list string;
  p_groups : option (list string);
  p_success : option string;
  p_failure : option string;
  p_dir : option string;
  p_log : option Z;
  p_logpath : option string
}.

Definition pstate0 : pstate := mk_pstate MTop false [] None None None None None None.

Definition is_flag (s : string) : bool := String.prefix "-" s.

Definition with_mode (m : mode) (st : pstate) : pstate :=
  mk_pstate m (p_seen st) (p_pos st) (p_groups st) (p_success st) (p_failure st)
            (p_dir st) (p_log st) (p_logpath st).

Definition push_pos (tok : string) (st : pstate) : pstate :=
  mk_pstate (p_mode st) true (p_pos st ++ [tok])%list (p_groups st) (p_success st)
            (p_failure st) (p_dir st) (p_log st) (p_logpath st).

Definition set_groups (g : option (list string)) (st : pstate) : pstate :=
  mk_pstate (p_mode st) (p_seen st) (p_pos st) g (p_success st) (p_failure st)
            (p_dir st) (p_log st) (p_logpath st).

Definition push_group (tok : string) (st : pstate) : pstate :=
  set_groups (Some (match p_groups st with Some g => g ++ [tok] | None => [tok] end)%list) st.

(** type=int for --log: decimal digits only (signs, blanks and underscores are outside). *)
Definition parse_int (s : string) : option Z :=
  if isdigit s then Some (digits_to_Z s 0) else None.

Definition set_opt (o : optname) (tok : string) (st : pstate) : res pstate :=
  let st := with_mode MTop st in
  match o with
  | OSuccess => Ok (mk_pstate (p_mode st) (p_seen st) (p_pos st) (p_groups st) (Some tok)
                              (p_failure st) (p_dir st) (p_log st) (p_logpath st))
  | OFailure => Ok (mk_pstate (p_mode st) (p_seen st) (p_pos st) (p_groups st) (p_success st)
                              (Some tok) (p_dir st) (p_log st) (p_logpath st))
  | ODir => Ok (mk_pstate (p_mode st) (p_seen st) (p_pos st) (p_groups st) (p_success st)
                          (p_failure st) (Some tok) (p_log st) (p_logpath st))
  | OLog => match parse_int tok with
            | Some z => Ok (mk_pstate (p_mode st) (p_seen st) (p_pos st) (p_groups st)
                                      (p_success st) (p_failure st) (p_dir st) (Some z)
                                      (p_logpath st))
            | None => Unsup
            end
  | OLogPath => Ok (mk_pstate (p_mode st) (p_seen st) (p_pos st) (p_groups st) (p_success st)
                              (p_failure st) (p_dir st) (p_log st) (Some tok))
  end.

Definition opt_of (tok : string) : option optname :=
  if String.eqb tok "--success" then Some OSuccess
  else if String.eqb tok "--failure" then Some OFailure
  else if String.eqb tok "--dir" then Some ODir
  else if String.eqb tok "--log" then Some OLog
  else if String.eqb tok "--loglevel" then Some OLog
  else if String.eqb tok "--logpath" then Some OLogPath
  else None.

(** One token. *)
Definition step (st : pstate) (tok : string) : res pstate :=
  match p_mode st with
  | MRest => if String.eqb tok "--" then Unsup else Ok (push_pos tok st)
  | MVal o => if is_flag tok then Unsup else set_opt o tok st
  | m =>
      if String.eqb tok "--" then
        (if p_seen st then Unsup else Ok (with_mode MRest st))
      else if String.eqb tok "--groups" then Ok (with_mode MGroups (set_groups (Some []) st))
      else match opt_of tok with
           | Some o => Ok (with_mode (MVal o) st)
           | None =>
               if is_flag tok then Unsup
               else match m with
                    | MGroups => Ok (push_group tok st)
                    | MPos => Ok (push_pos tok st)
                    | _ => if p_seen st then Unsup   (* a second run of positionals *)
                           else Ok (push_pos tok (with_mode MPos st))
                    end
           end
  end.

Fixpoint run_tokens (st : pstate) (toks : list string) : res pstate :=
  match toks with
  | [] => Ok st
  | t :: r => let* st' := step st t in run_tokens st' r
  end.

Definition finish (st : pstate) : res cli_args :=
  match p_mode st with
  | MVal _ => Unsup                       (* expected one argument *)
  | _ =>
      match p_pos st with
      | [] => Unsup                       (* pipeline_name is required *)
      | name :: ctx =>
          Ok (mk_cli_args name ctx (p_groups st) (p_success st) (p_failure st) (p_dir st)
                          (p_log st) (p_logpath st))
      end
  end.

Definition parse_argv (argv : list string) : res cli_args :=
  let* st := run_tokens pstate0 argv in finish st.

(** * The call into the runner *)
Record run_call := mk_run_call {
  rc_name : string;
  rc_args_in : args;
  rc_parse_args : option bool;
  rc_dict_in : option dict;
  rc_groups : option (list string);
  rc_success : option string;
  rc_failure : option string;
  rc_loader : option string;
  rc_dir : string
}.

(** main: pypyr.pipelinerunner.run(pipeline_name=…, args_in=…, parse_args=True, groups=…,
    success_group=…, failure_group=…, py_dir=…). *)
Definition call_of (cwd : string) (a : cli_args) : run_call :=
  mk_run_call (a_name a) (Some (a_ctx a)) (Some true) None (a_groups a) (a_success a)
              (a_failure a) None (match a_dir a with Some d => d | None => cwd end).

(** How the call into the runner ends, seen from [main]. *)
Inductive run_end :=
| Completed                              (* returned: every group ran *)
| Stopped                                (* returned: a Stop instruction ended the run *)
| RaisedException (ty msg : string)      (* an instance of Exception: type(e).__name__, str(e) *)
| RaisedKeyboardInterrupt
| RaisedSystemExit (code : option Z)     (* BaseException, not Exception *)
| RaisedOtherBase (ty msg : string).     (* any other BaseException, e.g. GeneratorExit *)

(** What [main] does. *)
Inductive main_out :=
| Returned (code : option Z) (out err : string) (traceback : bool)
| Propagated (e : run_end).

Definition esc : string := chr 27.
Definition nl : string := chr 10.

(** "\n" + "\033[91m{type(e).__name__}: {str(e)}\033[0;0m" + "\n" *)
Definition err_text (ty msg : string) : string :=
  nl ++ esc ++ "[91m" ++ ty ++ ": " ++ msg ++ esc ++ "[0;0m" ++ nl.

(** [if parsed_args.log_level: if parsed_args.log_level < 10: traceback.print_exc()] *)
Definition wants_traceback (log : option Z) : bool :=
  match log with
  | Some n => negb (Z.eqb n 0) && (n <? 10)%Z
  | None => false
  end.

Definition main_of_end (log : option Z) (e : run_end) : main_out :=
  match e with
  | Completed | Stopped => Returned None "" "" false
  | RaisedKeyboardInterrupt => Returned (Some 130%Z) nl "" false
  | RaisedException ty msg => Returned (Some 255%Z) "" (err_text ty msg) (wants_traceback log)
  | RaisedSystemExit _ | RaisedOtherBase _ _ => Propagated e
  end.

Definition cli_main (runner : run_call -> run_end) (cwd : string) (argv : list string)
  : res main_out :=
  let* a := parse_argv argv in
  Ok (main_of_end (a_log a) (runner (call_of cwd a))).

(** [sys.exit(main())]: None -> 0, an int -> that int (modulo 256 at the OS); an escaping
    SystemExit carries its own code; any other escaping BaseException -> 1. *)
Definition process_status (m : main_out) : Z :=
  match m with
  | Returned None _ _ _ => 0
  | Returned (Some n) _ _ _ => n mod 256
  | Propagated (RaisedSystemExit None) => 0
  | Propagated (RaisedSystemExit (Some n)) => n mod 256
  | Propagated _ => 1
  end%Z.

(** * From arguments to the context the first step sees *)
Definition is_some {A} (o : option A) : bool := match o with Some _ => true | None => false end.

(** Pipeline._get_parse_input *)
Definition get_parse_input (parse_args : option bool) (args_in : args) (dict_in : option dict)
  : bool :=
  match parse_args with
  | None => negb (args_falsy args_in && is_some dict_in)
  | Some b => b
  end.

(** Pipeline._prepare_context (with _get_parsed_context inlined): [parser] is the pipeline's
    context_parser, if it names one. *)
Definition prepare_context (parse_input : bool) (parser : option parser_id) (a : args)
           (ctx : dict) : res dict :=
  if parse_input then
    match parser with
    | Some p =>
        let* parsed := run_parser p a in
        match parsed with
        | Some d => if is_nil d then Ok ctx else Ok (dict_update ctx d)
        | None => Ok ctx
        end
    | None => Ok ctx
    end
  else Ok ctx.

(** pipelinerunner.run: [Context(args) if args else Context()] *)
Definition initial_context (dict_in : option dict) : dict :=
  match dict_in with
  | Some d => d
  | None => []
  end.

Definition api_first_step_context (parser : option parser_id) (parse_args : option bool)
           (args_in : args) (dict_in : option dict) : res dict :=
  prepare_context (get_parse_input parse_args args_in dict_in) parser args_in
                  (initial_context dict_in).

Definition cli_first_step_context (parser : option parser_id) (argv : list string) : res dict :=
  let* a := parse_argv argv in
  api_first_step_context parser (Some true) (Some (a_ctx a)) None.

(** * Comparison with observations (used by the correspondence shards) *)
Definition opt_eqb {A} (eqb : A -> A -> bool) (a b : option A) : bool :=
  match a, b with
  | None, None => true
  | Some x, Some y => eqb x y
  | _, _ => false
  end.

Definition strs_eqb := list_eqb String.eqb.

Definition args_eqb (a b : args) : bool := opt_eqb strs_eqb a b.

Definition run_call_eqb (a b : run_call) : bool :=
  String.eqb (rc_name a) (rc_name b)
  && args_eqb (rc_args_in a) (rc_args_in b)
  && opt_eqb Bool.eqb (rc_parse_args a) (rc_parse_args b)
  && opt_eqb dict_eqb (rc_dict_in a) (rc_dict_in b)
  && opt_eqb strs_eqb (rc_groups a) (rc_groups b)
  && opt_eqb String.eqb (rc_success a) (rc_success b)
  && opt_eqb String.eqb (rc_failure a) (rc_failure b)
  && opt_eqb String.eqb (rc_loader a) (rc_loader b)
  && String.eqb (rc_dir a) (rc_dir b).

Definition cli_args_eqb (a b : cli_args) : bool :=
  String.eqb (a_name a) (a_name b)
  && strs_eqb (a_ctx a) (a_ctx b)
  && opt_eqb strs_eqb (a_groups a) (a_groups b)
  && opt_eqb String.eqb (a_success a) (a_success b)
  && opt_eqb String.eqb (a_failure a) (a_failure b)
  && opt_eqb String.eqb (a_dir a) (a_dir b)
  && opt_eqb Z.eqb (a_log a) (a_log b)
  && opt_eqb String.eqb (a_logpath a) (a_logpath b).

Definition run_end_eqb (a b : run_end) : bool :=
  match a, b with
  | Completed, Completed | Stopped, Stopped
  | RaisedKeyboardInterrupt, RaisedKeyboardInterrupt => true
  | RaisedException t m, RaisedException t' m'
  | RaisedOtherBase t m, RaisedOtherBase t' m' => String.eqb t t' && String.eqb m m'
  | RaisedSystemExit c, RaisedSystemExit c' => opt_eqb Z.eqb c c'
  | _, _ => false
  end.

(** [out] is compared only when the observation has it (quiet log level). *)
Definition main_out_eqb (m : main_out) (o : main_out) (cmp_out : bool) : bool :=
  match m, o with
  | Returned c out err tb, Returned c' out' err' tb' =>
      opt_eqb Z.eqb c c' && (negb cmp_out || String.eqb out out') && String.eqb err err'
      && Bool.eqb tb tb'
  | Propagated e, Propagated e' => run_end_eqb e e'
  | _, _ => false
  end.

(** argparse accepted the vector and produced [obs]. *)
Definition argv_verdict (argv : list string) (obs : cli_args) : nat :=
  verdict cli_args_eqb (parse_argv argv) (Ok obs).

(** argparse rejected the vector (exit 2): the model must not claim to know the result. *)
Definition argv_rejected_verdict (argv : list string) : nat :=
  if is_unsup (parse_argv argv) then 2%nat else 1%nat.

(** A full run of [main]: [obs_end] is how the (real) runner call ended, [obs_call] what it
    was called with, [obs_main] what main did, [status] the exit status computed from it (or
    the status of the real process), [obs_ctx] the context seen by the first step if one ran. *)
Definition cli_verdict (cwd : string) (argv : list string) (parser : option parser_id)
           (obs_end : run_end) (obs_call : option run_call) (obs_main : main_out)
           (cmp_out : bool) (status : Z) (obs_ctx : option dict) : nat :=
  match parse_argv argv with
  | Unsup => 2%nat
  | Err _ _ => 1%nat
  | Ok a =>
      let call := call_of cwd a in
      let m := main_of_end (a_log a) obs_end in
      let ok_call := match obs_call with Some c => run_call_eqb call c | None => true end in
      let v_ctx :=
        match obs_ctx with
        | None => 0%nat
        | Some c => verdict dict_eqb (cli_first_step_context parser argv) (Ok c)
        end in
      if ok_call && main_out_eqb m obs_main cmp_out && Z.eqb (process_status m) status
      then v_ctx else 1%nat
  end.

Definition api_verdict (parser : option parser_id) (parse_args : option bool) (args_in : args)
           (dict_in : option dict) (obs : res dict) : nat :=
  verdict dict_eqb (api_first_step_context parser parse_args args_in dict_in) obs.

Definition parse_input_verdict (parse_args : option bool) (args_in : args)
           (dict_in : option dict) (obs : bool) : nat :=
  if Bool.eqb (get_parse_input parse_args args_in dict_in) obs then 0%nat else 1%nat.
