(** Model/FsRewrite.v — placeholder, to be written. *)
