(** Model/FsRewrite.v — the in-place file rewrite of pypyr/utils/filesystem.py as an
    interpreter over the primitive file-system operations the code issues.

    Mirrors, as they are written:
      StreamRewriter.in_to_out   (fileformat, filereplace)
      ObjectRewriter.in_to_out   (fileformatjson / yaml / toml)
      the try/except around the temp file's with block in both in_to_out methods (any failure
        of formatting, of a write or of the closing flush: remove_temp_file, re-raise)
      move_temp_file / move_file / remove_temp_file (try os.replace; on failure try os.remove -
        a failure of THAT is logged and dropped - and re-raise the first error)
      is_same_file               (out == in is routed to the in-place path)
      FileRewriter.files_in_to_out (the loop over the glob result; stops at the first failure)

    A directory is an association list name -> bytes.  The formatter / (de)serialiser is a
    PARAMETER of the model: [xf old] is the data-dependent plan of one rewrite of a file whose
    bytes are [old] - whether it loads, and the sequence of items: [Some c] "this item formats
    and chunk c is written", [None] "formatting this item raises".  What is modelled here is the
    protocol around it: which primitive is issued when, what each leaves in the directory, and
    which with / except / finally paths run when a primitive raises or the process dies.

    Faults: [F : nat -> fmode] assigns to the k-th primitive ISSUED (counting the ones issued by
    clean-up paths) [NoFault], [Raise] (it raises instead of acting) or [Crash] (the process dies
    there: nothing more runs).  [Replace] is atomic (POSIX rename - assumed). *)
From PV Require Export PyStr.
Open Scope string_scope.

Definition name := string.
Definition bytes := string.
Definition dir := list (name * bytes).

Fixpoint lookup (n : name) (d : dir) : option bytes :=
  match d with
  | [] => None
  | (m, b) :: r => if String.eqb n m then Some b else lookup n r
  end.

(** update in place, or append a new entry *)
Fixpoint dset (n : name) (b : bytes) (d : dir) : dir :=
  match d with
  | [] => [(n, b)]
  | (m, c) :: r => if String.eqb n m then (m, b) :: r else (m, c) :: dset n b r
  end.

Fixpoint dremove (n : name) (d : dir) : dir :=
  match d with
  | [] => []
  | (m, c) :: r => if String.eqb n m then dremove n r else (m, c) :: dremove n r
  end.

(** os.path.dirname (with its trailing slash) and basename of a relative posix name *)
Fixpoint dirpart (s : string) : string :=
  match s with
  | EmptyString => EmptyString
  | String c r =>
      if contains_char "/" r then String c (dirpart r)
      else if Ascii.eqb c "/" then String c EmptyString else EmptyString
  end.

Fixpoint basename (s : string) : string :=
  match s with
  | EmptyString => EmptyString
  | String c r => if contains_char "/" s then basename r else s
  end.

(** * State *)
Inductive tstate := TOpen | TClosed | TBroken.
(* write handle: open (bytes still buffered: on-disk content unspecified) / closed, flushed /
   close() failed (content unspecified for good) *)

Record st := mkst {
  sd : dir;
  src_open : bool;                   (* a read handle on the source is open *)
  wh : option (name * tstate);       (* the write handle: temp file, or the out file *)
  in_try : bool;                     (* inside `try: with NamedTemporaryFile(...) as outfile:`
                                        with outfile bound: an exception now removes the temp *)
  temps : list name;                 (* ghost: every temp name created so far *)
  nrep : nat                         (* ghost: number of os.replace calls that took effect *)
}.

Definition init (d : dir) : st := mkst d false None false [] 0.

Definition wname (s : st) : option name :=
  match wh s with Some (t, _) => Some t | None => None end.

(** * Primitives *)
Inductive op :=
| OpenRead (src : name)        (* open(in_path)                                         *)
| LoadFail                     (* representer.load raises (malformed payload) - data     *)
| CloseSrc                     (* source handle closed by its with block                *)
| MkTemp (src : name)          (* NamedTemporaryFile(dir=dirname(in_path), delete=False) *)
| OpenWrite (out : name)       (* open(out_path, 'w') - only when out is another file    *)
| FmtFail                      (* formatting the next item raises - data                *)
| Write (c : bytes)            (* one write() on the write handle                       *)
| CloseW                       (* write handle closed by its with block                 *)
| Replace (dst : name)         (* os.replace(outfile.name, infile.name)                 *)
| Remove.                      (* os.remove(outfile.name) - move_temp_file's handler    *)

(** data-driven raising steps are not file-system primitives: not counted, not injectable *)
Definition visible (o : op) : bool :=
  match o with LoadFail | FmtFail => false | _ => true end.

(** the temp name: chosen by the environment, guaranteed not to exist (O_EXCL) *)
Definition namer := dir -> string -> name.

Definition set_src (b : bool) (s : st) : st :=
  mkst (sd s) b (wh s) (in_try s) (temps s) (nrep s).
Definition set_w (ts : tstate) (s : st) : st :=
  match wh s with
  | Some (t, _) => mkst (sd s) (src_open s) (Some (t, ts)) (in_try s) (temps s) (nrep s)
  | None => s
  end.
Definition set_sd (d : dir) (s : st) : st :=
  mkst d (src_open s) (wh s) (in_try s) (temps s) (nrep s).
Definition set_try (b : bool) (s : st) : st :=
  mkst (sd s) (src_open s) (wh s) b (temps s) (nrep s).

Definition exec (nm : namer) (o : op) (s : st) : st :=
  match o with
  | OpenRead _ => set_src true s
  | CloseSrc => set_src false s
  | MkTemp src =>
      let t := nm (sd s) (dirpart src) in
      mkst (dset t "" (sd s)) (src_open s) (Some (t, TOpen)) true (t :: temps s) (nrep s)
  | OpenWrite out =>
      mkst (dset out "" (sd s)) (src_open s) (Some (out, TOpen)) false (temps s) (nrep s)
  | Write c =>
      match wh s with
      | Some (t, _) =>
          match lookup t (sd s) with
          | Some b => set_sd (dset t (b ++ c) (sd s)) s
          | None => s
          end
      | None => s
      end
  | CloseW => set_try false (set_w TClosed s)      (* the with block, and the try, are left *)
  | Replace dst =>
      match wh s with
      | Some (t, _) =>
          match lookup t (sd s) with
          | Some b => mkst (dremove t (dset dst b (sd s))) (src_open s) (wh s) (in_try s) (temps s) (S (nrep s))
          | None => s
          end
      | None => s
      end
  | Remove =>
      match wh s with
      | Some (t, _) => set_sd (dremove t (sd s)) s
      | None => s
      end
  | LoadFail | FmtFail => s
  end.

(** what a primitive that RAISES leaves: nothing, except that a failing close() still
    releases the handle *)
Definition fail_effect (o : op) (s : st) : st :=
  match o with
  | CloseW => set_w TBroken s
  | CloseSrc => set_src false s
  | _ => s
  end.

(** * Faults, outcomes *)
Inductive fmode := NoFault | Raise | Crash.

Inductive exn :=
| EInj (k : nat)      (* the error raised by the k-th primitive *)
| EFormat             (* KeyNotInContextError & co. from the formatter *)
| ELoad               (* parse error from the representer *)
| EConfig.            (* files_in_to_out: several in files, one out file *)

Inductive outcome := Done | Raised (e : exn) | Crashed | Unsupp.

Record result := mkres {
  final : st;
  outc : outcome;
  hist : list (op * st);        (* the state BEFORE each primitive issued, in order *)
  next : nat;                   (* primitives issued so far *)
  stop : option (nat * op);     (* the main-line step that raised, with the counter there *)
  rmfail : bool                 (* a clean-up os.remove of the temp file itself raised *)
}.

Definition prepend (h : list (op * st)) (r : result) : result :=
  mkres (final r) (outc r) (h ++ hist r) (next r) (stop r) (rmfail r).

Definition with_stop (x : option (nat * op)) (r : result) : result :=
  mkres (final r) (outc r) (hist r) (next r) x (rmfail r).

Definition with_rmfail (r : result) : result :=
  mkres (final r) (outc r) (hist r) (next r) (stop r) true.

(** every directory state an outside observer (or a kill) can see during the run *)
Definition all_states (r : result) : list st := map snd (hist r) ++ [final r].

Definition wh_is_open (s : st) : bool :=
  match wh s with Some (_, TOpen) => true | _ => false end.

(** An exception [e] propagates out of the body.  In the order the code runs them:
    1. the with block of the write handle closes it (a close that raises replaces the
       exception in flight);
    2. if that was the temp file's with block - we are inside the try and [outfile] is bound -
       the except clause calls remove_temp_file (a failure is logged and dropped) and re-raises;
    3. the with block of the source handle, if still open, closes it. *)
Definition unwind3 (F : nat -> fmode) (n : nat) (s : st) (e : exn) (h : list (op * st))
           (rf : bool) : result :=
  if src_open s then
    match F n with
    | Crash => mkres s Crashed (h ++ [(CloseSrc, s)]) (S n) None rf
    | Raise => mkres (set_src false s) (Raised (EInj n)) (h ++ [(CloseSrc, s)]) (S n) None rf
    | NoFault => mkres (set_src false s) (Raised e) (h ++ [(CloseSrc, s)]) (S n) None rf
    end
  else mkres s (Raised e) h n None rf.

Definition do_remove (s : st) : st :=
  match wh s with
  | Some (t, _) => set_sd (dremove t (sd s)) s
  | None => s
  end.

Definition unwind2 (F : nat -> fmode) (n : nat) (s : st) (e : exn) (h : list (op * st))
  : result :=
  if in_try s then
    match F n with
    | Crash => mkres s Crashed (h ++ [(Remove, s)]) (S n) None false
    | Raise => unwind3 F (S n) (set_try false s) e (h ++ [(Remove, s)]) true
    | NoFault => unwind3 F (S n) (set_try false (do_remove s)) e (h ++ [(Remove, s)]) false
    end
  else unwind3 F n s e h false.

Definition unwind (F : nat -> fmode) (n : nat) (s : st) (e : exn) : result :=
  if wh_is_open s then
    match F n with
    | Crash => mkres s Crashed [(CloseW, s)] (S n) None false
    | Raise => unwind2 F (S n) (set_w TBroken s) (EInj n) [(CloseW, s)]
    | NoFault => unwind2 F (S n) (set_w TClosed s) e [(CloseW, s)]
    end
  else unwind2 F n s e [].

(** primitive [o] raised [e] (state [s] = after its fail_effect, [n] = next index):
    move_temp_file catches a failing replace, tries to remove the temp (a failure of THAT is
    logged and dropped) and re-raises the first error; everything else just propagates. *)
Definition handler (nm : namer) (F : nat -> fmode) (o : op) (n : nat) (s : st) (e : exn)
  : result :=
  match o with
  | Replace _ =>
      match F n with
      | Crash => mkres s Crashed [(Remove, s)] (S n) None false
      | Raise => with_rmfail (prepend [(Remove, s)] (unwind F (S n) s e))
      | NoFault => prepend [(Remove, s)] (unwind F (S n) (exec nm Remove s) e)
      end
  | _ => unwind F n s e
  end.

Definition data_exn (o : op) : exn :=
  match o with LoadFail => ELoad | _ => EFormat end.

(** run the main line [ops] from primitive index [n] in state [s] *)
Fixpoint run_ops (nm : namer) (F : nat -> fmode) (ops : list op) (n : nat) (s : st) : result :=
  match ops with
  | [] => mkres s Done [] n None false
  | o :: rest =>
      if visible o then
        match F n with
        | Crash => mkres s Crashed [(o, s)] (S n) None false
        | Raise => with_stop (Some (n, o))
                     (prepend [(o, s)] (handler nm F o (S n) (fail_effect o s) (EInj n)))
        | NoFault => prepend [(o, s)] (run_ops nm F rest (S n) (exec nm o s))
        end
      else with_stop (Some (n, o)) (unwind F n s (data_exn o))
  end.

(** * The op sequences of the two rewriters *)
Inductive kind := Stream | Object.

Record plan := mkplan {
  load_ok : bool;                     (* Object only: representer.load succeeds *)
  items : list (option bytes)         (* Some c: formatted, c written;  None: formatting raises *)
}.

Definition item_op (i : option bytes) : op :=
  match i with Some c => Write c | None => FmtFail end.

Definition load_ops (pl : plan) : list op := if load_ok pl then [] else [LoadFail].

(** in place: out is None, or is_same_file(in, out) *)
Definition inplace_ops (k : kind) (pl : plan) (src : name) : list op :=
  match k with
  | Stream =>
      (* with open(in) as infile:
           outfile = None
           try:
             with NamedTemporaryFile(...) as outfile: outfile.writelines(formatter(infile))
           except Exception:
             if outfile is not None: remove_temp_file(outfile.name)
             raise
         move_temp_file(outfile.name, infile.name) *)
      [OpenRead src; MkTemp src] ++ map item_op (items pl) ++ [CloseW; CloseSrc; Replace src]
  | Object =>
      (* with open(in) as infile: obj = load(infile)
         outfile = None
         try:
           with NamedTemporaryFile(...) as outfile: dump(outfile, formatter(obj))
         except Exception:
           if outfile is not None: remove_temp_file(outfile.name)
           raise
         move_temp_file(outfile.name, infile.name) *)
      [OpenRead src] ++ load_ops pl ++ [CloseSrc; MkTemp src] ++ map item_op (items pl)
        ++ [CloseW; Replace src]
  end.

(** out is a different file: written directly, no temp, no rename *)
Definition direct_ops (k : kind) (pl : plan) (src out : name) : list op :=
  match k with
  | Stream => [OpenRead src; OpenWrite out] ++ map item_op (items pl) ++ [CloseW; CloseSrc]
  | Object => [OpenRead src] ++ load_ops pl ++ [CloseSrc; OpenWrite out]
                ++ map item_op (items pl) ++ [CloseW]
  end.

(** the complete new content, when the plan has one *)
Fixpoint concat_items (l : list (option bytes)) : option bytes :=
  match l with
  | [] => Some ""
  | Some c :: r => match concat_items r with Some b => Some (c ++ b) | None => None end
  | None :: _ => None
  end.

Definition new_of (k : kind) (pl : plan) : option bytes :=
  match k with
  | Stream => concat_items (items pl)
  | Object => if load_ok pl then concat_items (items pl) else None
  end.

(** * files_in_to_out *)
Inductive outmode :=
| NoOut                     (* out not given: edit in place *)
| OutFile (o : name)        (* out names a file *)
| OutDir (d : string).      (* out names a directory (prefix with trailing slash) *)

Definition target (p : name) (m : outmode) : option name :=
  match m with
  | NoOut => None
  | OutFile o => Some o
  | OutDir d => Some (d ++ basename p)
  end.

(** is_same_file.  The model's names are FILES, not spellings: an out path that reaches the in
    file through a symbolic link, a hard link or a '..' spelling is handed to the model as the
    file it denotes (the harness resolves it with os.path.samefile / realpath), so "same file"
    is equality of names here.  A symbolic link itself is an inert entry of the directory. *)
Definition file_ops (k : kind) (pl : plan) (p : name) (m : outmode) : list op :=
  match target p m with
  | None => inplace_ops k pl p
  | Some o => if String.eqb o p then inplace_ops k pl p else direct_ops k pl p o
  end.

Definition xform := bytes -> option plan.   (* None: content outside the harness's table *)

Fixpoint run_files (nm : namer) (F : nat -> fmode) (xf : xform) (k : kind) (m : outmode)
         (paths : list name) (n : nat) (s : st) : result :=
  match paths with
  | [] => mkres s Done [] n None false
  | p :: rest =>
      match lookup p (sd s) with
      | None => run_files nm F xf k m rest n s          (* not is_file(): skipped *)
      | Some old =>
          match xf old with
          | None => mkres s Unsupp [] n None false
          | Some pl =>
              let r := run_ops nm F (file_ops k pl p m) n s in
              match outc r with
              | Done => prepend (hist r) (run_files nm F xf k m rest (next r) (final r))
              | _ => r
              end
          end
      end
  end.

(** the check before the loop: more than one in path but a single out FILE is an error *)
Definition run_step (nm : namer) (F : nat -> fmode) (xf : xform) (k : kind) (m : outmode)
           (paths : list name) (d : dir) : result :=
  match m, paths with
  | OutFile _, _ :: _ :: _ => mkres (init d) (Raised EConfig) [] 0 None false
  | _, _ => run_files nm F xf k m paths 0 (init d)
  end.

(** the directory after the first files of [paths] have been completely rewritten *)
Fixpoint apply_new (xf : xform) (k : kind) (paths : list name) (d : dir) : dir :=
  match paths with
  | [] => d
  | p :: rest =>
      match lookup p d with
      | None => apply_new xf k rest d
      | Some old =>
          match xf old with
          | Some pl =>
              match new_of k pl with
              | Some nw => apply_new xf k rest (dset p nw d)
              | None => apply_new xf k rest d
              end
          | None => apply_new xf k rest d
          end
      end
  end.

(** * A concrete fresh-name supply (for the examples and the correspondence run) *)
Fixpoint maxlen (d : dir) : nat :=
  match d with [] => 0 | (m, _) :: r => Nat.max (String.length m) (maxlen r) end.

Definition default_namer : namer :=
  fun d pre => pre ++ "tmp" ++ repeat_char "_" (S (maxlen d)).

Definition fresh_namer (nm : namer) : Prop := forall d pre, lookup (nm d pre) d = None.

(** * Comparison with an observation of the real code *)
Fixpoint mem (n : name) (l : list name) : bool :=
  match l with [] => false | m :: r => orb (String.eqb n m) (mem n r) end.

Definition canon_name (s : st) (n : name) : name :=
  if mem n (temps s) then dirpart n ++ "<tmp>" else n.

Definition unflushed (s : st) (n : name) : bool :=
  match wh s with
  | Some (t, TClosed) => false
  | Some (t, _) => String.eqb t n
  | None => false
  end.

(** what the model commits to about the directory: names (temp names canonicalised) and the
    bytes of every file except one with unflushed writes *)
Definition view (s : st) : list (name * option bytes) :=
  map (fun e => (canon_name s (fst e), if unflushed s (fst e) then None else Some (snd e))) (sd s).

Definition tag (s : st) (o : op) : string :=
  let w := match wname s with Some t => canon_name s t | None => "?" end in
  match o with
  | OpenRead p => "open-r:" ++ p
  | OpenWrite p => "open-w:" ++ p
  | MkTemp p => "mktemp:" ++ dirpart p
  | Write _ => "write"
  | CloseW => "close-w"
  | CloseSrc => "close-src"
  | Replace d => "replace:" ++ w ++ ">" ++ d
  | Remove => "remove:" ++ w
  | LoadFail => "load-fail"
  | FmtFail => "fmt-fail"
  end.

Definition opt_bytes_ok (m : option bytes) (b : bytes) : bool :=
  match m with None => true | Some x => String.eqb x b end.

Fixpoint find_entry (n : name) (l : list (name * bytes)) : option bytes :=
  match l with
  | [] => None
  | (m, b) :: r => if String.eqb n m then Some b else find_entry n r
  end.

Definition match_view (mv : list (name * option bytes)) (ov : list (name * bytes)) : bool :=
  andb (Nat.eqb (List.length mv) (List.length ov))
       (forallb (fun e => match find_entry (fst e) ov with
                          | Some b => opt_bytes_ok (snd e) b
                          | None => false
                          end) mv).

Fixpoint match_hist (h : list (op * st)) (oh : list (string * list (name * bytes))) : bool :=
  match h, oh with
  | [], [] => true
  | (o, s) :: r, (t, ov) :: r' =>
      andb (andb (String.eqb (tag s o) t) (match_view (view s) ov)) (match_hist r r')
  | _, _ => false
  end.

Definition exn_eqb (a b : exn) : bool :=
  match a, b with
  | EInj x, EInj y => Nat.eqb x y
  | EFormat, EFormat | ELoad, ELoad | EConfig, EConfig => true
  | _, _ => false
  end.

Definition outcome_eqb (a b : outcome) : bool :=
  match a, b with
  | Done, Done | Crashed, Crashed | Unsupp, Unsupp => true
  | Raised x, Raised y => exn_eqb x y
  | _, _ => false
  end.

Fixpoint fault_fun (l : list (nat * fmode)) (n : nat) : fmode :=
  match l with
  | [] => NoFault
  | (k, m) :: r => if Nat.eqb k n then m else fault_fun r n
  end.

Fixpoint table_xf (tbl : list (bytes * plan)) (b : bytes) : option plan :=
  match tbl with
  | [] => None
  | (c, pl) :: r => if String.eqb b c then Some pl else table_xf r b
  end.

(** 0 = the model reproduces the observation, 1 = it does not, 2 = outside the table.
    [oh = None]: only outcome and final directory were observed (a real kill). *)
Definition check (k : kind) (tbl : list (bytes * plan)) (m : outmode) (paths : list name)
           (d : dir) (faults : list (nat * fmode))
           (oh : option (list (string * list (name * bytes))))
           (oo : outcome) (ofinal : list (name * bytes)) : nat :=
  let r := run_step default_namer (fault_fun faults) (table_xf tbl) k m paths d in
  match outc r with
  | Unsupp => 2
  | _ =>
      if andb (andb (outcome_eqb (outc r) oo) (match_view (view (final r)) ofinal))
              (match oh with Some h => match_hist (hist r) h | None => true end)
      then 0 else 1
  end.

(** printable form of a model run, for replay files *)
Definition show (k : kind) (tbl : list (bytes * plan)) (m : outmode) (paths : list name)
           (d : dir) (faults : list (nat * fmode)) :=
  let r := run_step default_namer (fault_fun faults) (table_xf tbl) k m paths d in
  (outc r, map (fun e => (tag (snd e) (fst e), view (snd e))) (hist r), view (final r)).

(** * Tie B: the statement language the source of the rewriters is translated into
    (tools/py2coq_c15.py regenerates Gen/GenC15.v from pypyr/utils/filesystem.py on every run),
    and its semantics: Python's `with`, `try/except Exception`, bare `raise`, `return`, local
    flags - over the same primitives, states and fault assignments as the op model above.
    Proofs/GenC15Proofs.v shows that the translated methods, run by this semantics, ARE the
    flat op lists + flag-driven [unwind] of the model, for every fault assignment and plan. *)
Inductive pexpr :=
| XInPath                 (* in_path *)
| XOutPath                (* out_path *)
| XInfileName             (* infile.name *)
| XOutfileName            (* outfile.name *)
| XDirnameIn.             (* os.path.dirname(in_path) *)

Inductive pcond :=
| CSameFile               (* is_same_file(in_path, out_path) *)
| COutPath                (* out_path *)
| CInPlaceFlag            (* is_in_place_edit *)
| COutfileNotNone.        (* outfile is not None *)

Inductive wkind :=
| WOpenRead (p : pexpr)                    (* open(p [, read mode]) *)
| WOpenWrite (p : pexpr)                   (* open(p, write mode) *)
| WMkTemp (d : pexpr) (delete : bool).     (* NamedTemporaryFile(dir=d, delete=...) *)

Inductive wbind := BInfile | BOutfile.

Inductive stm :=
| SSkip
| SSeq (a b : stm)
| SIf (c : pcond) (a b : stm)
| SSetOutNone                    (* out_path = None *)
| SSetInPlace (b : bool)         (* is_in_place_edit = b *)
| SSetOutfileNone                (* outfile = None *)
| SWith (w : wkind) (b : wbind) (body : stm)
| STry (body handler : stm)      (* try: body / except Exception [as e]: handler *)
| SReraise                       (* raise *)
| SReturn
| SLoad                          (* obj = self.object_representer.load(infile) *)
| SWriteItems                    (* outfile.writelines(self.formatter(infile))
                                    / self.object_representer.dump(outfile, self.formatter(obj)) *)
| SReplace (a b : pexpr)         (* os.replace(a, b) *)
| SRemove (a : pexpr).           (* os.remove(a) *)

Record penv := mkenv {
  v_in : name;               (* in_path *)
  v_out : option name;       (* out_path; None also stands for any falsy value *)
  v_inplace : bool;          (* is_in_place_edit *)
  v_outfile : bool           (* outfile is bound to a file object *)
}.

Inductive pout := PNorm | PRet | PExc (e : exn) | PReraise | PCrash | PStuck.

Record pst := mkpst {
  p_env : penv;
  p_st : st;
  p_n : nat;
  p_hist : list op;               (* the primitives issued, in order *)
  p_stop : option (nat * op);
  p_rf : bool
}.

Definition first_stop (a : option (nat * op)) (b : nat * op) : option (nat * op) :=
  match a with Some x => Some x | None => Some b end.

Definition is_remove (o : op) : bool := match o with Remove => true | _ => false end.

Section PExec.
Variables (nm : namer) (F : nat -> fmode) (pl : plan) (same : bool).

(** one primitive, at the current index *)
Definition do_prim (o : op) (x : pst) : pout * pst :=
  let s := p_st x in let n := p_n x in
  match F n with
  | Crash => (PCrash, mkpst (p_env x) s (S n) (p_hist x ++ [o]) (p_stop x) (p_rf x))
  | Raise => (PExc (EInj n),
              mkpst (p_env x) (fail_effect o s) (S n) (p_hist x ++ [o])
                    (first_stop (p_stop x) (n, o)) (orb (p_rf x) (is_remove o)))
  | NoFault => (PNorm, mkpst (p_env x) (exec nm o s) (S n) (p_hist x ++ [o])
                             (p_stop x) (p_rf x))
  end.

(** a data-driven failure (not a primitive: no index consumed) *)
Definition data_fail (o : op) (x : pst) : pout * pst :=
  (PExc (data_exn o),
   mkpst (p_env x) (p_st x) (p_n x) (p_hist x) (first_stop (p_stop x) (p_n x, o)) (p_rf x)).

(** the write loop: format an item (may raise), write it (a primitive) *)
Fixpoint write_items (its : list (option bytes)) (x : pst) : pout * pst :=
  match its with
  | [] => (PNorm, x)
  | None :: _ => data_fail FmtFail x
  | Some c :: r =>
      match do_prim (Write c) x with
      | (PNorm, x') => write_items r x'
      | other => other
      end
  end.

Definition eval_cond (c : pcond) (x : pst) : bool :=
  match c with
  | CSameFile => same
  | COutPath => match v_out (p_env x) with Some _ => true | None => false end
  | CInPlaceFlag => v_inplace (p_env x)
  | COutfileNotNone => v_outfile (p_env x)
  end.

Definition set_env (e : penv) (x : pst) : pst :=
  mkpst e (p_st x) (p_n x) (p_hist x) (p_stop x) (p_rf x).

Definition open_op (w : wkind) (b : wbind) (e : penv) : option (op * op) :=   (* open, close *)
  match w, b with
  | WOpenRead XInPath, BInfile => Some (OpenRead (v_in e), CloseSrc)
  | WOpenWrite XOutPath, BOutfile =>
      match v_out e with Some o => Some (OpenWrite o, CloseW) | None => None end
  | WMkTemp XDirnameIn false, BOutfile => Some (MkTemp (v_in e), CloseW)
  | _, _ => None
  end.

Definition bind_env (b : wbind) (e : penv) : penv :=
  match b with
  | BInfile => e
  | BOutfile => mkenv (v_in e) (v_out e) (v_inplace e) true
  end.

Fixpoint pexec (c : stm) (x : pst) : pout * pst :=
  match c with
  | SSkip => (PNorm, x)
  | SSeq a b => match pexec a x with (PNorm, x') => pexec b x' | other => other end
  | SIf cnd a b => if eval_cond cnd x then pexec a x else pexec b x
  | SSetOutNone =>
      let e := p_env x in (PNorm, set_env (mkenv (v_in e) None (v_inplace e) (v_outfile e)) x)
  | SSetInPlace b =>
      let e := p_env x in (PNorm, set_env (mkenv (v_in e) (v_out e) b (v_outfile e)) x)
  | SSetOutfileNone =>
      let e := p_env x in (PNorm, set_env (mkenv (v_in e) (v_out e) (v_inplace e) false) x)
  | SReturn => (PRet, x)
  | SReraise => (PReraise, x)
  | SLoad => if load_ok pl then (PNorm, x) else data_fail LoadFail x
  | SWriteItems => write_items (items pl) x
  | SReplace XOutfileName XInfileName => do_prim (Replace (v_in (p_env x))) x
  | SReplace _ _ => (PStuck, x)
  | SRemove XOutfileName => do_prim Remove x
  | SRemove _ => (PStuck, x)
  | STry body handler =>
      match pexec body x with
      | (PExc e, x1) =>
          match pexec handler x1 with
          | (PNorm, x2) => (PNorm, x2)            (* swallowed *)
          | (PReraise, x2) => (PExc e, x2)        (* bare raise: the exception being handled *)
          | other => other
          end
      | other => other
      end
  | SWith w b body =>
      match open_op w b (p_env x) with
      | None => (PStuck, x)
      | Some (oo, oc) =>
          match do_prim oo x with
          | (PNorm, x1) =>
              match pexec body (set_env (bind_env b (p_env x1)) x1) with
              | (PCrash, x2) => (PCrash, x2)
              | (PStuck, x2) => (PStuck, x2)
              | (o2, x2) =>
                  (* __exit__: close, whatever the body did; a failing close replaces it *)
                  match do_prim oc x2 with
                  | (PNorm, x3) => (o2, x3)
                  | other => other
                  end
              end
          | other => other
          end
      end
  end.

(** what is compared: final state, outcome, the primitives issued in order, their number, the
    step that raised, whether a clean-up remove failed.  (The intermediate states need not be
    listed: the state before primitive k is the final state of the run killed at k, and the
    comparison is for every fault assignment.)  The model's [in_try] is bookkeeping for
    [unwind] and is erased. *)
Definition erase_st (s : st) : st := set_try false s.

Definition summary := (st * outcome * list op * nat * option (nat * op) * bool)%type.

Definition pexec_summary (r : pout * pst) : summary :=
  let x := snd r in
  (erase_st (p_st x),
   match fst r with
   | PNorm | PRet => Done | PExc e => Raised e | PCrash => Crashed
   | PReraise | PStuck => Unsupp end,
   p_hist x, p_n x, p_stop x, p_rf x).

Definition run_method (body : stm) (src : name) (out : option name) (n : nat) (s : st) : summary :=
  pexec_summary (pexec body (mkpst (mkenv src out false false) s n [] None false)).

End PExec.

Definition res_summary (r : result) : summary :=
  (erase_st (final r), outc r, map fst (hist r), next r, stop r, rmfail r).

(** what the model runs for one file: [file_ops] with the out FILE already resolved *)
Definition method_ops (k : kind) (pl : plan) (src : name) (out : option name) : list op :=
  match out with
  | None => inplace_ops k pl src
  | Some o => if String.eqb o src then inplace_ops k pl src else direct_ops k pl src o
  end.

(** ** the loop method, FileRewriter.files_in_to_out: locals, tests on the out path, the
    per-file call of in_to_out *)
Inductive fvar := VBasedir | VKnown | VActualOut.   (* basedir_out, is_outfile_name_known, actual_out *)

Inductive fexpr :=
| FNone
| FBool (b : bool)
| FPathOut                      (* pathlib_out = Path(out_path) *)
| FOutParent                    (* pathlib_out.parent *)
| FVar (v : fvar)
| FJoinName (base : fexpr).     (* base.joinpath(actual_in.name) *)

Inductive fcond :=
| FCInPaths                     (* in_paths            (the glob result is not empty) *)
| FCOutPath                     (* out_path *)
| FCIsStrDir                    (* FileRewriter.is_str_dir(out_path) *)
| FCIsDir                       (* pathlib_out.is_dir() *)
| FCIsFile                      (* actual_in.is_file() *)
| FCManyPaths                   (* len(in_paths) > 1 *)
| FCVar (v : fvar).

Inductive fstm :=
| FSkip
| FSeq (a b : fstm)
| FIf (c : fcond) (a b : fstm)
| FAssign (v : fvar) (e : fexpr)
| FFor (body : fstm)            (* for path in in_paths: actual_in = Path(path); body *)
| FRaiseError                   (* raise Error(...) *)
| FCall (out : option fexpr).   (* self.in_to_out(in_path=actual_in [, out_path=out]) *)

Inductive fval := FVNone | FVBool (b : bool) | FVOut | FVOutParent | FVJoin (base : fval).

Record fenv := mkfenv { f_basedir : fval; f_known : fval; f_actual_out : fval }.

Record floop := mkfl { fl_env : fenv; fl_st : st; fl_n : nat; fl_hist : list (op * st) }.

Section FExec.
(** the world: the glob result, what out is (the model's [outmode] is the harness's reading of
    the out argument; [strdir] / [isdir] are the two tests the code makes on it), and the
    method the loop calls for one file *)
Variables (paths : list name) (m : outmode) (strdir isdir : bool).
Variable callee : name -> option name -> nat -> st -> result.

Definition fget (v : fvar) (e : fenv) : fval :=
  match v with VBasedir => f_basedir e | VKnown => f_known e | VActualOut => f_actual_out e end.

Definition fset (v : fvar) (x : fval) (e : fenv) : fenv :=
  match v with
  | VBasedir => mkfenv x (f_known e) (f_actual_out e)
  | VKnown => mkfenv (f_basedir e) x (f_actual_out e)
  | VActualOut => mkfenv (f_basedir e) (f_known e) x
  end.

Fixpoint feval (x : fexpr) (e : fenv) : fval :=
  match x with
  | FNone => FVNone
  | FBool b => FVBool b
  | FPathOut => FVOut
  | FOutParent => FVOutParent
  | FVar v => fget v e
  | FJoinName b => FVJoin (feval b e)
  end.

Definition ftruthy (v : fval) : bool :=
  match v with FVNone => false | FVBool b => b | _ => true end.

Definition fcond_eval (c : fcond) (p : name) (x : floop) : bool :=
  match c with
  | FCInPaths => match paths with [] => false | _ => true end
  | FCOutPath => match m with NoOut => false | _ => true end
  | FCIsStrDir => strdir
  | FCIsDir => isdir
  | FCIsFile => match lookup p (sd (fl_st x)) with Some _ => true | None => false end
  | FCManyPaths => match paths with _ :: _ :: _ => true | _ => false end
  | FCVar v => ftruthy (fget v (fl_env x))
  end.

(** the FILE an out value denotes for in file [p] (None: not a value the model knows) *)
Definition out_name (v : fval) (p : name) : option name :=
  match v, m with
  | FVOut, OutFile o => Some o
  | FVJoin FVOut, OutDir d => Some (d ++ basename p)
  | _, _ => None
  end.

Definition fl_end (x : floop) (o : outcome) : result :=
  mkres (fl_st x) o (fl_hist x) (fl_n x) None false.

Fixpoint fexec (c : fstm) (p : name) (x : floop) : option result * floop :=
  match c with
  | FSkip => (None, x)
  | FSeq a b => match fexec a p x with (None, x') => fexec b p x' | ended => ended end
  | FIf cnd a b => if fcond_eval cnd p x then fexec a p x else fexec b p x
  | FAssign v e =>
      (None, mkfl (fset v (feval e (fl_env x)) (fl_env x)) (fl_st x) (fl_n x) (fl_hist x))
  | FRaiseError => (Some (fl_end x (Raised EConfig)), x)
  | FCall oe =>
      let out := match oe with
                 | None => Some None
                 | Some e => match out_name (feval e (fl_env x)) p with
                             | Some o => Some (Some o) | None => None end
                 end in
      match out with
      | None => (Some (fl_end x Unsupp), x)
      | Some o =>
          let r := callee p o (fl_n x) (fl_st x) in
          match outc r with
          | Done => (None, mkfl (fl_env x) (final r) (next r) (fl_hist x ++ hist r))
          | _ => (Some (prepend (fl_hist x) r), x)
          end
      end
  | FFor body =>
      (fix loop (ps : list name) (x : floop) : option result * floop :=
         match ps with
         | [] => (None, x)
         | q :: rest =>
             match fexec body q x with
             | (None, x') => loop rest x'
             | ended => ended
             end
         end) paths x
  end.

Definition run_loop_method (body : fstm) (n : nat) (s : st) : result :=
  match fexec body "" (mkfl (mkfenv FVNone FVNone FVNone) s n []) with
  | (Some r, _) => r
  | (None, x) => fl_end x Done
  end.

End FExec.
