(** Model/FsRewrite.v — the in-place file rewrite of pypyr/utils/filesystem.py as an
    interpreter over the primitive file-system operations the code issues.

    Mirrors, as they are written:
      StreamRewriter.in_to_out   (fileformat, filereplace)
      ObjectRewriter.in_to_out   (fileformatjson / yaml / toml)
      the try/except around the temp file's with block in both in_to_out methods (any failure
        of formatting, of a write or of the closing flush: remove_temp_file, re-raise)
      move_temp_file / move_file / remove_temp_file (try os.replace; on failure try os.remove -
        a failure of THAT is logged and dropped - and re-raise the first error)
      is_same_file               (out == in is routed to the in-place path)
      FileRewriter.files_in_to_out (the loop over the glob result; stops at the first failure)

    A directory is an association list name -> bytes.  The formatter / (de)serialiser is a
    PARAMETER of the model: [xf old] is the data-dependent plan of one rewrite of a file whose
    bytes are [old] - whether it loads, and the sequence of items: [Some c] "this item formats
    and chunk c is written", [None] "formatting this item raises".  What is modelled here is the
    protocol around it: which primitive is issued when, what each leaves in the directory, and
    which with / except / finally paths run when a primitive raises or the process dies.

    Faults: [F : nat -> fmode] assigns to the k-th primitive ISSUED (counting the ones issued by
    clean-up paths) [NoFault], [Raise] (it raises instead of acting) or [Crash] (the process dies
    there: nothing more runs).  [Replace] is atomic (POSIX rename - assumed). *)
From PV Require Export PyStr.
Open Scope string_scope.

Definition name := string.
Definition bytes := string.
Definition dir := list (name * bytes).

Fixpoint lookup (n : name) (d : dir) : option bytes :=
  match d with
  | [] => None
  | (m, b) :: r => if String.eqb n m then Some b else lookup n r
  end.

(** update in place, or append a new entry *)
Fixpoint dset (n : name) (b : bytes) (d : dir) : dir :=
  match d with
  | [] => [(n, b)]
  | (m, c) :: r => if String.eqb n m then (m, b) :: r else (m, c) :: dset n b r
  end.

Fixpoint dremove (n : name) (d : dir) : dir :=
  match d with
  | [] => []
  | (m, c) :: r => if String.eqb n m then dremove n r else (m, c) :: dremove n r
  end.

(** os.path.dirname (with its trailing slash) and basename of a relative posix name *)
Fixpoint dirpart (s : string) : string :=
  match s with
  | EmptyString => EmptyString
  | String c r =>
      if contains_char "/" r then String c (dirpart r)
      else if Ascii.eqb c "/" then String c EmptyString else EmptyString
  end.

Fixpoint basename (s : string) : string :=
  match s with
  | EmptyString => EmptyString
  | String c r => if contains_char "/" s then basename r else s
  end.

(** * State *)
Inductive tstate := TOpen | TClosed | TBroken.
(* write handle: open (bytes still buffered: on-disk content unspecified) / closed, flushed /
   close() failed (content unspecified for good) *)

Record st := mkst {
  sd : dir;
  src_open : bool;                   (* a read handle on the source is open *)
  wh : option (name * tstate);       (* the write handle: temp file, or the out file *)
  in_try : bool;                     (* inside `try: with NamedTemporaryFile(...) as outfile:`
                                        with outfile bound: an exception now removes the temp *)
  temps : list name;                 (* ghost: every temp name created so far *)
  nrep : nat                         (* ghost: number of os.replace calls that took effect *)
}.

Definition init (d : dir) : st := mkst d false None false [] 0.

Definition wname (s : st) : option name :=
  match wh s with Some (t, _) => Some t | None => None end.

(** * Primitives *)
Inductive op :=
| OpenRead (src : name)        (* open(in_path)                                         *)
| LoadFail                     (* representer.load raises (malformed payload) - data     *)
| CloseSrc                     (* source handle closed by its with block                *)
| MkTemp (src : name)          (* NamedTemporaryFile(dir=dirname(in_path), delete=False) *)
| OpenWrite (out : name)       (* open(out_path, 'w') - only when out is another file    *)
| FmtFail                      (* formatting the next item raises - data                *)
| Write (c : bytes)            (* one write() on the write handle                       *)
| CloseW                       (* write handle closed by its with block                 *)
| Replace (dst : name)         (* os.replace(outfile.name, infile.name)                 *)
| Remove.                      (* os.remove(outfile.name) - move_temp_file's handler    *)

(** data-driven raising steps are not file-system primitives: not counted, not injectable *)
Definition visible (o : op) : bool :=
  match o with LoadFail | FmtFail => false | _ => true end.

(** the temp name: chosen by the environment, guaranteed not to exist (O_EXCL) *)
Definition namer := dir -> string -> name.

Definition set_src (b : bool) (s : st) : st :=
  mkst (sd s) b (wh s) (in_try s) (temps s) (nrep s).
Definition set_w (ts : tstate) (s : st) : st :=
  match wh s with
  | Some (t, _) => mkst (sd s) (src_open s) (Some (t, ts)) (in_try s) (temps s) (nrep s)
  | None => s
  end.
Definition set_sd (d : dir) (s : st) : st :=
  mkst d (src_open s) (wh s) (in_try s) (temps s) (nrep s).
Definition set_try (b : bool) (s : st) : st :=
  mkst (sd s) (src_open s) (wh s) b (temps s) (nrep s).

Definition exec (nm : namer) (o : op) (s : st) : st :=
  match o with
  | OpenRead _ => set_src true s
  | CloseSrc => set_src false s
  | MkTemp src =>
      let t := nm (sd s) (dirpart src) in
      mkst (dset t "" (sd s)) (src_open s) (Some (t, TOpen)) true (t :: temps s) (nrep s)
  | OpenWrite out =>
      mkst (dset out "" (sd s)) (src_open s) (Some (out, TOpen)) false (temps s) (nrep s)
  | Write c =>
      match wh s with
      | Some (t, _) =>
          match lookup t (sd s) with
          | Some b => set_sd (dset t (b ++ c) (sd s)) s
          | None => s
          end
      | None => s
      end
  | CloseW => set_try false (set_w TClosed s)      (* the with block, and the try, are left *)
  | Replace dst =>
      match wh s with
      | Some (t, _) =>
          match lookup t (sd s) with
          | Some b => mkst (dremove t (dset dst b (sd s))) (src_open s) (wh s) (in_try s) (temps s) (S (nrep s))
          | None => s
          end
      | None => s
      end
  | Remove =>
      match wh s with
      | Some (t, _) => set_sd (dremove t (sd s)) s
      | None => s
      end
  | LoadFail | FmtFail => s
  end.

(** what a primitive that RAISES leaves: nothing, except that a failing close() still
    releases the handle *)
Definition fail_effect (o : op) (s : st) : st :=
  match o with
  | CloseW => set_w TBroken s
  | CloseSrc => set_src false s
  | _ => s
  end.

(** * Faults, outcomes *)
Inductive fmode := NoFault | Raise | Crash.

Inductive exn :=
| EInj (k : nat)      (* the error raised by the k-th primitive *)
| EFormat             (* KeyNotInContextError & co. from the formatter *)
| ELoad               (* parse error from the representer *)
| EConfig.            (* files_in_to_out: several in files, one out file *)

Inductive outcome := Done | Raised (e : exn) | Crashed | Unsupp.

Record result := mkres {
  final : st;
  outc : outcome;
  hist : list (op * st);        (* the state BEFORE each primitive issued, in order *)
  next : nat;                   (* primitives issued so far *)
  stop : option (nat * op);     (* the main-line step that raised, with the counter there *)
  rmfail : bool                 (* a clean-up os.remove of the temp file itself raised *)
}.

Definition prepend (h : list (op * st)) (r : result) : result :=
  mkres (final r) (outc r) (h ++ hist r) (next r) (stop r) (rmfail r).

Definition with_stop (x : option (nat * op)) (r : result) : result :=
  mkres (final r) (outc r) (hist r) (next r) x (rmfail r).

Definition with_rmfail (r : result) : result :=
  mkres (final r) (outc r) (hist r) (next r) (stop r) true.

(** every directory state an outside observer (or a kill) can see during the run *)
Definition all_states (r : result) : list st := map snd (hist r) ++ [final r].

Definition wh_is_open (s : st) : bool :=
  match wh s with Some (_, TOpen) => true | _ => false end.

(** An exception [e] propagates out of the body.  In the order the code runs them:
    1. the with block of the write handle closes it (a close that raises replaces the
       exception in flight);
    2. if that was the temp file's with block - we are inside the try and [outfile] is bound -
       the except clause calls remove_temp_file (a failure is logged and dropped) and re-raises;
    3. the with block of the source handle, if still open, closes it. *)
Definition unwind3 (F : nat -> fmode) (n : nat) (s : st) (e : exn) (h : list (op * st))
           (rf : bool) : result :=
  if src_open s then
    match F n with
    | Crash => mkres s Crashed (h ++ [(CloseSrc, s)]) (S n) None rf
    | Raise => mkres (set_src false s) (Raised (EInj n)) (h ++ [(CloseSrc, s)]) (S n) None rf
    | NoFault => mkres (set_src false s) (Raised e) (h ++ [(CloseSrc, s)]) (S n) None rf
    end
  else mkres s (Raised e) h n None rf.

Definition do_remove (s : st) : st :=
  match wh s with
  | Some (t, _) => set_sd (dremove t (sd s)) s
  | None => s
  end.

Definition unwind2 (F : nat -> fmode) (n : nat) (s : st) (e : exn) (h : list (op * st))
  : result :=
  if in_try s then
    match F n with
    | Crash => mkres s Crashed (h ++ [(Remove, s)]) (S n) None false
    | Raise => unwind3 F (S n) (set_try false s) e (h ++ [(Remove, s)]) true
    | NoFault => unwind3 F (S n) (set_try false (do_remove s)) e (h ++ [(Remove, s)]) false
    end
  else unwind3 F n s e h false.

Definition unwind (F : nat -> fmode) (n : nat) (s : st) (e : exn) : result :=
  if wh_is_open s then
    match F n with
    | Crash => mkres s Crashed [(CloseW, s)] (S n) None false
    | Raise => unwind2 F (S n) (set_w TBroken s) (EInj n) [(CloseW, s)]
    | NoFault => unwind2 F (S n) (set_w TClosed s) e [(CloseW, s)]
    end
  else unwind2 F n s e [].

(** primitive [o] raised [e] (state [s] = after its fail_effect, [n] = next index):
    move_temp_file catches a failing replace, tries to remove the temp (a failure of THAT is
    logged and dropped) and re-raises the first error; everything else just propagates. *)
Definition handler (nm : namer) (F : nat -> fmode) (o : op) (n : nat) (s : st) (e : exn)
  : result :=
  match o with
  | Replace _ =>
      match F n with
      | Crash => mkres s Crashed [(Remove, s)] (S n) None false
      | Raise => with_rmfail (prepend [(Remove, s)] (unwind F (S n) s e))
      | NoFault => prepend [(Remove, s)] (unwind F (S n) (exec nm Remove s) e)
      end
  | _ => unwind F n s e
  end.

Definition data_exn (o : op) : exn :=
  match o with LoadFail => ELoad | _ => EFormat end.

(** run the main line [ops] from primitive index [n] in state [s] *)
Fixpoint run_ops (nm : namer) (F : nat -> fmode) (ops : list op) (n : nat) (s : st) : result :=
  match ops with
  | [] => mkres s Done [] n None false
  | o :: rest =>
      if visible o then
        match F n with
        | Crash => mkres s Crashed [(o, s)] (S n) None false
        | Raise => with_stop (Some (n, o))
                     (prepend [(o, s)] (handler nm F o (S n) (fail_effect o s) (EInj n)))
        | NoFault => prepend [(o, s)] (run_ops nm F rest (S n) (exec nm o s))
        end
      else with_stop (Some (n, o)) (unwind F n s (data_exn o))
  end.

(** * The op sequences of the two rewriters *)
Inductive kind := Stream | Object.

Record plan := mkplan {
  load_ok : bool;                     (* Object only: representer.load succeeds *)
  items : list (option bytes)         (* Some c: formatted, c written;  None: formatting raises *)
}.

Definition item_op (i : option bytes) : op :=
  match i with Some c => Write c | None => FmtFail end.

Definition load_ops (pl : plan) : list op := if load_ok pl then [] else [LoadFail].

(** in place: out is None, or is_same_file(in, out) *)
Definition inplace_ops (k : kind) (pl : plan) (src : name) : list op :=
  match k with
  | Stream =>
      (* with open(in) as infile:
           outfile = None
           try:
             with NamedTemporaryFile(...) as outfile: outfile.writelines(formatter(infile))
           except Exception:
             if outfile is not None: remove_temp_file(outfile.name)
             raise
         move_temp_file(outfile.name, infile.name) *)
      [OpenRead src; MkTemp src] ++ map item_op (items pl) ++ [CloseW; CloseSrc; Replace src]
  | Object =>
      (* with open(in) as infile: obj = load(infile)
         outfile = None
         try:
           with NamedTemporaryFile(...) as outfile: dump(outfile, formatter(obj))
         except Exception:
           if outfile is not None: remove_temp_file(outfile.name)
           raise
         move_temp_file(outfile.name, infile.name) *)
      [OpenRead src] ++ load_ops pl ++ [CloseSrc; MkTemp src] ++ map item_op (items pl)
        ++ [CloseW; Replace src]
  end.

(** out is a different file: written directly, no temp, no rename *)
Definition direct_ops (k : kind) (pl : plan) (src out : name) : list op :=
  match k with
  | Stream => [OpenRead src; OpenWrite out] ++ map item_op (items pl) ++ [CloseW; CloseSrc]
  | Object => [OpenRead src] ++ load_ops pl ++ [CloseSrc; OpenWrite out]
                ++ map item_op (items pl) ++ [CloseW]
  end.

(** the complete new content, when the plan has one *)
Fixpoint concat_items (l : list (option bytes)) : option bytes :=
  match l with
  | [] => Some ""
  | Some c :: r => match concat_items r with Some b => Some (c ++ b) | None => None end
  | None :: _ => None
  end.

Definition new_of (k : kind) (pl : plan) : option bytes :=
  match k with
  | Stream => concat_items (items pl)
  | Object => if load_ok pl then concat_items (items pl) else None
  end.

(** * files_in_to_out *)
Inductive outmode :=
| NoOut                     (* out not given: edit in place *)
| OutFile (o : name)        (* out names a file *)
| OutDir (d : string).      (* out names a directory (prefix with trailing slash) *)

Definition target (p : name) (m : outmode) : option name :=
  match m with
  | NoOut => None
  | OutFile o => Some o
  | OutDir d => Some (d ++ basename p)
  end.

(** is_same_file.  The model's names are FILES, not spellings: an out path that reaches the in
    file through a symbolic link, a hard link or a '..' spelling is handed to the model as the
    file it denotes (the harness resolves it with os.path.samefile / realpath), so "same file"
    is equality of names here.  A symbolic link itself is an inert entry of the directory. *)
Definition file_ops (k : kind) (pl : plan) (p : name) (m : outmode) : list op :=
  match target p m with
  | None => inplace_ops k pl p
  | Some o => if String.eqb o p then inplace_ops k pl p else direct_ops k pl p o
  end.

Definition xform := bytes -> option plan.   (* None: content outside the harness's table *)

Fixpoint run_files (nm : namer) (F : nat -> fmode) (xf : xform) (k : kind) (m : outmode)
         (paths : list name) (n : nat) (s : st) : result :=
  match paths with
  | [] => mkres s Done [] n None false
  | p :: rest =>
      match lookup p (sd s) with
      | None => run_files nm F xf k m rest n s          (* not is_file(): skipped *)
      | Some old =>
          match xf old with
          | None => mkres s Unsupp [] n None false
          | Some pl =>
              let r := run_ops nm F (file_ops k pl p m) n s in
              match outc r with
              | Done => prepend (hist r) (run_files nm F xf k m rest (next r) (final r))
              | _ => r
              end
          end
      end
  end.

(** the check before the loop: more than one in path but a single out FILE is an error *)
Definition run_step (nm : namer) (F : nat -> fmode) (xf : xform) (k : kind) (m : outmode)
           (paths : list name) (d : dir) : result :=
  match m, paths with
  | OutFile _, _ :: _ :: _ => mkres (init d) (Raised EConfig) [] 0 None false
  | _, _ => run_files nm F xf k m paths 0 (init d)
  end.

(** the directory after the first files of [paths] have been completely rewritten *)
Fixpoint apply_new (xf : xform) (k : kind) (paths : list name) (d : dir) : dir :=
  match paths with
  | [] => d
  | p :: rest =>
      match lookup p d with
      | None => apply_new xf k rest d
      | Some old =>
          match xf old with
          | Some pl =>
              match new_of k pl with
              | Some nw => apply_new xf k rest (dset p nw d)
              | None => apply_new xf k rest d
              end
          | None => apply_new xf k rest d
          end
      end
  end.

(** * A concrete fresh-name supply (for the examples and the correspondence run) *)
Fixpoint maxlen (d : dir) : nat :=
  match d with [] => 0 | (m, _) :: r => Nat.max (String.length m) (maxlen r) end.

Definition default_namer : namer :=
  fun d pre => pre ++ "tmp" ++ repeat_char "_" (S (maxlen d)).

Definition fresh_namer (nm : namer) : Prop := forall d pre, lookup (nm d pre) d = None.

(** * Comparison with an observation of the real code *)
Fixpoint mem (n : name) (l : list name) : bool :=
  match l with [] => false | m :: r => orb (String.eqb n m) (mem n r) end.

Definition canon_name (s : st) (n : name) : name :=
  if mem n (temps s) then dirpart n ++ "<tmp>" else n.

Definition unflushed (s : st) (n : name) : bool :=
  match wh s with
  | Some (t, TClosed) => false
  | Some (t, _) => String.eqb t n
  | None => false
  end.

(** what the model commits to about the directory: names (temp names canonicalised) and the
    bytes of every file except one with unflushed writes *)
Definition view (s : st) : list (name * option bytes) :=
  map (fun e => (canon_name s (fst e), if unflushed s (fst e) then None else Some (snd e))) (sd s).

Definition tag (s : st) (o : op) : string :=
  let w := match wname s with Some t => canon_name s t | None => "?" end in
  match o with
  | OpenRead p => "open-r:" ++ p
  | OpenWrite p => "open-w:" ++ p
  | MkTemp p => "mktemp:" ++ dirpart p
  | Write _ => "write"
  | CloseW => "close-w"
  | CloseSrc => "close-src"
  | Replace d => "replace:" ++ w ++ ">" ++ d
  | Remove => "remove:" ++ w
  | LoadFail => "load-fail"
  | FmtFail => "fmt-fail"
  end.

Definition opt_bytes_ok (m : option bytes) (b : bytes) : bool :=
  match m with None => true | Some x => String.eqb x b end.

Fixpoint find_entry (n : name) (l : list (name * bytes)) : option bytes :=
  match l with
  | [] => None
  | (m, b) :: r => if String.eqb n m then Some b else find_entry n r
  end.

Definition match_view (mv : list (name * option bytes)) (ov : list (name * bytes)) : bool :=
  andb (Nat.eqb (List.length mv) (List.length ov))
       (forallb (fun e => match find_entry (fst e) ov with
                          | Some b => opt_bytes_ok (snd e) b
                          | None => false
                          end) mv).

Fixpoint match_hist (h : list (op * st)) (oh : list (string * list (name * bytes))) : bool :=
  match h, oh with
  | [], [] => true
  | (o, s) :: r, (t, ov) :: r' =>
      andb (andb (String.eqb (tag s o) t) (match_view (view s) ov)) (match_hist r r')
  | _, _ => false
  end.

Definition exn_eqb (a b : exn) : bool :=
  match a, b with
  | EInj x, EInj y => Nat.eqb x y
  | EFormat, EFormat | ELoad, ELoad | EConfig, EConfig => true
  | _, _ => false
  end.

Definition outcome_eqb (a b : outcome) : bool :=
  match a, b with
  | Done, Done | Crashed, Crashed | Unsupp, Unsupp => true
  | Raised x, Raised y => exn_eqb x y
  | _, _ => false
  end.

Fixpoint fault_fun (l : list (nat * fmode)) (n : nat) : fmode :=
  match l with
  | [] => NoFault
  | (k, m) :: r => if Nat.eqb k n then m else fault_fun r n
  end.

Fixpoint table_xf (tbl : list (bytes * plan)) (b : bytes) : option plan :=
  match tbl with
  | [] => None
  | (c, pl) :: r => if String.eqb b c then Some pl else table_xf r b
  end.

(** 0 = the model reproduces the observation, 1 = it does not, 2 = outside the table.
    [oh = None]: only outcome and final directory were observed (a real kill). *)
Definition check (k : kind) (tbl : list (bytes * plan)) (m : outmode) (paths : list name)
           (d : dir) (faults : list (nat * fmode))
           (oh : option (list (string * list (name * bytes))))
           (oo : outcome) (ofinal : list (name * bytes)) : nat :=
  let r := run_step default_namer (fault_fun faults) (table_xf tbl) k m paths d in
  match outc r with
  | Unsupp => 2
  | _ =>
      if andb (andb (outcome_eqb (outc r) oo) (match_view (view (final r)) ofinal))
              (match oh with Some h => match_hist (hist r) h | None => true end)
      then 0 else 1
  end.

(** printable form of a model run, for replay files *)
Definition show (k : kind) (tbl : list (bytes * plan)) (m : outmode) (paths : list name)
           (d : dir) (faults : list (nat * fmode)) :=
  let r := run_step default_namer (fault_fun faults) (table_xf tbl) k m paths d in
  (outc r, map (fun e => (tag (snd e) (fst e), view (snd e))) (hist r), view (final r)).
