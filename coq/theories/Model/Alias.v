(** Model/Alias.v — a heap machine for the aliasing between the run-time context and the
    cached PipelineDefinition / config.vars objects (property C12).

    The engine model (Engine.v) works on VALUES; "the cached definition was changed through
    an alias" is invisible there.  Here objects have identities:

      id    ::= D n            an object of the DEFINITION region (cached pipeline yaml, config.vars);
                               this region persists across runs — it is the cache
              | P n            an object private to ONE run (its own id namespace: [P n] of run A
                               and [P n] of run B are different objects, so allocation is
                               schedule-independent by construction)
      cell  ::= CInt z | CPtr id          what a container slot / a context key holds
                                          (immutable scalars have no identity worth modelling)
      obj   ::= OList cells | ODict (key -> cell)

    [step dh p o] = effect of one abstract operation [o] of a run with private state [p]
    on the definition heap [dh].  The operations are the effects of pypyr's code:

      InjectIn k c     every transfer point "shared definition/config object -> context":
                       Step.set_step_input_context and pypyr.steps.configvars
                       (context.update(copy.deepcopy(..)), commit d9572b0) and
                       Pipeline.new_pipe_and_args handing list(parser_args) of a config shortcut
                       to the context parser (pypyr.parser.list binds it to argList; commit
                       fd90231) — context[k] is a private copy of the shared object c.  Before
                       those commits it WAS the object: that machine is kept as [step_aliasing]
      Unset k          Step.unset_step_input_context: context.pop(k, None)
      SetFmt k t       pypyr.steps.set / contextsetf / the foreach copy: context[k] = format(t)
                       (formatting REBUILDS containers; '{k}' deep-copies context[k] with the
                        formatter's memo; '{k:ff}' and !py k yield THE SAME object)
      CopyRef k k'     pypyr.steps.contextcopy: context[k] = context[k']
      AppendKey k t    pypyr.steps.append with list: k (a context key)
      AppendObj m k t  pypyr.steps.append with list: '{k:ff}' / !py k (the object itself)
      PyAppend k z     pypyr.steps.py  "k.append(z)"
      PySetItem k s z  pypyr.steps.py  "k[s] = z"
      Merge ps         pypyr.steps.contextmerge  (Context.merge: in-place list extend / dict recursion)
      Defaults ps      pypyr.steps.default       (Context.set_defaults)
      BindElem k k' n  foreach: context[k] = n-th element of the (already formatted) list
      SetInt k z       decorator counters (retryCounter)
      Probe            harness probe step: snapshot of the context (by value) onto the trace
      SaveError t      Step.save_error of a failing step whose onError is t: runErrors (created on
                       demand) gets a new entry whose customError is format(t) — a rebuilt copy;
                       a formatting error propagates (the definition's onError is never exposed)
      Raise e          the step's error is not swallowed: the run ends with e
      BindPath k k' p  pypyr.steps.set  k: !py k'[..][..]   (the SAME object found along the
                       subscripts p, e.g. runErrors[-1]['customError']); also the target of
                       pypyr.steps.py  "k'[..][..].append(z)"

    Step bodies' own arguments (set:, append:, contextMerge: ...) are [tree]s, not heap
    objects: the code only ever formats them (a rebuilt copy), so nothing can alias them. *)
From Coq Require Import List String Ascii ZArith Bool Arith.
Import ListNotations.
Open Scope string_scope.
Open Scope list_scope.

Inductive id := D (n : nat) | P (n : nat).
Inductive cell := CInt (z : Z) | CPtr (i : id).
Inductive obj := OList (l : list cell) | ODict (d : list (string * cell)).
Definition heap := list obj.

Inductive rmode := RCopy | RFlat | RPy.        (* '{k}'   '{k:ff}'   !py k *)
Inductive tree :=
| TInt (z : Z)
| TRef (m : rmode) (k : string)
| TList (l : list tree)
| TDict (d : list (string * tree)).

Inductive status := Running | Failed (e : string) | Unsup.

Definition snapshot := list (string * tree).

Record priv := mkpriv {
  ctx : list (string * cell);      (* the run's Context: insertion-ordered *)
  ph : heap;                       (* objects created by this run *)
  st : status;
  trace : list snapshot }.

(* ---------------------------------------------------------------- association lists *)
Fixpoint aget {A} (k : string) (d : list (string * A)) : option A :=
  match d with
  | [] => None
  | (k', v) :: r => if String.eqb k k' then Some v else aget k r
  end.

(* dict.__setitem__: replace in place, else append *)
Fixpoint aset {A} (k : string) (v : A) (d : list (string * A)) : list (string * A) :=
  match d with
  | [] => [(k, v)]
  | (k', v') :: r => if String.eqb k k' then (k', v) :: r else (k', v') :: aset k v r
  end.

Fixpoint adel {A} (k : string) (d : list (string * A)) : list (string * A) :=
  match d with
  | [] => []
  | (k', v') :: r => if String.eqb k k' then adel k r else (k', v') :: adel k r
  end.

(* ---------------------------------------------------------------- heap *)
Definition id_eqb (a b : id) : bool :=
  match a, b with
  | D n, D m => Nat.eqb n m
  | P n, P m => Nat.eqb n m
  | _, _ => false
  end.

Fixpoint upd (n : nat) (o : obj) (h : heap) : heap :=
  match h, n with
  | [], _ => []
  | _ :: r, O => o :: r
  | x :: r, S m => x :: upd m o r
  end.

Definition hget (dh h : heap) (i : id) : option obj :=
  match i with D n => nth_error dh n | P n => nth_error h n end.

(* THE ONLY WRITE: an in-place change of an existing object.  A [D] target changes the
   definition heap. *)
Definition hput (dh h : heap) (i : id) (o : obj) : heap * heap :=
  match i with D n => (upd n o dh, h) | P n => (dh, upd n o h) end.

Definition set_ctx (c : list (string * cell)) (p : priv) := mkpriv c (ph p) (st p) (trace p).
Definition set_ph (h : heap) (p : priv) := mkpriv (ctx p) h (st p) (trace p).
Definition set_st (s : status) (p : priv) := mkpriv (ctx p) (ph p) s (trace p).
Definition fail (e : string) (p : priv) := set_st (Failed e) p.
Definition unsup (p : priv) := set_st Unsup p.
Definition running (p : priv) : bool := match st p with Running => true | _ => false end.

Definition alloc (o : obj) (p : priv) : priv * cell :=
  (set_ph (ph p ++ [o]) p, CPtr (P (List.length (ph p)))).

(* ---------------------------------------------------------------- deep copy = what
   RecursiveFormatter._get_formatted_iterable does to a value without format strings:
   every container is rebuilt (obj.__class__(...)), scalars pass through, and [memo]
   (id(obj) -> copy) makes an object met twice come out as ONE copy. *)
Definition memo := list (id * id).
Fixpoint mfind (i : id) (m : memo) : option id :=
  match m with
  | [] => None
  | (a, b) :: r => if id_eqb i a then Some b else mfind i r
  end.

Section CopyList.
  Context (go : heap -> memo -> cell -> option (heap * memo * cell)).
  Fixpoint copy_cells (l : list cell) (h : heap) (m : memo) : option (heap * memo * list cell) :=
    match l with
    | [] => Some (h, m, [])
    | c :: r =>
      match go h m c with
      | None => None
      | Some (h1, m1, c') =>
        match copy_cells r h1 m1 with
        | None => None
        | Some (h2, m2, cs) => Some (h2, m2, c' :: cs)
        end
      end
    end.
  Fixpoint copy_pairs (l : list (string * cell)) (h : heap) (m : memo)
    : option (heap * memo * list (string * cell)) :=
    match l with
    | [] => Some (h, m, [])
    | (k, c) :: r =>
      match go h m c with
      | None => None
      | Some (h1, m1, c') =>
        match copy_pairs r h1 m1 with
        | None => None
        | Some (h2, m2, cs) => Some (h2, m2, (k, c') :: cs)
        end
      end
    end.
End CopyList.

Fixpoint copy (fuel : nat) (dh : heap) (h : heap) (m : memo) (c : cell)
  : option (heap * memo * cell) :=
  match c with
  | CInt _ => Some (h, m, c)
  | CPtr i =>
    match mfind i m with
    | Some j => Some (h, m, CPtr j)
    | None =>
      match fuel with
      | O => None
      | S f =>
        match hget dh h i with
        | None => None
        | Some (OList l) =>
          match copy_cells (copy f dh) l h m with
          | None => None
          | Some (h1, m1, cs) =>
            Some (h1 ++ [OList cs], (i, P (List.length h1)) :: m1, CPtr (P (List.length h1)))
          end
        | Some (ODict d) =>
          match copy_pairs (copy f dh) d h m with
          | None => None
          | Some (h1, m1, cs) =>
            Some (h1 ++ [ODict cs], (i, P (List.length h1)) :: m1, CPtr (P (List.length h1)))
          end
        end
      end
    end
  end.

(* ---------------------------------------------------------------- formatting a step
   argument (Context.get_formatted_value on a literal from the pipeline yaml) *)
Definition missing_err (m : rmode) : string :=
  match m with RPy => "NameError" | _ => "pypyr.errors.KeyNotInContextError" end.

Section FmtList.
  Context (f : tree -> priv -> priv * cell).
  Fixpoint fmt_cells (l : list tree) (p : priv) : priv * list cell :=
    match l with
    | [] => (p, [])
    | t :: r =>
      let '(p1, c) := f t p in
      if running p1 then let '(p2, cs) := fmt_cells r p1 in (p2, c :: cs) else (p1, [])
    end.
  Fixpoint fmt_pairs (l : list (string * tree)) (p : priv) : priv * list (string * cell) :=
    match l with
    | [] => (p, [])
    | (k, t) :: r =>
      let '(p1, c) := f t p in
      if running p1 then let '(p2, cs) := fmt_pairs r p1 in (p2, (k, c) :: cs) else (p1, [])
    end.
End FmtList.

Fixpoint fmt (fuel : nat) (dh : heap) (t : tree) (p : priv) {struct t} : priv * cell :=
  match t with
  | TInt z => (p, CInt z)
  | TRef m k =>
    match aget k (ctx p) with
    | None => (fail (missing_err m) p, CInt 0)
    | Some c =>
      match m with
      | RCopy =>
        match copy fuel dh (ph p) [] c with
        | Some (h, _, c') => (set_ph h p, c')
        | None => (unsup p, CInt 0)
        end
      | _ => (p, c)                (* the very same object *)
      end
    end
  | TList l =>
    let '(p1, cs) := fmt_cells (fmt fuel dh) l p in
    if running p1 then alloc (OList cs) p1 else (p1, CInt 0)
  | TDict d =>
    let '(p1, cs) := fmt_pairs (fmt fuel dh) d p in
    if running p1 then alloc (ODict cs) p1 else (p1, CInt 0)
  end.

(* ---------------------------------------------------------------- locations: the context
   itself or a dict object — Context.merge / set_defaults recurse over both the same way *)
Inductive loc := LCtx | LObj (i : id).

Definition lget (dh : heap) (p : priv) (l : loc) (k : string) : option cell :=
  match l with
  | LCtx => aget k (ctx p)
  | LObj i => match hget dh (ph p) i with Some (ODict d) => aget k d | _ => None end
  end.

(* current[k] = c *)
Definition lset (l : loc) (k : string) (c : cell) (dh : heap) (p : priv) : heap * priv :=
  match l with
  | LCtx => (dh, set_ctx (aset k c (ctx p)) p)
  | LObj i =>
    match hget dh (ph p) i with
    | Some (ODict d) => let '(dh', h') := hput dh (ph p) i (ODict (aset k c d)) in (dh', set_ph h' p)
    | _ => (dh, unsup p)
    end
  end.

Definition fmt_set (fuel : nat) (l : loc) (k : string) (v : tree) (dh : heap) (p : priv)
  : heap * priv :=
  let '(p1, c) := fmt fuel dh v p in
  if running p1 then lset l k c dh p1 else (dh, p1).

Section SubPairs.
  Context (f : string -> tree -> heap -> priv -> heap * priv).
  Fixpoint sub_pairs (ps : list (string * tree)) (dh : heap) (p : priv) : heap * priv :=
    match ps with
    | [] => (dh, p)
    | (k, v) :: r => let '(dh1, p1) := f k v dh p in sub_pairs r dh1 p1
    end.
End SubPairs.

(* Context.merge's merge_recurse, one (k, v) of add_me against [l] *)
Fixpoint merge_tree (fuel : nat) (l : loc) (k : string) (v : tree) (dh : heap) (p : priv)
  {struct v} : heap * priv :=
  if negb (running p) then (dh, p) else
  match v with
  | TDict sub =>
    match lget dh p l k with
    | Some (CPtr i) =>
      match hget dh (ph p) i with
      | Some (ODict _) =>
        sub_pairs (merge_tree fuel (LObj i)) sub dh p
      | _ => fmt_set fuel l k v dh p
      end
    | _ => fmt_set fuel l k v dh p
    end
  | TList _ =>
    match lget dh p l k with
    | Some (CPtr i) =>
      match hget dh (ph p) i with
      | Some (OList cur) =>
        (* current[k].extend(get_formatted_value(v)) *)
        let '(p1, c) := fmt fuel dh v p in
        if running p1 then
          match c with
          | CPtr j =>
            match hget dh (ph p1) j with
            | Some (OList new) =>
              let '(dh', h') := hput dh (ph p1) i (OList (cur ++ new)) in (dh', set_ph h' p1)
            | _ => (dh, unsup p1)
            end
          | _ => (dh, unsup p1)
          end
        else (dh, p1)
      | _ => fmt_set fuel l k v dh p
      end
    | _ => fmt_set fuel l k v dh p
    end
  | _ => fmt_set fuel l k v dh p
  end.

Definition merge_pairs (fuel : nat) (l : loc) := sub_pairs (merge_tree fuel l).

(* Context.set_defaults' defaults_recurse, one (k, v) *)
Fixpoint defaults_tree (fuel : nat) (l : loc) (k : string) (v : tree) (dh : heap) (p : priv)
  {struct v} : heap * priv :=
  if negb (running p) then (dh, p) else
  match lget dh p l k with
  | None => fmt_set fuel l k v dh p
  | Some c =>
    match v, c with
    | TDict sub, CPtr i =>
      match hget dh (ph p) i with
      | Some (ODict _) =>
        sub_pairs (defaults_tree fuel (LObj i)) sub dh p
      | _ => (dh, p)
      end
    | _, _ => (dh, p)
    end
  end.

Definition defaults_pairs (fuel : nat) (l : loc) := sub_pairs (defaults_tree fuel l).

(* ---------------------------------------------------------------- values *)
(* by value; an object met again on the path from the root is shown as "<cycle>" *)
Fixpoint resolve_at (fuel : nat) (dh h : heap) (path : list id) (c : cell) : tree :=
  match c with
  | CInt z => TInt z
  | CPtr i =>
    if existsb (id_eqb i) path then TRef RCopy "<cycle>" else
    match fuel with
    | O => TRef RCopy "<deep>"
    | S f =>
      match hget dh h i with
      | Some (OList l) => TList (map (resolve_at f dh h (i :: path)) l)
      | Some (ODict d) => TDict (map (fun kc => (fst kc, resolve_at f dh h (i :: path) (snd kc))) d)
      | None => TRef RCopy "<dangling>"
      end
    end
  end.
Definition resolve (fuel : nat) (dh h : heap) (c : cell) : tree := resolve_at fuel dh h [] c.

Definition hidden (k : string) : bool :=
  match k with String "$"%char _ => true | _ => false end.

Definition snap (fuel : nat) (dh : heap) (p : priv) : snapshot :=
  map (fun kc => (fst kc, resolve fuel dh (ph p) (snd kc)))
      (filter (fun kc => negb (hidden (fst kc))) (ctx p)).

(* ---------------------------------------------------------------- operations *)
(* TRANSFER POINTS: the places in pypyr's source at which a shared, cached object (pipeline
   definition, config.vars, config.shortcuts) is handed towards a run's context, and the copy
   DISCIPLINE applied there.  tools/py2coq_c12.py regenerates the table point -> discipline
   from the current source (Gen/GenC12.v); [model_discipline] is what this model assumes;
   Proofs/GenC12Proofs.v proves them equal. *)
Inductive tpoint :=
| TPIn                   (* Step.set_step_input_context: in -> context.update *)
| TPConfigVars           (* pypyr.steps.configvars: config.vars -> context.update *)
| TPShortcutArgs         (* Pipeline.new_pipe_and_args: shortcut args -> dict_in *)
| TPShortcutParserArgs   (* Pipeline.new_pipe_and_args: shortcut parser_args -> context_args *)
| TPOnError              (* Step.save_error: onError -> runErrors[n]['customError'] *)
| TPForeach              (* Step.foreach_loop: foreach items -> context['i'] *)
| TPPypeArgs             (* pypyr.steps.pype get_arguments: pype.args -> child / parent context *)
| TPFormat.              (* Context.get_formatted_value -> RecursiveFormatter.vformat ->
                            _get_formatted_iterable: a container literal of the definition *)
Inductive discipline :=
| ByRef                  (* the shared object itself *)
| FreshList              (* list(x) / x + y: a new list, the elements by reference *)
| DeepCopy               (* copy.deepcopy *)
| Rebuilt.               (* formatting: every container rebuilt *)

Definition model_discipline (tp : tpoint) : discipline :=
  match tp with
  | TPIn | TPConfigVars | TPShortcutArgs => DeepCopy
  | TPShortcutParserArgs => FreshList
  | TPOnError | TPForeach | TPPypeArgs | TPFormat => Rebuilt
  end.

(* a python subscript: x[-1] or x['s'] *)
Inductive sel := SLast | SKey (s : string).

Inductive op :=
| InjectIn (tp : tpoint) (k : string) (c : cell)
| Unset (k : string)
| SetFmt (k : string) (t : tree)
| CopyRef (k k' : string)
| AppendKey (k : string) (t : tree)
| AppendObj (m : rmode) (k : string) (t : tree)
| PyAppend (k : string) (z : Z)
| PySetItem (k s : string) (z : Z)
| Merge (ps : list (string * tree))
| Defaults (ps : list (string * tree))
| BindElem (k k' : string) (n : nat)
| SetInt (k : string) (z : Z)
| Probe
| SaveError (t : tree)
| Raise (e : string)
| BindPath (k k' : string) (path : list sel).

Definition FUEL : nat := 40.

Definition truthy (dh : heap) (p : priv) (c : cell) : option bool :=
  match c with
  | CInt z => Some (negb (Z.eqb z 0))
  | CPtr i =>
    match hget dh (ph p) i with
    | Some (OList []) | Some (ODict []) => Some false
    | Some _ => Some true
    | None => None
    end
  end.

(* lst.append(a) on whatever [c] is *)
Definition append_to (dh : heap) (p : priv) (c : cell) (a : cell) : heap * priv :=
  match c with
  | CInt _ => (dh, fail "AttributeError" p)
  | CPtr i =>
    match hget dh (ph p) i with
    | Some (OList l) => let '(dh', h') := hput dh (ph p) i (OList (l ++ [a])) in (dh', set_ph h' p)
    | Some (ODict _) => (dh, fail "AttributeError" p)
    | None => (dh, unsup p)
    end
  end.

Definition bind_new_list (k : string) (a : cell) (p : priv) : priv :=
  let '(p1, c) := alloc (OList [a]) p in set_ctx (aset k c (ctx p1)) p1.

(* HISTORICAL: the machine as the code was before the repair (pypyr commit d9572b0): InjectIn
   put the definition's own object into the context.  Kept (a) as the witness of why the repair
   was needed (Props/C12.v, Example C12_why_the_repair_was_needed) and (b) because [step] below
   is this machine with a different InjectIn.  NOT the model the check uses. *)
Fixpoint walk (dh h : heap) (c : cell) (path : list sel) : cell + string :=
  match path with
  | [] => inl c
  | s :: rest =>
    match c with
    | CInt _ => inr "TypeError"
    | CPtr i =>
      match hget dh h i, s with
      | Some (OList l), SLast =>
        match nth_error l (List.length l - 1) with
        | Some c' => walk dh h c' rest
        | None => inr "IndexError"
        end
      | Some (OList _), SKey _ => inr "TypeError"
      | Some (ODict d), SKey k =>
        match aget k d with
        | Some c' => walk dh h c' rest
        | None => inr "KeyError"
        end
      | Some (ODict _), SLast => inr "KeyError"
      | None, _ => inr "<dangling>"
      end
    end
  end.

Definition step_aliasing (dh : heap) (p : priv) (o : op) : heap * priv :=
  if negb (running p) then (dh, p) else
  match o with
  | InjectIn _ k c => (dh, set_ctx (aset k c (ctx p)) p)
  | Unset k => (dh, set_ctx (adel k (ctx p)) p)
  | SetFmt k t => fmt_set FUEL LCtx k t dh p
  | CopyRef k k' =>
    match aget k' (ctx p) with
    | Some c => (dh, set_ctx (aset k c (ctx p)) p)
    | None => (dh, fail "pypyr.errors.KeyNotInContextError" p)
    end
  | AppendKey k t =>
    (* step_input = get_formatted('append'); existing = context.get(k);
       if existing: existing.append(add_me) else: context[k] = [add_me] *)
    let '(p1, a) := fmt FUEL dh t p in
    if running p1 then
      match aget k (ctx p1) with
      | None => (dh, bind_new_list k a p1)
      | Some c =>
        match truthy dh p1 c with
        | Some true => append_to dh p1 c a
        | Some false => (dh, bind_new_list k a p1)
        | None => (dh, unsup p1)
        end
      end
    else (dh, p1)
  | AppendObj m k t =>
    (* list: is formatted first ('{k:ff}' / !py k -> the object), then addMe *)
    match aget k (ctx p) with
    | None => (dh, fail (missing_err m) p)
    | Some c =>
      let '(p1, a) := fmt FUEL dh t p in
      if running p1 then
        match truthy dh p1 c with
        | Some true => append_to dh p1 c a
        | Some false => (dh, fail "pypyr.errors.KeyInContextHasNoValueError" p1)
        | None => (dh, unsup p1)
        end
      else (dh, p1)
    end
  | PyAppend k z =>
    match aget k (ctx p) with
    | None => (dh, fail "NameError" p)
    | Some c => append_to dh p c (CInt z)
    end
  | PySetItem k s z =>
    match aget k (ctx p) with
    | None => (dh, fail "NameError" p)
    | Some (CInt _) => (dh, fail "TypeError" p)
    | Some (CPtr i) =>
      match hget dh (ph p) i with
      | Some (ODict d) => let '(dh', h') := hput dh (ph p) i (ODict (aset s (CInt z) d)) in (dh', set_ph h' p)
      | Some (OList _) => (dh, fail "TypeError" p)
      | None => (dh, unsup p)
      end
    end
  | Merge ps => merge_pairs FUEL LCtx ps dh p
  | Defaults ps => defaults_pairs FUEL LCtx ps dh p
  | BindElem k k' n =>
    match aget k' (ctx p) with
    | Some (CPtr i) =>
      match hget dh (ph p) i with
      | Some (OList l) =>
        match nth_error l n with
        | Some c => (dh, set_ctx (aset k c (ctx p)) p)
        | None => (dh, unsup p)
        end
      | _ => (dh, unsup p)
      end
    | _ => (dh, unsup p)
    end
  | SetInt k z => (dh, set_ctx (aset k (CInt z) (ctx p)) p)
  | Probe => (dh, mkpriv (ctx p) (ph p) (st p) (trace p ++ [snap FUEL dh p]))
  | SaveError t =>
    (* failure = {.., 'customError': get_formatted_value(on_error), ..};
       context.setdefault('runErrors', []).append(failure) *)
    let '(p1, c) := fmt FUEL dh t p in
    if running p1 then
      let '(p2, e) := alloc (ODict [("customError", c)]) p1 in
      match aget "runErrors" (ctx p2) with
      | None => (dh, bind_new_list "runErrors" e p2)
      | Some r => append_to dh p2 r e
      end
    else (dh, p1)
  | Raise e => (dh, fail e p)
  | BindPath k k' path =>
    match aget k' (ctx p) with
    | None => (dh, fail "NameError" p)
    | Some c =>
      match walk dh (ph p) c path with
      | inl c' => (dh, set_ctx (aset k c' (ctx p)) p)
      | inr e => (dh, fail e p)
      end
    end
  end.

(* what the context receives from the shared cell [c] under discipline [d] *)
Definition scalar_cell (c : cell) : bool := match c with CInt _ => true | CPtr _ => false end.

Definition inject (fuel : nat) (d : discipline) (dh : heap) (p : priv) (k : string) (c : cell) : heap * priv :=
  match d with
  | ByRef => (dh, set_ctx (aset k c (ctx p)) p)
  | DeepCopy | Rebuilt =>
    match copy fuel dh (ph p) [] c with
    | Some (h, _, c') => (dh, set_ctx (aset k c' (ctx p)) (set_ph h p))
    | None => (dh, unsup p)
    end
  | FreshList =>
    (* list(parser_args): a new list object; its elements (strings, by contract of a
       command line) are immutable - anything else is outside the model *)
    match c with
    | CPtr i =>
      match hget dh (ph p) i with
      | Some (OList l) =>
        if forallb scalar_cell l
        then let '(p1, c') := alloc (OList l) p in (dh, set_ctx (aset k c' (ctx p1)) p1)
        else (dh, unsup p)
      | _ => (dh, unsup p)
      end
    | CInt _ => (dh, unsup p)
    end
  end.

(* the machine for a given table transfer point -> discipline *)
Definition step_of (tbl : tpoint -> discipline) (dh : heap) (p : priv) (o : op) : heap * priv :=
  match o with
  | InjectIn tp k c => if negb (running p) then (dh, p) else inject FUEL (tbl tp) dh p k c
  | _ => step_aliasing dh p o
  end.

(* THE MODEL: the machine with the disciplines of the current code - `in` and config.vars are
   deep-copied (commit d9572b0), a shortcut's parser_args are copied into a new list (fd90231). *)
Definition step : heap -> priv -> op -> heap * priv := step_of model_discipline.

Fixpoint run (dh : heap) (p : priv) (ops : list op) : heap * priv :=
  match ops with
  | [] => (dh, p)
  | o :: r => let '(dh1, p1) := step dh p o in run dh1 p1 r
  end.

(* ---------------------------------------------------------------- a run of a pipeline:
   a fresh Context built from the caller's dict (its objects are the run's own) *)
Definition empty_priv : priv := mkpriv [] [] Running [].

Fixpoint init_ctx (kvs : list (string * tree)) (p : priv) : priv :=
  match kvs with
  | [] => p
  | (k, t) :: r =>
    if negb (running p) then p else
    let '(p1, c) := fmt FUEL [] t p in
    init_ctx r (if running p1 then set_ctx (aset k c (ctx p1)) p1 else p1)
  end.

Record runspec := mkrun { r_init : list (string * tree); r_ops : list op }.

Definition start (r : runspec) : priv := init_ctx (r_init r) empty_priv.

(* what a caller can see of a finished run *)
Record result := mkres { o_status : status; o_trace : list snapshot; o_final : snapshot }.
Definition result_of (dh : heap) (p : priv) : result := mkres (st p) (trace p) (snap FUEL dh p).

(* End of a run.  If the run stored one of ITS objects into a definition object, that object
   outlives the run's context: the run's heap is then adopted by the definition region
   ([P n] becomes [D (|dh| + n)]).  A run that left no such pointer leaves [dh] as it is. *)
Definition cell_has_P (c : cell) : bool := match c with CPtr (P _) => true | _ => false end.
Definition obj_has_P (o : obj) : bool :=
  match o with
  | OList l => existsb cell_has_P l
  | ODict d => existsb (fun kc => cell_has_P (snd kc)) d
  end.
Definition promote_cell (off : nat) (c : cell) : cell :=
  match c with CPtr (P n) => CPtr (D (off + n)) | _ => c end.
Definition promote_obj (off : nat) (o : obj) : obj :=
  match o with
  | OList l => OList (map (promote_cell off) l)
  | ODict d => ODict (map (fun kc => (fst kc, promote_cell off (snd kc))) d)
  end.
Definition finish (dh h : heap) : heap :=
  if existsb obj_has_P dh then map (promote_obj (List.length dh)) (dh ++ h) else dh.

Definition run1 (dh : heap) (r : runspec) : heap * result :=
  let '(dh1, p1) := run dh (start r) (r_ops r) in
  (finish dh1 (ph p1), result_of dh1 p1).

(* a history: runs one after the other in one process; the definition heap persists *)
Fixpoint history (dh : heap) (rs : list runspec) : heap * list result :=
  match rs with
  | [] => (dh, [])
  | r :: rest =>
    let '(dh1, out) := run1 dh r in
    let '(dh2, outs) := history dh1 rest in
    (dh2, out :: outs)
  end.

(* ---------------------------------------------------------------- loading: the yaml
   loader allocates the definition (post-order); [roots] are the cells handed to InjectIn *)
Section DallocList.
  Context (f : tree -> heap -> heap * cell).
  Fixpoint dalloc_cells (l : list tree) (dh : heap) : heap * list cell :=
    match l with
    | [] => (dh, [])
    | t :: r => let '(dh1, c) := f t dh in let '(dh2, cs) := dalloc_cells r dh1 in (dh2, c :: cs)
    end.
  Fixpoint dalloc_pairs (l : list (string * tree)) (dh : heap) : heap * list (string * cell) :=
    match l with
    | [] => (dh, [])
    | (k, t) :: r => let '(dh1, c) := f t dh in let '(dh2, cs) := dalloc_pairs r dh1 in (dh2, (k, c) :: cs)
    end.
End DallocList.

Fixpoint dalloc (t : tree) (dh : heap) {struct t} : heap * cell :=
  match t with
  | TInt z => (dh, CInt z)
  | TRef _ _ => (dh, CInt 0)          (* data values are reference-free; not generated *)
  | TList l =>
    let '(dh1, cs) := dalloc_cells dalloc l dh in
    (dh1 ++ [OList cs], CPtr (D (List.length dh1)))
  | TDict d =>
    let '(dh1, cs) := dalloc_pairs dalloc d dh in
    (dh1 ++ [ODict cs], CPtr (D (List.length dh1)))
  end.

Fixpoint load (ts : list tree) (dh : heap) : heap * list cell :=
  match ts with
  | [] => (dh, [])
  | t :: r => let '(dh1, c) := dalloc t dh in let '(dh2, cs) := load r dh1 in (dh2, c :: cs)
  end.

(* ---------------------------------------------------------------- correspondence *)
Definition rmode_eqb (a b : rmode) : bool :=
  match a, b with RCopy, RCopy | RFlat, RFlat | RPy, RPy => true | _, _ => false end.

Fixpoint tree_eqb (a b : tree) {struct a} : bool :=
  match a, b with
  | TInt x, TInt y => Z.eqb x y
  | TRef m k, TRef m' k' => rmode_eqb m m' && String.eqb k k'
  | TList l, TList l' =>
    (fix go (l l' : list tree) : bool :=
       match l, l' with
       | [], [] => true
       | x :: r, y :: r' => tree_eqb x y && go r r'
       | _, _ => false
       end) l l'
  | TDict d, TDict d' =>
    (fix go (l l' : list (string * tree)) : bool :=
       match l, l' with
       | [], [] => true
       | (k, x) :: r, (k', y) :: r' => String.eqb k k' && tree_eqb x y && go r r'
       | _, _ => false
       end) d d'
  | _, _ => false
  end.

Fixpoint list_eqb {A B} (e : A -> B -> bool) (l : list A) (l' : list B) : bool :=
  match l, l' with
  | [], [] => true
  | x :: r, y :: r' => e x y && list_eqb e r r'
  | _, _ => false
  end.

Definition snap_eqb (a b : snapshot) : bool :=
  list_eqb (fun x y => String.eqb (fst x) (fst y) && tree_eqb (snd x) (snd y)) a b.

(* observed outcome: None = completed, Some name = error class name *)
Definition status_matches (s : status) (o : option string) : bool :=
  match s, o with
  | Running, None => true
  | Failed e, Some e' => String.eqb e e'
  | _, _ => false
  end.

Definition is_unsup (s : status) : bool := match s with Unsup => true | _ => false end.

(* the observation of one run: outcome, trace, final context, and the value of every
   definition root AFTER the run *)
Definition obs := (option string * list snapshot * snapshot * list tree)%type.

(* ---------------------------------------------------------------- the discipline (proof
   device, and the exact condition under which the HISTORICAL machine was safe): a
   syntactic (decidable) check of an op list.  [T] = keys that MAY be bound to a definition
   object (bound by InjectIn, or by a by-reference copy of such a key).  A run is
   disciplined when no in-place operation (append / py / contextmerge / default) targets a
   key in [T], and no value obtained BY REFERENCE from a key in [T] is stored inside a
   container (where the static check would lose track of it). *)
Definition tainted (T : list string) (k : string) : bool := existsb (String.eqb k) T.
Definition taint (k : string) (T : list string) : list string := if tainted T k then T else k :: T.
Definition untaint (k : string) (T : list string) : list string :=
  filter (fun x => negb (String.eqb k x)) T.

Fixpoint byref_tainted (T : list string) (t : tree) {struct t} : bool :=
  match t with
  | TInt _ => false
  | TRef RCopy _ => false
  | TRef _ k => tainted T k
  | TList l => existsb (byref_tainted T) l
  | TDict d => existsb (fun kt => byref_tainted T (snd kt)) d
  end.

(* context[k] = format(t) *)
Definition bind_taint (T : list string) (k : string) (t : tree) : option (list string) :=
  match t with
  | TRef RCopy _ => Some (untaint k T)
  | TRef _ k' => Some (if tainted T k' then taint k T else untaint k T)
  | _ => if byref_tainted T t then None else Some (untaint k T)
  end.

Definition merge_taint (T : list string) (kv : string * tree) : option (list string) :=
  match snd kv with
  | TRef _ _ => bind_taint T (fst kv) (snd kv)
  | v => if tainted T (fst kv) || byref_tainted T v then None else Some T
  end.

Definition defaults_taint (T : list string) (kv : string * tree) : option (list string) :=
  if tainted T (fst kv) then None else
  match snd kv with
  | TRef RCopy _ => Some T
  | TRef _ k' => Some (if tainted T k' then taint (fst kv) T else T)
  | v => if byref_tainted T v then None else Some T
  end.

Fixpoint fold_taint {A} (f : list string -> A -> option (list string)) (T : list string) (l : list A)
  : option (list string) :=
  match l with
  | [] => Some T
  | x :: r => match f T x with Some T1 => fold_taint f T1 r | None => None end
  end.

Definition check_op (T : list string) (o : op) : option (list string) :=
  match o with
  | InjectIn _ k _ => Some (taint k T)
  | Unset k => Some (untaint k T)
  | SetFmt k t => bind_taint T k t
  | CopyRef k k' | BindElem k k' _ => Some (if tainted T k' then taint k T else untaint k T)
  | AppendKey k t | AppendObj _ k t => if tainted T k || byref_tainted T t then None else Some T
  | PyAppend k _ | PySetItem k _ _ => if tainted T k then None else Some T
  | Merge ps => fold_taint merge_taint T ps
  | Defaults ps => fold_taint defaults_taint T ps
  | SetInt k _ => Some (untaint k T)
  | Probe | Raise _ => Some T
  | SaveError t => if tainted T "runErrors" || byref_tainted T t then None else Some T
  | BindPath k k' _ => Some (if tainted T k' then taint k T else untaint k T)
  end.

Definition disciplined (ops : list op) : bool :=
  match fold_taint check_op [] ops with Some _ => true | None => false end.

(* the definition heap holds no pointer into a (finished) run's heap *)
Definition closed (dh : heap) : bool := negb (existsb obj_has_P dh).

(* ---------------------------------------------------------------- interleaving, for ANY
   machine with a shared part S and per-thread private parts P *)
Section Interleave.
  Context {S Pv O : Type} (stp : S -> Pv -> O -> S * Pv).

  (* thread alone, shared part as it evolves *)
  Fixpoint exec (s : S) (p : Pv) (ops : list O) : S * Pv :=
    match ops with
    | [] => (s, p)
    | o :: r => let '(s1, p1) := stp s p o in exec s1 p1 r
    end.

  (* every step of the thread, run alone from [s], leaves the shared part equal to [s] *)
  Fixpoint read_only (s : S) (p : Pv) (ops : list O) : Prop :=
    match ops with
    | [] => True
    | o :: r => fst (stp s p o) = s /\ read_only s (snd (stp s p o)) r
    end.

  Definition set_thread (t : nat) (p : Pv) (ps : nat -> Pv) : nat -> Pv :=
    fun x => if Nat.eqb x t then p else ps x.

  (* a schedule = an arbitrary merge of the threads' op lists: (thread id, its next op) *)
  Fixpoint sched_run (s : S) (ps : nat -> Pv) (sch : list (nat * O)) : S * (nat -> Pv) :=
    match sch with
    | [] => (s, ps)
    | (t, o) :: r => let '(s1, p1) := stp s (ps t) o in sched_run s1 (set_thread t p1 ps) r
    end.

  Definition proj (t : nat) (sch : list (nat * O)) : list O :=
    map snd (filter (fun x => Nat.eqb (fst x) t) sch).
End Interleave.

(* ---------------------------------------------------------------- correspondence for the
   threaded tier: two runs on real threads, one REAL step (= a block of operations) at a time
   in the order a schedule of thread ids dictates *)
Fixpoint build_sched (steps : nat -> list (list op)) (s : list nat) : list (nat * op) :=
  match s with
  | [] => []
  | t :: r =>
    match steps t with
    | [] => build_sched steps r
    | ops :: rest =>
      map (fun o => (t, o)) ops ++ build_sched (fun x => if Nat.eqb x t then rest else steps x) r
    end
  end.

Definition thread := (list (string * tree) * list (list op))%type.

(* ---------------------------------------------------------------- correspondence; [stp] is
   [step] (the check) or [step_aliasing] (only to replay a case against the pre-repair code) *)
Section Corr.
  Context (stp : heap -> priv -> op -> heap * priv).

  Definition run1_with (dh : heap) (r : runspec) : heap * result :=
    let '(dh1, p1) := exec stp dh (start r) (r_ops r) in
    (finish dh1 (ph p1), result_of dh1 p1).

  Fixpoint model_obs (dh : heap) (roots : list cell) (rs : list runspec)
    : heap * list (result * list tree) :=
    match rs with
    | [] => (dh, [])
    | r :: rest =>
      let '(dh1, out) := run1_with dh r in
      let '(dh2, outs) := model_obs dh1 roots rest in
      (dh2, (out, map (resolve FUEL dh1 []) roots) :: outs)
    end.

  Definition obs_matches (m : result * list tree) (o : obs) : bool :=
    let '(out, tr, fin, defs) := o in
    status_matches (o_status (fst m)) out && list_eqb snap_eqb (o_trace (fst m)) tr
    && snap_eqb (o_final (fst m)) fin && list_eqb tree_eqb (snd m) defs.

  (* 0 agree / 1 disagree / 2 outside the model *)
  Definition c12_check (defs : list tree) (mk : (nat -> cell) -> list runspec) (observed : list obs) : nat :=
    let '(dh, roots) := load defs [] in
    let ms := snd (model_obs dh roots (mk (fun n => nth n roots (CInt 0)))) in
    if existsb (fun m => is_unsup (o_status (fst m))) ms then 2%nat
    else if list_eqb (fun m o => obs_matches m o) ms observed then 0%nat else 1%nat.

  Definition c12_show (defs : list tree) (mk : (nat -> cell) -> list runspec) :=
    let '(dh, roots) := load defs [] in
    snd (model_obs dh roots (mk (fun n => nth n roots (CInt 0)))).

  Fixpoint threads_obs (dh : heap) (roots : list cell) (ths : list thread) (scheds : list (list nat))
    : list (heap * (result * list tree) * (result * list tree)) :=
    match scheds with
    | [] => []
    | s :: rest =>
      let ps := fun t => init_ctx (fst (nth t ths ([], []))) empty_priv in
      let '(dh2, ps2) := sched_run stp dh ps (build_sched (fun t => snd (nth t ths ([], []))) s) in
      let defs := map (resolve FUEL dh2 []) roots in
      (dh2, (result_of dh2 (ps2 0%nat), defs), (result_of dh2 (ps2 1%nat), defs)) :: threads_obs dh2 roots ths rest
    end.

  Definition c12_threads_show (defs : list tree) (mk : (nat -> cell) -> list thread) (scheds : list (list nat)) :=
    let '(dh, roots) := load defs [] in
    let ths := mk (fun n => nth n roots (CInt 0)) in
    let specs := map (fun th : thread => mkrun (fst th) (List.concat (snd th))) ths in
    let '(dh1, ms) := model_obs dh roots specs in
    (ms, map (fun x => (snd (fst x), snd x)) (threads_obs dh1 roots ths scheds)).

  Definition c12_threads_check (defs : list tree) (mk : (nat -> cell) -> list thread) (scheds : list (list nat))
    (solo : list obs) (thr : list (obs * obs)) : nat :=
    let '(dh, roots) := load defs [] in
    let ths := mk (fun n => nth n roots (CInt 0)) in
    let specs := map (fun th : thread => mkrun (fst th) (List.concat (snd th))) ths in
    let '(dh1, ms) := model_obs dh roots specs in
    let ts := threads_obs dh1 roots ths scheds in
    if existsb (fun m => is_unsup (o_status (fst m))) ms
       || existsb (fun x => negb (closed (fst (fst x))) || is_unsup (o_status (fst (snd (fst x))))
                            || is_unsup (o_status (fst (snd x)))) ts
    then 2%nat
    else if list_eqb (fun m o => obs_matches m o) ms solo
            && list_eqb (fun x (o : obs * obs) => obs_matches (snd (fst x)) (fst o) && obs_matches (snd x) (snd o)) ts thr
    then 0%nat else 1%nat.
End Corr.
