(** Model/Alias.v — placeholder, to be written. *)
