(** Model/Merge.v — pypyr.context.Context.merge / Context.set_defaults over [val] trees.

    Mirrors, function by function:
      Context.merge.merge_recurse            -> [merge_item], [merge_items], [merge_rec]
      Context.set_defaults.defaults_recurse  -> [defaults_item], [defaults_items], [defaults_rec]
      types.are_all_this_type(T, cur, v)     -> the [match ev, v with ...] tables
      pypyr.steps.contextmerge / default     -> [step_run]

    What is threaded.  Python formats every incoming key and value against [self], the
    WHOLE context as it is at that moment, while [current] is a (nested) dict object inside
    it that is mutated in place.  So the model threads the whole root and addresses
    [current] by a cursor: the path of formatted keys from the root.  Every write is an
    in-place mutation of the container object found at a path ([obj_write]).

    Object sharing.  A [val] tree cannot say that two paths hold the SAME Python object, yet
    the formatter can hand back a context object by reference ([{k:ff}], [!py k]).  When such
    a value is stored and a later incoming key formats to the same key, the in-place
    mutation is visible through both paths.  The model tracks this as far as it can and
    refuses the rest:
      - one alias link (new path ~ top-level source key) is tracked exactly: in-place
        mutations are mirrored to the other end;
      - any other possible sharing sets [Tainted]; after that every in-place mutation of a
        non-root object is [SUnsup] (outside the model), root-level assignments stay exact.
    [s_sh s = NoShare] means no by-reference value has been stored so far.

    Every function returns its state whatever the status, so an error half-way through
    reports the partially merged context, as the real code leaves it. *)
From PV Require Export Format.
Open Scope string_scope.

Definition path := list val.

(** * Paths through nested mappings *)
Fixpoint lookup_path (v : val) (p : path) : option val :=
  match p with
  | [] => Some v
  | k :: r =>
      match v with
      | VDict d => match dict_get k d with Some x => lookup_path x r | None => None end
      | _ => None
      end
  end.

(** apply [f] to the value found at [p]; nothing happens when [p] does not exist *)
Fixpoint update_at (v : val) (p : path) (f : val -> val) : val :=
  match p with
  | [] => f v
  | k :: r =>
      match v with
      | VDict d =>
          match dict_get k d with
          | Some x => VDict (dict_set k (update_at x r f) d)
          | None => v
          end
      | _ => v
      end
  end.

Definition upd (root : dict) (p : path) (f : val -> val) : dict :=
  match update_at (VDict root) p f with VDict d => d | _ => root end.

(** Python [d[k] = x] on the dict object [v] *)
Definition vdict_set (k x : val) (v : val) : val :=
  match v with VDict d => VDict (dict_set k x d) | _ => v end.

(** Python [l.extend(xs)] on the list object [v] *)
Definition vlist_extend (xs : list val) (v : val) : val :=
  match v with VList l => VList (l ++ xs)%list | _ => v end.

Fixpoint strip_prefix (a p : path) : option path :=
  match a, p with
  | [], _ => Some p
  | x :: a', y :: p' => if val_eqb x y then strip_prefix a' p' else None
  | _ :: _, [] => None
  end.

Definition is_prefix (a p : path) : bool :=
  match strip_prefix a p with Some _ => true | None => false end.

(** * State *)
Inductive status := SOk | SErr (name msg : string) | SUnsup.

(** monotone: NoShare -> Linked _ -> Tainted *)
Inductive sharing :=
| NoShare                              (* no by-reference value stored so far *)
| Linked (l : option (path * path))    (* at most one live alias: (new path, source path) *)
| Tainted.                             (* sharing the tree model cannot follow *)

Record st := mkst {
  s_root : dict;          (* the whole context *)
  s_tr : list path;       (* ghost: every path written so far, newest first *)
  s_sh : sharing
}.

Definition out := (status * st)%type.

Definition init (root : dict) : st := mkst root [] NoShare.

Definition sh_link (sh : sharing) : option (path * path) :=
  match sh with Linked l => l | _ => None end.
Definition sh_taint (sh : sharing) : bool :=
  match sh with Tainted => true | _ => false end.

(** the other path under which the object at [a] is reachable *)
Definition mirror (l : option (path * path)) (a : path) : option path :=
  match l with
  | None => None
  | Some (u, v) =>
      match strip_prefix u a with
      | Some r => Some (v ++ r)%list
      | None => match strip_prefix v a with Some r => Some (u ++ r)%list | None => None end
      end
  end.

Definition under (prot : option path) (a : path) : bool :=
  match prot with Some pp => is_prefix pp a | None => false end.

(** in-place mutation [f] of the container object at path [a].
    [prot]: path of an object that must not be mutated (the incoming mapping when it lives
    inside the context, as in the steps) — doing so is outside the model. *)
Definition obj_write (prot : option path) (s : st) (a : path) (f : val -> val) : option st :=
  if sh_taint (s_sh s) && negb (is_nil a) then None
  else if under prot a then None
  else
    let r1 := upd (s_root s) a f in
    match mirror (sh_link (s_sh s)) a with
    | Some b => if under prot b then None else Some (mkst (upd r1 b f) (s_tr s) (s_sh s))
    | None => Some (mkst r1 (s_tr s) (s_sh s))
    end.

(** what storing a freshly formatted value introduces *)
Inductive share := ShNone | ShLink (q : path) | ShTaint.

Definition drop_link (sh : sharing) (w : path) : sharing :=
  match sh with
  | Linked (Some (u, v)) => if is_prefix w u || is_prefix w v then Linked None else sh
  | _ => sh
  end.

(** [nested]: the object written into is not the root.  An untracked by-reference value may
    be (or contain) that very object — a cyclic structure — so it is only accepted at root
    level, where the written object (the context itself) cannot be referred to. *)
Definition add_share (sh : sharing) (nested : bool) (w : path) (x : share) : option sharing :=
  match x with
  | ShNone => Some sh
  | ShTaint => if nested then None else Some Tainted
  | ShLink q =>
      if is_prefix w q || is_prefix q w then None   (* self-assignment / cyclic structure *)
      else match sh with
           | NoShare | Linked None => Some (Linked (Some (w, q)))
           | _ => Some Tainted
           end
  end.

(** Python [current[k] = x] where [current] is the dict object at [a] *)
Definition assign (prot : option path) (s : st) (a : path) (k x : val) (x_share : share) : out :=
  let w := (a ++ [k])%list in
  match obj_write prot s a (vdict_set k x) with
  | None => (SUnsup, s)
  | Some s1 =>
      match add_share (drop_link (s_sh s1) w) (negb (is_nil a)) w x_share with
      | None => (SUnsup, s)
      | Some sh' => (SOk, mkst (s_root s1) (w :: s_tr s1) sh')
      end
  end.

(** Python [current[k].extend(xs)]: the list object at [w] is mutated in place *)
Definition extend (prot : option path) (s : st) (w : path) (xs : list val) (x_share : share) : out :=
  match obj_write prot s w (vlist_extend xs) with
  | None => (SUnsup, s)
  | Some s1 =>
      match add_share (s_sh s1) true w x_share with
      | None => (SUnsup, s)
      | Some sh' => (SOk, mkst (s_root s1) (w :: s_tr s1) sh')
      end
  end.

(** * Which formatted values may be context objects handed back by reference *)
Fixpoint has_ff (s : string) : bool :=
  match s with
  | EmptyString => false
  | String c r =>
      match r with
      | String d _ => (Ascii.eqb c "f"%char && Ascii.eqb d "f"%char) || has_ff r
      | EmptyString => false
      end
  end.

Fixpoint mentions_name (e : pyexpr) : bool :=
  let fix any (l : list pyexpr) : bool :=
    match l with [] => false | x :: r => mentions_name x || any r end in
  match e with
  | EName _ => true
  | EList l | ETuple l => any l
  | ECmp _ a b | EAnd a b | EOr a b | EAdd a b | ESub a b | EMul a b | EIn a b | EIndex a b
  | ELambdaCall _ a b | EListComp a _ b => mentions_name a || mentions_name b
  | ENot a | ELen a | EWalrus _ a => mentions_name a
  | _ => false
  end.

(** could formatting something that reaches [v] return an object by reference?
    ([:ff] somewhere in a string, or a [!py] expression that reads a name) *)
Fixpoint risky (v : val) : bool :=
  let fix any (l : list val) : bool :=
    match l with [] => false | x :: r => risky x || any r end in
  let fix anyd (l : list (val * val)) : bool :=
    match l with [] => false | (k, x) :: r => risky k || risky x || anyd r end in
  match v with
  | VStr s | VSic s | VBytes s => has_ff s
  | VPy s e => has_ff s || mentions_name e
  | VExn _ m _ => has_ff m
  | VList l | VTuple l | VSet l => any l
  | VDict l => anyd l
  | VJsonify x => risky x
  | _ => false
  end.

(** does the value contain a container that merge could later mutate in place? *)
Fixpoint has_mut (v : val) : bool :=
  let fix any (l : list val) : bool :=
    match l with [] => false | x :: r => has_mut x || any r end in
  match v with
  | VList _ | VDict _ => true
  | VTuple l => any l
  | _ => false
  end.

Definition is_mut_top (v : val) : bool :=
  match v with VList _ | VDict _ => true | _ => false end.

(** [s] is exactly one expression with the flat spec and nothing else: the formatter
    returns the referenced object itself ([_format_keep_type], [is_flat]) *)
Definition flat_single (root : dict) (s : string) : option string :=
  match parse s with
  | ([(EmptyString, Some (name, spec, None))], PEnd) =>
      match vformat_std root 2 spec with
      | Ok spec' =>
          let rs := mk_rspec spec' in
          if r_flat rs && String.eqb (r_spec rs) "" then Some name else None
      | _ => None
      end
  | _ => None
  end.

(** [x] is the result of formatting the str / special-tag leaf [v] against [root] *)
Definition leaf_share (root : dict) (v x : val) : share :=
  if negb (has_mut x) then ShNone
  else
    let fallback := if risky v || risky (VDict root) then ShTaint else ShNone in
    match v with
    | VStr s =>
        match flat_single root s with
        | Some name =>
            let '(first, rest) := split_first name in
            if String.eqb rest "" && is_mut_top x then ShLink [VStr first] else ShTaint
        | None => fallback
        end
    | VPy _ (EName n) => if is_mut_top x then ShLink [VStr n] else ShTaint
    | _ => fallback
    end.

Definition is_none_share (x : share) : bool := match x with ShNone => true | _ => false end.

(** a container from the incoming tree: any leaf that may come back by reference *)
Fixpoint tree_taint (ff : nat) (root : dict) (v : val) : bool :=
  let fix any (l : list val) : bool :=
    match l with [] => false | x :: r => tree_taint ff root x || any r end in
  let fix anyd (l : list (val * val)) : bool :=
    match l with [] => false | (k, x) :: r => tree_taint ff root k || tree_taint ff root x || anyd r end in
  match v with
  | VStr _ | VPy _ _ =>
      match format_value ff root v with
      | Ok x => negb (is_none_share (leaf_share root v x))
      | _ => false
      end
  | VList l | VTuple l | VSet l => any l
  | VDict l => anyd l
  | _ => false
  end.

Definition tree_share (ff : nat) (root : dict) (v : val) : share :=
  if tree_taint ff root v then ShTaint else ShNone.

(** every dict key anywhere in [v] is of a kind whose hashing / equality is modelled *)
Definition key_kind_ok (k : val) : bool :=
  match k with VStr _ | VInt _ | VNone | VBytes _ => true | _ => false end.

Fixpoint keys_ok (v : val) : bool :=
  let fix all (l : list val) : bool :=
    match l with [] => true | x :: r => keys_ok x && all r end in
  let fix alld (l : list (val * val)) : bool :=
    match l with [] => true | (k, x) :: r => key_kind_ok k && keys_ok x && alld r end in
  match v with
  | VList l | VTuple l | VSet l => all l
  | VDict l => alld l
  | VJsonify x => keys_ok x
  | _ => true
  end.

(** every key of every mapping inside [v] formats (on its own) to a modelled kind of key *)
Fixpoint keys_fmt_ok (ff : nat) (root : dict) (v : val) : bool :=
  let fix all (l : list val) : bool :=
    match l with [] => true | x :: r => keys_fmt_ok ff root x && all r end in
  let fix alld (l : list (val * val)) : bool :=
    match l with
    | [] => true
    | (k, x) :: r =>
        match format_value ff root k with Ok kf => key_kind_ok kf | _ => true end
        && keys_fmt_ok ff root x && alld r
    end in
  match v with
  | VList l | VTuple l | VSet l => all l
  | VDict l => alld l
  | VJsonify x => keys_fmt_ok ff root x
  | _ => true
  end.

(** * The merge *)
Definition is_strtag (v : val) : bool :=
  match v with VStr _ | VPy _ _ | VSic _ | VJsonify _ => true | _ => false end.

Definition lift {A} (s : st) (r : res A) (k : A -> out) : out :=
  match r with
  | Ok a => k a
  | Err n m => (SErr n m, s)
  | Unsup => (SUnsup, s)
  end.

(** hashing the formatted key.  bool / float keys collide with ints in Python
    ([True == 1 == 1.0]); a [VSet] may be a frozenset (hashable) or a set (not): neither is
    modelled. *)
Definition key_check (s : st) (k : val) (cont : out) : out :=
  match k with
  | VStr _ | VInt _ | VNone | VBytes _ => cont
  | VList _ | VDict _ =>
      (SErr "TypeError" ("unhashable type: '" ++ type_name k ++ "'"), s)
  | _ => (SUnsup, s)
  end.

Definition cur_dict (s : st) (a : path) : option dict :=
  match lookup_path (VDict (s_root s)) a with
  | Some (VDict d) => Some d
  | _ => None
  end.

Section Merge.
  Variable ff : nat.              (* fuel of the formatter *)
  Variable prot : option path.    (* see [obj_write] *)

  Definition fmt (s : st) (v : val) : res val := format_value ff (s_root s) v.

  (** formatting an incoming VALUE.  Format.v does not model hashing: python raises
      TypeError the moment a dict under construction receives an unhashable formatted key
      (before the remaining items are formatted), and identifies bool / float keys with
      ints.  Values whose nested keys format to such kinds are outside the model. *)
  Definition fmtv (s : st) (v : val) : res val :=
    if keys_fmt_ok ff (s_root s) v then
      match fmt s v with
      | Ok x => if keys_ok x then Ok x else Unsup
      | r => r
      end
    else Unsup.

  Section Open.
    (** the recursive call [merge_recurse(current[k], v)] / [defaults_recurse(...)] *)
    Variable rec : st -> path -> dict -> out.

    (** one iteration of [for k, v in add_me.items()] with [current] at path [a] *)
    Definition merge_item (s : st) (a : path) (k v : val) : out :=
      lift s (fmt s k) (fun kf =>
      if is_strtag v then
        (* str / special tag: overwrite, whatever is there *)
        lift s (fmtv s v) (fun x =>
        key_check s kf (assign prot s a kf x (leaf_share (s_root s) v x)))
      else
        match v with
        | VBytes _ => key_check s kf (assign prot s a kf v ShNone)
        | _ =>
            key_check s kf
              match cur_dict s a with
              | None => (SUnsup, s)
              | Some cur =>
                  match dict_get kf cur with
                  | Some ev =>
                      match ev, v with
                      | VDict _, VDict l => rec s (a ++ [kf])%list l
                      | VList _, VList _ =>
                          lift s (fmtv s v) (fun x =>
                          match x with
                          | VList xl => extend prot s (a ++ [kf])%list xl (tree_share ff (s_root s) v)
                          | _ => (SUnsup, s)
                          end)
                      | VTuple el, VTuple _ =>
                          lift s (fmtv s v) (fun x =>
                          match x with
                          | VTuple xl =>
                              assign prot s a kf (VTuple (el ++ xl)%list) (tree_share ff (s_root s) v)
                          | _ => (SUnsup, s)
                          end)
                      | VSet el, VSet _ =>
                          lift s (fmtv s v) (fun x =>
                          match x with
                          | VSet xl =>
                              match set_of_list (el ++ xl)%list with
                              | Some u => assign prot s a kf (VSet u) ShNone
                              | None => (SUnsup, s)
                              end
                          | _ => (SUnsup, s)
                          end)
                      | _, _ =>
                          lift s (fmtv s v) (fun x =>
                          assign prot s a kf x (tree_share ff (s_root s) v))
                      end
                  | None =>
                      lift s (fmtv s v) (fun x =>
                      assign prot s a kf x (tree_share ff (s_root s) v))
                  end
              end
        end).

    Fixpoint merge_items (s : st) (a : path) (items : dict) : out :=
      match items with
      | [] => (SOk, s)
      | (k, v) :: rest =>
          match merge_item s a k v with
          | (SOk, s') => merge_items s' a rest
          | o => o
          end
      end.

    (** one iteration of [for k, v in defaults.items()] *)
    Definition defaults_item (s : st) (a : path) (k v : val) : out :=
      lift s (fmt s k) (fun kf =>
      key_check s kf
        match cur_dict s a with
        | None => (SUnsup, s)
        | Some cur =>
            match dict_get kf cur with
            | Some ev =>
                match ev, v with
                | VDict _, VDict l => rec s (a ++ [kf])%list l
                | _, _ => (SOk, s)
                end
            | None =>
                lift s (fmtv s v) (fun x =>
                assign prot s a kf x
                  (if is_strtag v then leaf_share (s_root s) v x else tree_share ff (s_root s) v))
            end
        end).

    Fixpoint defaults_items (s : st) (a : path) (items : dict) : out :=
      match items with
      | [] => (SOk, s)
      | (k, v) :: rest =>
          match defaults_item s a k v with
          | (SOk, s') => defaults_items s' a rest
          | o => o
          end
      end.
  End Open.

  (** the knot: fuel = nesting depth of the incoming tree *)
  Fixpoint merge_rec (fuel : nat) (s : st) (a : path) (items : dict) : out :=
    match fuel with
    | O => (SUnsup, s)
    | S f => merge_items (merge_rec f) s a items
    end.

  Fixpoint defaults_rec (fuel : nat) (s : st) (a : path) (items : dict) : out :=
    match fuel with
    | O => (SUnsup, s)
    | S f => defaults_items (defaults_rec f) s a items
    end.
End Merge.

(** [Context(root).merge(add_me)] and [.set_defaults(defaults)] *)
Definition merge_top (ff fuel : nat) (root : dict) (add_me : dict) : out :=
  merge_rec ff None fuel (init root) [] add_me.

Definition defaults_top (ff fuel : nat) (root : dict) (defaults : dict) : out :=
  defaults_rec ff None fuel (init root) [] defaults.

(** [pypyr.steps.contextmerge.run_step] / [pypyr.steps.default.run_step]: the incoming
    mapping is [context[key]] — it lives INSIDE the context being merged into. *)
Definition sized (v : val) : bool :=
  match v with
  | VStr _ | VBytes _ | VList _ | VTuple _ | VSet _ | VDict _ => true
  | _ => false
  end.

Definition step_run (is_merge : bool) (ff fuel : nat) (root : dict) : out :=
  let key := if is_merge then "contextMerge" else "defaults" in
  match sget key root with
  | Some (VDict items) =>
      let o := (if is_merge then merge_rec else defaults_rec)
                 ff (Some [VStr key]) fuel (init root) [] items in
      match o with
      | (SOk, s') =>
          (* the step then logs len(context[key]) *)
          match sget key (s_root s') with
          | Some x => if sized x then o else (SUnsup, s')
          | None => (SUnsup, s')
          end
      | _ => o
      end
  | _ => (SUnsup, init root)
  end.

(** * Comparing with an observation of the implementation *)
Definition status_eqb (a b : status) : bool :=
  match a, b with
  | SOk, SOk => true
  | SErr n m, SErr n' m' => String.eqb n n' && String.eqb m m'
  | _, _ => false
  end.

Definition check_out (o : out) (exp : status) (exp_root : dict) : nat :=
  match fst o with
  | SUnsup => 2%nat
  | stt => if status_eqb stt exp && dict_eqb (s_root (snd o)) exp_root then 0%nat else 1%nat
  end.

Definition is_unsup_out (o : out) : bool :=
  match fst o with SUnsup => true | _ => false end.

(** * Tie B: the Python fragment the two loop bodies are written in, and what it means

    tools/py2coq_c10.py turns the CURRENT source of [merge_recurse] / [defaults_recurse] into
    a [list pstmt] (Gen/GenC10.v), nothing more than the syntax tree of the loop body with the
    local names resolved (loop variables k, v; [current]; the recursive call).  [run_item]
    below is the meaning of that fragment over the model's state: Python's evaluation order,
    where a key is hashed, which object a statement mutates in place, and that
    [self.get_formatted_value(e)] formats whatever [e] evaluates to against the context as
    it is then.  Proofs/GenC10Proofs.v proves [run_item <generated body> = merge_item]. *)
Inductive pexpr :=
| PKey                          (* k  (the raw key until rebound, the formatted key after) *)
| PVal                          (* v *)
| PCurK                         (* current[k] *)
| PFmt (e : pexpr)              (* self.get_formatted_value(e) *)
| PAdd (a b : pexpr)            (* a + b *)
| PBitOr (a b : pexpr).         (* a | b *)

Inductive pcond :=
| CIsInst (e : pexpr) (classes : list string)     (* isinstance(e, (C1, C2, ...)) *)
| CAllType (cls : string) (es : list pexpr)       (* types.are_all_this_type(C, e1, e2, ...) *)
| CKeyIn                                          (* k in current *)
| CNot (c : pcond)
| COr (a b : pcond)
| CAnd (a b : pcond).

Inductive pstmt :=
| SRebindKey (e : pexpr)                 (* k = e *)
| SSetItem (e : pexpr)                   (* current[k] = e *)
| SExtend (e : pexpr)                    (* current[k].extend(e) *)
| SRecurse                               (* <this function>(current[k], v) *)
| SIf (c : pcond) (t e : list pstmt).

(** the classes the dispatch tests, over the [val] universe *)
Definition class_test (cls : string) : option (val -> bool) :=
  if String.eqb cls "str" then Some (fun v => match v with VStr _ => true | _ => false end)
  else if String.eqb cls "SpecialTagDirective"
  then Some (fun v => match v with VPy _ _ | VSic _ | VJsonify _ => true | _ => false end)
  else if String.eqb cls "bytes" || String.eqb cls "bytearray"
  then Some (fun v => match v with VBytes _ => true | _ => false end)
  else if String.eqb cls "Mapping" then Some (fun v => match v with VDict _ => true | _ => false end)
  else if String.eqb cls "list" then Some (fun v => match v with VList _ => true | _ => false end)
  else if String.eqb cls "tuple" then Some (fun v => match v with VTuple _ => true | _ => false end)
  else if String.eqb cls "Set" then Some (fun v => match v with VSet _ => true | _ => false end)
  else None.

(** the subclasses of SpecialTagDirective the [val] universe has constructors for *)
Definition special_tag_classes : list string := ["Jsonify"; "PyString"; "SicString"].

(** hashing a key (see [key_check]) *)
Definition key_res (k : val) : res unit :=
  match k with
  | VStr _ | VInt _ | VNone | VBytes _ => Ok tt
  | VList _ | VDict _ => Err "TypeError" ("unhashable type: '" ++ type_name k ++ "'")
  | _ => Unsup
  end.

Definition join_share (a b : share) : share :=
  match a, b with
  | ShNone, x | x, ShNone => x
  | _, _ => ShTaint
  end.

Section Exec.
  Variable ff : nat.
  Variable prot : option path.
  Variable rec : st -> path -> dict -> out.
  Variable a : path.            (* where [current] is *)
  Variable v : val.             (* the incoming value of this iteration *)

  (** what a freshly formatted value may share with the context: [w] is what was formatted *)
  Definition share_of (s : st) (w x : val) : share :=
    if is_strtag w then leaf_share (s_root s) w x else tree_share ff (s_root s) w.

  Definition cur_item (s : st) (k : val) : res val :=
    let* _ := key_res k in
    match cur_dict s a with
    | Some cur => match dict_get k cur with Some ev => Ok ev | None => Unsup end   (* KeyError *)
    | None => Unsup
    end.

  (** [as_key]: the expression is being evaluated to rebind k (the key is formatted as it is,
      [fmt]); otherwise it is an incoming value ([fmtv], see there) *)
  Fixpoint eval (as_key : bool) (s : st) (k : val) (e : pexpr) : res (val * share) :=
    match e with
    | PKey => Ok (k, ShNone)
    | PVal => Ok (v, ShNone)
    | PCurK => let* ev := cur_item s k in Ok (ev, ShNone)
    | PFmt e' =>
        let* (w, _) := eval as_key s k e' in
        if as_key then let* x := fmt ff s w in Ok (x, ShNone)
        else let* x := fmtv ff s w in Ok (x, share_of s w x)
    | PAdd e1 e2 =>
        let* (x, sx) := eval as_key s k e1 in
        let* (y, sy) := eval as_key s k e2 in
        match x, y with
        | VTuple p, VTuple q => Ok (VTuple (p ++ q)%list, join_share sx sy)
        | _, _ => Unsup
        end
    | PBitOr e1 e2 =>
        let* (x, _) := eval as_key s k e1 in
        let* (y, _) := eval as_key s k e2 in
        match x, y with
        | VSet p, VSet q =>
            (* a set of hashable members holds no mutable container: nothing shared *)
            match set_of_list (p ++ q)%list with Some u => Ok (VSet u, ShNone) | None => Unsup end
        | _, _ => Unsup
        end
    end.

  Fixpoint class_tests (classes : list string) : option (list (val -> bool)) :=
    match classes with
    | [] => Some []
    | c :: r =>
        match class_test c, class_tests r with
        | Some t, Some ts => Some (t :: ts)
        | _, _ => None
        end
    end.

  Fixpoint eval_all (s : st) (k : val) (es : list pexpr) : res (list val) :=
    match es with
    | [] => Ok []
    | e :: r => let* (x, _) := eval false s k e in let* xs := eval_all s k r in Ok (x :: xs)
    end.

  Fixpoint eval_cond (s : st) (k : val) (c : pcond) : res bool :=
    match c with
    | CIsInst e classes =>
        let* (x, _) := eval false s k e in
        match class_tests classes with
        | Some ts => Ok (existsb (fun t => t x) ts)
        | None => Unsup
        end
    | CAllType cls es =>
        let* xs := eval_all s k es in
        match class_test cls with
        | Some t => Ok (forallb t xs)
        | None => Unsup
        end
    | CKeyIn =>
        let* _ := key_res k in
        match cur_dict s a with Some cur => Ok (dict_has k cur) | None => Unsup end
    | CNot c' => let* b := eval_cond s k c' in Ok (negb b)
    | COr c1 c2 => let* b := eval_cond s k c1 in if b then Ok true else eval_cond s k c2
    | CAnd c1 c2 => let* b := eval_cond s k c1 in if b then eval_cond s k c2 else Ok false
    end.

  (** status, state, current binding of k *)
  Definition xout := (status * st * val)%type.

  Definition lift_x {A} (s : st) (k : val) (r : res A) (cont : A -> xout) : xout :=
    match r with
    | Ok x => cont x
    | Err n m => (SErr n m, s, k)
    | Unsup => (SUnsup, s, k)
    end.

  Definition with_k (k : val) (o : out) : xout := (fst o, snd o, k).

  Fixpoint exec (p : pstmt) (s : st) (k : val) : xout :=
    let fix exec_list (l : list pstmt) (s : st) (k : val) : xout :=
      match l with
      | [] => (SOk, s, k)
      | p :: r =>
          match exec p s k with
          | (SOk, s1, k1) => exec_list r s1 k1
          | o => o
          end
      end in
    match p with
    | SRebindKey e => lift_x s k (eval true s k e) (fun xs => (SOk, s, fst xs))
    | SSetItem e =>
        (* the right-hand side first, then the key is hashed and the item stored *)
        lift_x s k (eval false s k e) (fun xs =>
        lift_x s k (key_res k) (fun _ => with_k k (assign prot s a k (fst xs) (snd xs))))
    | SExtend e =>
        (* current[k] is fetched first: it has to be there and be a list *)
        lift_x s k (cur_item s k) (fun ev =>
        match ev with
        | VList _ =>
            lift_x s k (eval false s k e) (fun xs =>
            match fst xs with
            | VList xl => with_k k (extend prot s (a ++ [k])%list xl (snd xs))
            | _ => (SUnsup, s, k)
            end)
        | _ => (SUnsup, s, k)
        end)
    | SRecurse =>
        lift_x s k (cur_item s k) (fun ev =>
        match ev, v with
        | VDict _, VDict l => with_k k (rec s (a ++ [k])%list l)
        | _, _ => (SUnsup, s, k)
        end)
    | SIf c t e =>
        lift_x s k (eval_cond s k c) (fun b => if b then exec_list t s k else exec_list e s k)
    end.

  Fixpoint exec_list (l : list pstmt) (s : st) (k : val) : xout :=
    match l with
    | [] => (SOk, s, k)
    | p :: r =>
        match exec p s k with
        | (SOk, s1, k1) => exec_list r s1 k1
        | o => o
        end
    end.
End Exec.

(** one iteration [for k, v in incoming.items(): body] with [current] at path [a] *)
Definition run_item (ff : nat) (prot : option path) (rec : st -> path -> dict -> out)
    (body : list pstmt) (s : st) (a : path) (k v : val) : out :=
  let '(stt, s', _) := exec_list ff prot rec a v body s k in (stt, s').

Fixpoint run_items (ff : nat) (prot : option path) (rec : st -> path -> dict -> out)
    (body : list pstmt) (s : st) (a : path) (items : dict) : out :=
  match items with
  | [] => (SOk, s)
  | (k, v) :: rest =>
      match run_item ff prot rec body s a k v with
      | (SOk, s') => run_items ff prot rec body s' a rest
      | o => o
      end
  end.

(** the function calling itself: fuel = nesting depth, as in [merge_rec] *)
Fixpoint run_rec (ff : nat) (prot : option path) (body : list pstmt) (fuel : nat)
    (s : st) (a : path) (items : dict) : out :=
  match fuel with
  | O => (SUnsup, s)
  | S f => run_items ff prot (run_rec ff prot body f) body s a items
  end.

(** the outer method: [inner(self, incoming)] — start at the root *)
Definition run_top (ff fuel : nat) (body : list pstmt) (root : dict) (incoming : dict) : out :=
  run_rec ff None body fuel (init root) [] incoming.

(** ** the two thin steps, as read from their source *)
Record step_src := {
  ss_assert_key : string;          (* context.assert_key_has_value(key=...) *)
  ss_method : string;              (* context.<method>(context[...]) *)
  ss_arg_key : string;
  ss_len_key : option string       (* len(context[...]) in the closing log call *)
}.

Definition step_run_src (src : step_src) (ff fuel : nat) (root : dict) : out :=
  match sget (ss_assert_key src) root with
  | None | Some VNone => (SUnsup, init root)        (* the assertion raises: not modelled *)
  | Some _ =>
      match sget (ss_arg_key src) root with
      | Some (VDict items) =>
          let run :=
            if String.eqb (ss_method src) "merge" then Some merge_rec
            else if String.eqb (ss_method src) "set_defaults" then Some defaults_rec
            else None in
          match run with
          | None => (SUnsup, init root)
          | Some r =>
              let o := r ff (Some [VStr (ss_arg_key src)]) fuel (init root) [] items in
              match o with
              | (SOk, s') =>
                  match ss_len_key src with
                  | None => o
                  | Some lk =>
                      match sget lk (s_root s') with
                      | Some x => if sized x then o else (SUnsup, s')
                      | None => (SUnsup, s')
                      end
                  end
              | _ => o
              end
          end
      | _ => (SUnsup, init root)
      end
  end.
