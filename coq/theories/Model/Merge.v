(** Model/Merge.v — placeholder, to be written. *)
