(** Model/Parsers.v — placeholder, to be written. *)
