(** Model/Parsers.v — the built-in context parsers, [pypyr/parser/*.py].

    One Gallina function per module's [get_parsed_context(args)], written the way the
    Python is written (same branches, same order of dictionary writes):

      pypyr.parser.keyvaluepairs -> [parse_keyvaluepairs]
      pypyr.parser.argskwargs    -> [parse_argskwargs]
      pypyr.parser.dict          -> [parse_dict]
      pypyr.parser.list          -> [parse_list]
      pypyr.parser.string        -> [parse_string]
      pypyr.parser.keys          -> [parse_keys]
      pypyr.parser.json          -> [parse_json]  (json.loads modelled for the fragment
                                     objects / arrays / strings without u-escapes / integers /
                                     true / false / null; [Unsup] beyond that)

    [args] is what the parser receives: [None] or a list of strings.  A parser returns
    [None] or a dict; [option dict] below. *)
From PV Require Export PyVal.
Open Scope string_scope.

Definition args := option (list string).

(** Python [not args] for [None] or a list. *)
Definition args_falsy (a : args) : bool :=
  match a with
  | None => true
  | Some [] => true
  | Some (_ :: _) => false
  end.

Definition args_list (a : args) : list string :=
  match a with Some l => l | None => [] end.

Definition eq_char : ascii := "="%char.

(** [k, _, v = element.partition('=')] *)
Definition kv_of (s : string) : string * string :=
  let '(k, _, v) := partition_first eq_char s in (k, v).

Definition kv_pair (s : string) : val * val :=
  let (k, v) := kv_of s in (VStr k, VStr v).

(** A dict comprehension / [dict(iterable of pairs)]: the pairs are written in order into an
    empty dict ([d[k] = v] each). *)
Definition dict_of_pairs (l : list (val * val)) : dict := dict_update [] l.

(** [{k: v for k, _, v in (element.partition('=') for element in args)}] *)
Definition kvp_dict (l : list string) : dict := dict_of_pairs (map kv_pair l).

Definition parse_keyvaluepairs (a : args) : option dict :=
  if args_falsy a then None else Some (kvp_dict (args_list a)).

Definition parse_dict (a : args) : option dict :=
  if args_falsy a then Some [(VStr "argDict", VDict [])]
  else Some [(VStr "argDict", VDict (kvp_dict (args_list a)))].

Definition parse_list (a : args) : option dict :=
  if args_falsy a then Some [(VStr "argList", VList [])]
  else Some [(VStr "argList", VList (map VStr (args_list a)))].

Definition parse_string (a : args) : option dict :=
  if args_falsy a then Some [(VStr "argString", VStr "")]
  else Some [(VStr "argString", VStr (join " " (args_list a)))].

(** [dict((element, True) for element in args)] *)
Definition keys_dict (l : list string) : dict :=
  dict_of_pairs (map (fun s => (VStr s, VBool true)) l).

Definition parse_keys (a : args) : option dict :=
  if args_falsy a then None else Some (keys_dict (args_list a)).

(** argskwargs: the loop body; state = ([out], [arg_list]). *)
Definition akw_step (st : dict * list string) (a : string) : dict * list string :=
  let '(k, sep, v) := partition_first eq_char a in
  if sep then (sset k (VStr v) (fst st), snd st)
  else (fst st, (snd st ++ [a])%list).

Definition akw_finish (st : dict * list string) : dict :=
  sset "argList" (VList (map VStr (snd st))) (fst st).

Definition argskwargs_dict (l : list string) : dict :=
  akw_finish (fold_left akw_step l ([], [])).

Definition parse_argskwargs (a : args) : option dict :=
  if args_falsy a then Some [(VStr "argList", VList [])]
  else Some (argskwargs_dict (args_list a)).

(** * [json.loads] for the fragment described at the top.
    [Err "json.decoder.JSONDecodeError" ""] = malformed input (the message, which carries
    a position, is not modelled); [Unsup] = valid or invalid JSON the model does not decide
    (floats, u-escapes, NaN/Infinity, out of fuel). *)
Definition jerr {A} : res A := Err "json.decoder.JSONDecodeError" "".

Definition is_ws (c : ascii) : bool :=
  let n := nat_of_ascii c in
  Nat.eqb n 32 || Nat.eqb n 9 || Nat.eqb n 10 || Nat.eqb n 13.

Fixpoint skip_ws (s : string) : string :=
  match s with
  | String c r => if is_ws c then skip_ws r else s
  | EmptyString => s
  end.

(** After the opening quote: returns (decoded, rest after the closing quote). *)
Fixpoint jstring (s : string) : res (string * string) :=
  match s with
  | EmptyString => jerr
  | String c r =>
      if Ascii.eqb c dquote then Ok (EmptyString, r)
      else if Ascii.eqb c "\"%char then
        match r with
        | EmptyString => jerr
        | String e r' =>
            let n := nat_of_ascii e in
            let put (d : nat) := let* (t, k) := jstring r' in Ok (String (ascii_of_nat d) t, k) in
            if Nat.eqb n 34 then put 34%nat          (* backslash quote *)
            else if Nat.eqb n 92 then put 92%nat     (* backslash backslash *)
            else if Nat.eqb n 47 then put 47%nat     (* backslash slash *)
            else if Nat.eqb n 98 then put 8%nat      (* b: backspace *)
            else if Nat.eqb n 102 then put 12%nat    (* f: form feed *)
            else if Nat.eqb n 110 then put 10%nat    (* n *)
            else if Nat.eqb n 114 then put 13%nat    (* r *)
            else if Nat.eqb n 116 then put 9%nat     (* t *)
            else if Nat.eqb n 117 then Unsup         (* uXXXX *)
            else jerr
        end
      else if Nat.ltb (nat_of_ascii c) 32 then jerr  (* strict: no control characters *)
      else let* (t, k) := jstring r in Ok (String c t, k)
  end.

Fixpoint take_digits (s : string) : string * string :=
  match s with
  | String c r => if is_digit c then let (d, k) := take_digits r in (String c d, k) else (EmptyString, s)
  | EmptyString => (EmptyString, EmptyString)
  end.

(** json.scanner NUMBER_RE: optional minus, then 0 or a non-zero digit followed by digits,
    then an optional fraction and an optional exponent.  Integers only here; a fraction or an
    exponent makes it a float: outside the model. [neg] = a minus sign was consumed. *)
Definition jnumber (neg : bool) (s : string) : res (val * string) :=
  let (ds, k) := take_digits s in
  match ds with
  | EmptyString => if neg then (match s with
                                | String "I"%char _ => Unsup   (* -Infinity *)
                                | _ => jerr end)
                   else jerr
  | String d0 more =>
      (* a leading 0 ends the integer: "01" is 0 followed by extra data *)
      let '(ds', k') := if Ascii.eqb d0 "0"%char then (String d0 EmptyString, (more ++ k))
                        else (ds, k) in
      match k' with
      | String c _ =>
          if Ascii.eqb c "."%char || Ascii.eqb c "e"%char || Ascii.eqb c "E"%char then Unsup
          else let z := digits_to_Z ds' 0 in Ok (VInt (if neg then (- z)%Z else z), k')
      | EmptyString => let z := digits_to_Z ds' 0 in Ok (VInt (if neg then (- z)%Z else z), k')
      end
  end.

Definition strip_prefix (p s : string) : option string :=
  if String.prefix p s then Some (substring (String.length p) (String.length s - String.length p) s)
  else None.

(** value / array tail / object tail, on fuel. [s] has leading whitespace already skipped. *)
Fixpoint jvalue (fuel : nat) (s : string) : res (val * string) :=
  match fuel with
  | O => Unsup
  | S f =>
      match s with
      | EmptyString => jerr
      | String c r =>
          if Ascii.eqb c dquote then let* (t, k) := jstring r in Ok (VStr t, k)
          else if Ascii.eqb c "{"%char then
            let r1 := skip_ws r in
            match r1 with
            | String c1 r2 =>
                if Ascii.eqb c1 "}"%char then Ok (VDict [], r2)
                else let* (ps, k) := jmembers f r1 in Ok (VDict (dict_update [] ps), k)
            | EmptyString => jerr
            end
          else if Ascii.eqb c "["%char then
            let r1 := skip_ws r in
            match r1 with
            | String c1 r2 =>
                if Ascii.eqb c1 "]"%char then Ok (VList [], r2)
                else let* (xs, k) := jelements f r1 in Ok (VList xs, k)
            | EmptyString => jerr
            end
          else if Ascii.eqb c "-"%char then jnumber true r
          else if is_digit c then jnumber false s
          else match strip_prefix "true" s with Some k => Ok (VBool true, k) | None =>
               match strip_prefix "false" s with Some k => Ok (VBool false, k) | None =>
               match strip_prefix "null" s with Some k => Ok (VNone, k) | None =>
               match strip_prefix "NaN" s with Some _ => Unsup | None =>
               match strip_prefix "Infinity" s with Some _ => Unsup | None => jerr
               end end end end end
      end
  end
(** members: [s] starts at the opening quote of a key *)
with jmembers (fuel : nat) (s : string) : res (list (val * val) * string) :=
  match fuel with
  | O => Unsup
  | S f =>
      match s with
      | String c r =>
          if Ascii.eqb c dquote then
            let* (key, k1) := jstring r in
            match skip_ws k1 with
            | String c2 k2 =>
                if Ascii.eqb c2 ":"%char then
                  let* (v, k3) := jvalue f (skip_ws k2) in
                  match skip_ws k3 with
                  | String c4 k4 =>
                      if Ascii.eqb c4 "}"%char then Ok ([(VStr key, v)], k4)
                      else if Ascii.eqb c4 ","%char then
                        let* (ps, k5) := jmembers f (skip_ws k4) in Ok ((VStr key, v) :: ps, k5)
                      else jerr
                  | EmptyString => jerr
                  end
                else jerr
            | EmptyString => jerr
            end
          else jerr
      | EmptyString => jerr
      end
  end
with jelements (fuel : nat) (s : string) : res (list val * string) :=
  match fuel with
  | O => Unsup
  | S f =>
      let* (v, k1) := jvalue f s in
      match skip_ws k1 with
      | String c k2 =>
          if Ascii.eqb c "]"%char then Ok ([v], k2)
          else if Ascii.eqb c ","%char then
            let* (xs, k3) := jelements f (skip_ws k2) in Ok (v :: xs, k3)
          else jerr
      | EmptyString => jerr
      end
  end.

Definition json_loads (s : string) : res val :=
  let* (v, k) := jvalue (S (String.length s)) (skip_ws s) in
  match skip_ws k with
  | EmptyString => Ok v
  | _ => jerr          (* "Extra data" *)
  end.

Definition json_type_error_msg : string :=
  "json input should describe an object at the top level. You should have something like "
  ++ chr 10 ++ "{" ++ chr 10 ++ """key1"":""value1""," ++ chr 10 ++ """key2"":""value2"""
  ++ chr 10 ++ "}" ++ chr 10 ++ "at the json top-level, not an [array] or literal.".

Definition parse_json (a : args) : res (option dict) :=
  if args_falsy a then Ok None
  else
    let* payload := json_loads (join " " (args_list a)) in
    match payload with
    | VDict d => Ok (Some d)
    | _ => Err "TypeError" json_type_error_msg
    end.

(** * All parsers behind one name *)
Inductive parser_id :=
| PKeyValuePairs | PArgsKwargs | PDict | PList | PString | PKeys | PJson.

Definition run_parser (p : parser_id) (a : args) : res (option dict) :=
  match p with
  | PKeyValuePairs => Ok (parse_keyvaluepairs a)
  | PArgsKwargs => Ok (parse_argskwargs a)
  | PDict => Ok (parse_dict a)
  | PList => Ok (parse_list a)
  | PString => Ok (parse_string a)
  | PKeys => Ok (parse_keys a)
  | PJson => parse_json a
  end.

(** * Comparison of observations *)
Definition opt_dict_eqb (a b : option dict) : bool :=
  match a, b with
  | None, None => true
  | Some x, Some y => dict_eqb x y
  | _, _ => false
  end.

(** json decode errors are compared by type only (the harness blanks the message). *)
Definition parser_verdict (p : parser_id) (a : args) (obs : res (option dict)) : nat :=
  verdict opt_dict_eqb (run_parser p a) obs.
