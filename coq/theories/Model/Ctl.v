(** Model/Ctl.v — support for GENERATED control skeletons (Gen/Control.v, written by
    tools/py2coq_ctl.py from the current source of pypyr/stepsrunner.py, pypyr/errors.py, ...).

    The translator turns the statements of a Python method (try/except ladders, for loops,
    if/else, local flags, bare [raise]) into a state-passing term over the engine's [R]; what it
    needs from the hand-written side is only:
      - which Python class an outcome of the model stands for ([class_of]) and the subclass test
        against the class table that the translator reads out of pypyr/errors.py ([isinst]);
      - sequential iteration that stops at the first raise ([for_each]);
      - attribute reads of a caught instruction ([exn_groups] ...), mapping lookups. *)
From Coq Require Import ZArith List Bool String.
From PV Require Import PyStr PyVal.
From PV.Model Require Import Engine.
Import ListNotations.
Local Open Scope string_scope.
Local Open Scope list_scope.

(** class table: (class, bases) in source order *)
Definition classtable := list (string * list string).

(** The Python class an outcome stands for.  An ordinary exception object [RExn n _ _] carries the
    name [get_error_name] gives it: a bare builtin name, [module.Class] for a step-defined class, or
    [pypyr.errors.X] — the latter is looked up in the class table generated from pypyr/errors.py.
    By the model's representation convention an [RExn] is an Exception that is never an instance
    of Stop / ControlOfFlowInstruction / HandledError (those are [RSig] / [OHandled]): such names
    are mapped to an anonymous direct subclass of Exception.  (Builtin hierarchy — LookupError,
    OSError, ... — is not represented: a builtin is a direct subclass of Exception.) *)
Definition instruction_classes : list string :=
  ["Stop"; "StopPipeline"; "StopStepGroup"; "ControlOfFlowInstruction"; "Call"; "Jump";
   "HandledError"; "BaseException"].

Definition strip_prefix (p s : string) : string :=
  if String.prefix p s then substring (String.length p) (String.length s - String.length p) s else s.

Definition ordinary_class (t : classtable) (n : string) : string :=
  if String.prefix "pypyr.errors." n then
    let c := strip_prefix "pypyr.errors." n in
    if existsb (String.eqb c) instruction_classes then "<ordinary>"
    else if existsb (fun p => String.eqb (fst p) c) t then c
    else "<ordinary>"
  else "<ordinary>".

Definition class_of (t : classtable) (o : outcome) : string :=
  match o with
  | ORaise (RSig SStop) => "Stop"
  | ORaise (RSig SStopPipeline) => "StopPipeline"
  | ORaise (RSig SStopStepGroup) => "StopStepGroup"
  | ORaise (RSig (SCall _)) => "Call"
  | ORaise (RSig (SJump _)) => "Jump"
  | OHandled _ => "HandledError"
  | ORaise (RExn n _ _) => ordinary_class t n
  | OOk | OUnsup => ""
  end.

Definition bases_of (t : classtable) (c : string) : list string :=
  match find (fun p => String.eqb (fst p) c) t with
  | Some (_, bs) => bs
  | None => if String.eqb c "BaseException" then []
            else if String.eqb c "Exception" then ["BaseException"]
            else ["Exception"]            (* builtin and step-defined errors: plain Exceptions *)
  end.

Fixpoint subclass (fuel : nat) (t : classtable) (c target : string) : bool :=
  String.eqb c target ||
  match fuel with
  | O => false
  | S f => existsb (fun b => subclass f t b target) (bases_of t c)
  end.

Definition is_exn (o : outcome) : bool :=
  match o with OOk | OUnsup => false | _ => true end.

(** [isinstance(exc, (C1, C2, ...))] *)
Definition isinst (t : classtable) (o : outcome) (classes : list string) : bool :=
  is_exn o && existsb (subclass (S (S (S (List.length t)))) t (class_of t o)) classes.

(** [for x in xs: body] — stops at the first outcome that is not normal completion *)
Fixpoint for_each {A} (xs : list A) (f : A -> st -> R) (s : st) : R :=
  match xs with
  | [] => (OOk, s)
  | x :: rest => andthen (f x s) (for_each rest f)
  end.

(** attribute reads on a caught control-of-flow instruction *)
Definition exn_cof (o : outcome) : option cof :=
  match o with
  | ORaise (RSig (SCall c)) | ORaise (RSig (SJump c)) => Some c
  | _ => None
  end.
Definition exn_groups (o : outcome) : list val :=
  match exn_cof o with Some c => c_groups c | None => [] end.
Definition exn_success_group (o : outcome) : option string :=
  match exn_cof o with Some c => c_success c | None => None end.
Definition exn_failure_group (o : outcome) : option string :=
  match exn_cof o with Some c => c_failure c | None => None end.

(** mapping reads on a pipeline body *)
Definition assoc_mem {A} (k : string) (m : list (string * A)) : bool :=
  existsb (fun p => String.eqb (fst p) k) m.
Definition assoc_get {A} (k : string) (m : list (string * option A)) : option A :=
  match find (fun p => String.eqb (fst p) k) m with
  | Some (_, v) => v
  | None => None
  end.

(** [raise HandledError from e] *)
Definition raise_handled_from (e : outcome) (s : st) : R :=
  match e with
  | ORaise r => (OHandled r, s)
  | _ => (OUnsup, s)            (* a HandledError never reaches a second wrapping *)
  end.

(** [e.__cause__] of a HandledError *)
Definition exn_cause (e : outcome) : outcome :=
  match e with OHandled r => ORaise r | _ => e end.

(** value-returning methods (the [exec_iteration]s polled by [while_until_true]) *)
Definition as_iter (r : R) : iter_result * st :=
  match r with (o, s) => (IRaise o, s) end.
Definition andthen_v (r : R) (k : st -> iter_result * st) : iter_result * st :=
  match r with (OOk, s) => k s | (o, s) => (IRaise o, s) end.
Definition lift_v {A} (r : res A) (s : st) (k : A -> iter_result * st) : iter_result * st :=
  match r with
  | Ok a => k a
  | Err n m => as_iter (raise_new n m s)
  | Unsup => (IRaise OUnsup, s)
  end.

(** [get_error_name(e)] *)
Definition exn_error_name (e : outcome) : string :=
  match e with
  | ORaise r => error_name r
  | OHandled _ => "pypyr.errors.HandledError"
  | _ => ""
  end.

(** a caught exception object is an outcome of the model *)
Notation exn := outcome (only parsing).

(** a back-off callable: attempt number -> duration (None = outside the model) *)
Notation interval := (nat -> option Q) (only parsing).

(** loop state held on [self] ([for_counter]) and on its decorators ([while_counter],
    [retry_counter]) while the step body runs; read by [reset_context_counters].  (Before a loop
    has started the Python attributes hold 0 / None / None: the theorems about the generated
    [reset_context_counters] assume the loops of the step's own decorators are running.) *)
Definition live_while (k : counters) : Z := match k_while k with Some n => n | None => 0%Z end.
Definition live_for (k : counters) : val := match k_for k with Some v => v | None => VNone end.
Definition live_retry (k : counters) : Z := match k_retry k with Some n => n | None => 0%Z end.

(** [call.original_config] of a caught Call: (key, the caller's config object) *)
Definition exn_cfg_key (o : outcome) : string :=
  match exn_cof o with Some c => c_key c | None => "" end.
Definition exn_cfg_val (o : outcome) : val :=
  match exn_cof o with Some c => c_orig c | None => VNone end.

(** [if context.get(k) is not v: context[k] = v] — [same a b] stands for Python's [a is b] *)
Definition write_unless_same (same : val -> val -> bool) (k : string) (v : val) (d : dict) : dict :=
  let cur := match sget k d with Some x => x | None => VNone end in
  if same cur v then d else sset k v d.

(** [str(e)] and the exception object itself as a context value *)
Definition exn_message (e : outcome) : string :=
  match e with ORaise (RExn _ m _) => m | _ => "" end.
Definition exn_val (e : outcome) : val :=
  match e with ORaise (RExn n m i) => VExn n m i | _ => VNone end.

(** [lst = context.setdefault(k, []); lst.append(v)] — the list under [k] (created empty when the
    key is absent) grows by [v]; a non-list there has no [append]: outside the model *)
Definition ctx_list_append (k : string) (v : val) (s : st) : R :=
  match sget k (ctx s) with
  | None => (OOk, set_ctx s (sset k (VList [v]) (ctx s)))
  | Some (VList l) => (OOk, set_ctx s (sset k (VList (l ++ [v])) (ctx s)))
  | Some _ => (OUnsup, s)
  end.
