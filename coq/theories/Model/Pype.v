(** Model/Pype.v — placeholder, to be written. *)
