(* Proofs/GenC13Proofs.v - placeholder *)
