(** Proofs/GenC13Proofs.v — Tie B for C13: the machine [nstep] running the control-flow
    tables GENERATED from the current source of Cache.get / Cache.clear (Gen/GenC13.v) is
    the hand-written transition system [step] of Model/Cache.v, for all states and all
    schedules; the generated pipeline-key expression is [pipeline_key]. *)
From PV Require Import Cache CacheProofs GenC13.
From Coq Require Import Lia.
Open Scope string_scope.

(** the program point of the model that each table index stands for *)
Definition dec_get (n : nat) : pc :=
  match n with
  | 0 => P0 | 1 => PNcEnter | 2 => PNcExit | 3 => PReturn | 4 => PRaise | 5 => PAcquire
  | 6 => PIfContains | 7 => PLoad | 8 => PRelease | 9 => PReleaseExc | 10 => PCreateEnter
  | 11 => PCreateExit | 12 => PStore
  | _ => PClearAll        (* beyond the table: a point at which a look-up does nothing *)
  end.

Definition dec_clear (n : nat) : pc :=
  match n with
  | 0 => P0 | 1 => PClearAll | 2 => PCRelease | 3 => PCReturn
  | _ => PLoad            (* beyond the table: a point at which a clear does nothing *)
  end.

Definition conv (th : nthread) : thread :=
  mkTh (nprog th)
       (match nprog th with
        | OClear :: _ => dec_clear (npc th)
        | _ => dec_get (npc th)
        end)
       (nreg th).

(** the two machines are in corresponding states *)
Definition corr (n : nstate) (s : state) : Prop :=
  (forall t, conv (nthreads n t) = threads s t) /\
  (forall k, nstore n k = store s k) /\
  nlock n = lock s /\ nnext n = next s /\ nnocache n = nocache s /\ nlog n = log s.

Lemma corr_init nc progs : corr (ninit nc progs) (init nc progs).
Proof.
  repeat split. intros t. unfold conv; cbn. destruct (nth t progs []) as [|[]]; reflexivity.
Qed.

Lemma nupd_same f t th : nupd f t th t = th.
Proof. unfold nupd. now rewrite Nat.eqb_refl. Qed.

Lemma nupd_other f t th t' : t' <> t -> nupd f t th t' = f t'.
Proof. unfold nupd. intros H. apply Nat.eqb_neq in H. now rewrite H. Qed.

Lemma conv_finish rest : conv (mkNTh rest 0 None) = mkTh rest P0 None.
Proof. unfold conv; cbn. destruct rest as [|[]]; reflexivity. Qed.

Ltac split_pc n k :=
  match k with
  | O => destruct n as [|n]   (* beyond the table: [nth] needs one more case to reduce *)
  | S ?k' => destruct n as [|n]; [|split_pc n k']
  end.

(** one step of the generated machine = one step of the model *)
Lemma gen_step_is_model t n s :
  corr n s -> corr (nstep gen_get_code gen_clear_code t n) (step t s).
Proof.
  intros (HT & HS & HL & HN & HC & HG).
  pose proof (HT t) as Ht. unfold nstep, step. rewrite <- Ht.
  destruct (nthreads n t) as [pr pcn rg] eqn:Hth. unfold conv. cbn [nprog npc nreg prog tpc reg].
  destruct pr as [|[r ok|] rest]; [repeat split; assumption| |].
  - (* look-up *)
    split_pc pcn 13; cbn [nth gen_get_code dec_get goto];
    rewrite <- ?HS, <- ?HL, <- ?HN, <- ?HC, <- ?HG;
    repeat match goal with
           | |- context [match ?x with _ => _ end] => destruct x eqn:?
           end;
    try (repeat split; assumption);
    (split; [|split; [intros k; cbn; unfold supd, sempty; rewrite ?HS; reflexivity
                     |repeat split; cbn; congruence]]);
    intros t'; cbn [nthreads threads]; unfold goto;
    (destruct (Nat.eq_dec t' t) as [->|Hne];
     [rewrite ?nupd_same, ?upd_same; rewrite ?conv_finish; try reflexivity; apply HT
     |rewrite ?nupd_other, ?upd_other by exact Hne; apply HT]).
  - (* clear *)
    split_pc pcn 4; cbn [nth gen_clear_code dec_clear goto];
    rewrite <- ?HS, <- ?HL, <- ?HN, <- ?HC, <- ?HG;
    repeat match goal with
           | |- context [match ?x with _ => _ end] => destruct x eqn:?
           end;
    try (repeat split; assumption);
    (split; [|split; [intros k; cbn; unfold supd, sempty; rewrite ?HS; reflexivity
                     |repeat split; cbn; congruence]]);
    intros t'; cbn [nthreads threads]; unfold goto;
    (destruct (Nat.eq_dec t' t) as [->|Hne];
     [rewrite ?nupd_same, ?upd_same; rewrite ?conv_finish; try reflexivity; apply HT
     |rewrite ?nupd_other, ?upd_other by exact Hne; apply HT]).
Qed.

(** ... hence under every schedule, from every pair of corresponding states *)
Lemma gen_run_is_model sched : forall n s,
  corr n s -> corr (nrun gen_get_code gen_clear_code sched n) (run sched s).
Proof.
  induction sched as [|t sched IH]; intros n s H; [exact H|].
  cbn. apply IH. apply gen_step_is_model. exact H.
Qed.

(** the machine compiled from the source, started on any programs, run under any schedule,
    ends in the state the model ends in: same log, lock, counter; same store and same
    threads (program, program point, register) pointwise *)
Lemma gen_machine_is_model nc progs sched :
  corr (nrun gen_get_code gen_clear_code sched (ninit nc progs)) (reach nc progs sched).
Proof. apply gen_run_is_model. apply corr_init. Qed.

Lemma gen_machine_log nc progs sched :
  nlog (nrun gen_get_code gen_clear_code sched (ninit nc progs)) = log (reach nc progs sched).
Proof. apply (gen_machine_is_model nc progs sched). Qed.

(** the key expression of the current Loader.get_pipeline is the model's *)
Lemma gen_pipeline_key_is_model parent name : gen_pipeline_key parent name = pipeline_key parent name.
Proof. reflexivity. Qed.

(** so everything proved about [reach] holds of the generated machine; the two headline
    instances, restated on the machine itself *)
Lemma gen_single_flight progs sched k :
  length (created_for k (since_clear
    (nlog (nrun gen_get_code gen_clear_code sched (ninit false progs))))) <= 1.
Proof. rewrite gen_machine_log. apply single_flight. Qed.

Lemma gen_no_cross_talk nc progs sched t r o :
  let l := nlog (nrun gen_get_code gen_clear_code sched (ninit nc progs)) in
  In (ERet t r o) l ->
  exists t' r', In (ECreated t' r' o) l /\
                gen_pipeline_key (fst r') (snd r') = gen_pipeline_key (fst r) (snd r).
Proof.
  cbn zeta. rewrite gen_machine_log. intros H.
  destruct (returned_object_made_for_key nc progs sched t r o H) as (t' & r' & Hc & Hk).
  exists t', r'. split; [exact Hc|exact Hk].
Qed.
