(** Proofs/RetryProofs.v — placeholder, to be written. *)
