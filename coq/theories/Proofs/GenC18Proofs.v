(** Proofs/GenC18Proofs.v — Tie B for C18: the definitions GENERATED from the current Python
    source (Gen/GenC18.v, rewritten before every build by tools/py2coq_c18.py) are proved equal,
    for all inputs, to the hand-written model functions the C18 theorems are about
    (Model/Parsers.v, Model/Cli.v).  An edit to one of the parser modules or to the except
    ladder / runner call of pypyr.cli.main re-checks — or breaks — these lemmas.

    The proofs do not mention the generated terms literally (fresh-name suffixes and the order
    of let-bindings may change with harmless edits of the source); they destruct the argument,
    compute, and use extensionality of map / fold_left. *)
From PV Require Import Parsers Cli ParsersProofs CliProofs GenC18.
Open Scope string_scope.

Lemma dict_update_single k v : dict_update [] [(k, v)] = [(k, v)].
Proof. reflexivity. Qed.

Lemma fold_left_ext {A B} (f g : A -> B -> A) l :
  (forall s x, f s x = g s x) -> forall s, fold_left f l s = fold_left g l s.
Proof. intros H. induction l as [|x r IH]; intros s; simpl; [reflexivity|]. now rewrite H, IH. Qed.

(** pairs read off [partition('=')] are the model's [kv_pair]s *)
Lemma kv_pair_partition s :
  (let '(k, _, v) := partition_first "="%char s in (VStr k, VStr v)) = kv_pair s.
Proof. unfold kv_pair, kv_of, eq_char. destruct (partition_first "=" s) as [[k f] v]. reflexivity. Qed.

(** normalise a generated pipeline of maps over the arguments into the model's [map kv_pair] *)
Ltac kvp_maps :=
  rewrite ?map_map;
  match goal with
  | |- context [map ?f ?l] =>
      let T := type of f in
      unify T (string -> (val * val)%type);
      replace (map f l) with (map kv_pair l)
        by (apply map_ext; intros s_; symmetry; apply kv_pair_partition)
  end.

(** the same pairs written by an explicit loop [for element in args: out[k] = v] *)
Ltac kvp_loop :=
  match goal with
  | |- context [fold_left ?f ?l ?i] =>
      let T := type of f in
      unify T (dict -> string -> dict);
      let H := fresh "H" in
      assert (H : forall l0 d, fold_left f l0 d = dict_update d (map kv_pair l0));
      [ let l0 := fresh "l0" in let a0 := fresh "a0" in let IH := fresh "IH" in
        induction l0 as [|a0 l0 IH]; intros d; [reflexivity|];
        cbn [fold_left map]; rewrite IH; unfold dict_update at 2; cbn [fold_left];
        unfold kv_pair, kv_of, eq_char;
        destruct (partition_first "=" a0) as [[k_ f_] v_]; reflexivity
      | rewrite H ]
  end.

Ltac kvp_norm := cbv zeta; first [kvp_maps | kvp_loop].

(** * the parsers *)
Lemma gen_keyvaluepairs_is_model a : gen_parse_keyvaluepairs a = parse_keyvaluepairs a.
Proof.
  destruct a as [[|x l]|]; try reflexivity.
  unfold gen_parse_keyvaluepairs, parse_keyvaluepairs. cbn [args_falsy args_list].
  unfold kvp_dict, dict_of_pairs. kvp_norm. reflexivity.
Qed.

Lemma gen_dict_is_model a : gen_parse_dict a = parse_dict a.
Proof.
  destruct a as [[|x l]|]; try reflexivity.
  unfold gen_parse_dict, parse_dict. cbn [args_falsy args_list].
  rewrite ?dict_update_single. unfold kvp_dict, dict_of_pairs. kvp_norm. reflexivity.
Qed.

Lemma gen_keys_is_model a : gen_parse_keys a = parse_keys a.
Proof.
  destruct a as [[|x l]|]; try reflexivity.
  unfold gen_parse_keys, parse_keys. cbn [args_falsy args_list].
  unfold keys_dict, dict_of_pairs. rewrite ?map_map. reflexivity.
Qed.

Lemma gen_list_is_model a : gen_parse_list a = parse_list a.
Proof. destruct a as [[|x l]|]; reflexivity. Qed.

Lemma gen_string_is_model a : gen_parse_string a = parse_string a.
Proof. destruct a as [[|x l]|]; reflexivity. Qed.

(** argskwargs: the generated loop carries (arg_list, out); the model's [akw_step] carries
    (out, arg_list).  Whatever the generated loop body looks like, it is shown to simulate
    [akw_step] under that swap, by induction on the argument list. *)
Ltac akw_loop x l :=
  match goal with
  | |- context [fold_left ?f (x :: l) ?i] =>
      let T := type of i in
      unify T (list string * dict)%type;
      (   let H := fresh "H" in
          assert (H : forall l0 al out,
                     fold_left f l0 (al, out)
                     = (snd (fold_left akw_step l0 (out, al)), fst (fold_left akw_step l0 (out, al))));
          [ let l0 := fresh "l0" in let a0 := fresh "a0" in let IH := fresh "IH" in
            induction l0 as [|a0 l0 IH]; intros al out; [reflexivity|];
            cbn [fold_left]; unfold akw_step at 2 4; unfold eq_char;
            destruct (partition_first "=" a0) as [[k_ f_] v_]; destruct f_; cbn [negb andb orb fst snd];
            rewrite IH; reflexivity
          | rewrite H ])
  end.

Lemma gen_argskwargs_is_model a : gen_parse_argskwargs a = parse_argskwargs a.
Proof.
  destruct a as [[|x l]|]; try reflexivity.
  unfold gen_parse_argskwargs, parse_argskwargs, argskwargs_dict, akw_finish.
  cbn [args_falsy args_list]. cbv zeta.
  akw_loop x l. reflexivity.
Qed.

(** json: [json.loads] is the translator's abstract primitive; instantiated with the model's
    loader the generated parser is the model's *)
Lemma gen_json_is_model a : gen_parse_json json_loads a = parse_json a.
Proof.
  destruct a as [[|x l]|]; try reflexivity.
  all: unfold gen_parse_json, parse_json; cbn [args_falsy args_list].
  all: destruct (json_loads (join " " (x :: l))) as [v| |]; cbn [bind]; [destruct v|..]; reflexivity.
Qed.

(** … and for ANY loader: None for no arguments, the loader's dict, TypeError for a non-dict,
    the loader's error otherwise *)
Lemma gen_json_any_loader loads a :
  gen_parse_json loads a =
  if args_falsy a then Ok None
  else match loads (join " " (args_list a)) with
       | Ok (VDict d) => Ok (Some d)
       | Ok _ => Err "TypeError" json_type_error_msg
       | Err n m => Err n m
       | Unsup => Unsup
       end.
Proof.
  destruct a as [[|x l]|]; try reflexivity.
  all: unfold gen_parse_json; cbn [args_falsy args_list].
  all: destruct (loads (join " " (x :: l))) as [v| |]; cbn [bind]; [destruct v|..]; reflexivity.
Qed.

(** * main: the except ladder *)

(** what the try body raised, if anything *)
Definition end_raised (e : run_end) : option run_end :=
  match e with
  | Completed | Stopped => None
  | _ => Some e
  end.

(** Python [isinstance(e, <class named cls>)] on the model's ways of ending: the class lattice
    BaseException > {Exception, KeyboardInterrupt, SystemExit, GeneratorExit, …} *)
Definition raised_isinstance (e : run_end) (cls : string) : bool :=
  match e with
  | RaisedException _ _ => str_in cls ["Exception"; "BaseException"]
  | RaisedKeyboardInterrupt => str_in cls ["KeyboardInterrupt"; "BaseException"]
  | RaisedSystemExit _ => str_in cls ["SystemExit"; "BaseException"]
  | RaisedOtherBase ty _ => String.eqb cls ty || String.eqb cls "BaseException"
  | Completed | Stopped => false
  end.

(** main's result without what it prints: inl code = returned code, inr e = e escaped *)
Definition ladder_of (m : main_out) : option Z + run_end :=
  match m with
  | Returned c _ _ _ => inl c
  | Propagated e => inr e
  end.

(** [RaisedOtherBase ty] stands for a BaseException that is none of the classes which have a
    constructor of their own *)
Definition wf_end (e : run_end) : bool :=
  match e with
  | RaisedOtherBase ty _ =>
      negb (String.eqb "KeyboardInterrupt" ty || String.eqb "Exception" ty
            || String.eqb "SystemExit" ty)
  | _ => true
  end.

Lemma gen_main_ladder_is_model log e :
  wf_end e = true ->
  gen_main_ladder run_end raised_isinstance (end_raised e) = ladder_of (main_of_end log e).
Proof.
  intros W. destruct e as [| |ty msg| |c|ty msg]; try reflexivity.
  unfold gen_main_ladder, end_raised, raised_isinstance. simpl main_of_end. simpl ladder_of.
  unfold wf_end in W. apply negb_true_iff in W. apply orb_false_iff in W as [W W3].
  apply orb_false_iff in W as [W1 W2]. rewrite W1, W2. reflexivity.
Qed.

(** the exit status of the process, read off the generated ladder *)
Lemma gen_main_ladder_status log e :
  wf_end e = true ->
  match gen_main_ladder run_end raised_isinstance (end_raised e) with
  | inl None => process_status (main_of_end log e) = 0%Z
  | inl (Some c) => process_status (main_of_end log e) = (c mod 256)%Z
  | inr e' => main_of_end log e = Propagated e'
  end.
Proof.
  intros W. rewrite (gen_main_ladder_is_model log e W).
  destruct e; reflexivity.
Qed.

(** * main: the call into the runner *)
Lemma gen_call_of_is_model cwd a : gen_call_of cwd a = call_of cwd a.
Proof. reflexivity. Qed.
