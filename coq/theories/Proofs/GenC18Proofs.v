(* Proofs/GenC18Proofs.v - placeholder *)
