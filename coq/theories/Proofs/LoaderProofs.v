(** Proofs/LoaderProofs.v — lemmas about Model/Loader.v (C19). *)
From PV Require Import Loader.
From Coq Require Import Lia.
Open Scope string_scope.

(** * Strings: reversal, splitting, joining *)

Lemma str_rev_aux_twice x : forall a b,
  str_rev_aux (str_rev_aux x a) b = str_rev_aux a (x ++ b).
Proof.
  induction x as [|d x IH]; intros a b; cbn.
  - reflexivity.
  - rewrite IH. reflexivity.
Qed.

Lemma str_rev_rev_onto x : str_rev (str_rev_aux x "") = x.
Proof.
  unfold str_rev. rewrite str_rev_aux_twice. cbn.
  induction x; cbn; congruence.
Qed.

Lemma app_empty_r (x : string) : x ++ "" = x.
Proof. induction x; cbn; congruence. Qed.

Lemma app_assoc_s (x y z : string) : (x ++ y) ++ z = x ++ (y ++ z).
Proof. induction x; cbn; congruence. Qed.

(** a separator-free prefix followed by the separator is one field *)
Lemma split_on_app c x : forall r cur,
  contains_char c x = false ->
  split_on c (x ++ String c r) cur = str_rev (str_rev_aux x cur) :: split_on c r "".
Proof.
  induction x as [|d x IH]; intros r cur H; cbn in *.
  - rewrite Ascii.eqb_refl. reflexivity.
  - apply orb_false_iff in H. destruct H as [Hd Hx]. rewrite Hd.
    rewrite IH by assumption. reflexivity.
Qed.

Lemma split_on_nosep c x : forall cur,
  contains_char c x = false -> split_on c x cur = [str_rev (str_rev_aux x cur)].
Proof.
  induction x as [|d x IH]; intros cur H; cbn in *.
  - reflexivity.
  - apply orb_false_iff in H. destruct H as [Hd Hx]. rewrite Hd. apply IH; assumption.
Qed.

Definition sep_free (c : ascii) (x : string) : Prop := contains_char c x = false.

(** [split (join l) = l] for a non-empty list of separator-free fields *)
Lemma split_on_join c (l : list string) :
  l <> [] -> Forall (sep_free c) l ->
  split_on c (join (String c "") l) "" = l.
Proof.
  induction l as [|x r IH]; intros Hne Hall; [congruence|].
  inversion Hall as [|? ? Hx Hr]; subst.
  destruct r as [|y r'].
  - cbn. rewrite split_on_nosep by exact Hx. rewrite str_rev_rev_onto. reflexivity.
  - change (join (String c "") (x :: y :: r'))
      with (x ++ String c "" ++ join (String c "") (y :: r')).
    change (String c "" ++ join (String c "") (y :: r'))
      with (String c (join (String c "") (y :: r'))).
    rewrite split_on_app by exact Hx. rewrite str_rev_rev_onto.
    f_equal. apply IH; [congruence|assumption].
Qed.

Lemma contains_char_rev_aux c x : forall a,
  contains_char c (str_rev_aux x a) = contains_char c x || contains_char c a.
Proof.
  induction x as [|d x IH]; intros a; cbn.
  - reflexivity.
  - rewrite IH. cbn. destruct (Ascii.eqb c d), (contains_char c x), (contains_char c a); reflexivity.
Qed.

(** every field produced by [split_on] is separator-free *)
Lemma split_on_fields_free c s : forall cur,
  contains_char c cur = false -> Forall (sep_free c) (split_on c s cur).
Proof.
  induction s as [|d s IH]; intros cur Hc; cbn.
  - constructor; [|constructor]. unfold sep_free, str_rev.
    rewrite contains_char_rev_aux. rewrite Hc. reflexivity.
  - destruct (Ascii.eqb c d) eqn:E.
    + constructor.
      * unfold sep_free, str_rev. rewrite contains_char_rev_aux. rewrite Hc. reflexivity.
      * apply IH. reflexivity.
    + apply IH. cbn. rewrite E, Hc. reflexivity.
Qed.

(** * Paths *)

Definition clean_seg (x : string) : Prop :=
  dot_seg x = false /\ (x =? "..") = false /\ sep_free SLASH x.

Lemma Forall_tl {A} (P : A -> Prop) l : Forall P l -> Forall P (tl l).
Proof. destruct l; cbn; intros H; [constructor|inversion H; assumption]. Qed.

Lemma Forall_removelast {A} (P : A -> Prop) l : Forall P l -> Forall P (removelast l).
Proof.
  induction l as [|x r IH]; cbn; intros H; [constructor|].
  inversion H; subst. destruct r; [constructor|]. constructor; auto.
Qed.

Lemma norm_segs_clean l : forall acc,
  Forall (sep_free SLASH) l -> Forall clean_seg acc -> Forall clean_seg (norm_segs l acc).
Proof.
  induction l as [|x r IH]; intros acc Hl Ha; cbn.
  - apply Forall_rev. exact Ha.
  - inversion Hl; subst.
    destruct (dot_seg x) eqn:Ed; [apply IH; assumption|].
    destruct (x =? "..") eqn:Eu.
    + apply IH; [assumption|apply Forall_tl; exact Ha].
    + apply IH; [assumption|]. constructor; [|exact Ha]. repeat split; assumption.
Qed.

Lemma norm_segs_of_clean l : forall acc,
  Forall clean_seg l -> norm_segs l acc = (rev acc ++ l)%list.
Proof.
  induction l as [|x r IH]; intros acc H; cbn.
  - rewrite app_nil_r. reflexivity.
  - inversion H as [|? ? [Hd [Hu _]] Hr]; subst. rewrite Hd, Hu.
    rewrite IH by assumption. cbn. rewrite <- app_assoc. reflexivity.
Qed.

Lemma segs_abs_of_segs l :
  l <> [] -> Forall (sep_free SLASH) l -> segs (abs_of_segs l) = "" :: l.
Proof.
  intros Hne Hall. unfold segs, abs_of_segs.
  change ("/" ++ join "/" l) with (String SLASH (join (String SLASH "") l)).
  cbn [split_on]. rewrite Ascii.eqb_refl. cbn [str_rev str_rev_aux].
  f_equal. apply split_on_join; assumption.
Qed.

(** resolving an already resolved path changes nothing *)
Lemma norm_segs_abs_of_segs l :
  Forall clean_seg l -> norm_segs (segs (abs_of_segs l)) [] = l.
Proof.
  intros H. destruct l as [|x r].
  - reflexivity.
  - rewrite segs_abs_of_segs.
    + change (norm_segs ("" :: x :: r) []) with (norm_segs (x :: r) []).
      rewrite norm_segs_of_clean by exact H. reflexivity.
    + congruence.
    + eapply Forall_impl; [|exact H]. intros a [_ [_ Ha]]. exact Ha.
Qed.

Lemma segs_fields_free s : Forall (sep_free SLASH) (segs s).
Proof. apply split_on_fields_free. reflexivity. Qed.

Lemma norm_segs_segs_clean s : Forall clean_seg (norm_segs (segs s) []).
Proof. apply norm_segs_clean; [apply segs_fields_free|constructor]. Qed.

Lemma norm_abs_idem s : norm_abs (norm_abs s) = norm_abs s.
Proof.
  unfold norm_abs at 1. unfold norm_abs at 1.
  rewrite norm_segs_abs_of_segs by apply norm_segs_segs_clean. reflexivity.
Qed.

Lemma is_abs_abs_of_segs l : is_abs (abs_of_segs l) = true.
Proof.
  unfold is_abs, abs_of_segs, startswith. cbn. destruct (join "/" l); reflexivity.
Qed.

(** [Path(dir).resolve() == dir] for the directory of a resolved file: the parent the file
    loader records needs no further resolution *)
Lemma resolve_dirname cwd p : resolve cwd (dirname p) = dirname p.
Proof.
  unfold resolve, dirname. rewrite is_abs_abs_of_segs. unfold norm_abs.
  rewrite norm_segs_abs_of_segs; [reflexivity|].
  apply Forall_removelast. apply norm_segs_segs_clean.
Qed.

(** * find_first: the first existing candidate, nothing existing before it *)

Lemma find_first_some f fname dirs p :
  find_first f fname dirs = Some p ->
  exists pre d post, dirs = (pre ++ d :: post)%list /\ p = joinpath d fname /\ f p = true
                     /\ Forall (fun d' => f (joinpath d' fname) = false) pre.
Proof.
  induction dirs as [|d r IH]; cbn; intros H; [discriminate|].
  destruct (f (joinpath d fname)) eqn:E.
  - inversion H; subst. exists [], d, r. repeat split; auto.
  - destruct (IH H) as (pre & d' & post & -> & -> & Hf & Hpre).
    exists (d :: pre), d', post. repeat split; auto.
Qed.

Lemma find_first_none f fname dirs :
  find_first f fname dirs = None <-> Forall (fun d => f (joinpath d fname) = false) dirs.
Proof.
  induction dirs as [|d r IH]; cbn.
  - split; [constructor|reflexivity].
  - destruct (f (joinpath d fname)) eqn:E.
    + split; [discriminate|]. intros H. inversion H; congruence.
    + rewrite IH. split; intros H; [constructor; assumption|inversion H; assumption].
Qed.

Lemma find_first_found_iff f fname dirs :
  (exists p, find_first f fname dirs = Some p) <->
  Exists (fun d => f (joinpath d fname) = true) dirs.
Proof.
  induction dirs as [|d r IH]; cbn.
  - split; [intros [p H]; discriminate|intros H; inversion H].
  - destruct (f (joinpath d fname)) eqn:E.
    + split; [intros _; left; exact E|intros _; eexists; reflexivity].
    + rewrite IH. split; [intros H; right; exact H|].
      intros H. inversion H; subst; [congruence|assumption].
Qed.

(** completeness: prefix with nothing existing, then an existing one *)
Lemma find_first_intro f fname pre d post :
  Forall (fun d' => f (joinpath d' fname) = false) pre -> f (joinpath d fname) = true ->
  find_first f fname (pre ++ d :: post) = Some (joinpath d fname).
Proof.
  induction pre as [|x r IH]; cbn; intros Hp Hd.
  - rewrite Hd. reflexivity.
  - inversion Hp; subst. rewrite H1. apply IH; assumption.
Qed.

(** * The code's list versus the documented order *)

(** a regular file below the parent directory implies that directory exists *)
Definition parent_wf (e : env) (parent : pyparent) (fname : string) : Prop :=
  let p := resolve (e_cwd e) (p_str parent) in
  e_is_file e (joinpath p fname) = true -> e_exists e p = true.

Lemma search_eq_documented e parent fname :
  parent_wf e parent fname ->
  find_first (e_is_file e) fname (search_locations e parent)
  = find_first (e_is_file e) fname (documented_order e parent).
Proof.
  unfold parent_wf, search_locations, documented_order, parent_locs. intros Hwf.
  destruct (p_truthy parent); [|reflexivity].
  set (p := resolve (e_cwd e) (p_str parent)) in *.
  destruct (e_exists e p) eqn:Ex.
  - destruct (p =? e_cwd e) eqn:Ec.
    + apply String.eqb_eq in Ec. rewrite Ec. cbn.
      destruct (e_is_file e (joinpath (e_cwd e) fname)); reflexivity.
    + reflexivity.
  - cbn. destruct (e_is_file e (joinpath p fname)) eqn:Ef.
    + specialize (Hwf eq_refl). congruence.
    + reflexivity.
Qed.

(** every location the code searches is a documented one, in the same relative order *)
Lemma search_locations_sub e parent :
  exists pre, (pre = [] \/ pre = [resolve (e_cwd e) (p_str parent)]) /\
              documented_order e parent = (pre ++ [e_cwd e; cwd_pipelines e; e_builtin e])%list /\
              exists pre', (pre' = [] \/ pre' = pre) /\
              search_locations e parent = (pre' ++ [e_cwd e; cwd_pipelines e; e_builtin e])%list.
Proof.
  unfold documented_order, search_locations, parent_locs.
  destruct (p_truthy parent).
  - eexists. split; [right; reflexivity|]. split; [reflexivity|].
    destruct (e_exists e _); [destruct (_ =? _)|]; eexists; split; try reflexivity; auto.
  - exists []. split; [auto|]. split; [reflexivity|]. exists []. auto.
Qed.

(** * get_pipeline_path *)

Lemma get_pipeline_path_relative e name parent :
  is_abs (name ++ ".yaml") = false ->
  get_pipeline_path e name parent =
  match find_first (e_is_file e) (name ++ ".yaml") (search_locations e parent) with
  | Some p => Ok (resolve (e_cwd e) p)
  | None => Err PNF (not_found_msg (name ++ ".yaml") (search_locations e parent))
  end.
Proof. unfold get_pipeline_path. intros ->. reflexivity. Qed.

Theorem first_existing e name parent :
  let fname := name ++ ".yaml" in
  is_abs fname = false -> parent_wf e parent fname ->
  match get_pipeline_path e name parent with
  | Ok p => exists pre d post,
        documented_order e parent = (pre ++ d :: post)%list /\
        p = resolve (e_cwd e) (joinpath d fname) /\
        e_is_file e (joinpath d fname) = true /\
        Forall (fun d' => e_is_file e (joinpath d' fname) = false) pre
  | Err n m => n = PNF /\ m = not_found_msg fname (search_locations e parent) /\
               Forall (fun d => e_is_file e (joinpath d fname) = false) (documented_order e parent)
  | Unsup => False
  end.
Proof.
  intros fname Habs Hwf. rewrite get_pipeline_path_relative by exact Habs.
  fold fname. rewrite (search_eq_documented e parent fname Hwf).
  destruct (find_first _ _ (documented_order e parent)) as [p|] eqn:E.
  - destruct (find_first_some _ _ _ _ E) as (pre & d & post & Hd & -> & Hf & Hpre).
    exists pre, d, post. repeat split; auto.
  - repeat split; auto. apply find_first_none. exact E.
Qed.

(** converse: if some documented location holds the file, the look-up succeeds *)
Theorem existing_is_found e name parent :
  let fname := name ++ ".yaml" in
  is_abs fname = false -> parent_wf e parent fname ->
  Exists (fun d => e_is_file e (joinpath d fname) = true) (documented_order e parent) ->
  exists p, get_pipeline_path e name parent = Ok p.
Proof.
  intros fname Habs Hwf Hex. rewrite get_pipeline_path_relative by exact Habs.
  fold fname. rewrite (search_eq_documented e parent fname Hwf).
  apply find_first_found_iff in Hex. destruct Hex as [p ->]. eexists; reflexivity.
Qed.

(** absolute names: only the path itself decides, whatever else exists, whatever the parent *)
Theorem absolute_only e name parent :
  is_abs (name ++ ".yaml") = true ->
  get_pipeline_path e name parent =
  if e_is_file e (name ++ ".yaml") then Ok (norm_abs (name ++ ".yaml"))
  else Err PNF (abs_missing_msg (name ++ ".yaml")).
Proof. unfold get_pipeline_path, resolve. intros ->. reflexivity. Qed.

Theorem absolute_nowhere_else e e' name parent parent' :
  is_abs (name ++ ".yaml") = true ->
  e_is_file e (name ++ ".yaml") = e_is_file e' (name ++ ".yaml") ->
  get_pipeline_path e name parent = get_pipeline_path e' name parent'.
Proof. intros Ha Hf. rewrite !absolute_only by exact Ha. rewrite Hf. reflexivity. Qed.

(** * The not-found message *)

Definition NL : ascii := ascii_of_nat 10.
Definition lines (s : string) : list string := split_on NL s "".

Theorem not_found_lists_all e name parent :
  let fname := name ++ ".yaml" in
  is_abs fname = false ->
  Forall (fun d => e_is_file e (joinpath d fname) = false) (search_locations e parent) ->
  get_pipeline_path e name parent = Err PNF (not_found_msg fname (search_locations e parent)).
Proof.
  intros fname Habs Hall. rewrite get_pipeline_path_relative by exact Habs. fold fname.
  apply find_first_none in Hall. rewrite Hall. reflexivity.
Qed.

Lemma search_locations_nonempty e parent : search_locations e parent <> [].
Proof. unfold search_locations. destruct (parent_locs e parent); cbn; congruence. Qed.

(** the message, line by line: a header naming the file, then exactly the searched
    locations in search order (for names and directories without a newline) *)
Theorem not_found_msg_lines fname dirs :
  dirs <> [] -> sep_free NL fname -> Forall (sep_free NL) dirs ->
  lines (not_found_msg fname dirs) = (fname ++ " not found in any of the following:") :: dirs.
Proof.
  intros Hne Hf Hd. unfold lines, not_found_msg.
  rewrite <- app_assoc_s.
  change (nl ++ join nl dirs) with (String NL (join (String NL "") dirs)).
  rewrite split_on_app.
  - rewrite str_rev_rev_onto. f_equal. apply split_on_join; assumption.
  - clear -Hf. unfold sep_free in *.
    induction fname as [|c s IH]; cbn in *; [reflexivity|].
    apply orb_false_iff in Hf. destruct Hf as [-> Hs]. cbn. apply IH. exact Hs.
Qed.

(** * add_sys_path *)

Lemma existsb_pp_eqb_refl p l : In p l -> existsb (pp_eqb p) l = true.
Proof.
  intros H. apply existsb_exists. exists p. split; [exact H|].
  destruct p; cbn; auto using String.eqb_refl.
Qed.

Lemma pp_eqb_eq a b : pp_eqb a b = true -> a = b.
Proof.
  destruct a, b; cbn; try discriminate; auto; intros H; apply String.eqb_eq in H; congruence.
Qed.

Lemma add_sys_path_known e st p : In p (known (add_sys_path e st p)).
Proof.
  unfold add_sys_path. destruct (existsb (pp_eqb p) (known st)) eqn:E.
  - apply existsb_exists in E. destruct E as (q & Hq & Heq). apply pp_eqb_eq in Heq. subst. exact Hq.
  - destruct (negb _); cbn; auto.
Qed.

Theorem add_sys_path_idempotent e st p :
  add_sys_path e (add_sys_path e st p) p = add_sys_path e st p.
Proof.
  unfold add_sys_path at 1.
  rewrite existsb_pp_eqb_refl by apply add_sys_path_known. reflexivity.
Qed.

(** sys.path is only ever extended at the end, by at most the one directory *)
Theorem add_sys_path_appends e st p :
  syspath (add_sys_path e st p) = syspath st \/
  (syspath (add_sys_path e st p) = (syspath st ++ [p_str p])%list /\
   str_in (p_str p) (syspath st) = false /\
   e_exists e (resolve (e_cwd e) (p_str p)) = true).
Proof.
  unfold add_sys_path. destruct (existsb _ _); [left; reflexivity|].
  destruct (e_exists e _) eqn:Ex; cbn; [|left; reflexivity].
  destruct (str_in _ _) eqn:Es; [left; reflexivity|right; auto].
Qed.

Lemma str_in_In s l : str_in s l = true <-> In s l.
Proof.
  induction l as [|x r IH]; cbn; [split; [discriminate|tauto]|].
  rewrite orb_true_iff, IH, String.eqb_eq. split; intros [H|H]; auto.
Qed.

Lemma add_sys_path_incl e st p s : In s (syspath st) -> In s (syspath (add_sys_path e st p)).
Proof.
  intros H. destruct (add_sys_path_appends e st p) as [->|[-> _]]; [exact H|].
  apply in_or_app. left. exact H.
Qed.

(** never a duplicate *)
Theorem add_sys_path_nodup e st p : NoDup (syspath st) -> NoDup (syspath (add_sys_path e st p)).
Proof.
  intros H. destruct (add_sys_path_appends e st p) as [->|[-> [Hn _]]]; [exact H|].
  apply NoDup_rev in H. rewrite <- (rev_involutive (_ ++ _)). apply NoDup_rev.
  rewrite rev_app_distr. cbn. constructor; [|exact H].
  rewrite <- in_rev. intros Hin. apply str_in_In in Hin. congruence.
Qed.

(** invariant tying [_known_dirs] to sys.path (true initially, kept by [add_sys_path] on a
    static file system): a known directory that exists is on sys.path *)
Definition sys_inv (e : env) (st : sysst) : Prop :=
  forall p, In p (known st) -> e_exists e (resolve (e_cwd e) (p_str p)) = true ->
            In (p_str p) (syspath st).

Lemma sys_inv_init e : sys_inv e sys0.
Proof. intros p []. Qed.

Lemma add_sys_path_inv e st p : sys_inv e st -> sys_inv e (add_sys_path e st p).
Proof.
  intros Hinv q Hq Hex. unfold add_sys_path in *.
  destruct (existsb (pp_eqb p) (known st)); [apply Hinv; assumption|].
  destruct (e_exists e (resolve (e_cwd e) (p_str p))) eqn:Ex; cbn in *.
  - destruct Hq as [<-|Hq].
    + destruct (str_in _ _) eqn:Es; [apply str_in_In; exact Es|].
      apply in_or_app. right. left. reflexivity.
    + specialize (Hinv q Hq Hex).
      destruct (str_in _ _); [exact Hinv|apply in_or_app; left; exact Hinv].
  - destruct Hq as [<-|Hq]; [congruence|apply Hinv; assumption].
Qed.

Theorem add_sys_path_present e st p :
  sys_inv e st -> e_exists e (resolve (e_cwd e) (p_str p)) = true ->
  In (p_str p) (syspath (add_sys_path e st p)).
Proof.
  intros Hinv Hex. apply (add_sys_path_inv e st p Hinv p); [apply add_sys_path_known|exact Hex].
Qed.

(** * Loading with the file loader *)

Lemma load_pipeline_path e st l k name parent st' d :
  load_pipeline e st l k name parent = Ok (st', d) ->
  get_pipeline_path e name parent = Ok (d_file d).
Proof.
  unfold load_pipeline. destruct (get_pipeline_path e name parent) as [path| |]; cbn; try discriminate.
  destruct k; intros H; inversion H; reflexivity.
Qed.

(** whatever the name, the parent handed in and the depth of the call: a pipeline loaded by
    the file loader records ITS OWN directory as parent, cascading, and that directory has
    been added to sys.path *)
Theorem load_file_info e st name parent st' d :
  load_pipeline e st FILE_LOADER LFile name parent = Ok (st', d) ->
  d_info d = file_info (d_file d) /\ d_is_file_info d = true /\
  st' = add_sys_path e st (PPath (dirname (d_file d))).
Proof.
  unfold load_pipeline. destruct (get_pipeline_path e name parent) as [path| |]; cbn; try discriminate.
  intros H. inversion H. cbn. auto.
Qed.

Theorem load_file_dir_on_sys_path e st name parent st' d :
  load_pipeline e st FILE_LOADER LFile name parent = Ok (st', d) ->
  sys_inv e st -> e_exists e (dirname (d_file d)) = true ->
  In (dirname (d_file d)) (syspath st') /\ sys_inv e st'.
Proof.
  intros H Hinv Hex. destruct (load_file_info _ _ _ _ _ _ H) as (_ & _ & ->).
  split; [|apply add_sys_path_inv; exact Hinv].
  apply (add_sys_path_present e st (PPath (dirname (d_file d))) Hinv).
  cbn [p_str]. rewrite resolve_dirname. exact Hex.
Qed.

(** a module file next to the pipeline is then found by the import *)
Theorem sibling_module_importable e sp dir m :
  In dir sp -> is_abs dir = true -> e_is_file e (joinpath dir (m ++ ".py")) = true ->
  exists mp, find_module e sp m = Some mp.
Proof.
  intros Hin Ha Hf. unfold find_module. apply find_first_found_iff.
  apply Exists_exists. exists dir. split; [|exact Hf].
  apply in_map_iff. exists dir. rewrite Ha. auto.
Qed.

(** * The cascade of get_arguments *)

Theorem child_default_cascades info :
  i_lcasc info = true -> i_pcasc info = true ->
  child_loader info default_opts = Some (i_loader info) /\
  child_parent info default_opts = i_parent info.
Proof.
  intros Hl Hp. unfold child_parent, child_loader, default_opts. cbn. rewrite Hl, Hp.
  rewrite String.eqb_refl. auto.
Qed.

Theorem optout_resolve_false info o :
  o_resolve o = Some false -> o_parent o = Absent -> child_parent info o = PNone.
Proof. unfold child_parent. intros -> ->. reflexivity. Qed.

Theorem optout_explicit_parent info o s :
  o_parent o = Given s -> child_parent info o = PStr s.
Proof. unfold child_parent. intros ->. reflexivity. Qed.

Theorem optout_null_parent info o :
  o_parent o = Null -> child_parent info o = PNone.
Proof. unfold child_parent. intros ->. reflexivity. Qed.

Theorem optout_other_loader info o l :
  o_loader o = Given l -> l <> i_loader info -> o_parent o = Absent ->
  child_parent info o = PNone /\ child_loader info o = Some l.
Proof.
  unfold child_parent, child_loader. intros -> Hne ->.
  apply String.eqb_neq in Hne. rewrite Hne, andb_false_r. auto.
Qed.

Theorem optout_null_loader info o :
  o_loader o = Null -> o_parent o = Absent -> child_parent info o = PNone.
Proof. unfold child_parent, child_loader. intros -> ->. rewrite andb_false_r. reflexivity. Qed.

Theorem same_loader_still_cascades info o :
  o_loader o = Given (i_loader info) -> o_resolve o = None -> o_parent o = Absent ->
  i_pcasc info = true -> child_parent info o = i_parent info.
Proof.
  unfold child_parent, child_loader. intros -> -> -> ->. rewrite String.eqb_refl. reflexivity.
Qed.

Theorem no_parent_cascade_flag info o :
  i_pcasc info = false -> o_resolve o = None -> o_parent o = Absent -> child_parent info o = PNone.
Proof. unfold child_parent. intros -> -> ->. reflexivity. Qed.

Theorem no_loader_cascade_flag info o :
  i_lcasc info = false -> o_loader o = Absent -> o_parent o = Absent ->
  child_loader info o = None /\ child_parent info o = PNone.
Proof.
  unfold child_parent, child_loader. intros -> -> ->. rewrite andb_false_r. auto.
Qed.

(** the child of a file-loaded pipeline, with no option set, is searched for in that
    pipeline's directory first, then cwd, cwd/pipelines, built-in *)
Theorem child_parent_first e st name parent st' d :
  load_pipeline e st FILE_LOADER LFile name parent = Ok (st', d) ->
  child_loader (d_info d) default_opts = Some FILE_LOADER /\
  child_parent (d_info d) default_opts = PPath (dirname (d_file d)) /\
  documented_order e (child_parent (d_info d) default_opts)
  = [dirname (d_file d); e_cwd e; cwd_pipelines e; e_builtin e].
Proof.
  intros H. destruct (load_file_info _ _ _ _ _ _ H) as (Hi & _ & _).
  rewrite Hi. destruct (child_default_cascades (file_info (d_file d)) eq_refl eq_refl) as [Hl Hp].
  split; [exact Hl|]. split; [exact Hp|].
  rewrite Hp. unfold documented_order. cbn [p_truthy p_str file_info i_parent].
  rewrite resolve_dirname. reflexivity.
Qed.

(** with any of the opt-outs the parent directory is not a location at all *)
Theorem no_parent_order e : documented_order e PNone = [e_cwd e; cwd_pipelines e; e_builtin e]
                            /\ search_locations e PNone = [e_cwd e; cwd_pipelines e; e_builtin e].
Proof. split; reflexivity. Qed.

(** * The per-loader pipeline cache *)

Lemma ckey_eqb_eq a b : ckey_eqb a b = true -> a = b.
Proof.
  destruct a as [[x|] n], b as [[y|] m]; unfold ckey_eqb; cbn; try discriminate;
    intros H; try (apply andb_true_iff in H; destruct H as [H1 H2]; apply String.eqb_eq in H1);
    try apply String.eqb_eq in H; try apply String.eqb_eq in H2; congruence.
Qed.

Lemma cache_find_in l key c d : cache_find l key c = Some d -> In (l, key, d) c.
Proof.
  induction c as [|[[l' k'] d'] r IH]; cbn; [discriminate|].
  destruct ((l =? l') && ckey_eqb key k') eqn:E.
  - intros H. inversion H; subst. apply andb_true_iff in E. destruct E as [E1 E2].
    apply String.eqb_eq in E1. apply ckey_eqb_eq in E2. subst. left. reflexivity.
  - intros H. right. apply IH. exact H.
Qed.

(** what the key forgets: [None] and [''] both become "no parent", and a [str] parent and a
    [Path] parent with the same text share a key.  Nothing else is identified ... *)
Theorem cache_key_faithful parent name parent' name' :
  cache_key parent name = cache_key parent' name' ->
  name = name' /\ p_truthy parent = p_truthy parent' /\
  (p_truthy parent = true -> p_str parent = p_str parent').
Proof.
  unfold cache_key. destruct (p_truthy parent), (p_truthy parent'); intros H; inversion H;
    repeat split; auto; discriminate.
Qed.

(** ... and the look-up reads exactly that much of the parent: requests with the same key
    search the same locations *)
Lemma search_locations_key e parent parent' :
  p_truthy parent = p_truthy parent' ->
  (p_truthy parent = true -> p_str parent = p_str parent') ->
  search_locations e parent = search_locations e parent'.
Proof.
  unfold search_locations, parent_locs. intros Ht Hs. rewrite <- Ht.
  destruct (p_truthy parent); [rewrite (Hs eq_refl)|]; reflexivity.
Qed.

Theorem same_key_same_lookup e parent name parent' name' :
  cache_key parent name = cache_key parent' name' ->
  get_pipeline_path e name parent = get_pipeline_path e name' parent'.
Proof.
  intros H. destruct (cache_key_faithful _ _ _ _ H) as (-> & Ht & Hs).
  unfold get_pipeline_path. rewrite (search_locations_key e parent parent' Ht Hs). reflexivity.
Qed.

(** every entry was produced by a real load for SOME request with that key *)
Definition cache_genuine (e : env) (c : pcache) : Prop :=
  forall l key d, In (l, key, d) c ->
    exists k name parent st st', key = cache_key parent name /\
                                 load_pipeline e st l k name parent = Ok (st', d).

(** the full statement: a look-up through the cache returns the file an uncached look-up of
    the same (parent, name) request finds *)
Theorem cached_lookup e st l k name parent st' d :
  cache_genuine e (s_cache st) ->
  get_pipeline e st l k name parent = Ok (st', d) ->
  get_pipeline_path e name parent = Ok (d_file d).
Proof.
  unfold get_pipeline. intros Hg.
  destruct (cache_find l (cache_key parent name) (s_cache st)) as [d0|] eqn:E.
  - intros H. inversion H; subst. apply cache_find_in in E.
    destruct (Hg _ _ _ E) as (k' & name' & parent' & s1 & s2 & Hk & Hl).
    rewrite (same_key_same_lookup e parent name parent' name' Hk).
    eapply load_pipeline_path. exact Hl.
  - destruct (load_pipeline e (s_sys st) l k name parent) as [[s2 d2]| |] eqn:El; cbn; try discriminate.
    intros H. inversion H; subst. eapply load_pipeline_path. exact El.
Qed.

(** genuineness is kept by get_pipeline (so it holds of every reachable cache) *)
Theorem get_pipeline_genuine e st l k name parent st' d :
  cache_genuine e (s_cache st) -> get_pipeline e st l k name parent = Ok (st', d) ->
  cache_genuine e (s_cache st').
Proof.
  unfold get_pipeline. intros Hg.
  destruct (cache_find _ _ _) eqn:E.
  - intros H. inversion H; subst. exact Hg.
  - destruct (load_pipeline e (s_sys st) l k name parent) as [[s2 d2]| |] eqn:El; cbn; try discriminate.
    intros H. inversion H; subst. cbn. intros l' key' d' [Hin|Hin].
    + inversion Hin; subst. exists k, name, parent, (s_sys st), s2. auto.
    + apply Hg. exact Hin.
Qed.

(** * Invariants of a whole run *)

Definition st_inv (e : env) (st : state) : Prop :=
  sys_inv e (s_sys st) /\ cache_genuine e (s_cache st).

Lemma get_pipeline_inv e st l k name parent st' d :
  st_inv e st -> get_pipeline e st l k name parent = Ok (st', d) -> st_inv e st'.
Proof.
  intros [Hs Hc] H. split; [|eapply get_pipeline_genuine; eassumption].
  unfold get_pipeline in H. destruct (cache_find _ _ _).
  - inversion H; subst. exact Hs.
  - unfold load_pipeline in H.
    destruct (get_pipeline_path e name parent); cbn in H; try discriminate.
    destruct k; inversion H; subst; cbn; try exact Hs. apply add_sys_path_inv. exact Hs.
Qed.

Lemma run_calls_inv e (rec : rec_t) :
  (forall st l pd n p, st_inv e st -> st_inv e (fst (fst (rec st l pd n p)))) ->
  forall calls st info, st_inv e st -> st_inv e (fst (fst (run_calls rec st info calls))).
Proof.
  intros Hrec. induction calls as [|c r IH]; intros st info Hi; cbn; [exact Hi|].
  specialize (Hrec st (child_loader info (c_opts c)) (o_pydir (c_opts c)) (c_name c)
                   (child_parent info (c_opts c)) Hi).
  destruct (rec st _ _ _ _) as [[st1 ev1] s1]. cbn in Hrec.
  destruct s1; cbn; try exact Hrec.
  - specialize (IH st1 info Hrec). destruct (run_calls rec st1 info r) as [[st2 ev2] s2]. exact IH.
  - destruct (c_swallow c); [|exact Hrec].
    specialize (IH st1 info Hrec). destruct (run_calls rec st1 info r) as [[st2 ev2] s2]. exact IH.
Qed.

(** from the initial state, every state a run goes through satisfies the invariant: all
    loads of a chain of any depth happen with [_known_dirs] consistent and a genuine cache *)
Theorem run_pipeline_inv fuel w : forall st l pd n p,
  st_inv (w_env w) st -> st_inv (w_env w) (fst (fst (run_pipeline fuel w st l pd n p))).
Proof.
  induction fuel as [|f IH]; intros st l pd n p Hi; cbn; [exact Hi|].
  destruct (negb (name_ok n)); [exact Hi|].
  set (sys1 := pydir_sys (w_env w) (s_sys st) pd).
  assert (Hi1 : st_inv (w_env w) {| s_sys := sys1; s_cache := s_cache st |}).
  { destruct Hi as [Hs Hc]. split; [|exact Hc]. cbn. subst sys1. unfold pydir_sys.
    destruct pd as [d|]; [destruct (d =? "")|]; auto using add_sys_path_inv. }
  destruct (loader_kind (effective_loader l)) as [k|]; [|exact Hi1].
  destruct (get_pipeline _ _ _ _ _ _) as [[st2 d]| |] eqn:Eg; try exact Hi1.
  pose proof (get_pipeline_inv _ _ _ _ _ _ _ _ Hi1 Eg) as Hi2.
  destruct (w_content w (d_file d)) as [pp|]; [|exact Hi2].
  pose proof (run_calls_inv (w_env w) (run_pipeline f w) IH (p_calls pp) st2 (d_info d) Hi2) as Hc.
  destruct (p_mod pp) as [m|].
  - destruct (get_module _ _ _); try exact Hi2.
    destruct (run_calls _ _ _ _) as [[st3 ev] s3]. exact Hc.
  - destruct (run_calls _ _ _ _) as [[st3 ev] s3]. exact Hc.
Qed.

Lemma st_inv_init e : st_inv e state0.
Proof. split; [apply sys_inv_init|intros l k d []]. Qed.

(** ... and so does a start with pre-existing sys.path entries (nothing known yet) *)
Lemma st_inv_pre e pre : st_inv e (state_pre pre).
Proof. split; [intros p []|intros l k d []]. Qed.


(** ... across consecutive root runs in one process as well (any fuel) *)
Theorem run_roots_inv fuel w : forall invs st,
  st_inv (w_env w) st -> st_inv (w_env w) (fst (fst (run_roots fuel w st invs))).
Proof.
  induction invs as [|[[l pd] n] rest IH]; intros st Hi; [exact Hi|].
  cbn [run_roots].
  pose proof (run_pipeline_inv fuel w st l pd n PNone Hi) as H1.
  destruct (run_pipeline fuel w st l pd n PNone) as [[st1 ev1] s1]. cbn [fst] in H1.
  destruct rest as [|i2 rest']; [exact H1|].
  specialize (IH st1 H1).
  destruct s1; try exact H1;
    (destruct (run_roots fuel w st1 (i2 :: rest')) as [[st2 ev2] s2]; exact IH).
Qed.

(** a module file next to a file-loaded pipeline: the import attempt succeeds whatever was
    asked for, and failed, earlier — [get_module] looks at the current sys.path only *)
Theorem get_module_sibling e sp dir m :
  In dir sp -> is_abs dir = true -> e_is_file e (joinpath dir (m ++ ".py")) = true ->
  exists mp, get_module e sp m = Ok mp.
Proof.
  intros Hin Ha Hf. destruct (sibling_module_importable e sp dir m Hin Ha Hf) as [mp H].
  exists mp. unfold get_module. rewrite H. reflexivity.
Qed.
