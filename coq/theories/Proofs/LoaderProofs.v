(** Proofs/LoaderProofs.v — placeholder, to be written. *)
