(** Proofs/CmdProofs.v — lemmas about Model/Cmd.v (property C17).

    Part 1: the serial runner equals a one-level loop over (command, run-instruction) pairs
            and that loop runs exactly the prefix up to the first non-zero exit.
    Part 2: the concurrent machine reaches, under EVERY schedule, the state in which each
            task slot holds its own run-to-completion: confluence by a per-slot invariant
            ([finish]) plus a decreasing measure ([total_work]).
    Part 3: the schedule-free reading of the observation (started set, MultiError, cmdOut). *)
From PV Require Import Cmd.
From Coq Require Import Lia PeanoNat.
Import ListNotations.
Open Scope string_scope.
Open Scope list_scope.

(** * Specification vocabulary (used in the statements of Props/C17.v) *)

(** the prefix of [l] up to and including the first command that does not exit 0 *)
Fixpoint upto_bad (orc : oracle) (l : list string) : list string :=
  match l with
  | [] => []
  | c :: r => if exit_zero orc c then c :: upto_bad orc r else [c]
  end.

Definition all_zero (orc : oracle) (l : list string) : Prop :=
  forallb (exit_zero orc) l = true.

(** serial steps: (owning Command, run instruction) in declaration order *)
Definition spairs (ks : list scmd) : list (scmd * string) :=
  flat_map (fun k => map (pair k) (run_list (sc_run k))) ks.

Fixpoint upto_bad_p (orc : oracle) (l : list (scmd * string)) : list (scmd * string) :=
  match l with
  | [] => []
  | p :: r => if exit_zero orc (snd p) then p :: upto_bad_p orc r else [p]
  end.

(** what a run instruction contributes to cmdOut: its result when its Command saves and the
    process could be spawned — whatever the exit code *)
Definition saved (orc : oracle) (shell : bool) (p : scmd * string) : list res1 :=
  match orc (snd p) with
  | Exited rc o e =>
      if sc_save (fst p) then [sync_result shell (sc_text (fst p)) (snd p) rc o e] else []
  | SpawnFail _ _ => []
  end.

Definition failure (orc : oracle) (shell : bool) (p : scmd * string) : option perr :=
  match orc (snd p) with
  | SpawnFail n m => Some (PExn n m)
  | Exited rc o e =>
      if Z.eqb rc 0 then None
      else Some (sync_error shell (sc_save (fst p)) (sc_text (fst p)) (snd p) rc o e)
  end.

Fixpoint first_failure (orc : oracle) (shell : bool) (l : list (scmd * string)) : option perr :=
  match l with
  | [] => None
  | p :: r => match failure orc shell p with Some e => Some e | None => first_failure orc shell r end
  end.

(** concurrent steps: (owning Command, top-level entry) in declaration order *)
Definition aentries (ks : list acmd) : list (acmd * aentry) :=
  flat_map (fun k => map (pair k) (entries k)) ks.

Definition entry_head (e : aentry) : list string :=
  match entry_cmds e with [] => [] | c :: _ => [c] end.

(** the error a started command contributes to the aggregate *)
Definition afailure (orc : oracle) (shell : bool) (k : acmd) (c : string) : list perr :=
  match orc c with
  | SpawnFail n m => [PExn n m]
  | Exited rc o e =>
      if Z.eqb rc 0 then []
      else [PErr "pypyr.errors.SubprocessError" (async_args shell c) rc
                 (async_stream (ac_save k) (ac_text k) o) (async_stream (ac_save k) (ac_text k) e)]
  end.

(** the result object of one started command *)
Definition aresult (orc : oracle) (shell : bool) (k : acmd) (c : string) : res1 :=
  match orc c with
  | SpawnFail n m => X1 n m
  | Exited rc o e => async_result shell (ac_save k) (ac_text k) c rc o e
  end.

(** one top-level entry's element of cmdOut: results of the commands it ran, in order *)
Definition entry_out (orc : oracle) (shell : bool) (k : acmd) (e : aentry) : rentry :=
  match e with
  | AOne c => EOne (aresult orc shell k c)
  | ASer l => ESer (map (aresult orc shell k) (upto_bad orc l))
  end.

Definition all_failures (orc : oracle) (shell : bool) (ks : list acmd) : list perr :=
  flat_map (fun p => flat_map (afailure orc shell (fst p)) (upto_bad orc (entry_cmds (snd p))))
           (aentries ks).

(** * Part 1 — serial *)
Section SerialProofs.
  Variable orc : oracle.
  Variable shell : bool.

  Fixpoint run_pairs (l : list (scmd * string)) : list string * list res1 * option perr :=
    match l with
    | [] => ([], [], None)
    | p :: r =>
        let '(rs, er) := run1 orc shell (fst p) (snd p) in
        match er with
        | Some e => ([snd p], rs, Some e)
        | None => let '(st, rs', er') := run_pairs r in (snd p :: st, rs ++ rs', er')
        end
    end.

  Lemma run_strs_pairs k cs : run_strs orc shell k cs = run_pairs (map (pair k) cs).
  Proof.
    induction cs as [|c r IH]; [reflexivity|].
    cbn [run_strs map run_pairs fst snd]. rewrite IH. reflexivity.
  Qed.

  Lemma run_pairs_app l1 l2 :
    run_pairs (l1 ++ l2) =
    let '(st, rs, er) := run_pairs l1 in
    match er with
    | Some e => (st, rs, Some e)
    | None => let '(st', rs', er') := run_pairs l2 in (st ++ st', rs ++ rs', er')
    end.
  Proof.
    induction l1 as [|p r IH].
    - cbn. destruct (run_pairs l2) as [[st rs] er]. reflexivity.
    - cbn [app run_pairs]. destruct (run1 orc shell (fst p) (snd p)) as [rs [e|]]; [reflexivity|].
      rewrite IH. destruct (run_pairs r) as [[st rs'] [e|]]; [reflexivity|].
      destruct (run_pairs l2) as [[st' rs''] er']. cbn. rewrite app_assoc. reflexivity.
  Qed.

  Lemma run_cmds_pairs ks : run_cmds orc shell ks = run_pairs (spairs ks).
  Proof.
    induction ks as [|k r IH]; [reflexivity|].
    cbn [run_cmds spairs flat_map]. rewrite run_pairs_app, run_strs_pairs.
    destruct (run_pairs (map (pair k) (run_list (sc_run k)))) as [[st rs] [e|]]; [reflexivity|].
    fold (spairs r). rewrite IH. reflexivity.
  Qed.

  Lemma run1_spec k c : run1 orc shell k c = (saved orc shell (k, c), failure orc shell (k, c)).
  Proof.
    unfold run1, saved, failure. cbn [fst snd]. destruct (orc c); reflexivity.
  Qed.

  Lemma failure_none_iff p : failure orc shell p = None <-> exit_zero orc (snd p) = true.
  Proof.
    unfold failure, exit_zero. destruct (orc (snd p)) as [rc o e|n m].
    - destruct (Z.eqb rc 0); split; congruence.
    - split; congruence.
  Qed.

  Lemma run_pairs_spec l :
    run_pairs l = (map snd (upto_bad_p orc l), flat_map (saved orc shell) (upto_bad_p orc l),
                   first_failure orc shell l).
  Proof.
    induction l as [|[k c] r IH]; [reflexivity|].
    cbn [run_pairs fst snd upto_bad_p first_failure]. rewrite run1_spec.
    destruct (failure orc shell (k, c)) as [e|] eqn:F.
    - assert (Z : exit_zero orc c = false).
      { destruct (exit_zero orc c) eqn:Z; [|reflexivity].
        apply (failure_none_iff (k, c)) in Z. congruence. }
      rewrite Z. cbn. rewrite app_nil_r. reflexivity.
    - apply failure_none_iff in F. cbn [snd] in F. rewrite F, IH. reflexivity.
  Qed.

  Lemma map_snd_upto_bad_p l : map snd (upto_bad_p orc l) = upto_bad orc (map snd l).
  Proof.
    induction l as [|p r IH]; [reflexivity|].
    cbn [upto_bad_p map upto_bad]. destruct (exit_zero orc (snd p)); cbn; [rewrite IH|]; reflexivity.
  Qed.

  Lemma map_snd_spairs ks : map snd (spairs ks) = flat_map (fun k => run_list (sc_run k)) ks.
  Proof.
    induction ks as [|k r IH]; [reflexivity|].
    cbn [spairs flat_map]. rewrite map_app, map_map. cbn [snd]. rewrite map_id.
    fold (spairs r). rewrite IH. reflexivity.
  Qed.

  Lemma first_failure_none_iff l :
    first_failure orc shell l = None <-> forallb (exit_zero orc) (map snd l) = true.
  Proof.
    induction l as [|p r IH]; [cbn; tauto|].
    cbn [first_failure map forallb].
    destruct (failure orc shell p) as [e|] eqn:F.
    - split; [discriminate|]. intro H. apply andb_prop in H. destruct H as [H _].
      apply failure_none_iff in H. congruence.
    - apply failure_none_iff in F. rewrite F. cbn. exact IH.
  Qed.

  Lemma first_failure_split pre p post :
    forallb (exit_zero orc) (map snd pre) = true ->
    first_failure orc shell (pre ++ p :: post) =
    match failure orc shell p with Some e => Some e | None => first_failure orc shell post end.
  Proof.
    induction pre as [|q r IH]; intro H; [reflexivity|].
    cbn [map forallb] in H. apply andb_prop in H. destruct H as [H1 H2].
    cbn [app first_failure]. apply failure_none_iff in H1. rewrite H1. auto.
  Qed.

  (** the observation of the serial step, in closed form *)
  Lemma run_sync_spec cf :
    run_sync orc shell cf =
    let l := spairs (sync_commands cf) in
    mkObs (upto_bad orc (sconf_cmds cf)) []
          (match first_failure orc shell l with None => NoError | Some e => Raised e end)
          (sync_cmdout (flat_map (saved orc shell) (upto_bad_p orc l))).
  Proof.
    unfold run_sync. rewrite run_cmds_pairs, run_pairs_spec.
    rewrite map_snd_upto_bad_p, map_snd_spairs. reflexivity.
  Qed.
End SerialProofs.

Lemma forallb_upto_bad orc l :
  forallb (exit_zero orc) (upto_bad orc l) = forallb (exit_zero orc) l.
Proof.
  induction l as [|c r IH]; [reflexivity|].
  cbn [upto_bad forallb]. destruct (exit_zero orc c) eqn:Z; cbn; rewrite Z; [rewrite IH|]; reflexivity.
Qed.

Lemma upto_bad_all orc l : all_zero orc l -> upto_bad orc l = l.
Proof.
  unfold all_zero. induction l as [|c r IH]; intro H; [reflexivity|].
  cbn [forallb] in H. apply andb_prop in H. destruct H as [H1 H2].
  cbn [upto_bad]. rewrite H1, IH; auto.
Qed.

Lemma upto_bad_split orc pre c post :
  all_zero orc pre -> exit_zero orc c = false ->
  upto_bad orc (pre ++ c :: post) = pre ++ [c].
Proof.
  unfold all_zero. induction pre as [|q r IH]; intros H Z.
  - cbn. rewrite Z. reflexivity.
  - cbn [forallb] in H. apply andb_prop in H. destruct H as [H1 H2].
    cbn [app upto_bad]. rewrite H1, IH; auto.
Qed.

Lemma upto_bad_prefix orc l : exists post, l = upto_bad orc l ++ post.
Proof.
  induction l as [|c r [post IH]]; [exists []; reflexivity|].
  cbn [upto_bad]. destruct (exit_zero orc c).
  - exists post. cbn. f_equal. exact IH.
  - exists r. reflexivity.
Qed.

(** ** The serial theorems *)
Lemma serial_ok_iff_ran_all_zero orc shell cf :
  ob_err (run_sync orc shell cf) = NoError <->
  all_zero orc (ob_started (run_sync orc shell cf)).
Proof.
  rewrite run_sync_spec. cbn [ob_err ob_started]. unfold all_zero.
  rewrite forallb_upto_bad. unfold sconf_cmds. rewrite <- map_snd_spairs.
  rewrite <- (first_failure_none_iff orc shell).
  destruct (first_failure orc shell (spairs (sync_commands cf))); split; congruence.
Qed.

Lemma serial_ok_iff_declared_all_zero orc shell cf :
  ob_err (run_sync orc shell cf) = NoError <-> all_zero orc (sconf_cmds cf).
Proof.
  rewrite serial_ok_iff_ran_all_zero. rewrite run_sync_spec. cbn [ob_started].
  unfold all_zero. rewrite forallb_upto_bad. tauto.
Qed.

Lemma serial_started_is_prefix orc shell cf :
  ob_started (run_sync orc shell cf) = upto_bad orc (sconf_cmds cf).
Proof. rewrite run_sync_spec. reflexivity. Qed.

Lemma serial_all_zero_runs_all orc shell cf :
  all_zero orc (sconf_cmds cf) -> ob_started (run_sync orc shell cf) = sconf_cmds cf.
Proof. intro H. rewrite serial_started_is_prefix. apply upto_bad_all, H. Qed.

Lemma serial_stops_at_first orc shell cf pre c post :
  sconf_cmds cf = pre ++ c :: post -> all_zero orc pre -> exit_zero orc c = false ->
  ob_started (run_sync orc shell cf) = pre ++ [c].
Proof.
  intros E H Z. rewrite serial_started_is_prefix, E. apply upto_bad_split; assumption.
Qed.

Lemma serial_error_of_first orc shell cf pre c post :
  sconf_cmds cf = pre ++ c :: post -> all_zero orc pre -> exit_zero orc c = false ->
  exists k, In k (sync_commands cf) /\ In c (run_list (sc_run k)) /\
            exists e, failure orc shell (k, c) = Some e /\
                      ob_err (run_sync orc shell cf) = Raised e.
Proof.
  intros E H Z. rewrite run_sync_spec. cbn [ob_err].
  unfold sconf_cmds in E. rewrite <- map_snd_spairs in E.
  apply map_eq_app in E. destruct E as (lpre & l2 & E & Epre & E2).
  apply map_eq_cons in E2. destruct E2 as ([k c'] & lpost & E2 & Ec & _).
  cbn [snd] in Ec. subst c' l2.
  assert (Hin : In (k, c) (spairs (sync_commands cf))).
  { rewrite E. apply in_or_app. right. left. reflexivity. }
  unfold spairs in Hin. apply in_flat_map in Hin. destruct Hin as (k' & Hk & Hc).
  apply in_map_iff in Hc. destruct Hc as (c'' & Hp & Hc). inversion Hp; subst k' c''.
  exists k. split; [exact Hk|]. split; [exact Hc|].
  rewrite E, first_failure_split by (rewrite Epre; exact H).
  destruct (failure orc shell (k, c)) as [e|] eqn:F.
  - exists e. split; reflexivity.
  - apply failure_none_iff in F. cbn [snd] in F. congruence.
Qed.

Lemma serial_error_carries orc shell cf pre c post rc o e :
  sconf_cmds cf = pre ++ c :: post -> all_zero orc pre ->
  orc c = Exited rc o e -> rc <> 0%Z ->
  exists so se, ob_err (run_sync orc shell cf) =
                Raised (PErr "subprocess.CalledProcessError" (sync_args shell c) rc so se).
Proof.
  intros E H O N.
  assert (Z : exit_zero orc c = false).
  { unfold exit_zero. rewrite O. apply Z.eqb_neq, N. }
  destruct (serial_error_of_first orc shell cf pre c post E H Z) as (k & _ & _ & x & F & R).
  unfold failure in F. cbn [fst snd] in F. rewrite O in F.
  apply Z.eqb_neq in N. rewrite N in F. inversion F; subst x.
  unfold sync_error in R. eauto.
Qed.

Lemma serial_spawn_error orc shell cf pre c post n m :
  sconf_cmds cf = pre ++ c :: post -> all_zero orc pre -> orc c = SpawnFail n m ->
  ob_err (run_sync orc shell cf) = Raised (PExn n m).
Proof.
  intros E H O.
  assert (Z : exit_zero orc c = false) by (unfold exit_zero; rewrite O; reflexivity).
  destruct (serial_error_of_first orc shell cf pre c post E H Z) as (k & _ & _ & x & F & R).
  unfold failure in F. cbn [snd] in F. rewrite O in F. inversion F; subst x. exact R.
Qed.

Lemma serial_cmdout orc shell cf :
  ob_out (run_sync orc shell cf) =
  sync_cmdout (flat_map (saved orc shell) (upto_bad_p orc (spairs (sync_commands cf)))).
Proof. rewrite run_sync_spec. reflexivity. Qed.

(** * Part 2 — the concurrent machine is confluent *)
Section MachineProofs.
  Variable orc : oracle.
  Variable shell : bool.

  (** a task run to completion on its own: results of the commands it starts, in order *)
  Fixpoint ser_spec (save text : bool) (cs : list string) : list (string * res1) :=
    match cs with
    | [] => []
    | c :: r =>
        match orc c with
        | SpawnFail n m => [(c, X1 n m)]
        | Exited rc o e =>
            (c, async_result shell save text c rc o e)
              :: (if Z.eqb rc 0 then ser_spec save text r else [])
        end
    end.

  Definition slot_final (s : slot) : list (string * res1) :=
    sl_done s ++ match sl_cur s with
                 | None => []
                 | Some c => ser_spec (sl_save s) (sl_text s) (c :: sl_rest s)
                 end.

  (** where the slot ends up, whatever happens around it *)
  Definition finish (s : slot) : slot := finished s (slot_final s).

  (** a task that awaits nothing has nothing left to start *)
  Definition wf (s : slot) : Prop := sl_cur s = None -> sl_rest s = [].

  Lemma finish_idle s : wf s -> sl_cur s = None -> finish s = s.
  Proof.
    destruct s as [sv tx se d cu re]. unfold wf, finish, finished, slot_final. cbn.
    intros W C. subst cu. rewrite (W eq_refl), app_nil_r. reflexivity.
  Qed.

  Lemma begin_wf s d cs : wf (begin orc s d cs).
  Proof.
    unfold begin, wf. destruct cs as [|c r]; [reflexivity|].
    destruct (orc c); cbn; [discriminate|reflexivity].
  Qed.

  Lemma begin_finish s d cs :
    finish (begin orc s d cs) = finished s (d ++ ser_spec (sl_save s) (sl_text s) cs).
  Proof.
    unfold begin, finish, finished, slot_final. destruct cs as [|c r]; cbn.
    - rewrite app_nil_r. reflexivity.
    - destruct (orc c) eqn:O; cbn; rewrite ?O, ?app_nil_r; reflexivity.
  Qed.

  Lemma begin_work s d cs : (slot_work (begin orc s d cs) <= List.length cs)%nat.
  Proof.
    unfold begin, slot_work. destruct cs as [|c r]; cbn; [lia|].
    destruct (orc c); cbn; lia.
  Qed.

  Lemma complete_wf s : wf s -> wf (complete orc shell s).
  Proof.
    intro W. unfold complete. destruct (sl_cur s) as [c|] eqn:C; [|exact W].
    destruct (orc c) as [rc o e|n m].
    - destruct (Z.eqb rc 0); [apply begin_wf|intro; reflexivity].
    - intro; reflexivity.
  Qed.

  Lemma complete_finish s : finish (complete orc shell s) = finish s.
  Proof.
    unfold complete. destruct (sl_cur s) as [c|] eqn:C; [|reflexivity].
    unfold finish at 2. unfold slot_final. rewrite C. cbn [ser_spec].
    destruct (orc c) as [rc o e|n m].
    - destruct (Z.eqb rc 0).
      + rewrite begin_finish. rewrite <- app_assoc. reflexivity.
      + unfold finish, finished, slot_final. cbn. rewrite app_nil_r. reflexivity.
    - unfold finish, finished, slot_final. cbn. rewrite app_nil_r. reflexivity.
  Qed.

  Lemma complete_work s :
    is_running s = true -> (slot_work (complete orc shell s) < slot_work s)%nat.
  Proof.
    unfold is_running, complete. destruct (sl_cur s) as [c|] eqn:C; [intros _|discriminate].
    unfold slot_work at 2. rewrite C.
    destruct (orc c) as [rc o e|n m].
    - destruct (Z.eqb rc 0).
      + pose proof (begin_work s (sl_done s ++ [(c, async_result shell (sl_save s) (sl_text s) c rc o e)])
                               (sl_rest s)). lia.
      + cbn. lia.
    - cbn. lia.
  Qed.

  Lemma idle_work s : is_running s = false -> slot_work s = O.
  Proof. unfold is_running, slot_work. destruct (sl_cur s); [discriminate|reflexivity]. Qed.

  Lemma running_work s : is_running s = true -> (0 < slot_work s)%nat.
  Proof. unfold is_running, slot_work. destruct (sl_cur s); [lia|discriminate]. Qed.

  Lemma n_running_cons s r :
    n_running (s :: r) = ((if is_running s then 1 else 0) + n_running r)%nat.
  Proof. unfold n_running. cbn [filter]. destruct (is_running s); reflexivity. Qed.

  Lemma complete_nth_props sls : forall k,
    Forall wf sls -> (k < n_running sls)%nat ->
    Forall wf (complete_nth orc shell k sls)
    /\ map finish (complete_nth orc shell k sls) = map finish sls
    /\ (total_work (complete_nth orc shell k sls) < total_work sls)%nat.
  Proof.
    induction sls as [|s r IH]; intros k W K.
    - cbn in K. lia.
    - inversion W as [|? ? Ws Wr]; subst. rewrite n_running_cons in K.
      cbn [complete_nth]. destruct (is_running s) eqn:R.
      + destruct k as [|k'].
        * split; [constructor; [apply complete_wf, Ws|exact Wr]|].
          split; [cbn [map]; rewrite complete_finish; reflexivity|].
          cbn [total_work fold_right]. pose proof (complete_work s R). lia.
        * destruct (IH k' Wr) as (A & B & C); [lia|].
          split; [constructor; assumption|].
          split; [cbn [map]; rewrite B; reflexivity|].
          cbn [total_work fold_right]. fold (total_work r).
          fold (total_work (complete_nth orc shell k' r)). lia.
      + destruct (IH k Wr) as (A & B & C); [lia|].
        split; [constructor; assumption|].
        split; [cbn [map]; rewrite B; reflexivity|].
        cbn [total_work fold_right]. fold (total_work r).
        fold (total_work (complete_nth orc shell k r)). lia.
  Qed.

  Lemma work_zero_idle sls : total_work sls = O -> n_running sls = O.
  Proof.
    induction sls as [|s r IH]; [reflexivity|].
    cbn [total_work fold_right]. fold (total_work r). intro H.
    rewrite n_running_cons. destruct (is_running s) eqn:R.
    - pose proof (running_work s R). lia.
    - rewrite IH; lia.
  Qed.

  Lemma idle_work_zero sls : n_running sls = O -> total_work sls = O.
  Proof.
    induction sls as [|s r IH]; [reflexivity|].
    rewrite n_running_cons. cbn [total_work fold_right]. fold (total_work r).
    destruct (is_running s) eqn:R; [lia|]. intro H. rewrite (idle_work s R), IH; lia.
  Qed.

  Lemma idle_finish sls : Forall wf sls -> n_running sls = O -> map finish sls = sls.
  Proof.
    induction sls as [|s r IH]; intros W H; [reflexivity|].
    inversion W as [|? ? Ws Wr]; subst. rewrite n_running_cons in H.
    destruct (is_running s) eqn:R; [lia|].
    cbn [map]. rewrite IH by (assumption || lia). rewrite finish_idle; [reflexivity|exact Ws|].
    unfold is_running in R. destruct (sl_cur s); [discriminate|reflexivity].
  Qed.

  Lemma step_props k sls :
    Forall wf sls ->
    Forall wf (step orc shell k sls)
    /\ map finish (step orc shell k sls) = map finish sls
    /\ ((total_work sls = O /\ step orc shell k sls = sls)
        \/ (total_work (step orc shell k sls) < total_work sls)%nat).
  Proof.
    intro W. unfold step. destruct (n_running sls) as [|n] eqn:N.
    - split; [exact W|]. split; [reflexivity|]. left. split; [apply idle_work_zero, N|reflexivity].
    - assert (K : (Nat.modulo k (S n) < n_running sls)%nat).
      { rewrite N. apply Nat.mod_upper_bound. discriminate. }
      destruct (complete_nth_props sls _ W K) as (A & B & C). auto.
  Qed.

  (** ** Confluence: every schedule drives the machine to the same final state *)
  Lemma run_machine_finish : forall fuel sched sls,
    Forall wf sls -> (total_work sls <= fuel)%nat ->
    run_machine orc shell fuel sched sls = map finish sls.
  Proof.
    induction fuel as [|f IH]; intros sched sls W H.
    - cbn [run_machine]. symmetry. apply idle_finish; [exact W|]. apply work_zero_idle. lia.
    - cbn [run_machine].
      assert (G : forall k t, run_machine orc shell f t (step orc shell k sls) = map finish sls).
      { intros k t. destruct (step_props k sls W) as (A & B & [[Z E]|L]).
        - rewrite E. apply IH; [exact W|lia].
        - rewrite <- B. apply IH; [exact A|lia]. }
      destruct sched as [|k t]; apply G.
  Qed.

  Lemma init_slots_wf ks : Forall wf (init_slots orc ks).
  Proof.
    unfold init_slots. apply Forall_forall. intros s H.
    apply in_flat_map in H. destruct H as (k & _ & H).
    apply in_map_iff in H. destruct H as (e & E & _). subst s. apply begin_wf.
  Qed.

  (** the final state of the whole step, without any schedule *)
  Definition final_slots (ks : list acmd) : list slot := map finish (init_slots orc ks).

  Lemma machine_final sched ks :
    run_machine orc shell (total_work (init_slots orc ks)) sched (init_slots orc ks) = final_slots ks.
  Proof. apply run_machine_finish; [apply init_slots_wf|lia]. Qed.
End MachineProofs.

(** * Part 3 — what the concurrent steps report, for every schedule *)
Lemma map_flat_map {A B C} (f : B -> C) (g : A -> list B) l :
  map f (flat_map g l) = flat_map (fun x => map f (g x)) l.
Proof. induction l as [|a r IH]; [reflexivity|]. cbn. rewrite map_app, IH. reflexivity. Qed.

Lemma flat_map_pairs {K E S B} (h : K -> list E) (g : K -> E -> S) (f : S -> list B) ks :
  flat_map f (flat_map (fun k => map (g k) (h k)) ks)
  = flat_map (fun p => f (g (fst p) (snd p))) (flat_map (fun k => map (pair k) (h k)) ks).
Proof.
  induction ks as [|k r IH]; [reflexivity|].
  cbn [flat_map]. rewrite !flat_map_app, IH. f_equal.
  induction (h k) as [|e t IHt]; [reflexivity|]. cbn. rewrite IHt. reflexivity.
Qed.

Lemma flat_map_nil_iff {A B} (f : A -> list B) l :
  flat_map f l = [] <-> Forall (fun x => f x = []) l.
Proof.
  induction l as [|a r IH]; cbn; [split; auto|].
  split.
  - intro H. apply app_eq_nil in H. destruct H as [H1 H2]. constructor; [exact H1|apply IH, H2].
  - intro H. inversion H; subst. rewrite H2. cbn. apply IH. assumption.
Qed.

Section AsyncProofs.
  Variable orc : oracle.
  Variable shell : bool.

  Lemma ser_spec_closed k cs :
    ser_spec orc shell (ac_save k) (ac_text k) cs
    = map (fun c => (c, aresult orc shell k c)) (upto_bad orc cs).
  Proof.
    induction cs as [|c r IH]; [reflexivity|].
    cbn [ser_spec upto_bad]. unfold aresult at 1, exit_zero.
    destruct (orc c) as [rc o e|n m] eqn:O.
    - destruct (Z.eqb rc 0); cbn [map]; unfold aresult; rewrite O; [rewrite IH|]; reflexivity.
    - cbn [map]. unfold aresult. rewrite O. reflexivity.
  Qed.

  Definition is_ser (e : aentry) : bool := match e with AOne _ => false | ASer _ => true end.

  (** the final slot of entry [e] of Command [k] *)
  Definition fslot (k : acmd) (e : aentry) : slot :=
    mkSlot (ac_save k) (ac_text k) (is_ser e)
           (map (fun c => (c, aresult orc shell k c)) (upto_bad orc (entry_cmds e))) None [].

  Lemma finish_init k e : finish orc shell (init_slot orc k e) = fslot k e.
  Proof.
    unfold init_slot. rewrite begin_finish. unfold finished, fslot. cbn.
    rewrite ser_spec_closed. destruct e; reflexivity.
  Qed.

  Lemma final_slots_closed ks :
    final_slots orc shell ks = map (fun p => fslot (fst p) (snd p)) (aentries ks).
  Proof.
    unfold final_slots, init_slots, aentries. rewrite !map_flat_map.
    apply flat_map_ext. intro k. rewrite !map_map. apply map_ext. intro e. apply finish_init.
  Qed.

  Lemma flat_map_final {B} (f : slot -> list B) ks :
    flat_map f (final_slots orc shell ks) = flat_map (fun p => f (fslot (fst p) (snd p))) (aentries ks).
  Proof.
    rewrite final_slots_closed. induction (aentries ks) as [|p r IH]; [reflexivity|].
    cbn. rewrite IH. reflexivity.
  Qed.

  Lemma fslot_started k e : slot_started (fslot k e) = upto_bad orc (entry_cmds e).
  Proof.
    unfold slot_started, fslot. cbn. rewrite app_nil_r, map_map. cbn. apply map_id.
  Qed.

  Lemma upto_bad_single c : upto_bad orc [c] = [c].
  Proof. cbn. destruct (exit_zero orc c); reflexivity. Qed.

  Lemma fslot_entry k e : slot_entry (fslot k e) = entry_out orc shell k e.
  Proof.
    unfold slot_entry, fslot, entry_out. destruct e as [c|l]; cbn [is_ser sl_ser sl_done entry_cmds].
    - rewrite upto_bad_single. reflexivity.
    - rewrite map_map. reflexivity.
  Qed.

  Lemma res_error_aresult k c : res_error (aresult orc shell k c) = afailure orc shell k c.
  Proof.
    unfold aresult, afailure, async_result, res_error. destruct (orc c) as [rc o e|n m]; reflexivity.
  Qed.

  Lemma fslot_errors k e :
    slot_errors (fslot k e) = flat_map (afailure orc shell k) (upto_bad orc (entry_cmds e)).
  Proof.
    unfold slot_errors, fslot. cbn [sl_done].
    induction (upto_bad orc (entry_cmds e)) as [|c r IH]; [reflexivity|].
    cbn. rewrite IH, res_error_aresult. reflexivity.
  Qed.

  Lemma init_started k e : slot_started (init_slot orc k e) = entry_head e.
  Proof.
    unfold init_slot, begin, entry_head, slot_started. destruct (entry_cmds e) as [|c r]; [reflexivity|].
    destruct (orc c); reflexivity.
  Qed.

  (** ** closed forms of the four observables; none mentions the schedule *)
  Lemma async_schedule_independent s1 s2 ks :
    run_async_cmds orc shell s1 ks = run_async_cmds orc shell s2 ks.
  Proof. unfold run_async_cmds. rewrite !machine_final. reflexivity. Qed.

  Lemma async_started sched ks :
    ob_started (run_async_cmds orc shell sched ks)
    = flat_map (fun p => upto_bad orc (entry_cmds (snd p))) (aentries ks).
  Proof.
    unfold run_async_cmds. cbn [ob_started]. rewrite machine_final, flat_map_final.
    apply flat_map_ext. intro p. apply fslot_started.
  Qed.

  Lemma async_wave sched ks :
    ob_wave (run_async_cmds orc shell sched ks) = flat_map (fun p => entry_head (snd p)) (aentries ks).
  Proof.
    unfold run_async_cmds. cbn [ob_wave]. unfold init_slots, aentries.
    rewrite flat_map_pairs. apply flat_map_ext. intro p. apply init_started.
  Qed.

  Lemma async_err sched ks :
    ob_err (run_async_cmds orc shell sched ks)
    = match all_failures orc shell ks with [] => NoError | l => Multi l end.
  Proof.
    unfold run_async_cmds. cbn [ob_err]. rewrite machine_final.
    unfold async_raised, collect_errors. rewrite flat_map_final.
    unfold all_failures.
    rewrite (flat_map_ext _ _ (fun p => fslot_errors (fst p) (snd p))). reflexivity.
  Qed.

  Lemma async_out sched ks :
    ob_out (run_async_cmds orc shell sched ks)
    = if any_save ks
      then OutList (flat_map (fun p => if ac_save (fst p) then [entry_out orc shell (fst p) (snd p)] else [])
                             (aentries ks))
      else OutUnset.
  Proof.
    unfold run_async_cmds. cbn [ob_out]. rewrite machine_final.
    unfold async_cmdout, collect_results. rewrite flat_map_final.
    destruct (any_save ks); [|reflexivity]. f_equal.
    apply flat_map_ext. intro p. cbn [fslot sl_save]. rewrite fslot_entry. reflexivity.
  Qed.

  (** ** derived clauses *)
  Lemma afailure_nil_iff k c : afailure orc shell k c = [] <-> exit_zero orc c = true.
  Proof.
    unfold afailure, exit_zero. destruct (orc c) as [rc o e|n m].
    - destruct (Z.eqb rc 0); split; congruence.
    - split; congruence.
  Qed.

  Lemma afailures_nil_iff k l :
    flat_map (afailure orc shell k) l = [] <-> forallb (exit_zero orc) l = true.
  Proof.
    induction l as [|c r IH]; [cbn; tauto|].
    cbn [flat_map forallb]. split.
    - intro H. apply app_eq_nil in H. destruct H as [H1 H2].
      apply afailure_nil_iff in H1. rewrite H1. apply IH, H2.
    - intro H. apply andb_prop in H. destruct H as [H1 H2].
      rewrite (proj2 (afailure_nil_iff k c) H1). apply IH, H2.
  Qed.

  Lemma async_ok_iff_ran_all_zero sched ks :
    ob_err (run_async_cmds orc shell sched ks) = NoError <->
    all_zero orc (ob_started (run_async_cmds orc shell sched ks)).
  Proof.
    rewrite async_err, async_started. unfold all_failures, all_zero.
    induction (aentries ks) as [|p r IH].
    - cbn. tauto.
    - cbn [flat_map]. rewrite forallb_app.
      destruct (flat_map (afailure orc shell (fst p)) (upto_bad orc (entry_cmds (snd p)))) as [|x t] eqn:F.
      + apply afailures_nil_iff in F. rewrite F. cbn [app andb]. exact IH.
      + cbn [app]. split; [discriminate|]. intro H. apply andb_prop in H. destruct H as [H _].
        apply (afailures_nil_iff (fst p)) in H. congruence.
  Qed.

  Lemma async_error_is_one_multierror sched ks :
    (all_failures orc shell ks = [] /\ ob_err (run_async_cmds orc shell sched ks) = NoError)
    \/ (exists e l, all_failures orc shell ks = e :: l /\
                    ob_err (run_async_cmds orc shell sched ks) = Multi (e :: l)).
  Proof.
    rewrite async_err. destruct (all_failures orc shell ks) as [|e l]; [left; auto|right; eauto].
  Qed.

  Lemma entry_head_started e c : In c (entry_head e) -> In c (upto_bad orc (entry_cmds e)).
  Proof.
    unfold entry_head. destruct (entry_cmds e) as [|c' r]; [intros []|].
    intros [H|[]]. subst c'. cbn. destruct (exit_zero orc c); left; reflexivity.
  Qed.

  Lemma async_all_top_level_started sched ks k e c :
    In k ks -> In e (entries k) -> In c (entry_head e) ->
    In c (ob_wave (run_async_cmds orc shell sched ks))
    /\ In c (ob_started (run_async_cmds orc shell sched ks)).
  Proof.
    intros Hk He Hc.
    assert (Hp : In (k, e) (aentries ks)).
    { unfold aentries. apply in_flat_map. exists k. split; [exact Hk|]. apply in_map, He. }
    rewrite async_wave, async_started. split; apply in_flat_map; exists (k, e); split; auto.
    apply entry_head_started, Hc.
  Qed.
End AsyncProofs.
