(** Proofs/CmdProofs.v — placeholder, to be written. *)
