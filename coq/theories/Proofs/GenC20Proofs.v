(* Proofs/GenC20Proofs.v - placeholder *)
