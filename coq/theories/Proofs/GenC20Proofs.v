(** Proofs/GenC20Proofs.v — Tie B for C20: the definitions GENERATED from the current source of
    pypyr/config.py and pypyr/platform.py (Gen/GenC20.v, rewritten on every run by
    tools/py2coq_c20.py) are proved equal to the hand-written model (Model/Config.v) that the
    property theorems are about, for all inputs.  The primitives the translator leaves abstract
    (reading + parsing a file, [getattr(self, k).update(v)], [setattr]) are instantiated with the
    model's ([model_prims]).  An edit to the translated Python therefore re-checks — or breaks —
    these lemmas themselves. *)
From PV Require Import Config ConfigProofs GenC20.
Open Scope string_scope.

(** * The model's instance of the primitives the translator leaves abstract *)
Definition lift (r : cres config) : cres (config * unit) :=
  match r with COk c => COk (c, tt) | CErr e => CErr e | CUnsup => CUnsup end.

Definition with_ok {A} (r : cres A) (c : config) : cres (config * A) :=
  match r with COk a => COk (c, a) | CErr e => CErr e | CUnsup => CUnsup end.

(** [getattr(self, k).update(v)]: the model's [update_dict_prop] on the named attribute *)
Definition model_getattr_update (k : string) (v : val) : M unit := fun c =>
  if String.eqb k "shortcuts" then
    match update_dict_prop (c_shortcuts c) (Some v) with
    | COk d => COk (mkConfig (c_scalars c) d (c_vars c) (c_loaded c) (c_pyproject c)
                             (c_skip_init c) (c_paths c), tt)
    | CErr e => CErr e
    | CUnsup => CUnsup
    end
  else if String.eqb k "vars" then
    match update_dict_prop (c_vars c) (Some v) with
    | COk d => COk (mkConfig (c_scalars c) (c_shortcuts c) d (c_loaded c) (c_pyproject c)
                             (c_skip_init c) (c_paths c), tt)
    | CErr e => CErr e
    | CUnsup => CUnsup
    end
  else CUnsup.

(** [setattr(self, k, v)] on the scalar attribute table *)
Definition model_setattr (k : string) (v : val) : M unit :=
  modify (fun c => with_scalars c (sm_set k v (c_scalars c))).

Definition model_prims (fs : fsys) : prims :=
  mkPrims
    (fun p => match fs p with Absent => ROSError | Content v => RVal v end)
    (fun p => match fs p with
              | Absent => ROSError
              | Content (VDict t) => RVal (VDict t)
              | Content _ => RUnsup
              end)
    model_getattr_update model_setattr.

(** * The property sets *)
Lemma gen_scalar_props_is_model : gen_scalar_props = scalar_props.
Proof. reflexivity. Qed.

Lemma gen_dict_props_is_model : gen_dict_props = dict_props.
Proof. reflexivity. Qed.

Lemma str_in_app s a b : str_in s (a ++ b)%list = str_in s a || str_in s b.
Proof. induction a as [|x r IH]; simpl; [reflexivity|]. rewrite IH, orb_assoc. reflexivity. Qed.

Lemma str_in_ext s a b : (forall x, In x a <-> In x b) -> str_in s a = str_in s b.
Proof.
  intros H. destruct (str_in s a) eqn:A; destruct (str_in s b) eqn:B; try reflexivity.
  - apply str_in_In, H, str_in_In in A. congruence.
  - apply str_in_In, H, str_in_In in B. congruence.
Qed.

(** a key is writable according to the source iff the model knows it (any listing order) *)
Lemma gen_all_writable_props_is_model k :
  match k with VStr x => str_in x gen_all_writable_props | _ => false end = is_known k.
Proof.
  destruct k; try reflexivity. unfold is_known. rewrite <- str_in_app. apply str_in_ext.
  intros x. split; intros H.
  - unfold gen_all_writable_props in H. simpl in H.
    repeat (destruct H as [H|H]; [subst x; simpl; repeat (first [left; reflexivity|right])|]).
    contradiction.
  - unfold scalar_props, dict_props in H. simpl in H.
    repeat (destruct H as [H|H]; [subst x; simpl; repeat (first [left; reflexivity|right])|]).
    contradiction.
Qed.

Lemma keyset_diff_is_unknown_keys d :
  keyset_diff (dict_keys d) gen_all_writable_props = unknown_keys d.
Proof.
  unfold keyset_diff, unknown_keys. apply filter_ext. intros k.
  rewrite gen_all_writable_props_is_model. reflexivity.
Qed.

(** * [Config.update] *)
Lemma val_in_keys k d :
  val_in k (dict_keys d) = match dict_get k d with Some _ => true | None => false end.
Proof.
  unfold val_in. induction d as [|[k2 v2] r IH]; simpl; [reflexivity|].
  destruct (val_eqb k k2); [reflexivity|exact IH].
Qed.

Lemma for_each_set_modify {K} (g : K -> config -> config) (f : K -> M unit) :
  (forall k c, f k c = COk (g k c, tt)) ->
  forall l c, for_each_set l f c = COk (fold_left (fun st k => g k st) l c, tt).
Proof.
  intros Hf l c. unfold for_each_set.
  assert (X : forall l st err unsup,
    fold_left (fun acc k => let '(st, err, unsup) := acc in
                 match f k st with
                 | COk (st', _) => (st', err, unsup)
                 | CErr e => (st, match err with None => Some e | Some _ => err end, unsup)
                 | CUnsup => (st, err, true)
                 end) l (st, err, unsup)
    = (fold_left (fun st k => g k st) l st, err, unsup)).
  { induction l0 as [|k r IH]; intros; simpl; [reflexivity|]. rewrite Hf. apply IH. }
  rewrite X. reflexivity.
Qed.

Lemma scalars_fold d : forall names c,
  fold_left (fun st k => with_scalars st (sm_set k (mapping_item (VDict d) (VStr k)) (c_scalars st)))
            (keyset_inter (dict_keys d) names) c
  = with_scalars c (fold_left (fun acc name => match dict_get (VStr name) d with
                                               | Some v => sm_set name v acc
                                               | None => acc
                                               end) names (c_scalars c)).
Proof.
  induction names as [|n r IH]; intros c; simpl.
  - destruct c; reflexivity.
  - rewrite val_in_keys. destruct (dict_get (VStr n) d) as [v|] eqn:G; simpl.
    + rewrite IH. simpl. rewrite G. reflexivity.
    + apply IH.
Qed.

Lemma for_each_set_nil {K} (f : K -> M unit) c : for_each_set [] f c = COk (c, tt).
Proof. reflexivity. Qed.

Lemma for_each_set_one {K} (a : K) f c :
  for_each_set [a] f c = match f a c with COk (c1, _) => COk (c1, tt) | CErr e => CErr e | CUnsup => CUnsup end.
Proof. unfold for_each_set; simpl. destruct (f a c) as [[c1 []]|e|]; reflexivity. Qed.

Lemma for_each_set_two {K} (a b : K) f c :
  for_each_set [a; b] f c =
  match f a c with
  | COk (c1, _) => match f b c1 with COk (c2, _) => COk (c2, tt) | CErr e => CErr e | CUnsup => CUnsup end
  | CErr e => match f b c with CUnsup => CUnsup | _ => CErr e end
  | CUnsup => CUnsup
  end.
Proof.
  unfold for_each_set; simpl. destruct (f a c) as [[c1 []]|e|]; simpl.
  - destruct (f b c1) as [[c2 []]|e'|]; reflexivity.
  - destruct (f b c) as [[c2 []]|e'|]; reflexivity.
  - destruct (f b c) as [[c2 []]|e'|]; reflexivity.
Qed.

(** the dict-valued settings: the loop over [keys & dict_props] is the model's pair of
    [update_dict_prop]s *)
Lemma dict_loop_is_model fs d c :
  for_each_set (keyset_inter (dict_keys d) gen_dict_props)
    (fun k => bindM (getattr_update (model_prims fs) k (mapping_item (VDict d) (VStr k))) (fun _ => ret tt)) c
  = match update_dict_prop (c_shortcuts c) (dict_get (VStr "shortcuts") d),
          update_dict_prop (c_vars c) (dict_get (VStr "vars") d) with
    | CUnsup, _ | _, CUnsup => CUnsup
    | CErr e, _ => CErr e
    | _, CErr e => CErr e
    | COk sh, COk vs =>
        COk (mkConfig (c_scalars c) sh vs (c_loaded c) (c_pyproject c) (c_skip_init c) (c_paths c), tt)
    end.
Proof.
  unfold keyset_inter, gen_dict_props. cbn [filter]. rewrite !val_in_keys.
  cbn [getattr_update model_prims]. unfold mapping_item.
  destruct (dict_get (VStr "shortcuts") d) as [vs|] eqn:GS;
  destruct (dict_get (VStr "vars") d) as [vv|] eqn:GV.
  - rewrite for_each_set_two. unfold bindM, model_getattr_update. rewrite GS, GV.
    change (String.eqb "shortcuts" "shortcuts") with true.
    change (String.eqb "vars" "shortcuts") with false. change (String.eqb "vars" "vars") with true.
    cbv iota.
    destruct (update_dict_prop (c_shortcuts c) (Some vs)); cbn -[update_dict_prop];
      destruct (update_dict_prop (c_vars c) (Some vv)); reflexivity.
  - rewrite for_each_set_one. unfold bindM, model_getattr_update. rewrite GS.
    change (String.eqb "shortcuts" "shortcuts") with true. cbv iota.
    destruct (update_dict_prop (c_shortcuts c) (Some vs)); try reflexivity.
    all: try (destruct c; reflexivity).
  - rewrite for_each_set_one. unfold bindM, model_getattr_update. rewrite GV.
    change (String.eqb "vars" "shortcuts") with false. change (String.eqb "vars" "vars") with true.
    cbv iota.
    destruct (update_dict_prop (c_vars c) (Some vv)); try reflexivity.
    all: try (destruct c; reflexivity).
  - rewrite for_each_set_nil. try reflexivity; destruct c; reflexivity.
Qed.

Lemma gen_update_is_model fs d c :
  gen_update (model_prims fs) (VDict d) c = lift (update c d).
Proof.
  unfold gen_update, update. cbn [mapping_keys]. rewrite keyset_diff_is_unknown_keys.
  destruct (unknown_keys d) eqn:U; [|reflexivity]. cbn [is_nil negb].
  unfold bindM at 1. rewrite dict_loop_is_model.
  destruct (update_dict_prop (c_shortcuts c) (dict_get (VStr "shortcuts") d)) as [sh|e1|];
  destruct (update_dict_prop (c_vars c) (dict_get (VStr "vars") d)) as [vs|e2|]; try reflexivity.
  unfold bindM. cbn [setattr_ model_prims]. unfold model_setattr.
  rewrite (for_each_set_modify
             (fun k st => with_scalars st (sm_set k (mapping_item (VDict d) (VStr k)) (c_scalars st))))
    by reflexivity.
  rewrite gen_scalar_props_is_model, scalars_fold. reflexivity.
Qed.

(** * the loaders *)
Lemma gen_load_yaml_is_model fs path raise c :
  gen_load_yaml (model_prims fs) path raise c = with_ok (load_yaml fs path raise) c.
Proof.
  unfold gen_load_yaml, load_yaml. cbn [read_yaml model_prims].
  destruct (fs path); [destruct raise|]; reflexivity.
Qed.

Lemma gen_load_pyproject_toml_is_model fs path c :
  gen_load_pyproject_toml (model_prims fs) path false c = load_pyproject fs c path.
Proof.
  unfold gen_load_pyproject_toml, load_pyproject. cbn [read_toml model_prims].
  destruct (fs path) as [|v]; [reflexivity|]. destruct v; try reflexivity.
  destruct l as [|kv r]; [reflexivity|].
  cbn [py_truth is_nil negb]. unfold bindM, modify, set_pyproject_val, val_get, ret.
  destruct (dict_get (VStr "tool") (kv :: r)) as [tool|]; [|reflexivity].
  destruct tool; try reflexivity; cbn [py_truth].
  all: try match goal with |- context [if ?b then _ else _] => destruct b; reflexivity end.
Qed.

(** * [Config.handle_path]
    (proved by cases on the loaded payload rather than against one syntactic shape of the
    generated term, so that re-nesting the conditions / early returns in the source keeps
    proving) *)
Ltac payload_cases fs c :=
  match goal with
  | |- _ = lift (handle_payload _ _ ?v) =>
      destruct v as [ | | | | | | | | | l | | | | | ]; try reflexivity;
      destruct l as [|kv r]; try reflexivity;
      cbn [is_none is_mapping negb py_truth is_nil handle_payload]; unfold bindM;
      rewrite gen_update_is_model;
      match goal with |- context [update ?c0 (kv :: r)] => destruct (update c0 (kv :: r)) end;
      reflexivity
  end.

Lemma gen_handle_path_yaml_is_model fs path raise c :
  gen_handle_path (model_prims fs) path None raise c = lift (handle_yaml fs c path raise).
Proof.
  unfold gen_handle_path, handle_yaml. unfold bindM at 1. rewrite gen_load_yaml_is_model.
  destruct (load_yaml fs path raise) as [v|e|]; try reflexivity. cbn [with_ok cbind].
  payload_cases fs c.
Qed.

Lemma gen_handle_path_pyproject_is_model fs path c :
  gen_handle_path (model_prims fs) path (Some (gen_load_pyproject_toml (model_prims fs))) false c
  = lift (handle_pyproject fs c path).
Proof.
  unfold gen_handle_path, handle_pyproject. unfold bindM at 1.
  rewrite gen_load_pyproject_toml_is_model.
  destruct (load_pyproject fs c path) as [[c1 v]|e|]; try reflexivity. cbn [cbind fst snd].
  payload_cases fs c1.
Qed.

(** * platform paths (XDG rules) *)
Lemma gen_get_config_user_is_model e :
  gen_get_config_user e "pypyr" "config.yaml" = user_path e.
Proof.
  unfold gen_get_config_user, user_path, gen_get_pypyr_config_file_appended, cfg_file.
  destruct (is_blank (getenv (e_xdg_home e) "")); reflexivity.
Qed.

Lemma gen_get_config_common_is_model e :
  gen_get_config_common e "pypyr" "config.yaml" = common_paths e.
Proof.
  unfold gen_get_config_common, common_paths, gen_get_pypyr_config_file_appended, cfg_file.
  destruct (is_blank (getenv (e_xdg_dirs e) "")); reflexivity.
Qed.

Lemma gen_get_platform_paths_is_model e :
  gen_get_platform_paths e "pypyr" "config.yaml" = (user_path e, common_paths e).
Proof.
  unfold gen_get_platform_paths. rewrite gen_get_config_user_is_model, gen_get_config_common_is_model.
  reflexivity.
Qed.

(** * [Config.init] *)
Lemma for_each_handle_is_model fs : forall ps c,
  for_each ps (fun path => bindM (gen_handle_path (model_prims fs) path None false) (fun _ => ret tt)) c
  = lift (handle_yamls fs c ps).
Proof.
  induction ps as [|p r IH]; intros c; [reflexivity|].
  cbn [for_each handle_yamls]. unfold bindM at 1 2. rewrite gen_handle_path_yaml_is_model.
  destruct (handle_yaml fs c p false) as [c1|e|]; try reflexivity. cbn [lift cbind ret]. apply IH.
Qed.

Lemma tail_is_model fs e c2 :
  bindM (gen_handle_path (model_prims fs) "pyproject.toml" (Some (gen_load_pyproject_toml (model_prims fs))) false)
    (fun _ =>
       let config_file_name := getenv (e_local e) "pypyr-config.yaml" in
       bindM (gen_handle_path (model_prims fs) config_file_name None false) (fun _ => ret tt)) c2
  = lift (cbind (handle_pyproject fs c2 pyproject_name)
                (fun c3 => handle_yaml fs c3 (local_name e) false)).
Proof.
  unfold bindM at 1. rewrite gen_handle_path_pyproject_is_model.
  destruct (handle_pyproject fs c2 "pyproject.toml") as [c3|er|] eqn:E;
    unfold pyproject_name; rewrite E; try reflexivity.
  cbn [lift cbind]. unfold bindM. rewrite gen_handle_path_yaml_is_model. unfold local_name.
  destruct (handle_yaml fs c3 (getenv (e_local e) "pypyr-config.yaml") false); reflexivity.
Qed.

Lemma gen_init_is_model fs e c :
  gen_init (model_prims fs) e c = lift (init e fs c).
Proof.
  unfold gen_init, init, skip_requested.
  destruct (cast_str_to_bool (getenv (e_skip_init e) "0")); [reflexivity|].
  assert (NG : forall c,
    (let platform_paths := gen_get_platform_paths e "pypyr" "config.yaml" in
     bindM (modify (fun c => with_paths c (fst platform_paths) (snd platform_paths))) (fun _ =>
     bindM (for_each (rev (snd platform_paths)) (fun path =>
              bindM (gen_handle_path (model_prims fs) path None false) (fun _ => ret tt))) (fun _ =>
     bindM (gen_handle_path (model_prims fs) (fst platform_paths) None false) (fun _ =>
     bindM (gen_handle_path (model_prims fs) "pyproject.toml"
              (Some (gen_load_pyproject_toml (model_prims fs))) false) (fun _ =>
     let config_file_name := getenv (e_local e) "pypyr-config.yaml" in
     bindM (gen_handle_path (model_prims fs) config_file_name None false) (fun _ => ret tt)))))) c
    = lift (cbind (cbind (handle_yamls fs (with_paths c (user_path e) (common_paths e)) (rev (common_paths e)))
                         (fun c1 => handle_yaml fs c1 (user_path e) false))
                  (fun c2 => cbind (handle_pyproject fs c2 pyproject_name)
                                   (fun c3 => handle_yaml fs c3 (local_name e) false)))).
  { intros c0. rewrite gen_get_platform_paths_is_model. cbn [fst snd].
    unfold bindM at 1. cbn [modify]. unfold bindM at 1. rewrite for_each_handle_is_model.
    destruct (handle_yamls fs _ _) as [c1|er|]; try reflexivity. cbn [lift cbind].
    unfold bindM at 1. rewrite gen_handle_path_yaml_is_model.
    destruct (handle_yaml fs c1 (user_path e) false) as [c2|er|]; try reflexivity. cbn [lift cbind].
    apply tail_is_model. }
  unfold global_path. destruct (e_global e) as [g|]; [|apply NG].
  destruct g as [|a g]; [apply NG|].
  cbn [String.eqb negb]. cbv zeta.
  unfold bindM at 1. rewrite gen_handle_path_yaml_is_model.
  destruct (handle_yaml fs c (String a g) true) as [c1|er|]; try reflexivity. cbn [lift cbind].
  unfold bindM at 1. cbn [modify fst snd]. apply tail_is_model.
Qed.
