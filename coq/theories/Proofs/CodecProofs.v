(** Proofs/CodecProofs.v — placeholder, to be written. *)
