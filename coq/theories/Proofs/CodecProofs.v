(** Proofs/CodecProofs.v — lemmas about Model/Codec.v (C16).

    Part 1: the JSON codec round-trips: [json_parse (jprint 0 v) = Some v] for every
            value built from None / bool / int / str / list / dict with unique string
            keys, any nesting, any bytes in the strings, at any indentation level.
    Part 2: step-level composition for an arbitrary codec satisfying a round-trip law.
    Part 3: fileformat = every string node replaced by its formatted value. *)
From PV Require Import Codec FormatProofs.
From Coq Require Import Lia.
Open Scope string_scope.

(** * Part 1a: strings *)
Definition esc1 (c : ascii) : string := json_str_body (String c EmptyString).

Lemma json_str_body_cons c r : json_str_body (String c r) = esc1 c ++ json_str_body r.
Proof.
  unfold esc1. cbn [json_str_body].
  repeat match goal with |- context [if ?b then _ else _] => destruct b end;
    cbn [append hex2]; reflexivity.
Qed.

(** one source byte: whatever escape the printer chose, the scanner reads that byte back
    (all 256 bytes, by evaluation) *)
Lemma parse_str_esc1 c t :
  parse_str_body (esc1 c ++ t) = prepend (String c EmptyString) (parse_str_body t).
Proof. destruct c as [[] [] [] [] [] [] [] []]; reflexivity. Qed.

Lemma parse_str_body_print s rest :
  parse_str_body (json_str_body s ++ String dquote rest) = Some (s, rest).
Proof.
  induction s as [|c s IH].
  - reflexivity.
  - rewrite json_str_body_cons, append_assoc_s, parse_str_esc1, IH. reflexivity.
Qed.

Lemma jquote_parse s rest :
  exists t, jquote s ++ rest = String dquote t /\ parse_str_body t = Some (s, rest).
Proof.
  unfold jquote. eexists. split; [reflexivity|].
  rewrite append_assoc_s. apply parse_str_body_print.
Qed.

(** * Part 1b: integers *)
Lemma pos_digits_acc f n acc : pos_digits f n acc = pos_digits f n EmptyString ++ acc.
Proof.
  revert n acc; induction f as [|f IH]; intros n acc; cbn [pos_digits]; [reflexivity|].
  destruct (n <? 10)%Z; [reflexivity|].
  rewrite IH. rewrite (IH _ (String _ EmptyString)). rewrite append_assoc_s. reflexivity.
Qed.

Lemma digits_to_Z_app a b acc : digits_to_Z (a ++ b) acc = digits_to_Z b (digits_to_Z a acc).
Proof. revert acc; induction a as [|c a IH]; intros acc; cbn; [reflexivity|]. apply IH. Qed.

Lemma all_digits_app a b : all_digits (a ++ b) = all_digits a && all_digits b.
Proof. induction a as [|c a IH]; cbn; [reflexivity|]. rewrite IH. now rewrite andb_assoc. Qed.

Lemma digit_char_spec n :
  (0 <= n < 10)%Z ->
  is_digit (digit_char n) = true /\
  Z.of_nat (nat_of_ascii (digit_char n) - 48) = n /\
  (Ascii.eqb (digit_char n) "0"%char = true -> n = 0%Z).
Proof.
  intros H.
  assert (E : (n = 0 \/ n = 1 \/ n = 2 \/ n = 3 \/ n = 4 \/ n = 5 \/ n = 6 \/ n = 7 \/ n = 8 \/ n = 9)%Z)
    by lia.
  destruct E as [->|[->|[->|[->|[->|[->|[->|[->|[->| ->]]]]]]]]];
    (split; [reflexivity|split; [reflexivity|]]); cbn; intros; try reflexivity; discriminate.
Qed.

(** the digit string of a non-negative number: all digits, evaluates back, and starts
    with "0" only for zero *)
Definition first_is_zero (s : string) : bool :=
  match s with String c _ => Ascii.eqb c "0"%char | EmptyString => false end.

Lemma first_is_zero_app a b : a <> EmptyString -> first_is_zero (a ++ b) = first_is_zero a.
Proof. destruct a; [congruence|reflexivity]. Qed.

Lemma pos_digits_S f n acc :
  pos_digits (S f) n acc =
  if (n <? 10)%Z then String (digit_char n) acc
  else pos_digits f (n / 10)%Z (String (digit_char (n mod 10)%Z) acc).
Proof. reflexivity. Qed.

Lemma pos_digits_spec f n :
  (0 <= n < 2 ^ Z.of_nat (S f))%Z ->
  let s := pos_digits (S f) n EmptyString in
  s <> EmptyString /\ all_digits s = true /\ digits_to_Z s 0 = n /\
  (first_is_zero s = true -> n = 0%Z).
Proof.
  revert n; induction f as [|f IH]; intros n H; cbv zeta; rewrite pos_digits_S;
    destruct (n <? 10)%Z eqn:E.
  - apply Z.ltb_lt in E. destruct (digit_char_spec n ltac:(lia)) as (D1 & D2 & D3).
    cbn [all_digits digits_to_Z first_is_zero]. rewrite D1, D2.
    repeat split; try discriminate; try assumption; lia.
  - apply Z.ltb_ge in E. cbn in H. lia.
  - apply Z.ltb_lt in E. destruct (digit_char_spec n ltac:(lia)) as (D1 & D2 & D3).
    cbn [all_digits digits_to_Z first_is_zero]. rewrite D1, D2.
    repeat split; try discriminate; try assumption; lia.
  - apply Z.ltb_ge in E.
    assert (Hq : (0 <= n / 10 < 2 ^ Z.of_nat (S f))%Z).
    { split; [apply Z.div_pos; lia|].
      apply Z.div_lt_upper_bound; [lia|].
      rewrite (Nat2Z.inj_succ (S f)), Z.pow_succ_r in H by lia. lia. }
    destruct (IH _ Hq) as (N & A & V & Z0).
    rewrite pos_digits_acc.
    assert (Hm : (0 <= n mod 10 < 10)%Z) by (apply Z.mod_pos_bound; lia).
    destruct (digit_char_spec _ Hm) as (D1 & D2 & D3).
    repeat split.
    + destruct (pos_digits (S f) (n / 10) ""); [congruence|cbn; discriminate].
    + rewrite all_digits_app, A. cbn [all_digits andb]. now rewrite D1.
    + rewrite digits_to_Z_app, V. cbn [digits_to_Z]. rewrite D2.
      pose proof (Z.div_mod n 10 ltac:(lia)). lia.
    + rewrite first_is_zero_app by assumption. intros Hz. apply Z0 in Hz.
      assert (1 <= n / 10)%Z; [|lia]. apply Z.div_le_lower_bound; lia.
Qed.

Lemma str_of_nonneg_spec n :
  (0 <= n)%Z ->
  let s := str_of_nonneg n in
  s <> EmptyString /\ all_digits s = true /\ digits_to_Z s 0 = n /\
  (first_is_zero s = true -> n = 0%Z).
Proof.
  intros H. unfold str_of_nonneg. apply pos_digits_spec.
  split; [assumption|].
  destruct (Z.eq_dec n 0) as [->|Hn]; [cbn; lia|].
  rewrite Nat2Z.inj_succ, Z2Nat.id by apply Z.log2_nonneg.
  apply Z.log2_spec. lia.
Qed.

Lemma str_of_nonneg_zero : str_of_nonneg 0 = "0".
Proof. reflexivity. Qed.

(** what may follow a printed value *)
Definition follow_ok (rest : string) : bool :=
  match rest with
  | EmptyString => true
  | String c _ => negb (is_digit c) && negb (float_mark c)
  end.

Lemma span_digits_app ds rest :
  all_digits ds = true ->
  match rest with String c _ => is_digit c = false | EmptyString => True end ->
  span_digits (ds ++ rest) = (ds, rest).
Proof.
  intros A R. induction ds as [|c ds IH]; cbn.
  - destruct rest as [|c r]; [reflexivity|]. cbn. now rewrite R.
  - cbn in A. apply andb_true_iff in A. destruct A as [A1 A2].
    rewrite A1, (IH A2). reflexivity.
Qed.

Lemma follow_ok_digit rest :
  follow_ok rest = true ->
  match rest with String c _ => is_digit c = false | EmptyString => True end.
Proof.
  destruct rest as [|c r]; cbn; [trivial|]. intros H.
  apply andb_true_iff in H. destruct H as [H _]. now apply negb_true_iff in H.
Qed.

Lemma follow_ok_float rest :
  follow_ok rest = true ->
  match rest with String c _ => float_mark c | EmptyString => false end = false.
Proof.
  destruct rest as [|c r]; cbn; [trivial|]. intros H.
  apply andb_true_iff in H. destruct H as [_ H]. now apply negb_true_iff in H.
Qed.

Lemma parse_nonneg_digits n rest :
  (0 <= n)%Z -> follow_ok rest = true ->
  exists d ds', str_of_nonneg n = String d ds' /\ is_digit d = true /\
    span_digits (str_of_nonneg n ++ rest) = (str_of_nonneg n, rest) /\
    (Ascii.eqb d "0"%char && negb (String.eqb ds' EmptyString) = false) /\
    digits_to_Z (str_of_nonneg n) 0 = n.
Proof.
  intros Hn Hf.
  destruct (str_of_nonneg_spec n Hn) as (N & A & V & Z0).
  destruct (str_of_nonneg n) as [|d ds'] eqn:E; [congruence|].
  exists d, ds'. split; [reflexivity|].
  assert (Hd : is_digit d = true) by (cbn [all_digits] in A; apply andb_true_iff in A; tauto).
  split; [exact Hd|]. split.
  - apply span_digits_app; [exact A|]. now apply follow_ok_digit.
  - split; [|exact V].
    destruct (Ascii.eqb d "0"%char) eqn:Ed; [|reflexivity].
    cbn [first_is_zero] in Z0. specialize (Z0 Ed). rewrite Z0 in E.
    rewrite str_of_nonneg_zero in E. inversion E; subst. reflexivity.
Qed.

Lemma is_digit_not_minus d : is_digit d = true -> Ascii.eqb d "-"%char = false.
Proof.
  intros H. destruct (Ascii.eqb d "-"%char) eqn:E; [|reflexivity].
  apply Ascii.eqb_eq in E. subst. discriminate.
Qed.

Lemma parse_int_print z rest :
  follow_ok rest = true -> parse_int (str_of_Z z ++ rest) = Some (z, rest).
Proof.
  intros Hf. unfold str_of_Z. destruct (z <? 0)%Z eqn:E.
  - apply Z.ltb_lt in E.
    destruct (parse_nonneg_digits (- z) rest ltac:(lia) Hf) as (d & ds' & Eq & Hd & Sp & Lz & V).
    unfold parse_int. cbn [append]. rewrite Ascii.eqb_refl.
    rewrite Sp. rewrite Eq in *. rewrite Lz. rewrite (follow_ok_float _ Hf).
    rewrite V. f_equal. f_equal. lia.
  - apply Z.ltb_ge in E.
    destruct (parse_nonneg_digits z rest E Hf) as (d & ds' & Eq & Hd & Sp & Lz & V).
    unfold parse_int.
    assert (Hm : match str_of_nonneg z ++ rest with
                 | String c r => if Ascii.eqb c "-"%char then (true, r) else (false, str_of_nonneg z ++ rest)
                 | EmptyString => (false, str_of_nonneg z ++ rest)
                 end = (false, str_of_nonneg z ++ rest)).
    { rewrite Eq. cbn [append]. now rewrite (is_digit_not_minus _ Hd). }
    rewrite Hm. rewrite Sp. rewrite Eq in *. rewrite Lz. rewrite (follow_ok_float _ Hf).
    rewrite V. reflexivity.
Qed.

(** the first character of a printed integer *)
Lemma str_of_Z_head z :
  exists c t, str_of_Z z = String c t /\ (Ascii.eqb c "-"%char = true \/ is_digit c = true).
Proof.
  unfold str_of_Z. destruct (z <? 0)%Z eqn:E.
  - eexists _, _. split; [reflexivity|]. left. reflexivity.
  - apply Z.ltb_ge in E. destruct (str_of_nonneg_spec z E) as (N & A & _).
    destruct (str_of_nonneg z) as [|c t]; [congruence|].
    exists c, t. split; [reflexivity|]. right. cbn in A. apply andb_true_iff in A. tauto.
Qed.

(** * Part 1c: nested induction principle for [val] *)
Section ValInd.
  Variable P : val -> Prop.
  Hypothesis H_atom : forall v,
    match v with
    | VList _ | VTuple _ | VSet _ | VDict _ | VJsonify _ => False
    | _ => True
    end -> P v.
  Hypothesis H_list : forall l, Forall P l -> P (VList l).
  Hypothesis H_tuple : forall l, Forall P l -> P (VTuple l).
  Hypothesis H_set : forall l, Forall P l -> P (VSet l).
  Hypothesis H_dict : forall l,
    Forall (fun kv : val * val => P (fst kv) /\ P (snd kv)) l -> P (VDict l).
  Hypothesis H_jsonify : forall v, P v -> P (VJsonify v).

  Fixpoint val_nested_ind (v : val) : P v :=
    let fix go (l : list val) : Forall P l :=
      match l with
      | [] => Forall_nil _
      | x :: r => Forall_cons x (val_nested_ind x) (go r)
      end in
    let fix god (l : list (val * val))
      : Forall (fun kv : val * val => P (fst kv) /\ P (snd kv)) l :=
      match l with
      | [] => Forall_nil _
      | (k, x) :: r => Forall_cons (k, x) (conj (val_nested_ind k) (val_nested_ind x)) (god r)
      end in
    match v with
    | VList l => H_list l (go l)
    | VTuple l => H_tuple l (go l)
    | VSet l => H_set l (go l)
    | VDict l => H_dict l (god l)
    | VJsonify x => H_jsonify x (val_nested_ind x)
    | VNone => H_atom VNone I
    | VBool b => H_atom (VBool b) I
    | VInt z => H_atom (VInt z) I
    | VFloat q => H_atom (VFloat q) I
    | VStr s => H_atom (VStr s) I
    | VBytes s => H_atom (VBytes s) I
    | VPy s e => H_atom (VPy s e) I
    | VSic s => H_atom (VSic s) I
    | VObj i => H_atom (VObj i) I
    | VExn n m i => H_atom (VExn n m i) I
    end.
End ValInd.

(** * Part 1d: the printer, unfolded into top-level functions *)
Fixpoint jitems (lvl : nat) (l : list val) : string :=
  match l with
  | [] => EmptyString
  | x :: r => "," ++ nl (S lvl) ++ jprint (S lvl) x ++ jitems lvl r
  end.

Fixpoint jpairs (lvl : nat) (l : list (val * val)) : string :=
  match l with
  | [] => EmptyString
  | (k, x) :: r => "," ++ nl (S lvl) ++ jkey k ++ ": " ++ jprint (S lvl) x ++ jpairs lvl r
  end.

Lemma jprint_list lvl x r :
  jprint lvl (VList (x :: r)) =
  "[" ++ nl (S lvl) ++ jprint (S lvl) x ++ jitems lvl r ++ nl lvl ++ "]".
Proof.
  cbn [jprint]. do 4 f_equal.
  induction r as [|y r IH]; [reflexivity|]. cbn [jitems]. rewrite <- IH. reflexivity.
Qed.

Lemma jprint_tuple lvl l : jprint lvl (VTuple l) = jprint lvl (VList l).
Proof. reflexivity. Qed.

Lemma jprint_dict lvl k x r :
  jprint lvl (VDict ((k, x) :: r)) =
  "{" ++ nl (S lvl) ++ jkey k ++ ": " ++ jprint (S lvl) x ++ jpairs lvl r ++ nl lvl ++ "}".
Proof.
  cbn [jprint]. do 6 f_equal.
  induction r as [|[k' y] r IH]; [reflexivity|]. cbn [jpairs]. rewrite <- IH. reflexivity.
Qed.

(** * Part 1e: whitespace and first characters *)
Definition head_nonws (s : string) : Prop :=
  exists c t, s = String c t /\ is_ws c = false.

Lemma skip_ws_nonws s : head_nonws s -> skip_ws s = s.
Proof. intros (c & t & -> & H). cbn. now rewrite H. Qed.

Lemma skip_ws_spaces n s : skip_ws (repeat_char " "%char n ++ s) = skip_ws s.
Proof. induction n as [|n IH]; [reflexivity|]. cbn [repeat_char append skip_ws]. exact IH. Qed.

Lemma skip_ws_nl k s : skip_ws (nl k ++ s) = skip_ws s.
Proof. unfold nl. cbn [append skip_ws]. apply skip_ws_spaces. Qed.

Lemma head_nonws_app a b : head_nonws a -> head_nonws (a ++ b).
Proof. intros (c & t & -> & H). exists c, (t ++ b). split; [reflexivity|exact H]. Qed.

Lemma head_lit c t : is_ws c = false -> head_nonws (String c t).
Proof. intros H. exists c, t. split; [reflexivity|exact H]. Qed.

(** the first character of a printed integer: what the scanner's dispatch does with it *)
Lemma int_head_dispatch c :
  Ascii.eqb c "-"%char = true \/ is_digit c = true ->
  Ascii.eqb c dquote = false /\ Ascii.eqb c "["%char = false /\ Ascii.eqb c "{"%char = false /\
  Ascii.eqb "n"%char c = false /\ Ascii.eqb "t"%char c = false /\ Ascii.eqb "f"%char c = false /\
  is_ws c = false.
Proof.
  destruct c as [[] [] [] [] [] [] [] []]; intros [H|H]; try discriminate H;
    repeat split; reflexivity.
Qed.

(** a printed value starts with a character that is neither blank nor a closing bracket *)
Definition vstart (c : ascii) : bool :=
  negb (is_ws c) && negb (Ascii.eqb c "]"%char) && negb (Ascii.eqb c "}"%char).

Definition head_value (s : string) : Prop :=
  exists c t, s = String c t /\ vstart c = true.

Lemma head_value_nonws s : head_value s -> head_nonws s.
Proof.
  intros (c & t & -> & H). exists c, t. split; [reflexivity|].
  unfold vstart in H. destruct (is_ws c); [discriminate H|reflexivity].
Qed.

Lemma head_vlit c t : vstart c = true -> head_value (String c t).
Proof. intros H. exists c, t. split; [reflexivity|exact H]. Qed.

Lemma int_head_vstart c :
  Ascii.eqb c "-"%char = true \/ is_digit c = true -> vstart c = true.
Proof.
  destruct c as [[] [] [] [] [] [] [] []]; intros [H|H]; try discriminate H; reflexivity.
Qed.

Lemma jprint_head lvl v : json_rt v = true -> head_value (jprint lvl v).
Proof.
  destruct v; cbn [json_rt]; intros H; try discriminate H.
  - apply head_vlit. reflexivity.
  - destruct b; apply head_vlit; reflexivity.
  - cbn [jprint]. destruct (str_of_Z_head z) as (c & t & -> & Hc).
    apply head_vlit. now apply int_head_vstart.
  - apply head_vlit. reflexivity.
  - destruct l as [|x r]; [apply head_vlit; reflexivity|].
    rewrite jprint_list. apply head_vlit. reflexivity.
  - destruct l as [|[k x] r]; [apply head_vlit; reflexivity|].
    rewrite jprint_dict. apply head_vlit. reflexivity.
Qed.

Lemma follow_ok_comma s : follow_ok (String ","%char s) = true.
Proof. reflexivity. Qed.

Lemma follow_ok_nl k s : follow_ok (nl k ++ s) = true.
Proof. reflexivity. Qed.

Lemma follow_ok_jitems lvl r s : follow_ok (jitems lvl r ++ nl lvl ++ s) = true.
Proof. destruct r; [apply follow_ok_nl|reflexivity]. Qed.

Lemma follow_ok_jpairs lvl r s : follow_ok (jpairs lvl r ++ nl lvl ++ s) = true.
Proof. destruct r as [|[k x] r]; [apply follow_ok_nl|reflexivity]. Qed.

(** * Part 1f: fuel *)
Fixpoint need (v : val) : nat :=
  let fix ns (l : list val) : nat :=
    match l with [] => 1%nat | x :: r => S (need x + ns r) end in
  let fix nd (l : list (val * val)) : nat :=
    match l with [] => 1%nat | (_, x) :: r => S (need x + nd r) end in
  match v with
  | VList l | VTuple l => S (ns l)
  | VDict l => S (nd l)
  | _ => 1%nat
  end.

Fixpoint needs (l : list val) : nat :=
  match l with [] => 1%nat | x :: r => S (need x + needs r) end.

Fixpoint needd (l : list (val * val)) : nat :=
  match l with [] => 1%nat | (_, x) :: r => S (need x + needd r) end.

Lemma need_list l : need (VList l) = S (needs l).
Proof.
  reflexivity.
Qed.

Lemma need_tuple l : need (VTuple l) = S (needs l).
Proof. exact (need_list l). Qed.

Lemma need_dict l : need (VDict l) = S (needd l).
Proof.
  reflexivity.
Qed.

Lemma need_pos v : (1 <= need v)%nat.
Proof. destruct v; cbn [need]; lia. Qed.

(** * Part 1g: json_rt, unfolded *)
Lemma json_rt_list l : json_rt (VList l) = true <-> Forall (fun x => json_rt x = true) l.
Proof.
  cbn [json_rt]. induction l as [|x r IH].
  - split; [constructor|reflexivity].
  - rewrite andb_true_iff, IH. split.
    + intros [A B]. now constructor.
    + intros H. inversion H; subst. tauto.
Qed.

Definition str_key (kv : val * val) : Prop := exists s, fst kv = VStr s.

Lemma json_rt_dict l :
  json_rt (VDict l) = true <->
  Forall (fun kv : val * val => str_key kv /\ json_rt (snd kv) = true) l /\ uniq_keys l = true.
Proof.
  cbn [json_rt]. rewrite andb_true_iff.
  apply and_iff_compat_r.
  induction l as [|[k x] r IH].
  - split; [constructor|reflexivity].
  - rewrite !andb_true_iff, IH. split.
    + intros [[A B] C]. constructor; [|exact C]. split; [|exact B].
      destruct k; try discriminate A. now eexists.
    + intros H. inversion H as [|? ? [[s Hs] B] C]; subst. cbn in Hs. subst k. tauto.
Qed.

(** * Part 1h: [dict(pairs)] of distinct string keys is the pair list itself *)
Lemma val_eqb_str a b : val_eqb (VStr a) (VStr b) = String.eqb a b.
Proof. reflexivity. Qed.

Lemma dict_has_cons k k' x r : dict_has k ((k', x) :: r) = val_eqb k k' || dict_has k r.
Proof. unfold dict_has. cbn [dict_get]. destruct (val_eqb k k'); reflexivity. Qed.

Lemma dict_has_app k a b : dict_has k (a ++ b)%list = dict_has k a || dict_has k b.
Proof.
  induction a as [|[k' x] a IH]; [reflexivity|].
  cbn [app]. rewrite !dict_has_cons, IH. now rewrite orb_assoc.
Qed.

Lemma dict_set_fresh k x d : dict_has k d = false -> dict_set k x d = (d ++ [(k, x)])%list.
Proof.
  induction d as [|[k' y] d IH]; intros H; [reflexivity|].
  rewrite dict_has_cons in H. apply orb_false_iff in H. destruct H as [H1 H2].
  cbn [dict_set app]. rewrite H1. now rewrite IH.
Qed.

Lemma dict_has_false_in k r kv : dict_has k r = false -> In kv r -> val_eqb k (fst kv) = false.
Proof.
  induction r as [|[k' y] r IH]; intros H Hin; [destruct Hin|].
  rewrite dict_has_cons in H. apply orb_false_iff in H. destruct H as [H1 H2].
  destruct Hin as [<-|Hin]; [exact H1|]. now apply IH.
Qed.

Lemma fold_set_fresh l :
  Forall str_key l -> uniq_keys l = true ->
  forall acc, Forall str_key acc ->
  (forall kv, In kv l -> dict_has (fst kv) acc = false) ->
  fold_left (fun a (kv : val * val) => dict_set (fst kv) (snd kv) a) l acc = (acc ++ l)%list.
Proof.
  induction l as [|[k x] r IH]; intros Hs Hu acc Ha Hf.
  - cbn. now rewrite app_nil_r.
  - cbn [fold_left fst snd]. cbn [uniq_keys] in Hu. apply andb_true_iff in Hu.
    destruct Hu as [Hk Hu]. apply negb_true_iff in Hk.
    inversion Hs as [|? ? [s Hks] Hs']; subst. cbn in Hks. subst k.
    rewrite dict_set_fresh by (apply (Hf (VStr s, x)); now left).
    rewrite IH; try assumption.
    + rewrite <- app_assoc. reflexivity.
    + apply Forall_app. split; [assumption|]. constructor; [now exists s|constructor].
    + intros kv Hin. rewrite dict_has_app. rewrite (Hf kv) by now right.
      cbn [orb]. rewrite dict_has_cons. cbn [dict_has dict_get]. rewrite orb_false_r.
      rewrite Forall_forall in Hs'. destruct (Hs' kv Hin) as [s' Hs'k].
      pose proof (dict_has_false_in _ _ _ Hk Hin) as Hne. rewrite Hs'k in *.
      rewrite val_eqb_str in *. now rewrite String.eqb_sym.
Qed.

Lemma rebuild_dict_uniq l :
  Forall str_key l -> uniq_keys l = true -> rebuild_dict l = l.
Proof.
  intros Hs Hu. unfold rebuild_dict. rewrite (fold_set_fresh l Hs Hu []); [reflexivity|constructor|].
  intros; reflexivity.
Qed.

(** * Part 1i: one-step unfoldings of the parser *)
Lemma parse_value_str f t :
  parse_value (S f) (String dquote t) =
  match parse_str_body t with Some (t', rest) => Some (VStr t', rest) | None => None end.
Proof. reflexivity. Qed.

Lemma parse_value_int f c t :
  Ascii.eqb c "-"%char = true \/ is_digit c = true ->
  parse_value (S f) (String c t) =
  match parse_int (String c t) with Some (z, rest) => Some (VInt z, rest) | None => None end.
Proof.
  destruct c as [[] [] [] [] [] [] [] []]; intros [H|H]; try discriminate H; reflexivity.
Qed.

Lemma parse_value_list f Y :
  parse_value (S f) (String "["%char Y) =
  match skip_ws Y with
  | EmptyString => None
  | String c2 r2 =>
      if Ascii.eqb c2 "]"%char then Some (VList [], r2)
      else
        match parse_value f (String c2 r2) with
        | Some (x, r3) =>
            match parse_elems f r3 with
            | Some (xs, r4) => Some (VList (x :: xs), r4)
            | None => None
            end
        | None => None
        end
  end.
Proof. reflexivity. Qed.

Lemma parse_value_dict f Y :
  parse_value (S f) (String "{"%char Y) =
  match skip_ws Y with
  | EmptyString => None
  | String c2 r2 =>
      if Ascii.eqb c2 "}"%char then Some (VDict [], r2)
      else
        match parse_member (parse_value f) (String c2 r2) with
        | Some (kx, r3) =>
            match parse_members f r3 with
            | Some (kxs, r4) => Some (VDict (rebuild_dict (kx :: kxs)), r4)
            | None => None
            end
        | None => None
        end
  end.
Proof. reflexivity. Qed.

Lemma parse_elems_comma f Y :
  parse_elems (S f) (String ","%char Y) =
  match parse_value f (skip_ws Y) with
  | Some (x, r2) =>
      match parse_elems f r2 with Some (xs, r3) => Some (x :: xs, r3) | None => None end
  | None => None
  end.
Proof. reflexivity. Qed.

Lemma parse_elems_close f s rest :
  skip_ws s = String "]"%char rest -> parse_elems (S f) s = Some ([], rest).
Proof. intros H. cbn [parse_elems]. rewrite H. reflexivity. Qed.

Lemma parse_members_comma f Y :
  parse_members (S f) (String ","%char Y) =
  match parse_member (parse_value f) (skip_ws Y) with
  | Some (kx, r2) =>
      match parse_members f r2 with Some (kxs, r3) => Some (kx :: kxs, r3) | None => None end
  | None => None
  end.
Proof. reflexivity. Qed.

Lemma parse_members_close f s rest :
  skip_ws s = String "}"%char rest -> parse_members (S f) s = Some ([], rest).
Proof. intros H. cbn [parse_members]. rewrite H. reflexivity. Qed.

Lemma parse_member_colon pv k Z :
  parse_member pv (String dquote (json_str_body k ++ String dquote (String ":"%char (String " "%char Z)))) =
  match pv (skip_ws Z) with Some (x, r3) => Some ((VStr k, x), r3) | None => None end.
Proof. cbn [parse_member]. rewrite Ascii.eqb_refl, parse_str_body_print. reflexivity. Qed.

(** * Part 1j: the round trip, at any indentation level, inside any context *)
Definition rt_at (v : val) : Prop :=
  json_rt v = true ->
  forall lvl fuel rest, (need v <= fuel)%nat -> follow_ok rest = true ->
    parse_value fuel (jprint lvl v ++ rest) = Some (v, rest).

Lemma jitems_cons_app lvl x r s :
  jitems lvl (x :: r) ++ s = String ","%char (nl (S lvl) ++ jprint (S lvl) x ++ jitems lvl r ++ s).
Proof. cbn [jitems append]. now rewrite !append_assoc_s. Qed.

Lemma jpairs_cons_app lvl k x r s :
  jpairs lvl ((VStr k, x) :: r) ++ s =
  String ","%char (nl (S lvl) ++ String dquote (json_str_body k ++ String dquote
     (String ":"%char (String " "%char (jprint (S lvl) x ++ jpairs lvl r ++ s))))).
Proof.
  cbn [jpairs jkey]. unfold jquote.
  repeat (first [rewrite append_assoc_s | progress cbn [append]]). reflexivity.
Qed.

Lemma value_then rest0 lvl x f :
  rt_at x -> json_rt x = true -> (need x <= f)%nat -> follow_ok rest0 = true ->
  parse_value f (skip_ws (nl lvl ++ jprint lvl x ++ rest0)) = Some (x, rest0).
Proof.
  intros IH Hx Hf Hfol. rewrite skip_ws_nl.
  rewrite skip_ws_nonws by (apply head_nonws_app, head_value_nonws, jprint_head, Hx).
  now apply IH.
Qed.

Lemma parse_elems_print lvl r :
  Forall rt_at r -> Forall (fun x => json_rt x = true) r ->
  forall fuel rest, (needs r <= fuel)%nat ->
  parse_elems fuel (jitems lvl r ++ nl lvl ++ String "]"%char rest) = Some (r, rest).
Proof.
  induction r as [|x r IHr]; intros IH Hrt fuel rest Hfuel.
  - cbn [needs] in Hfuel. destruct fuel as [|f]; [lia|].
    apply parse_elems_close. cbn [jitems append]. rewrite skip_ws_nl.
    apply skip_ws_nonws. apply head_lit. reflexivity.
  - cbn [needs] in Hfuel. destruct fuel as [|f]; [lia|].
    inversion IH as [|? ? IHx IH']; subst. inversion Hrt as [|? ? Hx Hrt']; subst.
    rewrite jitems_cons_app, parse_elems_comma.
    rewrite (value_then _ (S lvl) x f IHx Hx) by (try lia; apply follow_ok_jitems).
    rewrite IHr by (try assumption; lia). reflexivity.
Qed.

Lemma parse_members_print lvl r :
  Forall (fun kv : val * val => rt_at (snd kv)) r ->
  Forall (fun kv : val * val => str_key kv /\ json_rt (snd kv) = true) r ->
  forall fuel rest, (needd r <= fuel)%nat ->
  parse_members fuel (jpairs lvl r ++ nl lvl ++ String "}"%char rest) = Some (r, rest).
Proof.
  induction r as [|[k x] r IHr]; intros IH Hrt fuel rest Hfuel.
  - cbn [needd] in Hfuel. destruct fuel as [|f]; [lia|].
    apply parse_members_close. cbn [jpairs append]. rewrite skip_ws_nl.
    apply skip_ws_nonws. apply head_lit. reflexivity.
  - cbn [needd] in Hfuel. destruct fuel as [|f]; [lia|].
    inversion IH as [|? ? IHx IH']; subst. inversion Hrt as [|? ? [[s Hs] Hx] Hrt']; subst.
    cbn [fst snd] in *. subst k.
    rewrite jpairs_cons_app, parse_members_comma.
    rewrite skip_ws_nl. rewrite skip_ws_nonws by (apply head_lit; reflexivity).
    rewrite parse_member_colon.
    rewrite skip_ws_nonws by (apply head_nonws_app, head_value_nonws, jprint_head, Hx).
    rewrite (IHx Hx) by (try lia; apply follow_ok_jpairs).
    rewrite IHr by (try assumption; lia). reflexivity.
Qed.

Lemma rt_at_all v : rt_at v.
Proof.
  induction v using val_nested_ind; unfold rt_at.
  - (* atoms *)
    destruct v; try contradiction; cbn [json_rt]; intros Hrt lvl fuel rest Hfuel Hfol;
      try discriminate Hrt; (destruct fuel as [|f]; [cbn [need] in Hfuel; lia|]).
    + reflexivity.
    + destruct b; reflexivity.
    + cbn [jprint]. destruct (str_of_Z_head z) as (c & t & E & Hc).
      pose proof (parse_int_print z rest Hfol) as Hp. rewrite E in *. cbn [append] in *.
      rewrite (parse_value_int f c _ Hc). now rewrite Hp.
    + cbn [jprint]. unfold jquote. cbn [append]. rewrite append_assoc_s. cbn [append].
      rewrite parse_value_str, parse_str_body_print. reflexivity.
  - (* list *)
    intros Hrt lvl fuel rest Hfuel Hfol. rewrite json_rt_list in Hrt. rewrite need_list in Hfuel.
    destruct fuel as [|f]; [lia|]. destruct l as [|x r]; [reflexivity|].
    inversion H as [|? ? IHx IH']; subst. inversion Hrt as [|? ? Hx Hrt']; subst.
    cbn [needs] in Hfuel.
    rewrite jprint_list. cbn [append]. rewrite !append_assoc_s. cbn [append].
    rewrite parse_value_list. rewrite skip_ws_nl.
    destruct (jprint_head (S lvl) x Hx) as (c2 & r2 & E & Hc).
    assert (Hnw : is_ws c2 = false /\ Ascii.eqb c2 "]"%char = false).
    { unfold vstart in Hc. destruct (is_ws c2); [discriminate Hc|].
      destruct (Ascii.eqb c2 "]"%char); [discriminate Hc|]. split; reflexivity. }
    destruct Hnw as [Hw Hb].
    pose proof (IHx Hx (S lvl) f (jitems lvl r ++ nl lvl ++ String "]"%char rest)
                  ltac:(lia) (follow_ok_jitems _ _ _)) as Hv.
    rewrite E in *. cbn [append skip_ws] in *. rewrite Hw, Hb, Hv.
    rewrite (parse_elems_print lvl r IH' Hrt') by lia. reflexivity.
  - (* tuple *) intros Hrt. discriminate Hrt.
  - (* set *) intros Hrt. discriminate Hrt.
  - (* dict *)
    intros Hrt lvl fuel rest Hfuel Hfol. rewrite json_rt_dict in Hrt. destruct Hrt as [Hrt Hu].
    rewrite need_dict in Hfuel.
    destruct fuel as [|f]; [lia|]. destruct l as [|[k x] r]; [reflexivity|].
    assert (Hkeys : Forall str_key ((k, x) :: r)).
    { eapply Forall_impl; [|exact Hrt]. intros kv [A _]. exact A. }
    inversion H as [|? ? [_ IHx] IH']; subst.
    inversion Hrt as [|? ? [[s Hs] Hx] Hrt']; subst. cbn [fst snd] in *. subst k.
    cbn [needd] in Hfuel.
    rewrite jprint_dict. cbn [append jkey]. unfold jquote. rewrite !append_assoc_s.
    cbn [append]. rewrite !append_assoc_s. cbn [append].
    rewrite parse_value_dict. rewrite skip_ws_nl. cbn [skip_ws].
    change (is_ws dquote) with false. cbv iota.
    change (Ascii.eqb dquote "}"%char) with false. cbv iota.
    rewrite parse_member_colon.
    rewrite skip_ws_nonws by (apply head_nonws_app, head_value_nonws, jprint_head, Hx).
    rewrite (IHx Hx) by (try lia; apply follow_ok_jpairs).
    assert (IHr : Forall (fun kv : val * val => rt_at (snd kv)) r).
    { eapply Forall_impl; [|exact IH']. intros kv [_ B]. exact B. }
    rewrite (parse_members_print lvl r IHr Hrt') by lia.
    rewrite rebuild_dict_uniq by assumption. reflexivity.
  - (* jsonify *) intros Hrt. discriminate Hrt.
Qed.

(** * Part 1k: the text is long enough to serve as fuel *)
Lemma length_app a b : String.length (a ++ b) = (String.length a + String.length b)%nat.
Proof. induction a as [|c a IH]; cbn; [reflexivity|]. now rewrite IH. Qed.

Lemma nl_length k : (1 <= String.length (nl k))%nat.
Proof. unfold nl. cbn [String.length]. lia. Qed.

Definition fuel_ok (v : val) : Prop :=
  forall lvl, (need v <= S (String.length (jprint lvl v)))%nat.

Lemma needs_le lvl r : Forall fuel_ok r -> (needs r <= S (String.length (jitems lvl r)))%nat.
Proof.
  induction 1 as [|x r Hx Hr IH]; cbn [needs jitems]; [cbn; lia|].
  cbn [append String.length]. rewrite !length_app.
  pose proof (Hx (S lvl)). pose proof (nl_length (S lvl)). lia.
Qed.

Lemma needd_le lvl r :
  Forall (fun kv : val * val => fuel_ok (fst kv) /\ fuel_ok (snd kv)) r ->
  (needd r <= S (String.length (jpairs lvl r)))%nat.
Proof.
  induction 1 as [|[k x] r [_ Hx] Hr IH]; cbn [needd jpairs]; [cbn; lia|].
  repeat (first [rewrite length_app | progress cbn [append String.length]]). cbn [snd] in Hx.
  pose proof (Hx (S lvl)). pose proof (nl_length (S lvl)). lia.
Qed.

Lemma fuel_ok_all v : fuel_ok v.
Proof.
  induction v using val_nested_ind; unfold fuel_ok; intros lvl.
  - destruct v; try contradiction; cbn [need]; lia.
  - rewrite need_list. destruct l as [|x r]; [cbn; lia|]. inversion H as [|? ? Hx Hr]; subst.
    rewrite jprint_list. cbn [needs append String.length]. rewrite !length_app.
    pose proof (Hx (S lvl)). pose proof (needs_le lvl r Hr).
    pose proof (nl_length (S lvl)). pose proof (nl_length lvl). cbn [String.length]. lia.
  - rewrite need_tuple, jprint_tuple. destruct l as [|x r]; [cbn; lia|].
    inversion H as [|? ? Hx Hr]; subst.
    rewrite jprint_list. cbn [needs append String.length]. rewrite !length_app.
    pose proof (Hx (S lvl)). pose proof (needs_le lvl r Hr).
    pose proof (nl_length (S lvl)). pose proof (nl_length lvl). cbn [String.length]. lia.
  - cbn [need]. lia.
  - rewrite need_dict. destruct l as [|[k x] r]; [cbn; lia|].
    inversion H as [|? ? [_ Hx] Hr]; subst. cbn [snd] in Hx.
    rewrite jprint_dict. cbn [needd].
    repeat (first [rewrite length_app | progress cbn [append String.length]]).
    pose proof (Hx (S lvl)). pose proof (needd_le lvl r Hr).
    pose proof (nl_length (S lvl)). pose proof (nl_length lvl). lia.
  - cbn [need]. lia.
Qed.

(** * Part 1l: the theorem *)
Lemma json_roundtrip_at lvl v : json_rt v = true -> json_parse (jprint lvl v) = Some v.
Proof.
  intros Hrt. unfold json_parse.
  rewrite skip_ws_nonws by (apply head_value_nonws, jprint_head, Hrt).
  rewrite <- (append_nil_r (jprint lvl v)) at 2.
  rewrite (rt_at_all v Hrt lvl _ EmptyString (fuel_ok_all v lvl) eq_refl). reflexivity.
Qed.

Lemma json_ok_of_rt v : json_rt v = true -> json_ok v = true.
Proof.
  induction v using val_nested_ind; intros Hrt.
  - destruct v; try contradiction; try discriminate Hrt; reflexivity.
  - rewrite json_rt_list in Hrt. cbn [json_ok].
    induction H as [|x r Hx Hr IH]; [reflexivity|]. inversion Hrt; subst.
    rewrite Hx by assumption. cbn [andb]. now apply IH.
  - discriminate Hrt.
  - discriminate Hrt.
  - rewrite json_rt_dict in Hrt. destruct Hrt as [Hrt _]. cbn [json_ok].
    induction H as [|[k x] r [_ Hx] Hr IH]; [reflexivity|].
    inversion Hrt as [|? ? [[s Hs] Hxr] Hrt']; subst. cbn [fst snd] in *. subst k.
    rewrite Hx by assumption. cbn [jkey_ok andb]. now apply IH.
  - discriminate Hrt.
Qed.

Lemma json_print_parse v :
  json_representable v -> exists s, json_print v = Some s /\ json_parse s = Some v.
Proof.
  intros Hrt. exists (jprint 0 v). unfold json_print.
  rewrite (json_ok_of_rt v Hrt). split; [reflexivity|]. now apply json_roundtrip_at.
Qed.

(** the excluded shapes really do not come back unchanged *)
Lemma json_tuple_not_roundtrip :
  exists v, json_ok v = true /\ json_parse (jprint 0 v) <> Some v.
Proof. exists (VTuple [VInt 1; VInt 2]). split; [reflexivity|]. vm_compute. discriminate. Qed.

Lemma json_int_key_not_roundtrip :
  exists v, json_ok v = true /\ json_parse (jprint 0 v) <> Some v.
Proof. exists (VDict [(VInt 1, VStr "a")]). split; [reflexivity|]. vm_compute. discriminate. Qed.

(** * Part 2: step-level composition *)
Lemma fs_read_write p t files : fs_read p (fs_write p t files) = Some t.
Proof.
  induction files as [|[q u] r IH]; cbn [fs_write fs_read].
  - now rewrite String.eqb_refl.
  - destruct (String.eqb p q) eqn:E; cbn [fs_read]; rewrite E; [reflexivity|exact IH].
Qed.

Definition FUEL1 : nat := pred FUEL.

Lemma format_plain_key ctx k r : no_brace k = true -> fmt_iter ctx FUEL1 (VStr k) r = Ok (VStr k).
Proof. intros H. apply fmt_iter_plain. exact H. Qed.

Lemma format_dict1 ctx k a a' :
  no_brace k = true ->
  format_value FUEL1 ctx a = Ok a' ->
  format_value FUEL ctx (VDict [(VStr k, a)]) = Ok (VDict [(VStr k, a')]).
Proof.
  intros Hk Ha. unfold format_value in *. change FUEL with (S FUEL1).
  cbn [fmt_iter iter_body mapM fst snd]. rewrite (format_plain_key ctx k false Hk), Ha.
  reflexivity.
Qed.

Lemma format_dict2 ctx k1 k2 a b a' b' :
  no_brace k1 = true -> no_brace k2 = true -> String.eqb k2 k1 = false ->
  format_value FUEL1 ctx a = Ok a' ->
  format_value FUEL1 ctx b = Ok b' ->
  format_value FUEL ctx (VDict [(VStr k1, a); (VStr k2, b)])
  = Ok (VDict [(VStr k1, a'); (VStr k2, b')]).
Proof.
  intros H1 H2 Hne Ha Hb. unfold format_value in *. change FUEL with (S FUEL1).
  cbn [fmt_iter iter_body mapM fst snd].
  rewrite (format_plain_key ctx k1 false H1), Ha, (format_plain_key ctx k2 false H2), Hb.
  cbn [bind]. unfold rebuild_dict. cbn [fold_left fst snd dict_set].
  rewrite val_eqb_str, Hne. reflexivity.
Qed.

Lemma sget_first k v d : sget k ((VStr k, v) :: d) = Some v.
Proof. unfold sget. cbn [dict_get]. now rewrite val_eqb_str, String.eqb_refl. Qed.

Lemma sget_second k k1 v1 v d :
  String.eqb k k1 = false -> sget k ((VStr k1, v1) :: (VStr k, v) :: d) = Some v.
Proof.
  intros H. unfold sget. cbn [dict_get]. now rewrite !val_eqb_str, H, String.eqb_refl.
Qed.

Lemma sget_absent1 k k1 v1 : String.eqb k k1 = false -> sget k [(VStr k1, v1)] = None.
Proof. intros H. unfold sget. cbn [dict_get]. now rewrite val_eqb_str, H. Qed.

Lemma get_formatted_ok ctx key v v' :
  format_value FUEL ctx v = Ok v' -> get_formatted ctx key v = Ok v'.
Proof. intros H. unfold get_formatted. now rewrite H. Qed.

Section WriteFetch.
  Variable f : fmt.
  Variable c : codec.
  (** the representable payloads of this format *)
  Variable dom : val -> Prop.
  (** document equality: [eq] for JSON and YAML; TOML may reorder the keys of a table *)
  Variable eqv : val -> val -> Prop.
  Hypothesis eqv_shape : forall a b, eqv a b -> is_mapping a = is_mapping b.
  (** the round-trip law of the (third-party) serialiser / parser pair *)
  Hypothesis law : forall v, dom v ->
    exists s v', c_print c v = Ok s /\ c_parse c s = Ok v' /\ eqv v' v.

  (** writing: the step's input is formatted once; the formatted payload goes through the
      serialiser to the formatted path *)
  Lemma write_step_ok ctx files p_raw pl_raw path fp :
    sget (write_key f) ctx = Some (VDict [(VStr "path", p_raw); (VStr "payload", pl_raw)]) ->
    format_value FUEL1 ctx p_raw = Ok (VStr path) ->
    format_value FUEL1 ctx pl_raw = Ok fp ->
    (f = FToml -> py_truth fp = true) ->
    dom fp ->
    exists s v', c_print c fp = Ok s /\ c_parse c s = Ok v' /\ eqv v' fp /\
      write_step f c ctx files = Ok (fs_write path s files).
  Proof.
    intros Hget Hp Hpl Htoml Hdom.
    destruct (law fp Hdom) as (s & v' & Hprint & Hparse & Heq).
    exists s, v'. repeat split; try assumption.
    unfold write_step, assert_has_value. rewrite Hget. cbn [bind].
    rewrite (get_formatted_ok _ _ _ _
               (format_dict2 ctx "path" "payload" _ _ _ _ eq_refl eq_refl eq_refl Hp Hpl)).
    cbn [bind]. rewrite sget_first. cbn [bind].
    rewrite (sget_second "payload" "path") by reflexivity.
    assert (Hpay : (match f with
                    | FToml => if py_truth fp then Ok fp
                               else Err E_KeyNoValue "payload must have a value to write to output TOML document."
                    | _ => Ok fp
                    end) = Ok fp).
    { destruct f; try reflexivity. now rewrite Htoml. }
    rewrite Hpay. cbn [bind]. rewrite Hprint. reflexivity.
  Qed.

  (** fetch with a (truthy) key: the parsed document is stored under that key *)
  Lemma fetch_step_key ctx files p_raw k_raw path key s v' :
    sget (fetch_key f) ctx = Some (VDict [(VStr "path", p_raw); (VStr "key", k_raw)]) ->
    format_value FUEL1 ctx p_raw = Ok (VStr path) ->
    format_value FUEL1 ctx k_raw = Ok (VStr key) -> key <> EmptyString ->
    fs_read path files = Some s -> c_parse c s = Ok v' ->
    fetch_step f c ctx files = Ok (dict_set (VStr key) v' ctx).
  Proof.
    intros Hget Hp Hk Hne Hread Hparse.
    unfold fetch_step, assert_has_value. rewrite Hget. cbn [bind].
    rewrite (get_formatted_ok _ _ _ _
               (format_dict2 ctx "path" "key" _ _ _ _ eq_refl eq_refl eq_refl Hp Hk)).
    cbn [bind]. rewrite sget_first. cbn [bind].
    rewrite (sget_second "key" "path") by reflexivity.
    rewrite Hread, Hparse. cbn [bind py_truth].
    assert (Ht : negb (String.eqb key "") = true).
    { apply negb_true_iff. now apply String.eqb_neq. }
    rewrite Ht. reflexivity.
  Qed.

  (** fetch without a key: the parsed mapping is merged into the context root *)
  Lemma fetch_step_root ctx files p_raw path s pl :
    sget (fetch_key f) ctx = Some (VDict [(VStr "path", p_raw)]) ->
    format_value FUEL1 ctx p_raw = Ok (VStr path) ->
    fs_read path files = Some s -> c_parse c s = Ok (VDict pl) ->
    fetch_step f c ctx files = Ok (dict_update ctx pl).
  Proof.
    intros Hget Hp Hread Hparse.
    unfold fetch_step, assert_has_value. rewrite Hget. cbn [bind].
    rewrite (get_formatted_ok _ _ _ _ (format_dict1 ctx "path" _ _ eq_refl Hp)).
    cbn [bind]. rewrite sget_first. cbn [bind].
    rewrite (sget_absent1 "key" "path") by reflexivity.
    rewrite Hread, Hparse. reflexivity.
  Qed.

  (** fetch ∘ write, with a key *)
  Lemma write_fetch_key ctx1 ctx2 files p_raw pl_raw p2_raw k_raw path fp key :
    sget (write_key f) ctx1 = Some (VDict [(VStr "path", p_raw); (VStr "payload", pl_raw)]) ->
    format_value FUEL1 ctx1 p_raw = Ok (VStr path) ->
    format_value FUEL1 ctx1 pl_raw = Ok fp ->
    (f = FToml -> py_truth fp = true) ->
    dom fp ->
    sget (fetch_key f) ctx2 = Some (VDict [(VStr "path", p2_raw); (VStr "key", k_raw)]) ->
    format_value FUEL1 ctx2 p2_raw = Ok (VStr path) ->
    format_value FUEL1 ctx2 k_raw = Ok (VStr key) -> key <> EmptyString ->
    exists files' v',
      write_step f c ctx1 files = Ok files' /\
      fetch_step f c ctx2 files' = Ok (dict_set (VStr key) v' ctx2) /\
      eqv v' fp.
  Proof.
    intros Hw Hp Hpl Ht Hdom Hf Hp2 Hk Hne.
    destruct (write_step_ok ctx1 files _ _ _ _ Hw Hp Hpl Ht Hdom)
      as (s & v' & _ & Hparse & Heq & Hws).
    exists (fs_write path s files), v'. split; [exact Hws|]. split; [|exact Heq].
    apply (fetch_step_key ctx2 _ _ _ path key s v' Hf Hp2 Hk Hne (fs_read_write _ _ _) Hparse).
  Qed.

  (** fetch ∘ write, no key: a mapping payload is merged at the root *)
  Lemma write_fetch_root ctx1 ctx2 files p_raw pl_raw p2_raw path fp :
    sget (write_key f) ctx1 = Some (VDict [(VStr "path", p_raw); (VStr "payload", pl_raw)]) ->
    format_value FUEL1 ctx1 p_raw = Ok (VStr path) ->
    format_value FUEL1 ctx1 pl_raw = Ok fp ->
    (f = FToml -> py_truth fp = true) ->
    dom fp -> is_mapping fp = true ->
    sget (fetch_key f) ctx2 = Some (VDict [(VStr "path", p2_raw)]) ->
    format_value FUEL1 ctx2 p2_raw = Ok (VStr path) ->
    exists files' pl',
      write_step f c ctx1 files = Ok files' /\
      fetch_step f c ctx2 files' = Ok (dict_update ctx2 pl') /\
      eqv (VDict pl') fp.
  Proof.
    intros Hw Hp Hpl Ht Hdom Hmap Hf Hp2.
    destruct (write_step_ok ctx1 files _ _ _ _ Hw Hp Hpl Ht Hdom)
      as (s & v' & _ & Hparse & Heq & Hws).
    pose proof (eqv_shape _ _ Heq) as Hm. rewrite Hmap in Hm.
    destruct v' as [| | | | | | | | |pl'| | | | |]; try discriminate Hm.
    exists (fs_write path s files), pl'. split; [exact Hws|]. split; [|exact Heq].
    apply (fetch_step_root ctx2 _ _ path s pl' Hf Hp2 (fs_read_write _ _ _) Hparse).
  Qed.

  (** the file context parser on the written file returns the document *)
  Lemma write_file_parser ctx1 files p_raw pl_raw path fp :
    sget (write_key f) ctx1 = Some (VDict [(VStr "path", p_raw); (VStr "payload", pl_raw)]) ->
    format_value FUEL1 ctx1 p_raw = Ok (VStr path) ->
    format_value FUEL1 ctx1 pl_raw = Ok fp ->
    (f = FToml -> py_truth fp = true) ->
    dom fp -> is_mapping fp = true ->
    exists files' v',
      write_step f c ctx1 files = Ok files' /\
      file_parser f c [path] files' = Ok (Some v') /\
      eqv v' fp.
  Proof.
    intros Hw Hp Hpl Ht Hdom Hmap.
    destruct (write_step_ok ctx1 files _ _ _ _ Hw Hp Hpl Ht Hdom)
      as (s & v' & _ & Hparse & Heq & Hws).
    exists (fs_write path s files), v'. split; [exact Hws|]. split; [|exact Heq].
    unfold file_parser. cbn [join]. rewrite fs_read_write, Hparse. cbn [bind].
    pose proof (eqv_shape _ _ Heq) as Hm. rewrite Hmap in Hm. rewrite Hm.
    destruct f; reflexivity.
  Qed.
End WriteFetch.

(** ** closed instance: JSON *)
Lemma json_law : forall v, json_representable v ->
  exists s v', c_print json_codec v = Ok s /\ c_parse json_codec s = Ok v' /\ v' = v.
Proof.
  intros v Hv. destruct (json_print_parse v Hv) as (s & Hp & Hq).
  exists s, v. cbn [json_codec c_print c_parse]. rewrite Hp, Hq. repeat split; reflexivity.
Qed.

Lemma eq_shape : forall a b : val, a = b -> is_mapping a = is_mapping b.
Proof. intros a b ->. reflexivity. Qed.

(** * Part 3: fileformat = every string node replaced by its formatted value *)
Section StringNodes.
  Variable ctx : dict.
  Variable r : bool.

  (** [fmt_nodes d d']: [d'] is [d] with each string node (mapping keys included)
      replaced by the value the formatter gives for that string, every other scalar
      unchanged, and the containers rebuilt in the same order ([rebuild_dict]: should two
      formatted keys coincide, the later value wins at the first position, as in
      Python's dict(generator)). *)
  Inductive fmt_nodes : val -> val -> Prop :=
  | FN_leaf v : is_leaf v = true -> fmt_nodes v v
  | FN_str n s v' : fmt_iter ctx n (VStr s) r = Ok v' -> fmt_nodes (VStr s) v'
  | FN_list l l' : Forall2 fmt_nodes l l' -> fmt_nodes (VList l) (VList l')
  | FN_dict l l' :
      Forall2 (fun kv kv' : val * val =>
                 fmt_nodes (fst kv) (fst kv') /\ fmt_nodes (snd kv) (snd kv')) l l' ->
      fmt_nodes (VDict l) (VDict (rebuild_dict l')).

  Lemma is_doc_list l : is_doc (VList l) = true <-> Forall (fun x => is_doc x = true) l.
  Proof.
    cbn [is_doc]. induction l as [|x l IH].
    - split; [constructor|reflexivity].
    - rewrite andb_true_iff, IH. split.
      + intros [A B]. now constructor.
      + intros H. inversion H; subst. tauto.
  Qed.

  Lemma is_doc_dict l :
    is_doc (VDict l) = true <->
    Forall (fun kv : val * val => is_doc (fst kv) = true /\ is_doc (snd kv) = true) l.
  Proof.
    cbn [is_doc]. induction l as [|[k x] l IH].
    - split; [constructor|reflexivity].
    - rewrite !andb_true_iff, IH. split.
      + intros [[A B] C]. constructor; [split; assumption|exact C].
      + intros H. inversion H as [|? ? [A B] C]; subst. tauto.
  Qed.

  Lemma fmt_iter_string_nodes n v v' :
    is_doc v = true -> fmt_iter ctx n v r = Ok v' -> fmt_nodes v v'.
  Proof.
    revert v v'. induction n as [|n IH]; intros v v' Hdoc H; [discriminate H|].
    destruct v; try discriminate Hdoc.
    - rewrite fmt_iter_leaf in H by reflexivity. inversion H; subst. now constructor.
    - rewrite fmt_iter_leaf in H by reflexivity. inversion H; subst. now constructor.
    - rewrite fmt_iter_leaf in H by reflexivity. inversion H; subst. now constructor.
    - rewrite fmt_iter_leaf in H by reflexivity. inversion H; subst. now constructor.
    - eapply FN_str. exact H.
    - apply fmt_iter_list in H. destruct H as (l' & -> & F).
      rewrite is_doc_list in Hdoc. constructor.
      induction F as [|x y l l' Hxy F IHF]; [constructor|].
      inversion Hdoc; subst. constructor; [now apply IH|now apply IHF].
    - apply fmt_iter_dict in H. destruct H as (l' & -> & F).
      rewrite is_doc_dict in Hdoc. constructor.
      induction F as [|kv kv' l l' [Hk Hx] F IHF]; [constructor|].
      inversion Hdoc as [|? ? [Dk Dx] Hdoc']; subst.
      constructor; [split; now apply IH|now apply IHF].
  Qed.
End StringNodes.

Lemma fileformat_obj_spec c ctx text out :
  fileformat_obj c ctx text = Ok out ->
  exists doc doc',
    c_parse c text = Ok doc /\ format_value FUEL ctx doc = Ok doc' /\ c_print c doc' = Ok out /\
    (is_doc doc = true -> fmt_nodes ctx false doc doc').
Proof.
  unfold fileformat_obj. intros H.
  destruct (c_parse c text) as [doc| |] eqn:Hp; cbn [bind] in H; try discriminate H.
  destruct (format_value FUEL ctx doc) as [doc'| |] eqn:Hf; cbn [bind] in H; try discriminate H.
  exists doc, doc'. repeat split; try assumption.
  intros Hdoc. eapply fmt_iter_string_nodes; eassumption.
Qed.

(** with the round-trip law on the formatted document: parsing the output file gives
    the input document with every string node formatted *)
Lemma fileformat_roundtrip c (dom : val -> Prop) (eqv : val -> val -> Prop) :
  (forall v, dom v -> exists s v', c_print c v = Ok s /\ c_parse c s = Ok v' /\ eqv v' v) ->
  forall ctx text out,
  fileformat_obj c ctx text = Ok out ->
  exists doc doc',
    c_parse c text = Ok doc /\ format_value FUEL ctx doc = Ok doc' /\
    (is_doc doc = true -> fmt_nodes ctx false doc doc') /\
    (dom doc' -> exists doc'', c_parse c out = Ok doc'' /\ eqv doc'' doc').
Proof.
  intros law ctx text out H.
  destruct (fileformat_obj_spec c ctx text out H) as (doc & doc' & Hp & Hf & Hpr & Hn).
  exists doc, doc'. repeat split; try assumption.
  intros Hd. destruct (law doc' Hd) as (s & v' & Hs & Hv & He).
  assert (s = out) by congruence. subst s. exists v'. split; assumption.
Qed.

Lemma fileformat_json ctx text out :
  fileformat_obj json_codec ctx text = Ok out ->
  exists doc doc',
    json_parse text = Some doc /\ format_value FUEL ctx doc = Ok doc' /\
    json_print doc' = Some out /\
    (is_doc doc = true -> fmt_nodes ctx false doc doc') /\
    (json_representable doc' -> json_parse out = Some doc').
Proof.
  intros H. destruct (fileformat_obj_spec _ _ _ _ H) as (doc & doc' & Hp & Hf & Hpr & Hn).
  exists doc, doc'. cbn [json_codec c_parse c_print] in Hp, Hpr.
  destruct (json_parse text) as [d|] eqn:E1; try discriminate Hp. inversion Hp; subst d.
  destruct (json_print doc') as [o|] eqn:E2; try discriminate Hpr. cbn in Hpr. inversion Hpr; subst o.
  repeat split; try assumption.
  intros Hrt. destruct (json_print_parse doc' Hrt) as (s & Hs & Hq). congruence.
Qed.

(** the step: the file at [out] (or at [in] when no [out] is given) ends up holding
    dump (format (load in-file)) *)
Lemma fileformat_step_inplace f c ctx files p_raw path text out :
  sget (format_key f) ctx = Some (VDict [(VStr "in", p_raw)]) ->
  format_value FUEL1 ctx p_raw = Ok (VStr path) ->
  fs_read path files = Some text ->
  fileformat_obj c ctx text = Ok out ->
  fileformat_step f c ctx files = Ok (fs_write path out files).
Proof.
  intros Hget Hp Hread Hobj.
  unfold fileformat_step, assert_has_value. rewrite Hget. cbn [bind].
  rewrite (get_formatted_ok _ _ _ _ (format_dict1 ctx "in" _ _ eq_refl Hp)).
  cbn [bind]. rewrite sget_first. cbn [bind].
  rewrite (sget_absent1 "out" "in") by reflexivity. cbn [bind].
  rewrite Hread, Hobj. reflexivity.
Qed.

Lemma fileformat_step_out f c ctx files p_raw o_raw path opath text out :
  sget (format_key f) ctx = Some (VDict [(VStr "in", p_raw); (VStr "out", o_raw)]) ->
  format_value FUEL1 ctx p_raw = Ok (VStr path) ->
  format_value FUEL1 ctx o_raw = Ok (VStr opath) ->
  fs_read path files = Some text ->
  fileformat_obj c ctx text = Ok out ->
  fileformat_step f c ctx files = Ok (fs_write opath out files).
Proof.
  intros Hget Hp Ho Hread Hobj.
  unfold fileformat_step, assert_has_value. rewrite Hget. cbn [bind].
  rewrite (get_formatted_ok _ _ _ _
             (format_dict2 ctx "in" "out" _ _ _ _ eq_refl eq_refl eq_refl Hp Ho)).
  cbn [bind]. rewrite sget_first. cbn [bind].
  rewrite (sget_second "out" "in") by reflexivity. cbn [bind].
  rewrite Hread, Hobj. reflexivity.
Qed.

(** ** equality up to key order respects the shape the steps look at *)
Lemma eqv_shape_bool : forall a b : val,
  val_eqv a b = true -> is_mapping a = is_mapping b.
Proof.
  intros a b. destruct a, b; intros H; try reflexivity;
    cbn [val_eqv val_eqb] in H; discriminate H.
Qed.

Lemma json_not_toml : FJson = FToml -> forall P : Prop, P.
Proof. discriminate. Qed.

Lemma yaml_not_toml : FYaml = FToml -> forall P : Prop, P.
Proof. discriminate. Qed.
