(** Proofs/GenC19Proofs.v — Tie B for C19: the definitions GENERATED from the current Python
    source (Gen/GenC19.v, rewritten on every run by tools/py2coq_c19.py) are proved equal, for
    all inputs, to the hand-written model of Model/Loader.v that the C19 theorems are about.
    The translator leaves the pathlib / file-system primitives abstract; here they are
    instantiated with the model's functions:
       Path.is_file, Path.exists      the two predicates of the environment
       Path.is_absolute               is_abs          Path.resolve     resolve cwd
       Path.joinpath                  joinpath        Path.samefile    string equality
       Path.parent / Path.name        dirname / basename               Path(s)  the text itself
       add_sys_path                   Loader.add_sys_path
       config.cwd / pipelines_subdir  e_cwd / e_subdir;  config.default_loader = FILE_LOADER *)
From PV Require Import Loader LoaderProofs GenC19.
Open Scope string_scope.

Definition text_id (s : string) : string := s.

(** ** constants read off the source *)
Lemma gen_config_default_loader_is_model : gen_config_default_loader = FILE_LOADER.
Proof. reflexivity. Qed.

Lemma gen_file_loader_name_is_model : gen_file_loader_name = FILE_LOADER.
Proof. reflexivity. Qed.

Lemma gen_root_parent_is_model : gen_root_parent = PNone.
Proof. reflexivity. Qed.

(** module level of pypyr/loaders/file.py *)
Lemma gen_cwd_pipelines_dir_is_model e :
  gen_cwd_pipelines_dir (e_cwd e) (e_subdir e) joinpath = cwd_pipelines e.
Proof. reflexivity. Qed.

Lemma gen_builtin_pipelines_dir_is_model repo :
  gen_builtin_pipelines_dir repo joinpath = default_builtin repo.
Proof. reflexivity. Qed.

(** ** pipedef.py *)
Lemma gen_PipelineFileInfo_is_model path :
  gen_PipelineFileInfo (basename path) gen_file_loader_name (PPath (dirname path)) path = file_info path.
Proof. reflexivity. Qed.

Lemma gen_PipelineInfo_defaults_cascade name loader parent :
  gen_PipelineInfo name loader parent gen_PipelineInfo_default_is_parent_cascading
                   gen_PipelineInfo_default_is_loader_cascading
  = {| i_name := name; i_loader := loader; i_parent := parent; i_lcasc := true; i_pcasc := true |}.
Proof. reflexivity. Qed.

(** ** find_pipeline *)
Lemma gen_find_pipeline_loop_is_model is_file fname dirs :
  gen_find_pipeline_loop is_file joinpath fname dirs = find_first is_file fname (map fst dirs).
Proof.
  induction dirs as [|d r IH]; cbn; [reflexivity|].
  destruct (is_file (joinpath (fst d) fname)); [reflexivity|exact IH].
Qed.

Lemma gen_find_pipeline_is_model e fname dirs :
  gen_find_pipeline (e_is_file e) (resolve (e_cwd e)) joinpath fname dirs =
  match find_first (e_is_file e) fname (map fst dirs) with
  | Some p => Ok (resolve (e_cwd e) p)
  | None => Err PNF (not_found_msg fname (map fst dirs))
  end.
Proof.
  unfold gen_find_pipeline. rewrite gen_find_pipeline_loop_is_model.
  destruct (find_first _ _ _); reflexivity.
Qed.

(** ** get_pipeline_path: the whole look-up sequence *)
Definition gen_path (e : env) (repo : string) : string -> pyparent -> res string :=
  gen_get_pipeline_path repo (e_cwd e) (e_subdir e) (e_is_file e) (e_exists e) is_abs
                        (resolve (e_cwd e)) text_id joinpath String.eqb.

Lemma bind_ok_id {A} (r : res A) : (let* x := r in Ok x) = r.
Proof. destruct r; reflexivity. Qed.

Theorem gen_get_pipeline_path_is_model e repo name parent :
  e_builtin e = default_builtin repo ->
  gen_path e repo name parent = get_pipeline_path e name parent.
Proof.
  intros Hb. unfold gen_path, gen_get_pipeline_path, get_pipeline_path, text_id.
  cbv zeta.
  destruct (is_abs (name ++ ".yaml")); [reflexivity|].
  unfold search_locations, parent_locs, parent_text.
  rewrite Hb. change (gen_builtin_pipelines_dir repo joinpath) with (default_builtin repo).
  change (gen_cwd_pipelines_dir (e_cwd e) (e_subdir e) joinpath) with (cwd_pipelines e).
  destruct (p_truthy parent).
  - replace (if is_path_obj parent then p_str parent else p_str parent) with (p_str parent)
      by (destruct (is_path_obj parent); reflexivity).
    destruct (e_exists e (resolve (e_cwd e) (p_str parent))).
    + destruct (resolve (e_cwd e) (p_str parent) =? e_cwd e); cbn [negb];
        rewrite bind_ok_id, gen_find_pipeline_is_model; reflexivity.
    + rewrite bind_ok_id, gen_find_pipeline_is_model. reflexivity.
  - rewrite bind_ok_id, gen_find_pipeline_is_model. reflexivity.
Qed.

(** ** moduleloader.add_sys_path: the [_known_dirs] short-cut, the exists test, the EXACT
    string membership test against sys.path, append at the end, bookkeeping *)
Theorem gen_add_sys_path_is_model e st p :
  gen_add_sys_path (fun s => e_exists e (resolve (e_cwd e) s)) text_id st p = add_sys_path e st p.
Proof.
  destruct st as [kn sp]. unfold gen_add_sys_path, add_sys_path, text_id, parent_text. cbn.
  destruct (existsb (pp_eqb p) kn); [reflexivity|].
  replace (if is_path_obj p then p_str p else p_str p) with (p_str p)
    by (destruct (is_path_obj p); reflexivity).
  destruct (e_exists e (resolve (e_cwd e) (p_str p))); cbn; [|reflexivity].
  destruct (str_in (p_str p) sp); reflexivity.
Qed.

(** moduleloader.get_module: a plain import attempt each time, against whatever sys.path is now *)
Theorem gen_get_module_is_model e sp m :
  gen_get_module (find_module e sp) m = get_module e sp m.
Proof. reflexivity. Qed.

(** ** load_pipeline_from_file / get_pipeline_definition = the model's file loader *)
Lemma gen_load_pipeline_from_file_is_model e path st :
  gen_load_pipeline_from_file dirname basename (add_sys_path e) path st =
  (add_sys_path e st (PPath (dirname path)),
   {| d_file := path; d_is_file_info := true; d_info := file_info path |}).
Proof. reflexivity. Qed.

Theorem gen_get_pipeline_definition_is_model e repo name parent st :
  e_builtin e = default_builtin repo ->
  gen_get_pipeline_definition repo (e_cwd e) (e_subdir e) (e_is_file e) (e_exists e) is_abs
      (resolve (e_cwd e)) dirname basename text_id joinpath String.eqb (add_sys_path e) name parent st
  = load_pipeline e st FILE_LOADER LFile name parent.
Proof.
  intros Hb. unfold gen_get_pipeline_definition, load_pipeline.
  change (gen_get_pipeline_path repo (e_cwd e) (e_subdir e) (e_is_file e) (e_exists e) is_abs
            (resolve (e_cwd e)) text_id joinpath String.eqb name parent) with (gen_path e repo name parent).
  rewrite (gen_get_pipeline_path_is_model e repo name parent Hb).
  destruct (get_pipeline_path e name parent); reflexivity.
Qed.

(** ** pype: get_arguments and what run_step hands to the child pipeline *)
Theorem gen_get_arguments_is_model info o :
  gen_get_arguments info o = (child_loader info o, o_pydir o, child_parent info o).
Proof.
  destruct o as [ol orr op od], info as [nm ld pr lc pc].
  unfold gen_get_arguments, child_loader, child_parent. cbn.
  destruct ol as [| |l], lc, orr as [[|]|], pc, op; cbn; try rewrite String.eqb_refl;
    repeat match goal with |- context [if ?c then _ else _] => destruct c end; reflexivity.
Qed.

Theorem gen_run_step_request_is_model info o :
  gen_run_step_request info o = (child_loader info o, o_pydir o, child_parent info o).
Proof. unfold gen_run_step_request. rewrite gen_get_arguments_is_model. reflexivity. Qed.

(** ** Pipeline.load_and_run_pipeline: py_dir first, then the request handed to the loader *)
Theorem gen_load_and_run_pipeline_is_model e pydir loader name parent sys :
  gen_load_and_run_pipeline (add_sys_path e) pydir loader name parent sys
  = (pydir_sys e sys pydir, (loader, name, parent)).
Proof.
  unfold gen_load_and_run_pipeline, pydir_sys. destruct pydir as [d|]; [|reflexivity].
  cbn. destruct (d =? ""); reflexivity.
Qed.

(** ** loadercache *)
Theorem gen_pype_loader_name_is_model loader :
  gen_pype_loader_name gen_config_default_loader loader = effective_loader loader.
Proof.
  unfold gen_pype_loader_name, effective_loader. destruct loader as [s|]; [|reflexivity].
  cbn. destruct (s =? ""); reflexivity.
Qed.

Theorem gen_cache_key_is_model parent name : gen_cache_key parent name = cache_key parent name.
Proof. reflexivity. Qed.

Theorem gen_wrap_bare_mapping_is_model e st lname name parent path :
  get_pipeline_path e name parent = Ok path ->
  load_pipeline e st lname LBare name parent = Ok (st, gen_wrap_bare_mapping lname name parent path).
Proof. unfold load_pipeline. intros ->. reflexivity. Qed.
