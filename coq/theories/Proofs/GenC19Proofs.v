(* Proofs/GenC19Proofs.v - placeholder *)
