(** Proofs/EngineProofs.v — placeholder, to be written. *)
