(** Proofs/EngineProofs.v — lemmas about Model/Engine.v.
    Most are about the OPEN functions, for arbitrary [rg] (the nested run_step_groups) and
    [rp] (the nested pipeline run): they hold whatever the called groups / child pipelines
    do, i.e. for every program and every nesting depth.  The global invariants at the end
    are by induction on fuel. *)
From PV Require Import Engine.
From Coq Require Import Lia.
Open Scope string_scope.

(** * Association-list dictionaries *)
Lemma val_eqb_VStr a b : val_eqb (VStr a) (VStr b) = String.eqb a b.
Proof. reflexivity. Qed.

Lemma val_eqb_str_sym a k : val_eqb (VStr a) k = val_eqb k (VStr a).
Proof. destruct k; simpl; try reflexivity. apply String.eqb_sym. Qed.

Lemma val_eqb_str_eq a b k : val_eqb (VStr a) k = true -> val_eqb (VStr b) k = true -> a = b.
Proof.
  destruct k; simpl; try discriminate. intros E E'.
  apply String.eqb_eq in E. apply String.eqb_eq in E'. congruence.
Qed.

Local Arguments val_eqb : simpl never.
Local Arguments format_value : simpl never.
Local Opaque LOOPFUEL FUEL.

Lemma sget_sset_same k v d : sget k (sset k v d) = Some v.
Proof.
  unfold sget, sset. induction d as [|[k' v'] d IH]; simpl.
  - now rewrite val_eqb_VStr, String.eqb_refl.
  - destruct (val_eqb (VStr k) k') eqn:E; simpl; rewrite E; auto.
Qed.

Lemma sget_sset_other k k' v d : k <> k' -> sget k' (sset k v d) = sget k' d.
Proof.
  intros Hne. unfold sget, sset. induction d as [|[k0 v0] d IH]; simpl.
  - rewrite val_eqb_VStr. destruct (String.eqb k' k) eqn:E; [apply String.eqb_eq in E; congruence|reflexivity].
  - destruct (val_eqb (VStr k) k0) eqn:E; simpl.
    + destruct (val_eqb (VStr k') k0) eqn:E'; [|reflexivity].
      exfalso. apply Hne. eapply val_eqb_str_eq; eauto.
    + destruct (val_eqb (VStr k') k0); auto.
Qed.

Lemma dict_get_pop_same k d : dict_get k (dict_pop k d) = None.
Proof.
  unfold dict_pop. induction d as [|[k' v'] d IH]; simpl; [reflexivity|].
  destruct (val_eqb k k') eqn:E; simpl; [exact IH|]. now rewrite E.
Qed.

Lemma sget_pop_other k k' d : k <> k' -> sget k' (dict_pop (VStr k) d) = sget k' d.
Proof.
  intros Hne. unfold sget, dict_pop. induction d as [|[k0 v0] d IH]; simpl; [reflexivity|].
  destruct (val_eqb (VStr k) k0) eqn:E; simpl.
  - destruct (val_eqb (VStr k') k0) eqn:E'; [|exact IH].
    exfalso. apply Hne. eapply val_eqb_str_eq; eauto.
  - destruct (val_eqb (VStr k') k0); auto.
Qed.

(** * Sequencing *)
Lemma andthen_ok s k : andthen (OOk, s) k = k s.
Proof. reflexivity. Qed.

Lemma andthen_not_ok o s k : o <> OOk -> andthen (o, s) k = (o, s).
Proof. destruct o; simpl; congruence. Qed.

Lemma andthen_assoc r k1 k2 :
  andthen (andthen r k1) k2 = andthen r (fun s => andthen (k1 s) k2).
Proof. destruct r as [[| | |] s]; reflexivity. Qed.

Section Open.
  Variable lib : library.
  Variable rg : list val -> option string -> option string -> st -> R.
  Variable rp : string -> option (list string) -> option (list val) -> option string -> option string -> st -> R.

  Notation run_step := (run_step rg rp).
  Notation run_steps := (run_steps rg rp).
  Notation run_group := (run_group lib rg rp).
  Notation run_group_seq := (run_group_seq lib rg rp).
  Notation run_failure := (run_failure lib rg rp).
  Notation groups_body := (groups_body lib rg rp).
  Notation cond := (cond rg rp).
  Notation invoke := (invoke rg rp).
  Notation retry_loop := (retry_loop rg rp).
  Notation retry_iter := (retry_iter rg rp).
  Notation foreach_items := (foreach_items rg rp).
  Notation foreach_or_cond := (foreach_or_cond rg rp).
  Notation while_iter := (while_iter rg rp).
  Notation while_loop := (while_loop rg rp).
  Notation pype_step := (pype_step rp).

  (** ** C01: steps and groups in declaration order, fail fast *)
  Lemma run_steps_app a b s :
    run_steps (a ++ b) s = andthen (run_steps a s) (run_steps b).
  Proof.
    revert s; induction a as [|sp a IH]; intros s; simpl.
    - destruct (run_steps b s) as [[| | |] s']; reflexivity.
    - rewrite andthen_assoc. destruct (run_step sp s) as [[| | |] s1]; simpl; auto.
  Qed.

  Lemma run_steps_failfast sp rest s o s' :
    run_step sp s = (o, s') -> o <> OOk -> run_steps (sp :: rest) s = (o, s').
  Proof. intros H Hne. simpl. rewrite H. now apply andthen_not_ok. Qed.

  Lemma run_steps_stops_at pre sp post s s1 o s2 :
    run_steps pre s = (OOk, s1) -> run_step sp s1 = (o, s2) -> o <> OOk ->
    run_steps (pre ++ sp :: post) s = (o, s2).
  Proof.
    intros Hpre Hsp Hne. rewrite run_steps_app, Hpre. simpl.
    rewrite Hsp. now apply andthen_not_ok.
  Qed.

  Lemma run_group_seq_app a b s :
    run_group_seq (a ++ b) s = andthen (run_group_seq a s) (run_group_seq b).
  Proof.
    revert s; induction a as [|g a IH]; intros s; simpl.
    - destruct (run_group_seq b s) as [[| | |] s']; reflexivity.
    - rewrite andthen_assoc. destruct (run_group g false s) as [[| | |] s1]; simpl; auto.
  Qed.

  Lemma run_group_seq_stops_at pre g post s s1 o s2 :
    run_group_seq pre s = (OOk, s1) -> run_group g false s1 = (o, s2) -> o <> OOk ->
    run_group_seq (pre ++ g :: post) s = (o, s2).
  Proof.
    intros Hpre Hg Hne. rewrite run_group_seq_app, Hpre. simpl.
    rewrite Hg. now apply andthen_not_ok.
  Qed.

  (** the [try] body of run_step_groups *)
  Definition main_part (names : list string) (success : option string) (s : st) : R :=
    andthen (run_group_seq names s) (fun s1 =>
      match success with
      | Some sg => match sg with "" => (OOk, s1) | _ => run_group sg false s1 end
      | None => (OOk, s1)
      end).

  Lemma groups_body_unfold g gs names success failure s :
    names_of (g :: gs) = Some names ->
    groups_body (g :: gs) success failure s =
    let (o, s1) := main_part names success s in
    if is_error o then
      match failure with
      | Some fg =>
          match fg with
          | "" => (o, s1)
          | _ =>
              match run_failure fg s1 with
              | (ORaise (RSig SStopStepGroup), s2) => (OOk, s2)
              | (OOk, s2) => (o, s2)
              | r => r
              end
          end
      | None => (o, s1)
      end
    else (o, s1).
  Proof.
    intros Hn. unfold groups_body, main_part. rewrite Hn.
    destruct (andthen (run_group_seq names s) _) as [o s1]. reflexivity.
  Qed.

  (** success group runs after all requested groups completed, and only then *)
  Lemma main_part_all_ok names sg s s1 :
    run_group_seq names s = (OOk, s1) -> sg <> "" ->
    main_part names (Some sg) s = run_group sg false s1.
  Proof. intros H Hne. unfold main_part. rewrite H. simpl. destruct sg; congruence. Qed.

  Lemma main_part_not_ok names success s o s1 :
    run_group_seq names s = (o, s1) -> o <> OOk -> main_part names success s = (o, s1).
  Proof. intros H Hne. unfold main_part. rewrite H. now apply andthen_not_ok. Qed.

  (** when an error escapes: the failure group runs (once); its own errors never replace
      the original error; only a Stop issued by the handler itself changes the outcome *)
  Lemma groups_body_error g gs names success fg s n m e s1 :
    names_of (g :: gs) = Some names -> fg <> "" ->
    main_part names success s = (ORaise (RExn n m e), s1) ->
    groups_body (g :: gs) success (Some fg) s =
    match run_group fg true s1 with
    | (ORaise (RSig SStopStepGroup), s2) => (OOk, s2)          (* quiet end *)
    | (ORaise (RSig SStop), s2) => (ORaise (RSig SStop), s2)
    | (ORaise (RSig SStopPipeline), s2) => (ORaise (RSig SStopPipeline), s2)
    | (OUnsup, s2) => (OUnsup, s2)
    | (_, s2) => (ORaise (RExn n m e), s2)                     (* the ORIGINAL error *)
    end.
  Proof.
    intros Hn Hne Hm. rewrite (groups_body_unfold _ _ _ _ _ _ Hn), Hm.
    destruct fg; [congruence|]. unfold run_failure.
    destruct (run_group _ true s1) as [[|[n' m' e'|[| | |c|c]]|c|] s2]; reflexivity.
  Qed.

  Lemma groups_body_error_no_handler g gs names success s n m e s1 :
    names_of (g :: gs) = Some names ->
    main_part names success s = (ORaise (RExn n m e), s1) ->
    groups_body (g :: gs) success None s = (ORaise (RExn n m e), s1).
  Proof. intros Hn Hm. now rewrite (groups_body_unfold _ _ _ _ _ _ Hn), Hm. Qed.

  (** control-of-flow instructions never trigger the failure handler *)
  Lemma groups_body_signal g gs names success failure s sg s1 :
    names_of (g :: gs) = Some names ->
    main_part names success s = (ORaise (RSig sg), s1) ->
    groups_body (g :: gs) success failure s = (ORaise (RSig sg), s1).
  Proof. intros Hn Hm. now rewrite (groups_body_unfold _ _ _ _ _ _ Hn), Hm. Qed.

  Lemma groups_body_ok g gs names success failure s s1 :
    names_of (g :: gs) = Some names ->
    main_part names success s = (OOk, s1) ->
    groups_body (g :: gs) success failure s = (OOk, s1).
  Proof. intros Hn Hm. now rewrite (groups_body_unfold _ _ _ _ _ _ Hn), Hm. Qed.

  (** ** scopes of the stop instructions (C02) *)
  Lemma run_group_stopstepgroup g s s1 :
    run_steps (get_steps lib g s) s = (ORaise (RSig SStopStepGroup), s1) ->
    run_group g false s = (OOk, s1).
  Proof. intros H. unfold Engine.run_group. now rewrite H. Qed.

  Lemma run_group_other_signal g b s s1 sg :
    run_steps (get_steps lib g s) s = (ORaise (RSig sg), s1) ->
    sg = SStop \/ sg = SStopPipeline ->
    run_group g b s = (ORaise (RSig sg), s1).
  Proof. intros H [-> | ->]; unfold Engine.run_group; now rewrite H. Qed.

  Lemma run_group_jump g b s s1 c :
    run_steps (get_steps lib g s) s = (ORaise (RSig (SJump c)), s1) ->
    run_group g b s = rg (c_groups c) (c_success c) (c_failure c) s1.
  Proof. intros H. unfold Engine.run_group. now rewrite H. Qed.

  (** ** cond: run / skip / swallow; instructions pass untouched (C02, C04, C07) *)
  Definition inner (sp : step) (k : counters) (s : st) : R :=
    match s_retry sp with
    | Some rc => retry_loop rc sp k s
    | None => invoke sp k s
    end.

  Lemma cond_run_false sp k s :
    as_bool s (s_run sp) = Ok false -> cond sp k s = (OOk, s).
  Proof. intros H. unfold Engine.cond. rewrite H. reflexivity. Qed.

  Lemma cond_skip_true sp k s :
    as_bool s (s_run sp) = Ok true -> as_bool s (s_skip sp) = Ok true -> cond sp k s = (OOk, s).
  Proof. intros H1 H2. unfold Engine.cond. rewrite H1. simpl. rewrite H2. reflexivity. Qed.

  Lemma cond_exec sp k s :
    as_bool s (s_run sp) = Ok true -> as_bool s (s_skip sp) = Ok false ->
    cond sp k s =
    match inner sp k s with
    | (ORaise (RExn name msg eid), s1) =>
        lift (as_bool s1 (s_swallow sp)) s1 (fun swallow =>
        andthen (save_error sp name msg eid swallow s1) (fun s2 =>
        if swallow then (OOk, s2) else (ORaise (RExn name msg eid), s2)))
    | (OHandled cause, s1) =>
        lift (as_bool s1 (s_swallow sp)) s1 (fun swallow =>
        if swallow then (OOk, s1) else (ORaise cause, s1))
    | r => r
    end.
  Proof.
    intros H1 H2. unfold Engine.cond, inner. rewrite H1. simpl. rewrite H2.
    destruct (match s_retry sp with Some rc => _ | None => _ end) as [[|[? ? ?|?]|?|] ?]; reflexivity.
  Qed.

  Lemma cond_signal sp k s sg s1 :
    as_bool s (s_run sp) = Ok true -> as_bool s (s_skip sp) = Ok false ->
    inner sp k s = (ORaise (RSig sg), s1) ->
    cond sp k s = (ORaise (RSig sg), s1).
  Proof. intros H1 H2 Hi. rewrite (cond_exec _ _ _ H1 H2), Hi. reflexivity. Qed.

  Lemma cond_ok sp k s s1 :
    as_bool s (s_run sp) = Ok true -> as_bool s (s_skip sp) = Ok false ->
    inner sp k s = (OOk, s1) -> cond sp k s = (OOk, s1).
  Proof. intros H1 H2 Hi. rewrite (cond_exec _ _ _ H1 H2), Hi. reflexivity. Qed.

  Lemma cond_error sp k s name msg eid s1 swallow :
    as_bool s (s_run sp) = Ok true -> as_bool s (s_skip sp) = Ok false ->
    inner sp k s = (ORaise (RExn name msg eid), s1) ->
    as_bool s1 (s_swallow sp) = Ok swallow ->
    cond sp k s =
    andthen (save_error sp name msg eid swallow s1) (fun s2 =>
      if swallow then (OOk, s2) else (ORaise (RExn name msg eid), s2)).
  Proof.
    intros H1 H2 Hi Hs. rewrite (cond_exec _ _ _ H1 H2), Hi. simpl. rewrite Hs. reflexivity.
  Qed.

  Lemma cond_handled sp k s cause s1 swallow :
    as_bool s (s_run sp) = Ok true -> as_bool s (s_skip sp) = Ok false ->
    inner sp k s = (OHandled cause, s1) ->
    as_bool s1 (s_swallow sp) = Ok swallow ->
    cond sp k s = if swallow then (OOk, s1) else (ORaise cause, s1).
  Proof.
    intros H1 H2 Hi Hs. rewrite (cond_exec _ _ _ H1 H2), Hi. simpl. rewrite Hs. reflexivity.
  Qed.

  (** ** invoke: call returns to its caller with the caller's counters (C03, C02, C07) *)
  Lemma invoke_not_call sp k s o s1 :
    run_body rp sp s = (o, s1) -> (forall c, o <> ORaise (RSig (SCall c))) ->
    invoke sp k s = (o, s1).
  Proof.
    intros H Hn. unfold Engine.invoke. rewrite H.
    destruct o as [|[n m e|[| | |c|c]]|c|]; try reflexivity. exfalso. now apply (Hn c).
  Qed.

  Lemma invoke_call sp k s c s1 :
    run_body rp sp s = (ORaise (RSig (SCall c)), s1) ->
    invoke sp k s =
    (let '(o, s2) := rg (c_groups c) (c_success c) (c_failure c) s1 in
     let s3 := reset_counters sp k c s2 in
     match o with
     | OOk => (OOk, s3)
     | ORaise (RSig sg) => (ORaise (RSig sg), s3)
     | ORaise r => (OHandled r, s3)
     | OHandled _ => (OUnsup, s3)
     | OUnsup => (OUnsup, s3)
     end).
  Proof. intros H. unfold Engine.invoke. rewrite H. reflexivity. Qed.

  (** whatever the called groups left in context (keys overwritten or removed), the
      caller's counters and call config are restored, and nothing else is touched *)
  Lemma reset_counters_while sp k c s w n :
    s_while sp = Some w -> k_while k = Some n ->
    c_key c <> "whileCounter" -> has_foreach sp = false -> s_retry sp = None ->
    sget "whileCounter" (ctx (reset_counters sp k c s)) = Some (VInt n).
  Proof.
    intros Hw Hk Hne Hf Hr. unfold reset_counters. rewrite Hw, Hk, Hf, Hr. simpl.
    rewrite sget_sset_other by congruence. apply sget_sset_same.
  Qed.

  Lemma reset_counters_key sp k c s :
    sget (c_key c) (ctx (reset_counters sp k c s)) = Some (c_orig c).
  Proof. unfold reset_counters. simpl. apply sget_sset_same. Qed.

  Lemma reset_counters_frame sp k c s key :
    key <> "whileCounter" -> key <> "i" -> key <> "retryCounter" -> key <> c_key c ->
    sget key (ctx (reset_counters sp k c s)) = sget key (ctx s).
  Proof.
    intros H1 H2 H3 H4. unfold reset_counters. simpl.
    rewrite sget_sset_other by congruence.
    destruct (s_retry sp), (k_retry k); try rewrite sget_sset_other by congruence;
      destruct (has_foreach sp); destruct (k_for k); try rewrite sget_sset_other by congruence;
      destruct (s_while sp), (k_while k); try rewrite sget_sset_other by congruence; reflexivity.
  Qed.

  (** general form: each counter the step owns is restored *)
  Lemma reset_counters_all sp k c s :
    c_key c <> "whileCounter" -> c_key c <> "i" -> c_key c <> "retryCounter" ->
    (forall w n, s_while sp = Some w -> k_while k = Some n ->
                 sget "whileCounter" (ctx (reset_counters sp k c s)) = Some (VInt n)) /\
    (forall v, has_foreach sp = true -> k_for k = Some v ->
               sget "i" (ctx (reset_counters sp k c s)) = Some v) /\
    (forall r n, s_retry sp = Some r -> k_retry k = Some n ->
                 sget "retryCounter" (ctx (reset_counters sp k c s)) = Some (VInt n)).
  Proof.
    intros N1 N2 N3. unfold reset_counters. simpl. repeat split.
    - intros w n Hw Hk. rewrite Hw, Hk. rewrite sget_sset_other by congruence.
      destruct (s_retry sp), (k_retry k); try rewrite sget_sset_other by congruence;
        destruct (has_foreach sp); destruct (k_for k); try rewrite sget_sset_other by congruence;
        apply sget_sset_same.
    - intros v Hf Hk. rewrite Hf, Hk. rewrite sget_sset_other by congruence.
      destruct (s_retry sp), (k_retry k); try rewrite sget_sset_other by congruence;
        apply sget_sset_same.
    - intros r n Hr Hk. rewrite Hr, Hk. rewrite sget_sset_other by congruence.
      apply sget_sset_same.
  Qed.
End Open.

(** * switch: first true case, default only in last position (C03) *)
Lemma switch_select_hit s c rest idx last e call :
  (Nat.eqb idx last = false \/ sget "default" c = None \/ sget "default" c = Some VNone) ->
  sget "case" c = Some e -> sget "call" c = Some call -> py_truth call = true ->
  as_bool s e = Ok true ->
  switch_select s (VDict c :: rest) idx last = Ok (Some call).
Proof.
  intros Hd Hc Hcall Ht Hb. simpl.
  assert (D : (if Nat.eqb idx last then
                 match sget "default" c with Some VNone | None => None | Some d => Some d end
               else None) = None).
  { destruct Hd as [-> | [-> | ->]]; [reflexivity| |]; destruct (Nat.eqb idx last); reflexivity. }
  rewrite D, Hc, Hcall, Ht. simpl. rewrite Hb. reflexivity.
Qed.

Lemma switch_select_skip s c rest idx last e call :
  (Nat.eqb idx last = false \/ sget "default" c = None \/ sget "default" c = Some VNone) ->
  sget "case" c = Some e -> sget "call" c = Some call -> py_truth call = true ->
  as_bool s e = Ok false ->
  switch_select s (VDict c :: rest) idx last = switch_select s rest (S idx) last.
Proof.
  intros Hd Hc Hcall Ht Hb. simpl.
  assert (D : (if Nat.eqb idx last then
                 match sget "default" c with Some VNone | None => None | Some d => Some d end
               else None) = None).
  { destruct Hd as [-> | [-> | ->]]; [reflexivity| |]; destruct (Nat.eqb idx last); reflexivity. }
  rewrite D, Hc, Hcall, Ht. simpl. rewrite Hb. reflexivity.
Qed.

Lemma switch_select_default s c idx d :
  sget "default" c = Some d -> d <> VNone ->
  switch_select s [VDict c] idx idx = Ok (Some d).
Proof.
  intros Hd Hn. simpl. rewrite Nat.eqb_refl, Hd. destruct d; try reflexivity. congruence.
Qed.

Lemma switch_select_none s idx last : switch_select s [] idx last = Ok None.
Proof. reflexivity. Qed.

(** a well-formed non-default case *)
Definition plain_case (s : st) (v : val) (b : bool) (call : val) : Prop :=
  exists c e, v = VDict c /\ sget "default" c = None /\ sget "case" c = Some e /\
              sget "call" c = Some call /\ py_truth call = true /\ as_bool s e = Ok b.

(** every case before the first true one is skipped, the first true one is taken, and
    nothing after it is looked at *)
Lemma switch_select_first_true s pre v call post idx last :
  Forall (fun x => exists cl, plain_case s x false cl) pre ->
  plain_case s v true call ->
  switch_select s (pre ++ v :: post) idx last = Ok (Some call).
Proof.
  intros Hpre (c & e & -> & Hd & Hc & Hcall & Ht & Hb).
  revert idx. induction Hpre as [|x pre (cl & c' & e' & -> & Hd' & Hc' & Hcall' & Ht' & Hb') _ IH];
    intros idx; simpl app.
  - eapply switch_select_hit; eauto.
  - erewrite switch_select_skip; eauto.
Qed.

(** no case true and no default: nothing is called *)
Lemma switch_select_all_false s cases idx last :
  Forall (fun x => exists cl, plain_case s x false cl) cases ->
  switch_select s cases idx last = Ok None.
Proof.
  intros H. revert idx. induction H as [|x l (cl & c' & e' & -> & Hd' & Hc' & Hcall' & Ht' & Hb') _ IH];
    intros idx; [reflexivity|].
  erewrite switch_select_skip; eauto.
Qed.

(** * poll: iterations and sleeps (C05, C06) *)
Lemma poll_done fuel iter interval max i s s1 :
  iter (i + 1)%Z s = (IDone true, s1) ->
  poll (S fuel) iter interval max i s = (IDone true, s1).
Proof. intros H. simpl. now rewrite H. Qed.

Lemma poll_raise fuel iter interval max i s o s1 :
  iter (i + 1)%Z s = (IRaise o, s1) ->
  poll (S fuel) iter interval max i s = (IRaise o, s1).
Proof. intros H. simpl. now rewrite H. Qed.

Lemma poll_exhausted fuel iter interval m i s s1 d :
  iter (i + 1)%Z s = (IDone false, s1) -> interval (Z.to_nat (i + 1)) = Some d ->
  m <> 0%Z -> (m <= i + 1)%Z ->
  poll (S fuel) iter interval (Some m) i s = (IDone false, s1).
Proof.
  intros H Hi Hm Hle. simpl. rewrite H, Hi.
  destruct (Z.eqb_spec m 0); [congruence|].
  destruct (Z.ltb_spec (i + 1) m); [lia|reflexivity].
Qed.

Lemma poll_again fuel iter interval max i s s1 d :
  iter (i + 1)%Z s = (IDone false, s1) -> interval (Z.to_nat (i + 1)) = Some d ->
  (max = None \/ max = Some 0%Z \/ exists m, max = Some m /\ (i + 1 < m)%Z) ->
  poll (S fuel) iter interval max i s = poll fuel iter interval max (i + 1)%Z (add_sleep s1 d).
Proof.
  intros H Hi Hm. simpl. rewrite H, Hi.
  destruct Hm as [-> | [-> | (m & -> & Hlt)]]; try reflexivity.
  destruct (Z.eqb_spec m 0); [reflexivity|].
  destruct (Z.ltb_spec (i + 1) m); [reflexivity|lia].
Qed.

Local Arguments poll : simpl never.

Section Open2.
  Variable lib : library.
  Variable rg : list val -> option string -> option string -> st -> R.
  Variable rp : string -> option (list string) -> option (list val) -> option string -> option string -> st -> R.
  Notation cond := (cond rg rp).
  Notation invoke := (invoke rg rp).
  Notation retry_iter := (retry_iter rg rp).
  Notation foreach_items := (foreach_items rg rp).
  Notation foreach_or_cond := (foreach_or_cond rg rp).
  Notation foreach_loop := (foreach_loop rg rp).
  Notation while_iter := (while_iter rg rp).
  Notation while_loop := (while_loop rg rp).
  Notation run_step := (run_step rg rp).

  (** ** foreach: one conditional execution per item, in order, [i] bound to the item *)
  Lemma foreach_items_app sp k a b s :
    foreach_items sp k (a ++ b) s = andthen (foreach_items sp k a s) (foreach_items sp k b).
  Proof.
    revert s; induction a as [|it a IH]; intros s; simpl.
    - destruct (foreach_items sp k b s) as [[| | |] ?]; reflexivity.
    - rewrite andthen_assoc.
      destruct (cond sp _ _) as [[| | |] s1]; simpl; auto.
  Qed.

  Lemma foreach_items_one sp k it s :
    foreach_items sp k [it] s =
    andthen (cond sp (mkcnt (k_while k) (Some it) (k_retry k)) (set_ctx s (sset "i" it (ctx s))))
            (fun s' => (OOk, s')).
  Proof. reflexivity. Qed.

  Lemma foreach_items_stops sp k pre it post s s1 o s2 :
    foreach_items sp k pre s = (OOk, s1) ->
    cond sp (mkcnt (k_while k) (Some it) (k_retry k)) (set_ctx s1 (sset "i" it (ctx s1))) = (o, s2) ->
    o <> OOk ->
    foreach_items sp k (pre ++ it :: post) s = (o, s2).
  Proof.
    intros Hpre Hc Hne. rewrite foreach_items_app, Hpre. simpl. rewrite Hc.
    now apply andthen_not_ok.
  Qed.

  Lemma foreach_items_nil sp k s : foreach_items sp k [] s = (OOk, s).
  Proof. reflexivity. Qed.

  (** the iterable is formatted exactly once, before the first iteration *)
  Lemma foreach_loop_once sp k s fe v items :
    s_foreach sp = Some fe -> fmt s fe = Ok v -> iter_items v = Ok items ->
    foreach_loop sp k s = foreach_items sp k items s.
  Proof. intros H1 H2 H3. unfold Engine.foreach_loop. rewrite H1, H2. simpl. now rewrite H3. Qed.

  (** a literal falsy foreach is treated as "no foreach": the step runs once *)
  Lemma foreach_or_cond_falsy sp k s :
    has_foreach sp = false -> foreach_or_cond sp k s = cond sp k s.
  Proof. intros H. unfold Engine.foreach_or_cond. now rewrite H. Qed.

  (** ** while: counter injected, stop evaluated after the iteration; errors end the loop *)
  Lemma while_iter_ok w sp n s s1 :
    foreach_or_cond sp (mkcnt (Some n) None None)
                    (set_ctx s (sset "whileCounter" (VInt n) (ctx s))) = (OOk, s1) ->
    while_iter w sp n s =
    if opt_truth (w_stop w) then
      match w_stop w with
      | Some e =>
          match as_bool s1 e with
          | Ok b => (IDone b, s1)
          | Err en em => let '(o, s2) := raise_new en em s1 in (IRaise o, s2)
          | Unsup => (IRaise OUnsup, s1)
          end
      | None => (IDone false, s1)
      end
    else (IDone false, s1).
  Proof. intros H. unfold Engine.while_iter. now rewrite H. Qed.

  Lemma while_iter_not_ok w sp n s o s1 :
    foreach_or_cond sp (mkcnt (Some n) None None)
                    (set_ctx s (sset "whileCounter" (VInt n) (ctx s))) = (o, s1) ->
    o <> OOk -> while_iter w sp n s = (IRaise o, s1).
  Proof. intros H Hne. unfold Engine.while_iter. rewrite H. destruct o; congruence. Qed.

  Lemma while_loop_max_lt_1 w sp s eom sleep m :
    let s0 := set_ctx s (sset "whileCounter" (VInt 0) (ctx s)) in
    w_max w = Some m ->
    as_bool s0 (w_eom w) = Ok eom -> as_float s0 (w_sleep w) = Ok sleep ->
    forall z, as_int s0 m = Ok z -> (z < 1)%Z ->
    while_loop w sp s = (OOk, s0).
  Proof.
    intros s0 Hm He Hs z Hz Hlt. unfold Engine.while_loop. fold s0. rewrite Hm.
    destruct (w_stop w); rewrite He; simpl; rewrite Hs; simpl; rewrite Hz; simpl;
      destruct (Z.ltb_spec z 1); try lia; reflexivity.
  Qed.

  (** ** retry: one attempt per iteration; instructions and filtered errors end it *)
  Lemma retry_iter_ok rc sp k max n s s1 :
    invoke sp (mkcnt (k_while k) (k_for k) (Some n))
           (set_ctx s (sset "retryCounter" (VInt n) (ctx s))) = (OOk, s1) ->
    retry_iter rc sp k max n s = (IDone true, s1).
  Proof. intros H. unfold Engine.retry_iter. now rewrite H. Qed.

  Lemma retry_iter_signal rc sp k max n s sg s1 :
    invoke sp (mkcnt (k_while k) (k_for k) (Some n))
           (set_ctx s (sset "retryCounter" (VInt n) (ctx s))) = (ORaise (RSig sg), s1) ->
    retry_iter rc sp k max n s = (IRaise (ORaise (RSig sg)), s1).
  Proof. intros H. unfold Engine.retry_iter. now rewrite H. Qed.

  (** the error of the last permitted attempt propagates as it is *)
  Lemma retry_iter_at_max rc sp k m n s name msg eid s1 :
    invoke sp (mkcnt (k_while k) (k_for k) (Some n))
           (set_ctx s (sset "retryCounter" (VInt n) (ctx s))) = (ORaise (RExn name msg eid), s1) ->
    m <> 0%Z -> n = m ->
    retry_iter rc sp k (Some m) n s = (IRaise (ORaise (RExn name msg eid)), s1).
  Proof.
    intros H Hm ->. unfold Engine.retry_iter. rewrite H.
    destruct (Z.eqb_spec m 0); [congruence|]. simpl. now rewrite Z.eqb_refl.
  Qed.

  (** an error below max, with no stopOn/retryOn filters, is absorbed: try again *)
  Lemma retry_iter_absorbed rc sp k max n s name msg eid s1 :
    invoke sp (mkcnt (k_while k) (k_for k) (Some n))
           (set_ctx s (sset "retryCounter" (VInt n) (ctx s))) = (ORaise (RExn name msg eid), s1) ->
    (max = None \/ max = Some 0%Z \/ exists m, max = Some m /\ n <> m) ->
    opt_truth (r_stopon rc) = false -> opt_truth (r_retryon rc) = false ->
    retry_iter rc sp k max n s = (IDone false, s1).
  Proof.
    intros H Hmax Hs Hr. unfold Engine.retry_iter. rewrite H, Hs, Hr.
    destruct Hmax as [-> | [-> | (m & -> & Hne)]]; try reflexivity.
    destruct (Z.eqb_spec m 0); simpl; [reflexivity|].
    destruct (Z.eqb_spec n m); [congruence|reflexivity].
  Qed.

  (** stopOn: a listed error propagates at once *)
  Lemma retry_iter_stop_on rc sp k max n s name msg eid s1 l fl :
    invoke sp (mkcnt (k_while k) (k_for k) (Some n))
           (set_ctx s (sset "retryCounter" (VInt n) (ctx s))) = (ORaise (RExn name msg eid), s1) ->
    (max = None \/ max = Some 0%Z \/ exists m, max = Some m /\ n <> m) ->
    r_stopon rc = Some l -> py_truth l = true -> fmt s1 l = Ok (VList fl) ->
    py_in (VStr name) fl = true ->
    retry_iter rc sp k max n s = (IRaise (ORaise (RExn name msg eid)), s1).
  Proof.
    intros H Hmax Hl Ht Hf Hin. unfold Engine.retry_iter. rewrite H.
    assert (A : (match max with Some m => negb (Z.eqb m 0) && Z.eqb n m | None => false end) = false).
    { destruct Hmax as [-> | [-> | (m & -> & Hne)]]; try reflexivity.
      destruct (Z.eqb_spec n m); [congruence|]. now rewrite andb_false_r. }
    rewrite A. unfold opt_truth. rewrite Hl, Ht, Hf. simpl. rewrite Hin. reflexivity.
  Qed.

  (** retryOn: an error NOT listed in a non-empty retryOn propagates at once *)
  Lemma retry_iter_not_retry_on rc sp k max n s name msg eid s1 l fl :
    invoke sp (mkcnt (k_while k) (k_for k) (Some n))
           (set_ctx s (sset "retryCounter" (VInt n) (ctx s))) = (ORaise (RExn name msg eid), s1) ->
    (max = None \/ max = Some 0%Z \/ exists m, max = Some m /\ n <> m) ->
    opt_truth (r_stopon rc) = false ->
    r_retryon rc = Some l -> py_truth l = true -> fmt s1 l = Ok (VList fl) ->
    py_in (VStr name) fl = false ->
    retry_iter rc sp k max n s = (IRaise (ORaise (RExn name msg eid)), s1).
  Proof.
    intros H Hmax Hs Hl Ht Hf Hin. unfold Engine.retry_iter. rewrite H.
    assert (A : (match max with Some m => negb (Z.eqb m 0) && Z.eqb n m | None => false end) = false).
    { destruct Hmax as [-> | [-> | (m & -> & Hne)]]; try reflexivity.
      destruct (Z.eqb_spec n m); [congruence|]. now rewrite andb_false_r. }
    rewrite A, Hs. unfold opt_truth. rewrite Hl, Ht, Hf. simpl. rewrite Hin. reflexivity.
  Qed.

  (** an error that already passed through a called group is not recorded again, and a
      retried call step sees the original error (C07) *)
  Lemma retry_iter_handled_at_max rc sp k m n s cause s1 :
    invoke sp (mkcnt (k_while k) (k_for k) (Some n))
           (set_ctx s (sset "retryCounter" (VInt n) (ctx s))) = (OHandled cause, s1) ->
    m <> 0%Z -> n = m ->
    retry_iter rc sp k (Some m) n s = (IRaise (OHandled cause), s1).
  Proof.
    intros H Hm ->. unfold Engine.retry_iter. rewrite H.
    destruct (Z.eqb_spec m 0); [congruence|]. simpl. now rewrite Z.eqb_refl.
  Qed.

  (** ** in-arguments: visible during the step, gone after normal completion (C04) *)
  Lemma pop_all_absent (d : dict) (keys : list (val * val)) k v :
    In (k, v) keys ->
    dict_get k (fold_left (fun c (kv : val * val) => dict_pop (fst kv) c) keys d) = None.
  Proof.
    revert d. induction keys as [|[k0 v0] keys IH]; intros d Hin; [destruct Hin|].
    simpl. destruct Hin as [Heq | Hin].
    - inversion Heq; subst. clear IH Heq.
      assert (G : forall ks d', dict_get k d' = None ->
                  dict_get k (fold_left (fun c (kv : val * val) => dict_pop (fst kv) c) ks d') = None).
      { induction ks as [|[k1 v1] ks IHk]; intros d' Hd; simpl; [exact Hd|].
        apply IHk. unfold dict_pop. clear IHk. induction d' as [|[k2 v2] d' IHd]; simpl; [reflexivity|].
        simpl in Hd. destruct (val_eqb k k2) eqn:E; [discriminate|].
        destruct (val_eqb k1 k2); simpl; [now apply IHd|]. rewrite E. now apply IHd. }
      apply G. apply dict_get_pop_same.
    - now apply IH.
  Qed.

  Lemma run_step_in_removed sp s s' d k v :
    s_in sp = Some d -> In (k, v) d ->
    run_step sp s = (OOk, s') -> dict_get k (ctx s') = None.
  Proof.
    intros Hin Hk. unfold Engine.run_step.
    assert (C : forall s1, run_step_core rg rp sp s1 = (OOk, s') -> dict_get k (ctx s') = None).
    { intros s1. unfold run_step_core.
      destruct (match s_while sp with Some w => _ | None => _ end) as [[| | |] s2]; simpl;
        intros H; inversion H; subst.
      unfold unset_step_input. rewrite Hin. simpl. eapply pop_all_absent; eauto. }
    unfold describe. destruct (s_desc sp) as [ds|]; [|apply C].
    destruct (py_truth ds); [|apply C].
    destruct (fmt _ ds) as [x|n m|]; simpl; try discriminate.
    destruct (as_bool _ (s_run sp)) as [[|]|n m|]; simpl; try discriminate; [|apply C].
    destruct (as_bool _ (s_skip sp)) as [b|n m|]; simpl; try discriminate. apply C.
  Qed.

  (** the in-arguments are merged into context before anything of the step evaluates *)
  Lemma run_step_in_first sp s :
    run_step sp s =
    describe sp (set_step_input sp s) (fun s1 =>
    andthen (match s_while sp with
             | Some w => while_loop w sp s1
             | None => foreach_or_cond sp no_counters s1
             end) (fun s2 => (OOk, unset_step_input sp s2))).
  Proof. reflexivity. Qed.
End Open2.

(** in-arguments override same-named context keys and are visible from the first moment *)
Lemma val_eqb_to_VStr k0 a : val_eqb k0 (VStr a) = true -> k0 = VStr a.
Proof.
  destruct k0; unfold val_eqb; try discriminate. intros H. apply String.eqb_eq in H. now subst.
Qed.

Lemma sget_dict_set_other k0 k v d :
  val_eqb k0 (VStr k) = false -> sget k (dict_set k0 v d) = sget k d.
Proof.
  intros Hne. unfold sget. induction d as [|[k' v'] d IH]; simpl.
  - now rewrite val_eqb_str_sym, Hne.
  - destruct (val_eqb k0 k') eqn:E; simpl.
    + destruct (val_eqb (VStr k) k') eqn:E'; [|reflexivity]. exfalso.
      rewrite val_eqb_str_sym in E'. apply val_eqb_to_VStr in E'. subst k'. congruence.
    + destruct (val_eqb (VStr k) k'); auto.
Qed.

Lemma dict_update_visible c pre k v post :
  Forall (fun kv : val * val => val_eqb (fst kv) (VStr k) = false) post ->
  sget k (dict_update c (pre ++ (VStr k, v) :: post)%list) = Some v.
Proof.
  intros Hpost. unfold dict_update. rewrite fold_left_app. simpl.
  generalize (fold_left (fun acc kv => dict_set (fst kv) (snd kv) acc) pre c) as d0. intros d0.
  assert (G : forall d', sget k d' = Some v ->
              sget k (fold_left (fun acc kv => dict_set (fst kv) (snd kv) acc) post d') = Some v).
  { induction Hpost as [|[k1 v1] post Hk _ IH]; intros d' Hd; simpl; [exact Hd|].
    apply IH. simpl in Hk. now rewrite sget_dict_set_other. }
  apply G. apply sget_sset_same.
Qed.

(** * Back-off durations (C06), over exact rationals *)
From Coq Require Import Lqa.

Lemma backoff_fixed_scalar q mx jrc r base n :
  backoff "fixed" (VFloat q) mx jrc r base n = Some (qmin_opt q mx).
Proof. reflexivity. Qed.

Lemma backoff_fixed_int z mx jrc r base n :
  backoff "fixed" (VInt z) mx jrc r base n = Some (qmin_opt (inject_Z z) mx).
Proof. reflexivity. Qed.

(** a list: entry n, the last entry repeating for ever after *)
Lemma backoff_fixed_list l mx jrc r base n v q :
  nth_error l (n - 1) = Some v -> q_of v = Ok q ->
  backoff "fixed" (VList l) mx jrc r base n = Some (qmin_opt q mx).
Proof.
  intros H Hq. unfold backoff. simpl. destruct l; [destruct (n - 1)%nat; discriminate|].
  rewrite H, Hq. reflexivity.
Qed.

Lemma backoff_fixed_list_beyond l mx jrc r base n q :
  l <> [] -> nth_error l (n - 1) = None -> q_of (last l VNone) = Ok q ->
  backoff "fixed" (VList l) mx jrc r base n = Some (qmin_opt q mx).
Proof.
  intros Hl H Hq. unfold backoff. simpl. destruct l; [congruence|].
  rewrite H, Hq. reflexivity.
Qed.

Lemma backoff_linear s q mx jrc r base n :
  q_of s = Ok q ->
  backoff "linear" s mx jrc r base n = Some (qmin_opt (inject_Z (Z.of_nat n) * q) mx).
Proof. intros H. unfold backoff. simpl. now rewrite H. Qed.

Lemma backoff_exponential s q mx jrc r base n :
  q_of s = Ok q ->
  backoff "exponential" s mx jrc r base n = Some (qmin_opt (qpow base n * q) mx).
Proof. intros H. unfold backoff. simpl. now rewrite H. Qed.

(** the jittered variants apply jitter AFTER the cap *)
Lemma backoff_jitter_after_cap s mx jrc r base n :
  backoff "jitter" s mx jrc r base n = option_map (jitter_q jrc r) (backoff "fixed" s mx jrc r base n)
  /\ backoff "linearjitter" s mx jrc r base n
     = option_map (jitter_q jrc r) (backoff "linear" s mx jrc r base n)
  /\ backoff "exponentialjitter" s mx jrc r base n
     = option_map (jitter_q jrc r) (backoff "exponential" s mx jrc r base n).
Proof.
  unfold backoff. simpl. repeat split;
    match goal with |- match ?x with _ => _ end = _ => destruct x; reflexivity end.
Qed.

Lemma qmin_opt_none x : qmin_opt x None = x.
Proof. reflexivity. Qed.

(** sleepMax caps the duration (a falsy sleepMax means no cap) *)
Lemma qmin_opt_cap x m :
  ~ m == 0 -> qmin_opt x (Some m) <= m /\ qmin_opt x (Some m) <= x
              /\ (qmin_opt x (Some m) = x \/ qmin_opt x (Some m) = m).
Proof.
  intros Hm. unfold qmin_opt.
  destruct (Qeq_bool m 0) eqn:E; [apply Qeq_bool_iff in E; contradiction|].
  destruct (Qle_bool x m) eqn:L.
  - apply Qle_bool_iff in L. split; [exact L|]. split; [apply Qle_refl|now left].
  - assert (N : ~ x <= m) by (intro C; apply Qle_bool_iff in C; congruence).
    apply Qnot_le_lt in N. split; [apply Qle_refl|]. split; [now apply Qlt_le_weak|now right].
Qed.

(** jitter stays within [jrc*d, d] *)
Lemma jitter_bounds jrc r d :
  0 <= jrc -> jrc <= 1 -> 0 <= r -> r <= 1 -> 0 <= d ->
  jrc * d <= jitter_q jrc r d /\ jitter_q jrc r d <= d.
Proof.
  intros H1 H2 H3 H4 H5. unfold jitter_q.
  assert (A : 0 <= d * (1 - jrc)) by (apply Qmult_le_0_compat; lra).
  assert (B : 0 <= d * (1 - jrc) * r) by (apply Qmult_le_0_compat; lra).
  assert (C : 0 <= d * (1 - jrc) * (1 - r)) by (apply Qmult_le_0_compat; lra).
  split.
  - setoid_replace (d * jrc + (d - d * jrc) * r) with (jrc * d + d * (1 - jrc) * r) by ring. lra.
  - setoid_replace (d * jrc + (d - d * jrc) * r) with (d - d * (1 - jrc) * (1 - r)) by ring. lra.
Qed.

(** * runErrors entries (C07) *)
Definition failure_entry (sp : step) (name msg : string) (eid : Z) (custom : val) (swallowed : bool) : val :=
  let pos v := match s_pos sp with Some p => VInt (v p) | None => VNone end in
  VDict [(VStr "name", VStr name); (VStr "description", VStr msg);
         (VStr "customError", custom); (VStr "line", pos fst);
         (VStr "col", pos snd); (VStr "step", VStr (s_name sp));
         (VStr "exception", VExn name msg eid); (VStr "swallowed", VBool swallowed)].

Definition on_error_payload (sp : step) (s : st) : res val :=
  match s_onerror sp with
  | Some oe => if py_truth oe then fmt s oe else Ok (VDict [])
  | None => Ok (VDict [])
  end.

Definition run_errors (s : st) : list val :=
  match sget "runErrors" (ctx s) with Some (VList l) => l | _ => [] end.

(** exactly one entry is appended, with exactly these fields, after the existing ones *)
Lemma save_error_appends sp name msg eid sw s custom :
  on_error_payload sp s = Ok custom ->
  (sget "runErrors" (ctx s) = None \/ exists l, sget "runErrors" (ctx s) = Some (VList l)) ->
  exists s', save_error sp name msg eid sw s = (OOk, s') /\
             run_errors s' = (run_errors s ++ [failure_entry sp name msg eid custom sw])%list /\
             (forall k, k <> "runErrors" -> sget k (ctx s') = sget k (ctx s)) /\
             stack s' = stack s /\ trace s' = trace s /\ sleeps s' = sleeps s.
Proof.
  intros Hc Hr. unfold save_error. fold (on_error_payload sp s). rewrite Hc. simpl.
  unfold run_errors. destruct Hr as [Hr | (l & Hr)]; rewrite Hr.
  - eexists; split; [reflexivity|]. simpl. rewrite sget_sset_same. repeat split; auto.
    intros k Hk. now rewrite sget_sset_other by congruence.
  - eexists; split; [reflexivity|]. simpl. rewrite sget_sset_same. repeat split; auto.
    intros k Hk. now rewrite sget_sset_other by congruence.
Qed.

(** * Call stack, trace and clock only ever grow: the global invariant *)
Local Open Scope list_scope.
Definition ext (s s' : st) : Prop :=
  stack s' = stack s /\ (exists t, trace s' = trace s ++ t) /\
  (exists q, sleeps s' = sleeps s ++ q) /\ (next_eid s <= next_eid s')%Z /\ jit s' = jit s.

Lemma ext_refl s : ext s s.
Proof. repeat split; try (exists []; now rewrite app_nil_r); lia. Qed.

Lemma ext_trans a b c : ext a b -> ext b c -> ext a c.
Proof.
  intros (S1 & (t1 & T1) & (q1 & Q1) & E1 & J1) (S2 & (t2 & T2) & (q2 & Q2) & E2 & J2).
  repeat split; try congruence; try lia.
  - exists (t1 ++ t2). now rewrite T2, T1, app_assoc.
  - exists (q1 ++ q2). now rewrite Q2, Q1, app_assoc.
Qed.

Lemma ext_set_ctx s0 s c : ext s0 s -> ext s0 (set_ctx s c).
Proof. intros H. eapply ext_trans; [exact H|]. repeat split; simpl; try (exists []; now rewrite app_nil_r); lia. Qed.

Lemma ext_add_trace s0 s e : ext s0 s -> ext s0 (add_trace s e).
Proof.
  intros H. eapply ext_trans; [exact H|]. repeat split; simpl; try lia.
  - now exists [e]. - exists []; now rewrite app_nil_r.
Qed.

Lemma ext_add_sleep s0 s q : ext s0 s -> ext s0 (add_sleep s q).
Proof.
  intros H. eapply ext_trans; [exact H|]. repeat split; simpl; try lia.
  - exists []; now rewrite app_nil_r. - now exists [q].
Qed.

Lemma ext_raise_new s0 s n m : ext s0 s -> ext s0 (snd (raise_new n m s)).
Proof.
  intros H. eapply ext_trans; [exact H|]. repeat split; simpl; try (exists []; now rewrite app_nil_r); lia.
Qed.

Lemma ext_lift {A} s0 (r : res A) s k :
  ext s0 s -> (forall a, ext s0 (snd (k a))) -> ext s0 (snd (lift r s k)).
Proof. intros H Hk. destruct r; [apply Hk | now apply ext_raise_new | exact H]. Qed.

Lemma ext_andthen s0 r k :
  ext s0 (snd r) -> (forall s1, ext s0 s1 -> ext s0 (snd (k s1))) -> ext s0 (snd (andthen r k)).
Proof. intros H Hk. destruct r as [[| | |] s1]; simpl in *; auto. Qed.

Definition good (f : st -> R) : Prop := forall s0 s, ext s0 s -> ext s0 (snd (f s)).
Definition good_iter (it : Z -> st -> iter_result * st) : Prop :=
  forall n s0 s, ext s0 s -> ext s0 (snd (it n s)).

Lemma good_poll fuel it interval max :
  good_iter it -> forall i s0 s, ext s0 s -> ext s0 (snd (poll fuel it interval max i s)).
Proof.
  intros Hit. induction fuel as [|f IH]; intros i s0 s H; [exact H|].
  assert (P : poll (S f) it interval max i s =
              let i' := (i + 1)%Z in
              match it i' s with
              | (IRaise o, s1) => (IRaise o, s1)
              | (IDone true, s1) => (IDone true, s1)
              | (IDone false, s1) =>
                  match interval (Z.to_nat i') with
                  | None => (IRaise OUnsup, s1)
                  | Some d =>
                      match max with
                      | Some m =>
                          if Z.eqb m 0 then poll f it interval max i' (add_sleep s1 d)
                          else if (i' <? m)%Z then poll f it interval max i' (add_sleep s1 d)
                          else (IDone false, s1)
                      | None => poll f it interval max i' (add_sleep s1 d)
                      end
                  end
              end) by reflexivity.
  rewrite P. clear P. cbv zeta.
  pose proof (Hit (i + 1)%Z s0 s H) as H1.
  destruct (it (i + 1)%Z s) as [[[|]|o] s1]; simpl in H1 |- *; auto.
  destruct (interval _); auto.
  destruct max as [m|]; [destruct (Z.eqb m 0); [|destruct (Z.ltb _ m)]|];
    auto; apply IH; now apply ext_add_sleep.
Qed.

Section Invariant.
  Variable lib : library.
  Variable rg : list val -> option string -> option string -> st -> R.
  Variable rp : string -> option (list string) -> option (list val) -> option string -> option string -> st -> R.
  Hypothesis Hrg : forall gs su fa, good (rg gs su fa).
  Hypothesis Hrp : forall n pr gs su fa, good (rp n pr gs su fa).

  Ltac ext_step :=
    first [ assumption
          | apply ext_set_ctx | apply ext_add_trace | apply ext_add_sleep
          | apply ext_raise_new | apply ext_lift; [|intros ?] | apply ext_andthen; [|intros ? ?] ].

  Lemma good_set_items items : good (set_items items).
  Proof.
    induction items as [|[k v] items IH]; intros s0 s H; simpl; [exact H|].
    apply ext_lift; [exact H|intros k']. apply ext_lift; [exact H|intros v'].
    apply IH. now apply ext_set_ctx.
  Qed.

  Lemma good_cof_step mk key caller : good (cof_step mk key caller).
  Proof.
    intros s0 s H. unfold cof_step. repeat (apply ext_lift; [exact H|intros ?]). exact H.
  Qed.

  Lemma good_switch_step : good switch_step.
  Proof.
    intros s0 s H. unfold switch_step. apply ext_lift; [exact H|intros cfg].
    destruct cfg; try exact H. apply ext_lift; [exact H|intros sel].
    destruct sel; [|exact H]. repeat (apply ext_lift; [exact H|intros ?]). exact H.
  Qed.

  Lemma good_write_out pairs child : forall s0 parent, ext s0 parent ->
    ext s0 (snd (write_out pairs child parent)).
  Proof.
    induction pairs as [|[pk ck] pairs IH]; intros s0 parent H; simpl; [exact H|].
    destruct ck; try exact H.
    destruct (get_formatted child s); [|now apply ext_raise_new|exact H].
    apply IH. now apply ext_set_ctx.
  Qed.

  Lemma good_pype_step : good (pype_step rp).
  Proof.
    intros s0 s H. unfold pype_step. apply ext_lift; [exact H|intros pa].
    destruct (pa_use_parent pa).
    - set (s1 := match pa_args pa with Some ((_ :: _) as a) => set_ctx s (dict_update (ctx s) a) | _ => s end).
      assert (H1 : ext s0 s1).
      { unfold s1. destruct (pa_args pa) as [[|? ?]|]; auto using ext_set_ctx. }
      pose proof (Hrp (pa_name pa) (pa_parse pa) (pa_groups pa) (pa_success pa) (pa_failure pa) s0 s1 H1) as G.
      destruct (rp _ _ _ _ _ s1) as [[|[n m e|sg]|c|] s2]; simpl in G |- *; auto;
        destruct (pa_raise pa); auto.
    - set (child0 := mkst _ [] (trace s) (sleeps s) (next_eid s) (jit s)).
      assert (Hc : ext child0 child0) by apply ext_refl.
      pose proof (Hrp (pa_name pa) (pa_parse pa) (pa_groups pa) (pa_success pa) (pa_failure pa) child0 child0 Hc) as G.
      destruct (rp _ _ _ _ _ child0) as [o child]. simpl in G.
      set (parent := mkst (ctx s) (stack s) (trace child) (sleeps child) (next_eid child) (jit s)).
      assert (Hp : ext s0 parent).
      { eapply ext_trans; [exact H|]. destruct G as (_ & (t & T) & (q & Q) & E & _).
        unfold parent. repeat split; simpl in *; try lia; eauto. }
      assert (W : forall r : R, ext s0 (snd r) ->
                ext s0 (snd (match r with
                             | (ORaise (RExn _ _ _), s') | (OHandled _, s') =>
                                 if pa_raise pa then r else (OOk, s')
                             | _ => r end))).
      { intros [[|[? ? ?|?]|?|] s'] Hr; simpl in *; auto; destruct (pa_raise pa); auto. }
      apply W. destruct o; auto.
      destruct (pa_out pa) as [out|]; auto. destruct (py_truth out); auto.
      destruct (out_pairs out); auto. now apply good_write_out.
  Qed.

  Lemma good_run_body sp : good (run_body rp sp).
  Proof.
    intros s0 s H. unfold run_body. destruct (s_body sp).
    - (* probe *) unfold probe_step. simpl. now apply ext_add_trace.
    - (* fail *) unfold fail_step. destruct (sget "vfail" (ctx s)) as [[]|]; auto.
      apply ext_lift; [exact H|intros b]. destruct b; auto.
      destruct (sget "err" l) as [[]|]; auto. destruct (sget "msg" l) as [m|]; auto.
      destruct (sget "cached" l) as [[]|]; auto; [destruct m; auto|].
      apply ext_lift; [exact H|intros m']. destruct m'; auto. now apply ext_raise_new.
    - (* incr *) unfold incr_step. destruct (sget "vincr" (ctx s)) as [[]|]; auto.
      destruct (sget s1 (ctx s)) as [[]|]; simpl; auto using ext_set_ctx.
    - exact H.
    - exact H.
    - exact H.
    - now apply good_cof_step.
    - now apply good_cof_step.
    - now apply good_switch_step.
    - (* set *) unfold set_step. apply ext_lift; [exact H|intros cfg]. destruct cfg; auto.
      apply good_set_items. now apply ext_set_ctx.
    - (* clear *) unfold clear_step. apply ext_lift; [exact H|intros cfg].
      destruct cfg; simpl; auto using ext_set_ctx.
    - simpl. now apply ext_set_ctx.
    - unfold merge_step. apply ext_lift; [exact H|intros _].
      destruct (Merge.step_run true FUEL FUEL (ctx s)) as [[|n e|] m]; auto using ext_set_ctx.
      apply ext_raise_new. now apply ext_set_ctx.
    - unfold merge_step. apply ext_lift; [exact H|intros _].
      destruct (Merge.step_run false FUEL FUEL (ctx s)) as [[|n e|] m]; auto using ext_set_ctx.
      apply ext_raise_new. now apply ext_set_ctx.
    - now apply good_pype_step.
  Qed.

  Lemma ext_reset_counters s0 sp k c s : ext s0 s -> ext s0 (reset_counters sp k c s).
  Proof. intros H. unfold reset_counters. now apply ext_set_ctx. Qed.

  Lemma good_invoke sp k : good (invoke rg rp sp k).
  Proof.
    intros s0 s H. unfold invoke.
    pose proof (good_run_body sp s0 s H) as G.
    destruct (run_body rp sp s) as [[|[n m e|[| | |c|c]]|c|] s1]; simpl in G |- *; auto.
    pose proof (Hrg (c_groups c) (c_success c) (c_failure c) s0 s1 G) as G2.
    destruct (rg _ _ _ s1) as [o s2]. simpl in G2.
    pose proof (ext_reset_counters s0 sp k c s2 G2) as G3.
    destruct o as [|[? ? ?|?]|?|]; exact G3.
  Qed.

  Lemma good_save_error sp n m e sw : good (save_error sp n m e sw).
  Proof.
    intros s0 s H. unfold save_error. apply ext_lift; [exact H|intros custom].
    destruct (sget "runErrors" (ctx s)) as [[]|]; auto; now apply ext_set_ctx.
  Qed.

  Ltac crunch G :=
    repeat match goal with
           | |- ext _ (snd (match ?x with _ => _ end)) => destruct x
           | |- ext _ (snd (if ?x then _ else _)) => destruct x
           | |- ext _ (snd (let '(_, _) := ?x in _)) => destruct x eqn:?
           end; simpl; auto.

  Lemma good_retry_iter rc sp k max : good_iter (retry_iter rg rp rc sp k max).
  Proof.
    intros n s0 s H. unfold retry_iter.
    set (s1 := set_ctx s _). assert (H1 : ext s0 s1) by now apply ext_set_ctx.
    pose proof (good_invoke sp (mkcnt (k_while k) (k_for k) (Some n)) s0 s1 H1) as G.
    destruct (invoke rg rp sp _ s1) as [o s2]. simpl in G.
    unfold raise_new.
    destruct o as [|[nm ms ei|sg]|c|]; simpl; auto; crunch G;
      try (exact (ext_raise_new s0 s2 "" "" G)).
  Qed.
  Lemma good_retry_loop rc sp k : good (retry_loop rg rp rc sp k).
  Proof.
    intros s0 s H. unfold retry_loop.
    set (s1 := set_ctx s _). assert (H1 : ext s0 s1) by now apply ext_set_ctx.
    repeat (apply ext_lift; [exact H1|intros ?]).
    match goal with
    | |- ext _ (snd (match ?x with _ => _ end)) => destruct x as [interval|]; [|exact H1]
    end.
    apply ext_lift; [exact H1|intros mx].
    match goal with
    | |- context [poll ?f ?it ?iv ?mx ?i s1] =>
        pose proof (good_poll f it iv mx (good_retry_iter rc sp k mx) i s0 s1 H1) as G;
          destruct (poll f it iv mx i s1) as [[[|]|o] s3]; simpl in G |- *; auto
    end.
    exact (ext_raise_new s0 s3 "" "" G).
  Qed.

  Lemma good_cond sp k : good (cond rg rp sp k).
  Proof.
    intros s0 s H. unfold cond. apply ext_lift; [exact H|intros run_me].
    destruct run_me; simpl; auto. apply ext_lift; [exact H|intros skip_me].
    destruct skip_me; simpl; auto.
    assert (G : ext s0 (snd (match s_retry sp with
                             | Some rc => retry_loop rg rp rc sp k s
                             | None => invoke rg rp sp k s end))).
    { destruct (s_retry sp); [now apply good_retry_loop|now apply good_invoke]. }
    destruct (match s_retry sp with Some rc => _ | None => _ end) as [[|[n m e|sg]|c|] s1];
      simpl in G |- *; auto.
    - apply ext_lift; [exact G|intros sw]. apply ext_andthen.
      + now apply good_save_error.
      + intros s2 H2. destruct sw; exact H2.
    - apply ext_lift; [exact G|intros sw]. destruct sw; exact G.
  Qed.

  Lemma good_foreach_items sp k items : good (foreach_items rg rp sp k items).
  Proof.
    induction items as [|it items IH]; intros s0 s H; simpl; [exact H|].
    apply ext_andthen.
    - apply good_cond. now apply ext_set_ctx.
    - intros s1 H1. now apply IH.
  Qed.

  Lemma good_foreach_or_cond sp k : good (foreach_or_cond rg rp sp k).
  Proof.
    intros s0 s H. unfold foreach_or_cond. destruct (has_foreach sp); [|now apply good_cond].
    unfold foreach_loop. cbv zeta.
    apply ext_lift; [exact H|intros fv]. apply ext_lift; [exact H|intros items].
    now apply good_foreach_items.
  Qed.

  Lemma good_while_iter w sp : good_iter (while_iter rg rp w sp).
  Proof.
    intros n s0 s H. unfold while_iter.
    set (s1 := set_ctx s _). assert (H1 : ext s0 s1) by now apply ext_set_ctx.
    pose proof (good_foreach_or_cond sp (mkcnt (Some n) None None) s0 s1 H1) as G.
    destruct (foreach_or_cond rg rp sp _ s1) as [o s2]. simpl in G. unfold raise_new.
    destruct o; simpl; auto; crunch G; try (exact (ext_raise_new s0 s2 "" "" G)).
  Qed.

  Lemma good_while_loop w sp : good (while_loop rg rp w sp).
  Proof.
    intros s0 s H. unfold while_loop.
    set (s1 := set_ctx s _). assert (H1 : ext s0 s1) by now apply ext_set_ctx.
    assert (K : forall (r : R) nm ms, ext s0 (snd r) ->
      ext s0 (snd (match w_stop w, w_max w with None, None => raise_new nm ms s1 | _, _ => r end))).
    { intros r nm ms Hr. destruct (w_stop w), (w_max w); auto. now apply ext_raise_new. }
    apply K. clear K.
    repeat (apply ext_lift; [exact H1|intros ?]).
    match goal with |- ext _ (snd (if ?x then _ else _)) => destruct x; auto end.
    match goal with
    | |- context [poll ?f ?it ?iv ?mx ?i s1] =>
        pose proof (good_poll f it iv mx (good_while_iter w sp) i s0 s1 H1) as G;
          destruct (poll f it iv mx i s1) as [[[|]|o] s3]; simpl in G |- *; auto
    end.
    repeat match goal with
           | |- ext _ (snd (match ?x with _ => _ end)) => destruct x; auto
           | |- ext _ (snd (if ?x then _ else _)) => destruct x; auto
           end; try exact (ext_raise_new s0 s3 "" "" G).
  Qed.

  Lemma good_run_step sp : good (run_step rg rp sp).
  Proof.
    intros s0 s H. unfold run_step.
    assert (H1 : ext s0 (set_step_input sp s)).
    { unfold set_step_input. destruct (s_in sp) as [[|? ?]|]; auto using ext_set_ctx. }
    assert (C : forall s1, ext s0 s1 -> ext s0 (snd (run_step_core rg rp sp s1))).
    { intros s1 E1. unfold run_step_core. apply ext_andthen.
      - destruct (s_while sp); [now apply good_while_loop|now apply good_foreach_or_cond].
      - intros s2 H2. simpl. unfold unset_step_input. destruct (s_in sp); auto using ext_set_ctx. }
    unfold describe. destruct (s_desc sp) as [d|]; [|now apply C].
    destruct (py_truth d); [|now apply C].
    apply ext_lift; [exact H1|intros _]. apply ext_lift; [exact H1|intros run_me].
    destruct run_me; [|now apply C]. apply ext_lift; [exact H1|intros _]. now apply C.
  Qed.

  Lemma good_run_steps steps : good (run_steps rg rp steps).
  Proof.
    induction steps as [|sp steps IH]; intros s0 s H; simpl; [exact H|].
    apply ext_andthen; [now apply good_run_step|intros s1 H1; now apply IH].
  Qed.

  Lemma good_run_group g b : good (run_group lib rg rp g b).
  Proof.
    intros s0 s H. unfold run_group.
    pose proof (good_run_steps (get_steps lib g s) s0 s H) as G.
    destruct (run_steps rg rp _ s) as [[|[n m e|[| | |c|c]]|c|] s1]; simpl in G |- *; auto.
    - destruct b; exact G.
    - now apply Hrg.
  Qed.

  Lemma good_run_group_seq gs : good (run_group_seq lib rg rp gs).
  Proof.
    induction gs as [|g gs IH]; intros s0 s H; simpl; [exact H|].
    apply ext_andthen; [now apply good_run_group|intros s1 H1; now apply IH].
  Qed.

  Lemma good_run_failure g : good (run_failure lib rg rp g).
  Proof.
    intros s0 s H. unfold run_failure.
    pose proof (good_run_group g true s0 s H) as G.
    destruct (run_group lib rg rp g true s) as [[|[n m e|[| | |c|c]]|c|] s1]; exact G.
  Qed.

  Lemma good_groups_body gs su fa : good (groups_body lib rg rp gs su fa).
  Proof.
    intros s0 s H. unfold groups_body. destruct gs as [|g gs]; [now apply ext_raise_new|].
    destruct (names_of (g :: gs)) as [names|]; auto.
    assert (G : ext s0 (snd (andthen (run_group_seq lib rg rp names s)
                 (fun s1 => match su with
                            | Some sg => match sg with "" => (OOk, s1) | _ => run_group lib rg rp sg false s1 end
                            | None => (OOk, s1) end)))).
    { apply ext_andthen; [now apply good_run_group_seq|intros s1 H1].
      destruct su as [[|]|]; auto. now apply good_run_group. }
    destruct (andthen _ _) as [o s1]; simpl in G |- *.
    destruct (is_error o); auto.
    destruct fa as [[|a fg]|]; auto.
    pose proof (good_run_failure (String a fg) s0 s1 G) as G2.
    destruct (run_failure lib rg rp (String a fg) s1) as [[|[n' m' e'|[| | |c|c]]|c|] s2]; exact G2.
  Qed.

End Invariant.

Lemma good_prepare_context parser parse : good (prepare_context parser parse).
Proof.
  intros s0 s H. unfold prepare_context. destruct parse as [args|]; [|exact H].
  destruct parser; [|exact H]. apply ext_lift; [exact H|intros parsed].
  destruct parsed as [[|kv d]|]; simpl; auto using ext_set_ctx.
Qed.

Lemma good_run_pipeline_inner rg rfail parser parse gs su fa :
  (forall gs su fa, good (rg gs su fa)) -> (forall g, good (rfail g)) ->
  good (run_pipeline_inner rg rfail parser parse gs su fa).
Proof.
  intros Hrg Hrf s0 s H. unfold run_pipeline_inner. cbv zeta.
  match goal with |- context [if ?c then Some "on_failure" else fa] =>
    set (fa' := if c then Some "on_failure" else fa) end.
  pose proof (good_prepare_context parser parse s0 s H) as P.
  destruct (prepare_context parser parse s) as [[|[n m e|sg]|c|] s1]; simpl in P |- *; auto.
  - match goal with |- ext _ (snd (match rg ?a ?b ?c s1 with _ => _ end)) =>
      pose proof (Hrg a b c s0 s1 P) as G; destruct (rg a b c s1) as [[|[n m e|[| | |c'|c']]|c'|] s2] end;
      exact G.
  - destruct fa' as [[|ch fg]|]; auto.
    pose proof (Hrf (String ch fg) s0 s1 P) as G.
    destruct (rfail (String ch fg) s1) as [[|[n' m' e'|[| | |c'|c']]|c'|] s2]; exact G.
Qed.

(** push / run / pop-in-finally: whatever happens the call stack is restored *)
Lemma good_load_and_run lib rg rfail name parse gs su fa :
  (forall gs su fa, good (rg gs su fa)) -> (forall g, good (rfail g)) ->
  good (load_and_run lib rg rfail name parse gs su fa).
Proof.
  intros Hrg Hrf s0 s H. unfold load_and_run. destruct (find _ lib) as [[nm pl]|]; [|exact H].
  set (s' := set_stack s (name :: stack s)).
  pose proof (good_run_pipeline_inner rg rfail (has_parser pl) parse gs su fa Hrg Hrf s' s' (ext_refl s')) as G.
  destruct (run_pipeline_inner rg rfail (has_parser pl) parse gs su fa s') as [o s1]. simpl in G |- *.
  destruct G as (S1 & (t & T) & (q & Q) & E & J).
  eapply ext_trans; [exact H|]. unfold s' in *. simpl in *.
  repeat split; simpl; try lia; eauto. now rewrite S1.
Qed.

Theorem good_run_groups_pipe fuel lib :
  (forall gs su fa, good (run_groups fuel lib gs su fa)) /\
  (forall name parse gs su fa, good (run_pipe fuel lib name parse gs su fa)).
Proof.
  induction fuel as [|f [IHg IHp]].
  - split; intros; intros s0 s H; exact H.
  - split.
    + intros gs su fa. simpl. apply good_groups_body; assumption.
    + intros name parse gs su fa. simpl. apply good_load_and_run; [exact IHg|].
      intros g. apply good_run_failure; assumption.
Qed.

Theorem good_run_groups fuel lib : forall gs su fa, good (run_groups fuel lib gs su fa).
Proof. apply good_run_groups_pipe. Qed.

Theorem good_run_pipeline fuel lib name parse gs su fa :
  good (run_pipeline fuel lib name parse gs su fa).
Proof. unfold run_pipeline. apply good_run_groups_pipe. Qed.

(** * The truth rule (C04) *)
Lemma cast_str_to_bool_spec x :
  cast_str_to_bool x = true <-> lower x = "true" \/ lower x = "1" \/ lower x = "1.0".
Proof.
  unfold cast_str_to_bool. cbn [str_in]. rewrite !orb_true_iff.
  rewrite !String.eqb_eq. intuition discriminate.
Qed.

Lemma as_bool_plain s v :
  (forall x, v <> VStr x) -> (forall x e, v <> VPy x e) -> (forall x, v <> VSic x) ->
  (forall x, v <> VJsonify x) -> as_bool s v = Ok (py_truth v).
Proof.
  intros H1 H2 H3 H4. destruct v; try reflexivity; exfalso;
    solve [eapply H1; reflexivity | eapply H2; reflexivity | eapply H3; reflexivity
          | eapply H4; reflexivity].
Qed.

Lemma as_bool_str s x r :
  fmt s (VStr x) = Ok r ->
  as_bool s (VStr x) = Ok (match r with
                           | VBool b => b
                           | VStr y => cast_str_to_bool y
                           | _ => py_truth r
                           end).
Proof. intros H. unfold as_bool. rewrite H. destruct r; reflexivity. Qed.

Lemma as_bool_py s src e r :
  fmt s (VPy src e) = Ok r -> as_bool s (VPy src e) = Ok (py_truth r).
Proof. intros H. unfold as_bool. now rewrite H. Qed.

(** * Pipelines and pype (C02, C11) *)
Section Pipes.
  Variable lib : library.
  Variable rg : list val -> option string -> option string -> st -> R.
  Variable rp : string -> option (list string) -> option (list val) -> option string -> option string -> st -> R.

  Definition effective_groups (groups : option (list val)) : list val :=
    match groups with None | Some [] => [VStr "steps"] | Some g => g end.

  Definition none_or_empty (o : option string) : bool :=
    match o with None | Some "" => true | _ => false end.

  Definition defaulted (groups : option (list val)) (su fa : option string) : bool :=
    (match groups with None | Some [] => true | _ => false end) && none_or_empty su && none_or_empty fa.

  Variable rfail : string -> st -> R.

  Lemma run_pipeline_inner_unfold parser parse groups su fa s :
    run_pipeline_inner rg rfail parser parse groups su fa s =
    match prepare_context parser parse s with
    | (OOk, s0) =>
        match rg (effective_groups groups)
                 (if defaulted groups su fa then Some "on_success" else su)
                 (if defaulted groups su fa then Some "on_failure" else fa) s0 with
        | (ORaise (RSig SStopPipeline), s1) => (OOk, s1)
        | r => r
        end
    | (ORaise (RExn n m e), s0) =>
        match (if defaulted groups su fa then Some "on_failure" else fa) with
        | Some (String _ _ as fg) =>
            match rfail fg s0 with
            | (ORaise (RSig SStopStepGroup), s1) | (OOk, s1) => (ORaise (RExn n m e), s1)
            | (ORaise (RSig SStopPipeline), s1) => (OOk, s1)
            | r => r
            end
        | _ => (ORaise (RExn n m e), s0)
        end
    | r => r
    end.
  Proof.
    unfold run_pipeline_inner, effective_groups, defaulted, none_or_empty.
    destruct groups as [[|g gs]|]; reflexivity.
  Qed.

  (** the context parser runs only when asked to, and only if the pipeline has one *)
  Lemma prepare_context_skipped parser s : prepare_context parser None s = (OOk, s).
  Proof. reflexivity. Qed.

  Lemma prepare_context_no_parser parse s : prepare_context false parse s = (OOk, s).
  Proof. destruct parse; reflexivity. Qed.

  (** a failing context parser: the failure group runs once, on the untouched context, and
      the parser's own error is what the caller receives *)
  Lemma run_pipeline_inner_parser_fails parser parse groups su fa s n m e s0 fg :
    prepare_context parser parse s = (ORaise (RExn n m e), s0) ->
    (if defaulted groups su fa then Some "on_failure" else fa) = Some fg -> fg <> "" ->
    run_pipeline_inner rg rfail parser parse groups su fa s =
    match rfail fg s0 with
    | (ORaise (RSig SStopStepGroup), s1) | (OOk, s1) => (ORaise (RExn n m e), s1)
    | (ORaise (RSig SStopPipeline), s1) => (OOk, s1)
    | r => r
    end.
  Proof.
    intros Hp Hf Hne. rewrite run_pipeline_inner_unfold, Hp, Hf. destruct fg; [congruence|reflexivity].
  Qed.

  (** StopPipeline ends only the current pipeline; Stop passes through *)
  Lemma load_and_run_stoppipeline name pl groups su fa s s1 :
    find (fun p => String.eqb (fst p) name) lib = Some pl ->
    rg (effective_groups groups)
       (if defaulted groups su fa then Some "on_success" else su)
       (if defaulted groups su fa then Some "on_failure" else fa)
       (set_stack s (name :: stack s)) = (ORaise (RSig SStopPipeline), s1) ->
    load_and_run lib rg rfail name None groups su fa s = (OOk, set_stack s1 (tl (stack s1))).
  Proof.
    intros Hf Hr. unfold load_and_run. rewrite Hf. destruct pl as [nm pl'].
    rewrite run_pipeline_inner_unfold, prepare_context_skipped, Hr. reflexivity.
  Qed.

  Lemma load_and_run_stop name pl groups su fa s s1 :
    find (fun p => String.eqb (fst p) name) lib = Some pl ->
    rg (effective_groups groups)
       (if defaulted groups su fa then Some "on_success" else su)
       (if defaulted groups su fa then Some "on_failure" else fa)
       (set_stack s (name :: stack s)) = (ORaise (RSig SStop), s1) ->
    load_and_run lib rg rfail name None groups su fa s = (ORaise (RSig SStop), set_stack s1 (tl (stack s1))).
  Proof.
    intros Hf Hr. unfold load_and_run. rewrite Hf. destruct pl as [nm pl'].
    rewrite run_pipeline_inner_unfold, prepare_context_skipped, Hr. reflexivity.
  Qed.

  (** ** pype *)
  Definition pype_guard (pa : pype_args) (r : R) : R :=
    match r with
    | (ORaise (RExn _ _ _), s') | (OHandled _, s') => if pa_raise pa then r else (OOk, s')
    | _ => r
    end.

  Definition child_start (pa : pype_args) (s : st) : st :=
    mkst (match pa_args pa with Some a => a | None => [] end) []
         (trace s) (sleeps s) (next_eid s) (jit s).

  Definition back_in_parent (s child : st) : st :=
    mkst (ctx s) (stack s) (trace child) (sleeps child) (next_eid child) (jit s).

  Lemma pype_step_own_context s pa :
    get_arguments s = Ok pa -> pa_use_parent pa = false ->
    pype_step rp s =
    (let '(o, child) := rp (pa_name pa) (pa_parse pa) (pa_groups pa) (pa_success pa) (pa_failure pa)
                           (child_start pa s) in
     let parent := back_in_parent s child in
     pype_guard pa
       (match o with
        | OOk =>
            match pa_out pa with
            | Some out =>
                if py_truth out then
                  match out_pairs out with
                  | Some pairs => write_out pairs child parent
                  | None => (OUnsup, parent)
                  end
                else (OOk, parent)
            | None => (OOk, parent)
            end
        | _ => (o, parent)
        end)).
  Proof.
    intros Ha Hu. unfold pype_step. rewrite Ha. simpl. rewrite Hu. reflexivity.
  Qed.

  Lemma pype_step_shared_context s pa :
    get_arguments s = Ok pa -> pa_use_parent pa = true ->
    pype_step rp s =
    pype_guard pa (rp (pa_name pa) (pa_parse pa) (pa_groups pa) (pa_success pa) (pa_failure pa)
                      (match pa_args pa with
                       | Some ((_ :: _) as a) => set_ctx s (dict_update (ctx s) a)
                       | _ => s
                       end)).
  Proof.
    intros Ha Hu. unfold pype_step. rewrite Ha. simpl. rewrite Hu. reflexivity.
  Qed.

  (** the parent context is untouched by anything the child does, except for [out] *)
  Lemma write_out_frame pairs child : forall parent o p' key,
    write_out pairs child parent = (o, p') ->
    Forall (fun kv : val * val => val_eqb (fst kv) (VStr key) = false) pairs ->
    sget key (ctx p') = sget key (ctx parent).
  Proof.
    induction pairs as [|[pk ck] pairs IH]; intros parent o p' key H Hall; simpl in H.
    - now inversion H.
    - inversion Hall as [|? ? Hk Hrest]; subst. simpl in Hk.
      destruct ck; try (inversion H; subst; reflexivity).
      destruct (get_formatted child s).
      + rewrite (IH _ _ _ key H Hrest). simpl. now apply sget_dict_set_other.
      + unfold raise_new in H. inversion H; subst. reflexivity.
      + inversion H; subst. reflexivity.
  Qed.

  Lemma pype_guard_ctx pa r : ctx (snd (pype_guard pa r)) = ctx (snd r).
  Proof.
    destruct r as [[|[? ? ?|?]|?|] s']; simpl; try reflexivity; destruct (pa_raise pa); reflexivity.
  Qed.

  Lemma pype_isolation s pa key :
    get_arguments s = Ok pa -> pa_use_parent pa = false ->
    (forall out pairs, pa_out pa = Some out -> out_pairs out = Some pairs ->
       Forall (fun kv : val * val => val_eqb (fst kv) (VStr key) = false) pairs) ->
    sget key (ctx (snd (pype_step rp s))) = sget key (ctx s).
  Proof.
    intros Ha Hu Hout. rewrite (pype_step_own_context s pa Ha Hu).
    destruct (rp _ _ _ _ _ (child_start pa s)) as [o child]. cbv zeta.
    rewrite pype_guard_ctx.
    destruct o; try reflexivity.
    destruct (pa_out pa) as [out|] eqn:Eo; try reflexivity.
    destruct (py_truth out); try reflexivity.
    destruct (out_pairs out) as [pairs|] eqn:Ep; try reflexivity.
    destruct (write_out pairs child (back_in_parent s child)) as [o' p'] eqn:W. simpl.
    rewrite (write_out_frame pairs child _ _ _ key W (Hout out pairs eq_refl Ep)). reflexivity.
  Qed.

  (** the call stack of the parent context is what it was, however the child ended *)
  Lemma write_out_stack pairs child : forall parent,
    stack (snd (write_out pairs child parent)) = stack parent.
  Proof.
    induction pairs as [|[pk ck] pairs IH]; intros parent; simpl; [reflexivity|].
    destruct ck; try reflexivity.
    destruct (get_formatted child s); try reflexivity. now rewrite IH.
  Qed.

  Lemma pype_guard_stack pa r : stack (snd (pype_guard pa r)) = stack (snd r).
  Proof.
    destruct r as [[|[? ? ?|?]|?|] s']; simpl; try reflexivity; destruct (pa_raise pa); reflexivity.
  Qed.

  Lemma pype_own_context_stack s pa :
    get_arguments s = Ok pa -> pa_use_parent pa = false ->
    stack (snd (pype_step rp s)) = stack s.
  Proof.
    intros Ha Hu. rewrite (pype_step_own_context s pa Ha Hu).
    destruct (rp _ _ _ _ _ (child_start pa s)) as [o child]. cbv zeta.
    rewrite pype_guard_stack.
    destruct o; try reflexivity.
    destruct (pa_out pa) as [out|]; try reflexivity.
    destruct (py_truth out); try reflexivity.
    destruct (out_pairs out) as [pairs|]; try reflexivity.
    now rewrite write_out_stack.
  Qed.

  (** error / instruction table of the pype step *)
  Lemma pype_guard_error pa n m e s' :
    pype_guard pa (ORaise (RExn n m e), s') =
    if pa_raise pa then (ORaise (RExn n m e), s') else (OOk, s').
  Proof. reflexivity. Qed.

  Lemma pype_guard_signal pa sg s' : pype_guard pa (ORaise (RSig sg), s') = (ORaise (RSig sg), s').
  Proof. reflexivity. Qed.

  Lemma pype_guard_ok pa s' : pype_guard pa (OOk, s') = (OOk, s').
  Proof. reflexivity. Qed.
End Pipes.

(** Stop of any kind is caught at the root and the API reports success *)
Lemma api_run_stop fuel lib name d gs su fa j s1 sg :
  run_pipeline fuel lib name None gs su fa (mkst d [] [] [] 0 j) = (ORaise (RSig sg), s1) ->
  (sg = SStop \/ sg = SStopPipeline \/ sg = SStopStepGroup) ->
  api_run fuel lib name d gs su fa j = (OOk, s1).
Proof. intros H [-> | [-> | ->]]; unfold api_run, api_run_args, api_parse; simpl; now rewrite H. Qed.

Lemma api_run_ok fuel lib name d gs su fa j s1 :
  run_pipeline fuel lib name None gs su fa (mkst d [] [] [] 0 j) = (OOk, s1) ->
  api_run fuel lib name d gs su fa j = (OOk, s1).
Proof. intros H. unfold api_run, api_run_args, api_parse; simpl. now rewrite H. Qed.

Lemma api_run_error fuel lib name d gs su fa j s1 n m e :
  run_pipeline fuel lib name None gs su fa (mkst d [] [] [] 0 j) = (ORaise (RExn n m e), s1) ->
  api_run fuel lib name d gs su fa j = (ORaise (RExn n m e), s1).
Proof. intros H. unfold api_run, api_run_args, api_parse; simpl. now rewrite H. Qed.

(** the API runs the pipeline's parser unless a dict was supplied without arguments *)
Lemma api_parse_table args dict_none :
  api_parse args dict_none =
  match args, dict_none with
  | Some ((_ :: _) as a), _ => Some a
  | _, true => Some []
  | _, false => None
  end.
Proof. destruct args as [[|x a]|], dict_none; reflexivity. Qed.

(** * A whole-program instance: straight-line probe steps run in order and leave no residue *)
Definition plain_probe (tag : string) : step :=
  mkstep "vprobe" BProbe (Some [(VStr "ptag", VStr tag)]) None None None
         (VBool true) (VBool false) (VBool false) None None None.

Definition probe_event (s : st) (tag : string) : val :=
  VList [VStr tag; getm "i" s; getm "whileCounter" s; getm "retryCounter" s;
         VInt (Z.of_nat (List.length (stack s))); VStr (current_pipe s); VList []].

Lemma dict_pop_set_absent k v d :
  dict_get (VStr k) d = None -> dict_pop (VStr k) (dict_set (VStr k) v d) = d.
Proof.
  unfold dict_pop. induction d as [|[k' v'] d IH]; simpl; intros H.
  - now rewrite val_eqb_VStr, String.eqb_refl.
  - destruct (val_eqb (VStr k) k') eqn:E; [discriminate|]. simpl. rewrite E. simpl.
    now rewrite IH.
Qed.

Lemma dget_set_same k v d : dict_get (VStr k) (dict_set (VStr k) v d) = Some v.
Proof. exact (sget_sset_same k v d). Qed.

Lemma dget_set_other k k' v d : k <> k' -> dict_get (VStr k') (dict_set (VStr k) v d) = dict_get (VStr k') d.
Proof. exact (sget_sset_other k k' v d). Qed.

Section Straight.
  Variable rg : list val -> option string -> option string -> st -> R.
  Variable rp : string -> option (list string) -> option (list val) -> option string -> option string -> st -> R.

  Lemma run_step_plain_probe tag s :
    sget "ptag" (ctx s) = None -> sget "pwatch" (ctx s) = None ->
    run_step rg rp (plain_probe tag) s =
    (OOk, mkst (ctx s) (stack s) (trace s ++ [probe_event s tag]) (sleeps s) (next_eid s) (jit s)).
  Proof.
    destruct s as [c k tr sl ne j]. unfold sget. cbn [ctx]. intros Hp Hw.
    unfold run_step, describe, run_step_core, plain_probe, foreach_or_cond, has_foreach, cond, invoke,
      run_body, probe_step,
      set_step_input, unset_step_input, probe_event, getm, sget, current_pipe, add_trace, set_ctx,
      dict_update, andthen.
    cbn [s_in s_while s_foreach s_run s_skip s_retry s_body s_desc opt_truth as_bool py_truth lift negb
         ctx stack trace sleeps next_eid jit fold_left fst snd].
    rewrite dget_set_same.
    rewrite !dget_set_other by discriminate.
    rewrite Hw.
    rewrite dict_pop_set_absent by exact Hp.
    reflexivity.
  Qed.

  Theorem run_steps_plain_probes tags : forall s,
    sget "ptag" (ctx s) = None -> sget "pwatch" (ctx s) = None ->
    run_steps rg rp (map plain_probe tags) s =
    (OOk, mkst (ctx s) (stack s) (trace s ++ map (probe_event s) tags) (sleeps s) (next_eid s) (jit s)).
  Proof.
    induction tags as [|t tags IH]; intros s Hp Hw.
    - simpl. rewrite app_nil_r. destruct s; reflexivity.
    - cbn [map run_steps]. rewrite (run_step_plain_probe t s Hp Hw). cbn [andthen].
      rewrite IH by (cbn [ctx]; assumption). cbn [ctx stack trace sleeps next_eid jit].
      rewrite <- app_assoc. reflexivity.
  Qed.
End Straight.
