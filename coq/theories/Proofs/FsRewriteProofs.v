(** Proofs/FsRewriteProofs.v — lemmas about Model/FsRewrite.v (C15). *)
From PV Require Import FsRewrite.
From Coq Require Import Lia.
Open Scope string_scope.

(** * Directories *)
Lemma lookup_dset_same n b d : lookup n (dset n b d) = Some b.
Proof.
  induction d as [|[m c] r IH]; simpl.
  - now rewrite String.eqb_refl.
  - destruct (String.eqb n m) eqn:E; simpl; rewrite E; auto.
Qed.

Lemma lookup_dset_other n m b d : n <> m -> lookup m (dset n b d) = lookup m d.
Proof.
  intros H. induction d as [|[x c] r IH]; simpl.
  - destruct (String.eqb m n) eqn:E; [apply String.eqb_eq in E; congruence | reflexivity].
  - destruct (String.eqb n x) eqn:E; simpl.
    + apply String.eqb_eq in E; subst x.
      destruct (String.eqb m n) eqn:E2; [apply String.eqb_eq in E2; congruence | reflexivity].
    + now rewrite IH.
Qed.

Lemma lookup_dset n m b d :
  lookup m (dset n b d) = if String.eqb m n then Some b else lookup m d.
Proof.
  destruct (String.eqb m n) eqn:E.
  - apply String.eqb_eq in E; subst. apply lookup_dset_same.
  - apply lookup_dset_other. intros ->. now rewrite String.eqb_refl in E.
Qed.

Lemma lookup_dremove_same n d : lookup n (dremove n d) = None.
Proof.
  induction d as [|[m c] r IH]; simpl; auto.
  destruct (String.eqb n m) eqn:E; simpl; auto. now rewrite E.
Qed.

Lemma lookup_dremove_other n m d : n <> m -> lookup m (dremove n d) = lookup m d.
Proof.
  intros H. induction d as [|[x c] r IH]; simpl; auto.
  destruct (String.eqb n x) eqn:E; simpl.
  - apply String.eqb_eq in E; subst x.
    destruct (String.eqb m n) eqn:E2; [apply String.eqb_eq in E2; congruence | exact IH].
  - now rewrite IH.
Qed.

Lemma lookup_dremove n m d :
  lookup m (dremove n d) = if String.eqb m n then None else lookup m d.
Proof.
  destruct (String.eqb m n) eqn:E.
  - apply String.eqb_eq in E; subst. apply lookup_dremove_same.
  - apply lookup_dremove_other. intros ->. now rewrite String.eqb_refl in E.
Qed.

(** extensional equality of directories *)
Definition deq (d d' : dir) : Prop := forall q, lookup q d = lookup q d'.

Lemma deq_refl d : deq d d.
Proof. intro; reflexivity. Qed.

Lemma deq_dset p b d d' : deq d d' -> deq (dset p b d) (dset p b d').
Proof. intros H q. rewrite !lookup_dset. destruct (String.eqb q p); auto. Qed.

(** * The concrete name supply is fresh *)
Lemma length_append a b : String.length (a ++ b) = String.length a + String.length b.
Proof. induction a; simpl; auto. Qed.

Lemma length_repeat_char c n : String.length (repeat_char c n) = n.
Proof. induction n; simpl; auto. Qed.

Lemma lookup_some_maxlen n d b : lookup n d = Some b -> String.length n <= maxlen d.
Proof.
  induction d as [|[m c] r IH]; simpl; [discriminate|].
  destruct (String.eqb n m) eqn:E.
  - apply String.eqb_eq in E; subst. lia.
  - intros H. specialize (IH H). lia.
Qed.

Lemma default_namer_fresh : fresh_namer default_namer.
Proof.
  intros d pre. unfold default_namer.
  destruct (lookup _ d) eqn:E; [|reflexivity].
  apply lookup_some_maxlen in E.
  rewrite !length_append, length_repeat_char in E. simpl in E. lia.
Qed.

(** * Paths *)
Lemma dirpart_basename s : dirpart s ++ basename s = s.
Proof.
  induction s as [|c r IH]; [reflexivity|].
  cbn [dirpart basename contains_char].
  destruct (contains_char "/" r) eqn:E.
  - rewrite Bool.orb_true_r. simpl. now rewrite IH.
  - rewrite Bool.orb_false_r. destruct (Ascii.eqb "/" c) eqn:E2.
    + apply Ascii.eqb_eq in E2; subst c. simpl.
      f_equal. clear IH. destruct r as [|c' r']; [reflexivity|].
      simpl in E. simpl. now rewrite E.
    + assert (Ascii.eqb c "/" = false) as ->.
      { rewrite Ascii.eqb_sym. exact E2. }
      reflexivity.
Qed.

(** * Clean-up paths: they never touch anything but the temp file *)
Definition core_eq (s s' : st) : Prop :=
  sd s' = sd s /\ nrep s' = nrep s /\ wname s' = wname s.

Lemma core_eq_refl s : core_eq s s.
Proof. repeat split. Qed.

Lemma core_eq_trans a b c : core_eq a b -> core_eq b c -> core_eq a c.
Proof. unfold core_eq. intros (?&?&?) (?&?&?). repeat split; congruence. Qed.

Lemma core_set_src b s : core_eq s (set_src b s).
Proof. repeat split. Qed.

Lemma core_set_try b s : core_eq s (set_try b s).
Proof. repeat split. Qed.

Lemma core_set_w ts s : core_eq s (set_w ts s).
Proof.
  unfold set_w, core_eq, wname. destruct (wh s) as [[t x]|] eqn:E; simpl; rewrite ?E; auto.
Qed.

Ltac fa := repeat (first [apply Forall_nil | apply Forall_cons]).

(** what unwinding can do to a state: at most remove the file behind the write handle, and
    only when the exception came out of the temp file's try block *)
Definition un_rel (s s' : st) : Prop :=
  nrep s' = nrep s /\ wname s' = wname s /\
  (sd s' = sd s \/
   (in_try s = true /\ exists t, wname s = Some t /\ sd s' = dremove t (sd s))).

Ltac un_cases F n :=
  unfold unwind, unwind2, unwind3, all_states;
  destruct (F n); destruct (F (S n)); destruct (F (S (S n))).

Ltac crush_st s :=
  destruct s as [d_ so_ [[tw_ x_]|] it_ tm_ nr_]; [destruct x_|]; destruct it_; destruct so_.

Lemma unwind_states F n s e : Forall (un_rel s) (all_states (unwind F n s e)).
Proof.
  crush_st s; un_cases F n; cbn; fa;
    unfold un_rel, wname; cbn; (split; [reflexivity|]); (split; [reflexivity|]);
    first [left; reflexivity | right; split; [reflexivity|]; eexists; split; reflexivity].
Qed.

Lemma unwind_not_done F n s e : outc (unwind F n s e) <> Done.
Proof. crush_st s; un_cases F n; cbn; discriminate. Qed.

Lemma unwind_stop F n s e : stop (unwind F n s e) = None.
Proof. crush_st s; un_cases F n; reflexivity. Qed.

(** outside the try block nothing is removed *)
Lemma unwind_notry F n s e : in_try s = false ->
  Forall (fun s' => core_eq s s' /\ in_try s' = false) (all_states (unwind F n s e)) /\
  rmfail (unwind F n s e) = false.
Proof.
  crush_st s; cbn; try discriminate; intros _; un_cases F n; cbn; (split; [|reflexivity]); fa;
    unfold core_eq, wname; cbn; repeat split.
Qed.

(** inside it, an unwinding that ends in an exception and whose remove did not fail has
    removed the temp file *)
Lemma unwind_removed F n s e t e' :
  in_try s = true -> wname s = Some t ->
  outc (unwind F n s e) = Raised e' -> rmfail (unwind F n s e) = false ->
  sd (final (unwind F n s e)) = dremove t (sd s).
Proof.
  crush_st s; unfold wname; cbn; try discriminate; intros _ Ht; inversion Ht; subst;
    un_cases F n; cbn; intros; try discriminate; reflexivity.
Qed.

Lemma unwind_nofault F n s e : (forall i, F i = NoFault) ->
  outc (unwind F n s e) = Raised e /\ rmfail (unwind F n s e) = false.
Proof.
  intros H. unfold unwind, unwind2, unwind3. rewrite !H.
  crush_st s; cbn; rewrite ?H; split; reflexivity.
Qed.

(** * run_ops: generic facts *)
Lemma prepend_nil r : prepend [] r = r.
Proof. destruct r; reflexivity. Qed.

Lemma all_states_prepend h r : all_states (prepend h r) = (map snd h ++ all_states r)%list.
Proof. unfold all_states, prepend; simpl. now rewrite map_app, app_assoc. Qed.

Lemma all_states_with_stop x r : all_states (with_stop x r) = all_states r.
Proof. reflexivity. Qed.

Lemma all_states_with_rmfail r : all_states (with_rmfail r) = all_states r.
Proof. reflexivity. Qed.

Lemma final_in_all_states r : In (final r) (all_states r).
Proof. unfold all_states. apply in_or_app. right. now left. Qed.

Lemma handler_not_done nm F o n s e : outc (handler nm F o n s e) <> Done.
Proof.
  destruct o; simpl; try apply unwind_not_done.
  destruct (F n); simpl; try apply unwind_not_done. discriminate.
Qed.

Lemma handler_plain nm F o n s e :
  (forall d, o <> Replace d) -> handler nm F o n s e = unwind F n s e.
Proof. destruct o; intros H; try reflexivity. exfalso. eapply H; reflexivity. Qed.

(** the main line composes: running [pre ++ post] is running [pre] and, if that completes,
    [post] from where it ended *)
Lemma run_ops_app nm F pre post : forall n s,
  run_ops nm F (pre ++ post) n s =
  match outc (run_ops nm F pre n s) with
  | Done => prepend (hist (run_ops nm F pre n s))
                    (run_ops nm F post (next (run_ops nm F pre n s)) (final (run_ops nm F pre n s)))
  | _ => run_ops nm F pre n s
  end.
Proof.
  induction pre as [|o pre IH]; intros n s.
  - simpl. now rewrite prepend_nil.
  - cbn [app run_ops]. destruct (visible o).
    + destruct (F n).
      * rewrite IH. cbn [outc prepend].
        destruct (outc (run_ops nm F pre (S n) (exec nm o s))); reflexivity.
      * cbn [outc with_stop prepend].
        destruct (outc (handler nm F o (S n) (fail_effect o s) (EInj n))) eqn:E; try reflexivity.
        exfalso. eapply handler_not_done; eauto.
      * reflexivity.
    + cbn [outc with_stop].
      destruct (outc (unwind F n s (data_exn o))) eqn:E; try reflexivity.
      exfalso. eapply unwind_not_done; eauto.
Qed.

Lemma run_ops_done nm F ops : forall n s,
  outc (run_ops nm F ops n s) = Done ->
  stop (run_ops nm F ops n s) = None /\ Forall (fun o => visible o = true) ops /\
  final (run_ops nm F ops n s) = fold_left (fun x o => exec nm o x) ops s.
Proof.
  induction ops as [|o ops IH]; intros n s; cbn [run_ops].
  - intros _. repeat split; constructor.
  - destruct (visible o) eqn:V.
    + destruct (F n); cbn [outc with_stop prepend stop final fold_left].
      * intros H. destruct (IH _ _ H) as (A & B & C). repeat split; auto.
      * intros H. exfalso. eapply handler_not_done; eauto.
      * discriminate.
    + cbn [outc with_stop]. intros H. exfalso. eapply unwind_not_done; eauto.
Qed.

Lemma run_ops_stop_in nm F ops : forall n s k o,
  stop (run_ops nm F ops n s) = Some (k, o) -> In o ops.
Proof.
  induction ops as [|o' ops IH]; intros n s k o; cbn [run_ops].
  - discriminate.
  - destruct (visible o').
    + destruct (F n); cbn [with_stop prepend stop].
      * intros H. right. eapply IH; eauto.
      * intros H. inversion H; subst. now left.
      * discriminate.
    + cbn [with_stop stop]. intros H. inversion H; subst. now left.
Qed.

(** a run that ends in an exception names the main-line step that raised *)
Lemma run_ops_raised_stop nm F ops : forall n s e,
  outc (run_ops nm F ops n s) = Raised e -> exists k o, stop (run_ops nm F ops n s) = Some (k, o).
Proof.
  induction ops as [|o' ops IH]; intros n s e; cbn [run_ops].
  - discriminate.
  - destruct (visible o').
    + destruct (F n); cbn [with_stop prepend stop outc].
      * apply IH.
      * eauto.
      * discriminate.
    + cbn [with_stop stop]. eauto.
Qed.

(** ** steps that never touch the directory *)
Definition nosd (o : op) : bool :=
  match o with OpenRead _ | LoadFail | CloseSrc | CloseW => true | _ => false end.

Lemma exec_nosd nm o s : nosd o = true -> core_eq s (exec nm o s).
Proof.
  destruct o; simpl; try discriminate; intros _;
    first [apply core_set_src | apply core_eq_refl
          | eapply core_eq_trans; [apply core_set_w | apply core_set_try]].
Qed.

Lemma fold_nosd nm ops : Forall (fun o => nosd o = true) ops ->
  forall s, core_eq s (fold_left (fun x o => exec nm o x) ops s).
Proof.
  induction 1 as [|o ops Ho _ IH]; intros s; simpl; [apply core_eq_refl|].
  eapply core_eq_trans; [apply exec_nosd; exact Ho | apply IH].
Qed.

Lemma fail_effect_core o s : core_eq s (fail_effect o s).
Proof.
  destruct o; simpl; first [apply core_set_src | apply core_set_w | apply core_eq_refl].
Qed.

Lemma fail_effect_try o s : in_try (fail_effect o s) = in_try s.
Proof.
  destruct o; simpl; try reflexivity. unfold set_w. destruct (wh s) as [[t x]|]; reflexivity.
Qed.

(** before the temp file exists: open / load / close of the source.  From a state outside the
    try block every state keeps the directory, and no remove is ever attempted *)
Definition classA (o : op) : bool :=
  match o with OpenRead _ | LoadFail | CloseSrc => true | _ => false end.

Definition calm (s s' : st) : Prop := core_eq s s' /\ in_try s' = false.

Lemma calm_trans s s1 s2 : calm s s1 -> calm s1 s2 -> calm s s2.
Proof. intros (A & _) (B & C). split; auto. eapply core_eq_trans; eauto. Qed.

Lemma Forall_calm_trans s s1 l : calm s s1 -> Forall (calm s1) l -> Forall (calm s) l.
Proof. intros H. apply Forall_impl. intros a Ha. eapply calm_trans; eauto. Qed.

Lemma exec_classA nm o s : classA o = true -> in_try s = false -> calm s (exec nm o s).
Proof.
  destruct o; simpl; try discriminate; intros _ H; split; auto;
    first [apply core_set_src | apply core_eq_refl].
Qed.

Lemma run_classA nm F ops : Forall (fun o => classA o = true) ops ->
  forall n s, in_try s = false ->
  Forall (calm s) (all_states (run_ops nm F ops n s)) /\ rmfail (run_ops nm F ops n s) = false.
Proof.
  induction 1 as [|o ops Ho Hops IH]; intros n s Hs; cbn [run_ops].
  - split; [|reflexivity]. unfold all_states; simpl. fa. split; [apply core_eq_refl | exact Hs].
  - assert (R : calm s s) by (split; [apply core_eq_refl | exact Hs]).
    destruct (visible o).
    + destruct (F n).
      * pose proof (exec_classA nm o s Ho Hs) as E.
        destruct (IH (S n) (exec nm o s) (proj2 E)) as [I1 I2]. split; [|exact I2].
        rewrite all_states_prepend. simpl. constructor; [exact R|].
        eapply Forall_calm_trans; eauto.
      * rewrite handler_plain by (intros d ->; discriminate).
        assert (Hf : in_try (fail_effect o s) = false) by (now rewrite fail_effect_try).
        destruct (unwind_notry F (S n) (fail_effect o s) (EInj n) Hf) as [U1 U2].
        split; [|exact U2].
        rewrite all_states_with_stop, all_states_prepend. simpl. constructor; [exact R|].
        eapply Forall_calm_trans; [split; [apply fail_effect_core | exact Hf] | exact U1].
      * split; [|reflexivity]. unfold all_states; simpl. fa; exact R.
    + destruct (unwind_notry F n s (data_exn o) Hs) as [U1 U2]. split; [|exact U2].
      rewrite all_states_with_stop. exact U1.
Qed.

(** ** steps between the creation of the temp file and the rename: they, and the clean-up
    after them, only ever touch the file behind the write handle *)
Definition classB (o : op) : bool :=
  match o with Write _ | FmtFail | CloseW | CloseSrc => true | _ => false end.

Definition relB (t : name) (s s' : st) : Prop :=
  nrep s' = nrep s /\ wname s' = Some t /\
  (forall q, q <> t -> lookup q (sd s') = lookup q (sd s)).

Lemma relB_core t s s1 s2 : relB t s s1 -> core_eq s1 s2 -> relB t s s2.
Proof.
  intros (A & B & C) (E & G & H). repeat split.
  - congruence.
  - congruence.
  - intros q Hq. rewrite E. auto.
Qed.

Lemma relB_trans t s s1 s2 : relB t s s1 -> relB t s1 s2 -> relB t s s2.
Proof.
  intros (A & B & C) (A' & B' & C'). repeat split; try congruence.
  intros q Hq. rewrite C' by auto. auto.
Qed.

Lemma relB_refl t s : wname s = Some t -> relB t s s.
Proof. intros. repeat split; auto. Qed.

Lemma relB_un t s s' : wname s = Some t -> un_rel s s' -> relB t s s'.
Proof.
  intros Hw (A & B & [C|(_ & t' & C1 & C2)]); repeat split; try congruence.
  intros q Hq. rewrite C2. assert (t' = t) by congruence. subst.
  apply lookup_dremove_other. congruence.
Qed.

Lemma exec_classB nm o s t :
  classB o = true -> wname s = Some t -> relB t s (exec nm o s).
Proof.
  intros Ho Hw.
  destruct o; simpl in Ho; try discriminate.
  - (* CloseSrc *) eapply relB_core; [apply relB_refl; auto | apply core_set_src].
  - (* FmtFail *) apply relB_refl; auto.
  - (* Write *)
    unfold wname in Hw. simpl. destruct (wh s) as [[t' x]|] eqn:W; [|discriminate].
    inversion Hw; subst t'.
    destruct (lookup t (sd s)) as [b|] eqn:L; [|apply relB_refl; unfold wname; now rewrite W].
    unfold relB, set_sd, wname; simpl. rewrite W. repeat split.
    intros q Hq. apply lookup_dset_other. congruence.
  - (* CloseW *) eapply relB_core; [apply relB_refl; auto | apply (exec_nosd nm CloseW s eq_refl)].
Qed.

Lemma Forall_relB_trans t s s1 l : relB t s s1 -> Forall (relB t s1) l -> Forall (relB t s) l.
Proof. intros H. apply Forall_impl. intros a Ha. eapply relB_trans; eauto. Qed.

Lemma wname_fail_effect o s : wname (fail_effect o s) = wname s.
Proof. destruct (fail_effect_core o s) as (_ & _ & H). exact H. Qed.

Lemma run_classB nm F t ops : Forall (fun o => classB o = true) ops ->
  forall n s, wname s = Some t ->
  Forall (relB t s) (all_states (run_ops nm F ops n s)).
Proof.
  induction 1 as [|o ops Ho Hops IH]; intros n s Hw; cbn [run_ops].
  - unfold all_states; simpl. fa. now apply relB_refl.
  - pose proof (relB_refl t s Hw) as R.
    destruct (visible o).
    + destruct (F n).
      * rewrite all_states_prepend. simpl. constructor; [exact R|].
        pose proof (exec_classB nm o s t Ho Hw) as E.
        eapply Forall_relB_trans; [exact E|].
        destruct E as (_ & E2 & _). apply IH; auto.
      * rewrite all_states_with_stop, all_states_prepend. simpl. constructor; [exact R|].
        rewrite handler_plain by (intros d ->; discriminate).
        eapply (Forall_relB_trans t s (fail_effect o s));
          [eapply relB_core; [exact R | apply fail_effect_core]|].
        eapply Forall_impl; [|apply unwind_states].
        intros a Ha. apply relB_un; auto. now rewrite wname_fail_effect.
      * unfold all_states; simpl. fa; auto.
    + rewrite all_states_with_stop.
      eapply Forall_impl; [|apply unwind_states]. intros a Ha. apply relB_un; auto.
Qed.

(** ** the write loop, then the closes.  [tl] is the (possibly empty) run of source closes *)
Lemma append_nil_r (s : string) : s ++ "" = s.
Proof. induction s; simpl; congruence. Qed.

Lemma append_assoc (a b c : string) : (a ++ b) ++ c = a ++ (b ++ c).
Proof. induction a; simpl; congruence. Qed.

Definition closes (tl : list op) : Prop := Forall (fun o => o = CloseSrc) tl.

Lemma closes_nosd tl : closes tl -> Forall (fun o => nosd o = true) (CloseW :: tl).
Proof.
  intros H. constructor; [reflexivity|]. eapply Forall_impl; [|exact H]. intros o ->. reflexivity.
Qed.

Lemma fold_closes_try nm tl : closes tl -> forall s, in_try s = false ->
  in_try (fold_left (fun x o => exec nm o x) tl s) = false.
Proof.
  induction 1 as [|o tl -> _ IH]; intros s Hs; simpl; auto.
Qed.

(** if it completes, the temp file holds every chunk, in order, and the try block is left *)
Lemma run_items_done nm F tl : closes tl ->
  forall its n s t b0,
  wname s = Some t -> lookup t (sd s) = Some b0 ->
  outc (run_ops nm F (map item_op its ++ CloseW :: tl) n s) = Done ->
  exists c, concat_items its = Some c /\
    lookup t (sd (final (run_ops nm F (map item_op its ++ CloseW :: tl) n s))) = Some (b0 ++ c) /\
    wname (final (run_ops nm F (map item_op its ++ CloseW :: tl) n s)) = Some t /\
    in_try (final (run_ops nm F (map item_op its ++ CloseW :: tl) n s)) = false.
Proof.
  intros Htl. induction its as [|[c|] its IH]; intros n s t b0 Hw Ht Hd.
  - cbn [map app] in *. exists "". split; [reflexivity|].
    destruct (run_ops_done nm F _ n s Hd) as (_ & _ & E). rewrite E.
    destruct (fold_nosd nm _ (closes_nosd tl Htl) s) as (E1 & _ & E3).
    rewrite E1, E3, append_nil_r. repeat split; auto.
    cbn [fold_left]. apply fold_closes_try; auto.
  - cbn [map app item_op run_ops visible] in *.
    destruct (F n).
    + cbn [outc prepend final] in *.
      assert (W : wname (exec nm (Write c) s) = Some t /\
                  lookup t (sd (exec nm (Write c) s)) = Some (b0 ++ c)).
      { unfold wname in Hw. simpl. destruct (wh s) as [[t' x]|] eqn:W; [|discriminate].
        inversion Hw; subst t'. rewrite Ht. unfold set_sd, wname; simpl. rewrite W.
        split; [reflexivity | apply lookup_dset_same]. }
      destruct W as [W1 W2].
      destruct (IH _ _ _ _ W1 W2 Hd) as (c' & C1 & C2 & C3 & C4).
      exists (c ++ c'). cbn [concat_items]. rewrite C1. split; [reflexivity|].
      rewrite C2, append_assoc. auto.
    + cbn [outc with_stop prepend] in Hd. exfalso. eapply handler_not_done; eauto.
    + discriminate.
  - cbn [map app item_op run_ops visible] in *. cbn [outc with_stop] in Hd.
    exfalso. eapply unwind_not_done; eauto.
Qed.

Lemma in_try_write nm c s : in_try (exec nm (Write c) s) = in_try s.
Proof.
  simpl. destruct (wh s) as [[t x]|]; auto. destruct (lookup t (sd s)); auto.
Qed.

Lemma wname_write nm c s : wname (exec nm (Write c) s) = wname s.
Proof.
  unfold wname. simpl. destruct (wh s) as [[t x]|] eqn:W; [|now rewrite W].
  destruct (lookup t (sd s)); simpl; now rewrite W.
Qed.

(** if it ends in an exception - formatting, a write, the closing flush - and the remove in
    the except clause did not itself fail, the temp file is gone.  (A failing close of the
    read-only source handle comes after the try block: excluded.) *)
Lemma run_fill_raise nm F tl : closes tl ->
  forall its n s t e,
  in_try s = true -> wname s = Some t ->
  outc (run_ops nm F (map item_op its ++ CloseW :: tl) n s) = Raised e ->
  rmfail (run_ops nm F (map item_op its ++ CloseW :: tl) n s) = false ->
  (forall k, stop (run_ops nm F (map item_op its ++ CloseW :: tl) n s) <> Some (k, CloseSrc)) ->
  lookup t (sd (final (run_ops nm F (map item_op its ++ CloseW :: tl) n s))) = None.
Proof.
  intros Htl. induction its as [|[c|] its IH]; intros n s t e Hi Hw Ho Hr Hs.
  - cbn [map app run_ops visible] in *. destruct (F n).
    + (* the temp file is closed: what can still raise is a close of the source *)
      cbn [prepend outc stop] in *. exfalso.
      destruct (run_ops_raised_stop _ _ _ _ _ _ Ho) as (k & o & Hst).
      pose proof (run_ops_stop_in _ _ _ _ _ _ _ Hst) as Hin.
      unfold closes in Htl. rewrite Forall_forall in Htl. rewrite (Htl _ Hin) in Hst.
      eapply Hs; eauto.
    + cbn [with_stop prepend outc rmfail final handler] in *.
      erewrite unwind_removed; eauto.
      * destruct (fail_effect_core CloseW s) as (E & _). rewrite E. apply lookup_dremove_same.
      * now rewrite fail_effect_try.
      * now rewrite wname_fail_effect.
    + discriminate.
  - cbn [map app item_op run_ops visible] in *. destruct (F n).
    + cbn [prepend outc stop rmfail final] in *.
      eapply IH; eauto.
      * now rewrite in_try_write.
      * now rewrite wname_write.
    + cbn [with_stop prepend outc rmfail final handler fail_effect] in *.
      erewrite unwind_removed; eauto. apply lookup_dremove_same.
    + discriminate.
  - cbn [map app item_op run_ops visible with_stop outc rmfail final] in *.
    erewrite unwind_removed; eauto. apply lookup_dremove_same.
Qed.

(** * One in-place rewrite: A ++ [MkTemp] ++ (writes ++ CloseW :: closes) ++ [Replace] *)

(** before the rename: nothing but the temp name [t] differs from the start *)
Definition phaseB (t : name) (s0 s : st) : Prop :=
  nrep s = nrep s0 /\ forall q, q <> t -> lookup q (sd s) = lookup q (sd s0).
(** after it: the start directory with [src] holding the complete new bytes, nothing else *)
Definition phaseC (src : name) (nw : bytes) (s0 s : st) : Prop :=
  nrep s = S (nrep s0) /\
  forall q, lookup q (sd s) = if String.eqb q src then Some nw else lookup q (sd s0).

Section OneFile.
Variables (nm : namer) (F : nat -> fmode) (src : name) (s0 : st) (nwo : option bytes).
Let t := nm (sd s0) (dirpart src).
Hypothesis Hfresh : lookup t (sd s0) = None.
Hypothesis Hsrc : lookup src (sd s0) <> None.

Definition okst (s : st) : Prop :=
  phaseB t s0 s \/ exists nw, nwo = Some nw /\ phaseC src nw s0 s.

Record Spec (r : result) : Prop := mkSpec {
  sp_states : Forall okst (all_states r);
  sp_done : outc r = Done ->
            exists nw, nwo = Some nw /\ phaseC src nw s0 (final r) /\ in_try (final r) = false;
  sp_notdone : outc r <> Done -> phaseB t s0 (final r);
  sp_raise : forall e, outc r = Raised e -> rmfail r = false ->
             (forall k, stop r <> Some (k, CloseSrc)) -> deq (sd (final r)) (sd s0)
}.

Lemma t_neq_src : t <> src.
Proof. intros E. rewrite E in Hfresh. congruence. Qed.

Lemma phaseB_core s s' : phaseB t s0 s -> core_eq s s' -> phaseB t s0 s'.
Proof.
  intros (A & B) (E1 & E2 & _). split; [congruence|]. intros q Hq. rewrite E1. auto.
Qed.

Lemma phaseB_relB s s' : phaseB t s0 s -> relB t s s' -> phaseB t s0 s'.
Proof.
  intros (A & B) (E1 & _ & E3). split; [congruence|].
  intros q Hq. rewrite E3 by auto. auto.
Qed.

(** phase B with the temp name absent is the start directory *)
Lemma phaseB_gone s : phaseB t s0 s -> lookup t (sd s) = None -> deq (sd s) (sd s0).
Proof.
  intros (_ & B) H q. destruct (String.eqb q t) eqn:E.
  - apply String.eqb_eq in E; subst q. now rewrite H, Hfresh.
  - apply B. intros ->. now rewrite String.eqb_refl in E.
Qed.

Lemma Spec_prepend h r :
  Forall (phaseB t s0) (map snd h) -> Spec r -> Spec (prepend h r).
Proof.
  intros Hh [A B C D]. constructor; auto.
  rewrite all_states_prepend. apply Forall_app. split; [|exact A].
  eapply Forall_impl; [|exact Hh]. intros a Ha. now left.
Qed.

(** a run whose states all keep the (start) directory of [sB], and that does not complete *)
Lemma Spec_stuck sB r :
  sd sB = sd s0 -> nrep sB = nrep s0 ->
  Forall (core_eq sB) (all_states r) -> outc r <> Done -> Spec r.
Proof.
  intros Hd Hn Hall Hnd.
  assert (HB : phaseB t s0 sB) by (split; [exact Hn | intros q _; now rewrite Hd]).
  assert (Hfin : core_eq sB (final r)).
  { rewrite Forall_forall in Hall. apply Hall, final_in_all_states. }
  constructor.
  - eapply Forall_impl; [|exact Hall]. intros a Ha. left. eapply phaseB_core; eauto.
  - intros H. contradiction.
  - intros _. eapply phaseB_core; eauto.
  - intros e _ _ _. destruct Hfin as (E & _). rewrite E, Hd. apply deq_refl.
Qed.

Lemma Forall_calm_core s l : Forall (calm s) l -> Forall (core_eq s) l.
Proof. apply Forall_impl. intros a [H _]. exact H. Qed.

(** the rename step *)
Lemma spec_replace n sB c :
  nwo = Some c -> phaseB t s0 sB -> wname sB = Some t -> lookup t (sd sB) = Some c ->
  in_try sB = false ->
  Spec (run_ops nm F [Replace src] n sB).
Proof.
  intros Hn HB Hw Ht Hi.
  cbn [run_ops visible]. destruct (F n) eqn:Fn.
  - (* the rename happens *)
    assert (HC : phaseC src c s0 (exec nm (Replace src) sB) /\
                 in_try (exec nm (Replace src) sB) = false).
    { unfold wname in Hw. simpl. destruct (wh sB) as [[t' x]|] eqn:W; [|discriminate].
      inversion Hw; subst t'. rewrite Ht. destruct HB as (B1 & B2).
      split; [|exact Hi].
      split; simpl; [congruence|].
      intros q. rewrite lookup_dremove, lookup_dset.
      destruct (String.eqb q t) eqn:Eq.
      - apply String.eqb_eq in Eq; subst q.
        destruct (String.eqb t src) eqn:E2.
        + apply String.eqb_eq in E2. exfalso. now apply t_neq_src.
        + now rewrite Hfresh.
      - destruct (String.eqb q src); [reflexivity|].
        apply B2. intros ->. now rewrite String.eqb_refl in Eq. }
    destruct HC as [HC HCi].
    constructor; cbn [prepend run_ops final outc stop rmfail].
    + unfold all_states; simpl. constructor; [now left|].
      constructor; [|constructor]. right. eauto.
    + intros _. eauto.
    + intros H. congruence.
    + discriminate.
  - (* it raises: move_temp_file's handler *)
    cbn [fail_effect handler].
    destruct (F (S n)) eqn:Fn1.
    + (* the temp is removed *)
      set (sR := exec nm Remove sB).
      assert (HR : phaseB t s0 sR /\ lookup t (sd sR) = None /\ in_try sR = false).
      { unfold sR, wname in *. simpl. destruct (wh sB) as [[t' x]|] eqn:W; [|discriminate].
        inversion Hw; subst t'. destruct HB as (B1 & B2). unfold phaseB, set_sd; simpl.
        split; [|split; [apply lookup_dremove_same | exact Hi]].
        split; [exact B1|]. intros q Hq. rewrite lookup_dremove_other by congruence. auto. }
      destruct HR as (HR1 & HR2 & HR3).
      destruct (unwind_notry F (S (S n)) sR (EInj n) HR3) as [U _].
      apply Forall_calm_core in U.
      assert (Hfin : core_eq sR (final (unwind F (S (S n)) sR (EInj n)))).
      { rewrite Forall_forall in U. apply U, final_in_all_states. }
      constructor; cbn [with_stop prepend final outc stop rmfail].
      * rewrite all_states_with_stop, !all_states_prepend. simpl.
        constructor; [now left|]. constructor; [now left|].
        eapply Forall_impl; [|exact U]. intros a Ha. left. eapply phaseB_core; eauto.
      * intros H. exfalso. eapply unwind_not_done; eauto.
      * intros _. eapply phaseB_core; eauto.
      * intros e _ _ _. apply phaseB_gone; [eapply phaseB_core; eauto|].
        destruct Hfin as (E & _). now rewrite E.
    + (* the remove fails too: logged, the first error propagates, the temp stays *)
      destruct (unwind_notry F (S (S n)) sB (EInj n) Hi) as [U _].
      apply Forall_calm_core in U.
      assert (Hfin : core_eq sB (final (unwind F (S (S n)) sB (EInj n)))).
      { rewrite Forall_forall in U. apply U, final_in_all_states. }
      constructor; cbn [with_stop with_rmfail prepend final outc stop rmfail].
      * repeat first [rewrite all_states_with_stop | rewrite all_states_prepend
                     | rewrite all_states_with_rmfail]. simpl.
        constructor; [now left|]. constructor; [now left|].
        eapply Forall_impl; [|exact U]. intros a Ha. left. eapply phaseB_core; eauto.
      * intros H. exfalso. eapply unwind_not_done; eauto.
      * intros _. eapply phaseB_core; eauto.
      * discriminate.
    + (* killed inside the handler *)
      constructor; cbn [with_stop prepend final outc stop rmfail].
      * unfold all_states; simpl. fa; now left.
      * discriminate.
      * intros _. exact HB.
      * discriminate.
  - (* killed at the rename *)
    constructor; cbn [final outc stop].
    + unfold all_states; simpl. fa; now left.
    + discriminate.
    + intros _. exact HB.
    + discriminate.
Qed.

(** filling and closing the temp file, then the rename *)
Lemma spec_fill its tl n s2 :
  closes tl ->
  nwo = concat_items its ->
  phaseB t s0 s2 -> wname s2 = Some t -> lookup t (sd s2) = Some "" -> in_try s2 = true ->
  Spec (run_ops nm F ((map item_op its ++ CloseW :: tl) ++ [Replace src]) n s2).
Proof.
  intros Htl Hn HB Hw Ht Hi.
  assert (HclB : Forall (fun o => classB o = true) (map item_op its ++ CloseW :: tl)).
  { apply Forall_app. split.
    - rewrite Forall_forall. intros o Ho. apply in_map_iff in Ho.
      destruct Ho as ([c|] & <- & _); reflexivity.
    - constructor; [reflexivity|]. eapply Forall_impl; [|exact Htl]. intros o ->. reflexivity. }
  pose proof (run_classB nm F t _ HclB n s2 Hw) as HBs.
  rewrite run_ops_app.
  set (rB := run_ops nm F (map item_op its ++ CloseW :: tl) n s2) in *.
  assert (Hfin : relB t s2 (final rB)).
  { rewrite Forall_forall in HBs. apply HBs, final_in_all_states. }
  assert (Hstuck : outc rB <> Done -> Spec rB).
  { intros Hnd. constructor.
    - eapply Forall_impl; [|exact HBs]. intros a Ha. left. eapply phaseB_relB; eauto.
    - congruence.
    - intros _. eapply phaseB_relB; eauto.
    - intros e He Hr Hs. apply phaseB_gone; [eapply phaseB_relB; eauto|].
      unfold rB in *. eapply run_fill_raise; eauto. }
  destruct (outc rB) eqn:Ho.
  - (* the temp file is complete and closed *)
    destruct (run_items_done nm F tl Htl its n s2 t "" Hw Ht Ho) as (c & C1 & C2 & C3 & C4).
    fold rB in C2, C3, C4. simpl in C2.
    apply Spec_prepend.
    + assert (Hall : Forall (relB t s2) (map snd (hist rB))).
      { unfold all_states in HBs. apply Forall_app in HBs. tauto. }
      eapply Forall_impl; [|exact Hall]. intros a Ha. eapply phaseB_relB; eauto.
    + eapply spec_replace; eauto.
      * congruence.
      * eapply phaseB_relB; eauto.
  - apply Hstuck. congruence.
  - apply Hstuck. congruence.
  - apply Hstuck. congruence.
Qed.

(** creating the temp file, and the rest *)
Lemma spec_mktemp its tl n sA :
  closes tl ->
  nwo = concat_items its ->
  calm s0 sA ->
  Spec (run_ops nm F ([MkTemp src] ++ (map item_op its ++ CloseW :: tl) ++ [Replace src]) n sA).
Proof.
  intros Htl Hn [HA HAi].
  assert (HB0 : phaseB t s0 sA).
  { destruct HA as (E1 & E2 & _). split; [congruence|]. intros q _. now rewrite E1. }
  destruct HA as (E1 & E2 & E3).
  cbn [app run_ops visible]. destruct (F n) eqn:Fn.
  - (* created: outfile is bound, we are inside the try *)
    replace ((MkTemp src, sA) :: nil) with ([(MkTemp src, sA)]) by reflexivity.
    apply Spec_prepend; [simpl; fa; exact HB0|].
    assert (Et : nm (sd sA) (dirpart src) = t) by (unfold t; now rewrite E1).
    apply spec_fill; auto.
    + simpl. rewrite Et. split; [simpl; congruence|].
      intros q Hq. simpl. rewrite lookup_dset_other by congruence. now rewrite E1.
    + simpl. unfold wname; simpl. now rewrite Et.
    + simpl. rewrite Et. apply lookup_dset_same.
  - (* NamedTemporaryFile raises: outfile is None, nothing was created, nothing to remove *)
    cbn [fail_effect handler].
    destruct (unwind_notry F (S n) sA (EInj n) HAi) as [U _]. apply Forall_calm_core in U.
    eapply (Spec_stuck sA); auto.
    + rewrite all_states_with_stop, all_states_prepend. simpl.
      constructor; [apply core_eq_refl | exact U].
    + cbn [with_stop prepend outc]. apply unwind_not_done.
  - (* killed *)
    eapply (Spec_stuck sA); auto.
    + unfold all_states; simpl. fa; apply core_eq_refl.
    + discriminate.
Qed.

(** the whole rewrite *)
Lemma spec_all A its tl n :
  in_try s0 = false ->
  Forall (fun o => classA o = true) A ->
  closes tl ->
  nwo = concat_items its ->
  Spec (run_ops nm F (A ++ [MkTemp src] ++ (map item_op its ++ CloseW :: tl) ++ [Replace src]) n s0)
  /\ (outc (run_ops nm F (A ++ [MkTemp src] ++ (map item_op its ++ CloseW :: tl) ++ [Replace src]) n s0)
      = Done -> Forall (fun o => visible o = true) A).
Proof.
  intros Hi HA Htl Hn.
  destruct (run_classA nm F A HA n s0 Hi) as [HAs _].
  rewrite run_ops_app.
  set (rA := run_ops nm F A n s0) in *.
  assert (Hfin : calm s0 (final rA)).
  { rewrite Forall_forall in HAs. apply HAs, final_in_all_states. }
  assert (Hstuck : outc rA <> Done -> Spec rA).
  { intros Hnd. eapply (Spec_stuck s0); auto. now apply Forall_calm_core. }
  destruct (outc rA) eqn:Ho.
  - split.
    + apply Spec_prepend.
      * assert (Hall : Forall (calm s0) (map snd (hist rA))).
        { unfold all_states in HAs. apply Forall_app in HAs. tauto. }
        eapply Forall_impl; [|exact Hall]. intros a [Ha _].
        eapply phaseB_core; [|exact Ha]. split; auto.
      * apply spec_mktemp; auto.
    + intros _. apply (run_ops_done nm F A n s0). exact Ho.
  - split; [apply Hstuck; congruence | rewrite Ho; discriminate].
  - split; [apply Hstuck; congruence | rewrite Ho; discriminate].
  - split; [apply Hstuck; congruence | rewrite Ho; discriminate].
Qed.

End OneFile.

(** * The two rewriters have that shape *)
Lemma stream_shape pl src :
  inplace_ops Stream pl src =
  ([OpenRead src] ++ [MkTemp src] ++ (map item_op (items pl) ++ CloseW :: [CloseSrc]) ++ [Replace src])%list.
Proof. unfold inplace_ops. simpl. now rewrite <- app_assoc. Qed.

Lemma object_shape pl src :
  inplace_ops Object pl src =
  (([OpenRead src] ++ load_ops pl ++ [CloseSrc]) ++ [MkTemp src]
     ++ (map item_op (items pl) ++ CloseW :: []) ++ [Replace src])%list.
Proof. unfold inplace_ops. simpl. rewrite <- !app_assoc. reflexivity. Qed.

Definition tmp_of (nm : namer) (s0 : st) (src : name) : name := nm (sd s0) (dirpart src).

Theorem inplace_spec nm F k pl src s0 n :
  fresh_namer nm -> lookup src (sd s0) <> None -> in_try s0 = false ->
  Spec nm src s0 (new_of k pl) (run_ops nm F (inplace_ops k pl src) n s0).
Proof.
  intros Hf Hs Hi. pose proof (Hf (sd s0) (dirpart src)) as Ht.
  destruct k.
  - rewrite stream_shape.
    refine (proj1 (spec_all nm F src s0 _ Ht Hs [OpenRead src] (items pl) [CloseSrc] n
                     Hi _ _ eq_refl)); repeat constructor.
  - destruct (load_ok pl) eqn:L.
    + rewrite object_shape. unfold new_of. rewrite L.
      refine (proj1 (spec_all nm F src s0 _ Ht Hs _ (items pl) [] n Hi _ _ eq_refl));
        [|constructor].
      unfold load_ops. rewrite L. repeat constructor.
    + (* the payload does not parse: the run ends before a temp file exists *)
      unfold new_of. rewrite L.
      replace (inplace_ops Object pl src)
        with (([OpenRead src; LoadFail] ++ [CloseSrc; MkTemp src] ++ map item_op (items pl)
                ++ [CloseW; Replace src])%list)
        by (unfold inplace_ops, load_ops; rewrite L; reflexivity).
      rewrite run_ops_app.
      set (rA := run_ops nm F [OpenRead src; LoadFail] n s0).
      assert (Hnd : outc rA <> Done).
      { intros H. apply run_ops_done in H. destruct H as (_ & H & _).
        inversion H as [|? ? _ H2]. inversion H2 as [|? ? H3 _]. discriminate. }
      assert (Hall : Forall (core_eq s0) (all_states rA)).
      { apply Forall_calm_core. apply run_classA; auto; repeat constructor. }
      assert (HS : Spec nm src s0 None rA) by (eapply (Spec_stuck nm src s0 None s0); auto).
      destruct (outc rA); try exact HS. congruence.
Qed.

(** ** what the property asks of a single rewrite *)
Theorem source_old_or_new nm F k pl src old s0 n :
  fresh_namer nm -> lookup src (sd s0) = Some old -> in_try s0 = false ->
  Forall (fun s => (nrep s = nrep s0 /\ lookup src (sd s) = Some old) \/
                   (nrep s = S (nrep s0) /\
                    exists nw, new_of k pl = Some nw /\ lookup src (sd s) = Some nw))
         (all_states (run_ops nm F (inplace_ops k pl src) n s0)).
Proof.
  intros Hf Hs Hi.
  assert (Hs' : lookup src (sd s0) <> None) by congruence.
  pose proof (sp_states _ _ _ _ _ (inplace_spec nm F k pl src s0 n Hf Hs' Hi)) as H.
  eapply Forall_impl; [|exact H]. intros s [(A & B)|(nw & E & A & B)].
  - left. split; auto. rewrite B; auto.
    intros E. pose proof (Hf (sd s0) (dirpart src)) as X. rewrite <- E in X. congruence.
  - right. split; auto. exists nw. split; auto. rewrite B. now rewrite String.eqb_refl.
Qed.

Theorem others_untouched nm F k pl src s0 n :
  fresh_namer nm -> lookup src (sd s0) <> None -> in_try s0 = false ->
  Forall (fun s => forall q, q <> src -> q <> tmp_of nm s0 src ->
                             lookup q (sd s) = lookup q (sd s0))
         (all_states (run_ops nm F (inplace_ops k pl src) n s0)).
Proof.
  intros Hf Hs Hi.
  pose proof (sp_states _ _ _ _ _ (inplace_spec nm F k pl src s0 n Hf Hs Hi)) as H.
  eapply Forall_impl; [|exact H]. intros s [(A & B)|(nw & E & A & B)] q Hq Hq2.
  - apply B. exact Hq2.
  - rewrite B. destruct (String.eqb q src) eqn:E2; auto.
    apply String.eqb_eq in E2. contradiction.
Qed.

Theorem success_same_entries nm F k pl src s0 n :
  fresh_namer nm -> lookup src (sd s0) <> None -> in_try s0 = false ->
  outc (run_ops nm F (inplace_ops k pl src) n s0) = Done ->
  exists nw, new_of k pl = Some nw /\
    forall q, lookup q (sd (final (run_ops nm F (inplace_ops k pl src) n s0)))
              = if String.eqb q src then Some nw else lookup q (sd s0).
Proof.
  intros Hf Hs Hi Hd.
  destruct (sp_done _ _ _ _ _ (inplace_spec nm F k pl src s0 n Hf Hs Hi) Hd)
    as (nw & E & (_ & B) & _).
  eauto.
Qed.

(** raised or killed: the source is intact and NOTHING but the temp name can differ from the
    start directory (this is also all that a failed clean-up can leave) *)
Theorem failure_leaves_old nm F k pl src old s0 n :
  fresh_namer nm -> lookup src (sd s0) = Some old -> in_try s0 = false ->
  outc (run_ops nm F (inplace_ops k pl src) n s0) <> Done ->
  lookup src (sd (final (run_ops nm F (inplace_ops k pl src) n s0))) = Some old /\
  nrep (final (run_ops nm F (inplace_ops k pl src) n s0)) = nrep s0 /\
  lookup (tmp_of nm s0 src) (sd s0) = None /\
  forall q, q <> tmp_of nm s0 src ->
    lookup q (sd (final (run_ops nm F (inplace_ops k pl src) n s0))) = lookup q (sd s0).
Proof.
  intros Hf Hs Hi Hd.
  assert (Hs' : lookup src (sd s0) <> None) by congruence.
  destruct (sp_notdone _ _ _ _ _ (inplace_spec nm F k pl src s0 n Hf Hs' Hi) Hd) as (A & B).
  pose proof (Hf (sd s0) (dirpart src)) as X.
  repeat split; auto. rewrite B; auto.
  intros E. unfold tmp_of in *. rewrite <- E in X. congruence.
Qed.

(** a rewrite that fails by raising leaves exactly the original directory *)
Theorem raise_leaves_no_temp nm F k pl src s0 n e :
  fresh_namer nm -> lookup src (sd s0) <> None -> in_try s0 = false ->
  outc (run_ops nm F (inplace_ops k pl src) n s0) = Raised e ->
  rmfail (run_ops nm F (inplace_ops k pl src) n s0) = false ->
  (forall kk, stop (run_ops nm F (inplace_ops k pl src) n s0) <> Some (kk, CloseSrc)) ->
  deq (sd (final (run_ops nm F (inplace_ops k pl src) n s0))) (sd s0).
Proof.
  intros Hf Hs Hi Ho Hr Hst.
  exact (sp_raise _ _ _ _ _ (inplace_spec nm F k pl src s0 n Hf Hs Hi) e Ho Hr Hst).
Qed.

(** without injected faults a data failure always ends that way *)
Lemma run_nofault_done nm F ops : (forall i, F i = NoFault) ->
  Forall (fun o => visible o = true) ops ->
  forall n s, outc (run_ops nm F ops n s) = Done.
Proof.
  intros H. induction 1 as [|o ops Ho _ IH]; intros n s; cbn [run_ops]; [reflexivity|].
  rewrite Ho, H. cbn [prepend outc]. apply IH.
Qed.

Lemma is_some_visible (l : list (option bytes)) :
  Forall (fun i => i <> None) l -> Forall (fun o => visible o = true) (map item_op l).
Proof.
  induction 1 as [|[c|] l H _ IH]; simpl; constructor; auto; congruence.
Qed.

Theorem format_error_clean nm F k pl src s0 n pre post :
  fresh_namer nm -> lookup src (sd s0) <> None -> in_try s0 = false ->
  (forall i, F i = NoFault) ->
  (k = Object -> load_ok pl = true) ->
  items pl = (pre ++ None :: post)%list -> Forall (fun i => i <> None) pre ->
  let r := run_ops nm F (inplace_ops k pl src) n s0 in
  outc r = Raised EFormat /\ deq (sd (final r)) (sd s0).
Proof.
  intros Hf Hs Hi0 HF Hl Hi Hpre r.
  assert (Hshape : exists P Q, inplace_ops k pl src = (P ++ FmtFail :: Q)%list /\
                               Forall (fun o => visible o = true) P).
  { destruct k.
    - exists ([OpenRead src; MkTemp src] ++ map item_op pre)%list.
      exists (map item_op post ++ [CloseW; CloseSrc; Replace src])%list. split.
      + unfold inplace_ops. rewrite Hi, map_app. simpl. rewrite <- !app_assoc. reflexivity.
      + apply Forall_app. split; [repeat constructor | now apply is_some_visible].
    - exists ([OpenRead src; CloseSrc; MkTemp src] ++ map item_op pre)%list.
      exists (map item_op post ++ [CloseW; Replace src])%list. split.
      + unfold inplace_ops, load_ops. rewrite (Hl eq_refl), Hi, map_app. simpl.
        rewrite <- !app_assoc. reflexivity.
      + apply Forall_app. split; [repeat constructor | now apply is_some_visible]. }
  destruct Hshape as (P & Q & HPQ & HP).
  assert (Hr : outc r = Raised EFormat /\ rmfail r = false /\
               exists kk, stop r = Some (kk, FmtFail)).
  { unfold r. rewrite HPQ, run_ops_app, (run_nofault_done nm F P HF HP).
    cbn [run_ops visible prepend with_stop outc stop rmfail data_exn].
    destruct (unwind_nofault F (next (run_ops nm F P n s0)) (final (run_ops nm F P n s0))
                EFormat HF) as [U1 U2].
    repeat split; eauto. }
  destruct Hr as (Ho & Hrm & kk & Hst).
  split; [exact Ho|].
  apply (raise_leaves_no_temp nm F k pl src s0 n EFormat Hf Hs Hi0 Ho Hrm).
  fold r. intros k0 H. rewrite Hst in H. discriminate.
Qed.

(** * out names another file: written directly, the source is only read *)
Theorem direct_spec nm F k pl src out s0 n :
  in_try s0 = false ->
  Forall (fun s => nrep s = nrep s0 /\ forall q, q <> out -> lookup q (sd s) = lookup q (sd s0))
         (all_states (run_ops nm F (direct_ops k pl src out) n s0)).
Proof.
  intros Hi.
  assert (G : forall A tail, Forall (fun o => classA o = true) A ->
            Forall (fun o => classB o = true) tail ->
            Forall (fun s => nrep s = nrep s0 /\
                             forall q, q <> out -> lookup q (sd s) = lookup q (sd s0))
              (all_states (run_ops nm F (A ++ [OpenWrite out] ++ map item_op (items pl) ++ tail) n s0))).
  { intros A tail HA Htail.
    destruct (run_classA nm F A HA n s0 Hi) as [HAs _].
    assert (Pcore : forall s, core_eq s0 s ->
              nrep s = nrep s0 /\ forall q, q <> out -> lookup q (sd s) = lookup q (sd s0)).
    { intros s (E1 & E2 & _). split; auto. intros q _. now rewrite E1. }
    assert (Pcalm : forall s, calm s0 s ->
              nrep s = nrep s0 /\ forall q, q <> out -> lookup q (sd s) = lookup q (sd s0)).
    { intros s [H _]. auto. }
    rewrite run_ops_app. set (rA := run_ops nm F A n s0) in *.
    assert (Hfin : calm s0 (final rA)).
    { rewrite Forall_forall in HAs. apply HAs, final_in_all_states. }
    destruct (outc rA); try (eapply Forall_impl; [|exact HAs]; auto).
    rewrite all_states_prepend. apply Forall_app. split.
    { unfold all_states in HAs. apply Forall_app in HAs. destruct HAs as [H _].
      eapply Forall_impl; [|exact H]; auto. }
    set (sA := final rA) in *. destruct Hfin as [Hfc Hfi].
    cbn [app run_ops visible]. destruct (F (next rA)).
    - rewrite all_states_prepend. simpl. constructor; [auto|].
      set (s2 := exec nm (OpenWrite out) sA).
      assert (H2 : wname s2 = Some out /\ nrep s2 = nrep s0 /\
                   forall q, q <> out -> lookup q (sd s2) = lookup q (sd s0)).
      { unfold s2; simpl. destruct Hfc as (E1 & E2 & _). repeat split; auto.
        intros q Hq. rewrite lookup_dset_other by congruence. now rewrite E1. }
      destruct H2 as (W & N & Q).
      assert (HB : Forall (fun o => classB o = true) (map item_op (items pl) ++ tail)).
      { apply Forall_app. split; auto. rewrite Forall_forall. intros o Ho.
        apply in_map_iff in Ho. destruct Ho as ([c|] & <- & _); reflexivity. }
      pose proof (run_classB nm F out _ HB (S (next rA)) s2 W) as HBs.
      eapply Forall_impl; [|exact HBs]. intros s (B1 & _ & B3). split; [congruence|].
      intros q Hq. rewrite B3; auto.
    - rewrite all_states_with_stop, all_states_prepend. simpl. constructor; [auto|].
      cbn [fail_effect handler].
      destruct (unwind_notry F (S (next rA)) sA (EInj (next rA)) Hfi) as [U _].
      eapply Forall_impl; [|exact U]. intros s [Hs _]. apply Pcore.
      eapply core_eq_trans; eauto.
    - unfold all_states; simpl. fa; auto. }
  destruct k; unfold direct_ops.
  - replace ([OpenRead src; OpenWrite out] ++ map item_op (items pl) ++ [CloseW; CloseSrc])%list
      with ([OpenRead src] ++ [OpenWrite out] ++ map item_op (items pl) ++ [CloseW; CloseSrc])%list
      by reflexivity.
    apply G; repeat constructor.
  - replace ([OpenRead src] ++ load_ops pl ++ [CloseSrc; OpenWrite out]
               ++ map item_op (items pl) ++ [CloseW])%list
      with (([OpenRead src] ++ load_ops pl ++ [CloseSrc]) ++ [OpenWrite out]
               ++ map item_op (items pl) ++ [CloseW])%list
      by (rewrite <- !app_assoc; reflexivity).
    apply G; [|repeat constructor].
    unfold load_ops. destruct (load_ok pl); repeat constructor.
Qed.

(** * Routing: out == in is the in-place path *)
Lemma route_no_out k pl p : file_ops k pl p NoOut = inplace_ops k pl p.
Proof. reflexivity. Qed.

Lemma route_same_file k pl p : file_ops k pl p (OutFile p) = inplace_ops k pl p.
Proof. unfold file_ops; simpl. now rewrite String.eqb_refl. Qed.

Lemma route_same_dir k pl p : file_ops k pl p (OutDir (dirpart p)) = inplace_ops k pl p.
Proof. unfold file_ops; simpl. now rewrite dirpart_basename, String.eqb_refl. Qed.

Lemma route_other_file k pl p o : o <> p -> file_ops k pl p (OutFile o) = direct_ops k pl p o.
Proof.
  intros H. unfold file_ops; simpl. destruct (String.eqb o p) eqn:E; auto.
  apply String.eqb_eq in E. contradiction.
Qed.

(** * files_in_to_out: the loop over the glob result *)
Lemma apply_new_ext xf k ps : forall d d', deq d d' -> deq (apply_new xf k ps d) (apply_new xf k ps d').
Proof.
  induction ps as [|p ps IH]; intros d d' H; cbn [apply_new]; [exact H|].
  rewrite <- (H p). destruct (lookup p d) as [old|]; [|now apply IH].
  destruct (xf old) as [pl|]; [|now apply IH].
  destruct (new_of k pl) as [nw|]; [|now apply IH].
  apply IH. now apply deq_dset.
Qed.

Lemma apply_new_notin xf k ps : forall d q, ~ In q ps -> lookup q (apply_new xf k ps d) = lookup q d.
Proof.
  induction ps as [|p ps IH]; intros d q H; cbn [apply_new]; [reflexivity|].
  assert (Hp : p <> q) by (intros ->; apply H; now left).
  assert (Hq : ~ In q ps) by (intros X; apply H; now right).
  destruct (lookup p d) as [old|]; [|now apply IH].
  destruct (xf old) as [pl|]; [|now apply IH].
  destruct (new_of k pl) as [nw|]; [|now apply IH].
  rewrite IH by exact Hq. now apply lookup_dset_other.
Qed.

Lemma firstn_incl {A} (l : list A) : forall j x, In x (firstn j l) -> In x l.
Proof.
  induction l as [|a l IH]; intros [|j] x; simpl; try tauto.
  intros [H|H]; [now left | right; eauto].
Qed.

(** every file of [paths] is routed to the in-place path *)
Definition inplace_mode (m : outmode) (paths : list name) : Prop :=
  forall p, In p paths -> target p m = None \/ target p m = Some p.

Lemma inplace_mode_ops m paths k pl p :
  inplace_mode m paths -> In p paths -> file_ops k pl p m = inplace_ops k pl p.
Proof.
  intros H Hp. unfold file_ops. destruct (H p Hp) as [-> | ->]; [reflexivity|].
  now rewrite String.eqb_refl.
Qed.

(** the directory is that of "the first j files completely rewritten, the others as they
    were", give or take one extra name [t] that is not an entry of that directory *)
Definition snap_ok (xf : xform) (k : kind) (paths : list name) (d0 : dir) (s : st) : Prop :=
  exists j t, j <= List.length paths /\
    lookup t (apply_new xf k (firstn j paths) d0) = None /\
    forall q, q <> t -> lookup q (sd s) = lookup q (apply_new xf k (firstn j paths) d0).

Lemma match_notdone {A} (o : outcome) (x y : A) :
  o <> Done -> match o with Done => x | _ => y end = y.
Proof. destruct o; congruence. Qed.

Theorem loop_spec nm F xf k m : fresh_namer nm ->
  forall paths, inplace_mode m paths -> forall n s0, in_try s0 = false ->
  let r := run_files nm F xf k m paths n s0 in
  Forall (snap_ok xf k paths (sd s0)) (all_states r) /\
  (outc r = Done -> deq (sd (final r)) (apply_new xf k paths (sd s0))) /\
  (forall e, outc r = Raised e -> rmfail r = false ->
     (forall kk, stop r <> Some (kk, CloseSrc)) ->
     exists j, j <= List.length paths /\
               deq (sd (final r)) (apply_new xf k (firstn j paths) (sd s0))).
Proof.
  intros Hf. induction paths as [|p rest IH]; intros Hm n s0 Hi0.
  - cbn [run_files]. split; [|split].
    + unfold all_states; simpl. constructor; [|constructor].
      exists 0, (nm (sd s0) ""). simpl. split; [lia|]. split; [apply Hf | auto].
    + intros _. apply deq_refl.
    + discriminate.
  - assert (Hm' : inplace_mode m rest) by (intros q Hq; apply Hm; now right).
    cbn [run_files].
    destruct (lookup p (sd s0)) as [old|] eqn:Ep.
    2:{ (* not a file: skipped *)
      destruct (IH Hm' n s0 Hi0) as (I1 & I2 & I3). split; [|split].
      - eapply Forall_impl; [|exact I1]. intros s (j & t & J1 & J2 & J3).
        exists (S j), t. cbn [firstn apply_new length]. rewrite Ep. split; [lia|]. auto.
      - intros H. cbn [apply_new]. rewrite Ep. auto.
      - intros e H1 H2 H3. destruct (I3 e H1 H2 H3) as (j & J1 & J2).
        exists (S j). cbn [firstn apply_new length]. rewrite Ep. split; [lia | exact J2]. }
    destruct (xf old) as [pl|] eqn:Ex.
    2:{ split; [|split]; [|discriminate|discriminate].
        unfold all_states; simpl. constructor; [|constructor].
        exists 0, (nm (sd s0) ""). simpl. split; [lia|]. split; [apply Hf | auto]. }
    rewrite (inplace_mode_ops m (p :: rest) k pl p Hm (or_introl eq_refl)).
    assert (Hs : lookup p (sd s0) <> None) by congruence.
    pose proof (inplace_spec nm F k pl p s0 n Hf Hs Hi0) as S1.
    set (r1 := run_ops nm F (inplace_ops k pl p) n s0) in *.
    assert (H1 : forall s, okst nm p s0 (new_of k pl) s -> snap_ok xf k (p :: rest) (sd s0) s).
    { intros s [(A & B)|(nw & E & A & B)].
      - exists 0, (nm (sd s0) (dirpart p)). simpl. split; [lia|]. split; [apply Hf | exact B].
      - exists 1, (nm (dset p nw (sd s0)) ""). cbn [firstn apply_new length].
        rewrite Ep, Ex, E. cbn [apply_new]. split; [lia|]. split; [apply Hf|].
        intros q _. rewrite B, lookup_dset. reflexivity. }
    pose proof (sp_states _ _ _ _ _ S1) as St.
    assert (Hstuck : outc r1 <> Done ->
              Forall (snap_ok xf k (p :: rest) (sd s0)) (all_states r1) /\
              (outc r1 = Done -> deq (sd (final r1)) (apply_new xf k (p :: rest) (sd s0))) /\
              (forall e, outc r1 = Raised e -> rmfail r1 = false ->
                 (forall kk, stop r1 <> Some (kk, CloseSrc)) ->
                 exists j, j <= List.length (p :: rest) /\
                   deq (sd (final r1)) (apply_new xf k (firstn j (p :: rest)) (sd s0)))).
    { intros Hnd. split; [|split].
      - eapply Forall_impl; [|exact St]. exact H1.
      - intros H. congruence.
      - intros e He Hr Hst. exists 0. simpl. split; [lia|].
        exact (sp_raise _ _ _ _ _ S1 e He Hr Hst). }
    assert (Hdec : outc r1 = Done \/ outc r1 <> Done)
      by (destruct (outc r1); [now left | right; discriminate ..]).
    destruct Hdec as [Ho|Ho]; [rewrite Ho | rewrite match_notdone by exact Ho; now apply Hstuck].
    + (* this file is done: on to the rest, from a directory that is the start one with p new *)
      destruct (sp_done _ _ _ _ _ S1 Ho) as (nw & E & (_ & B) & Hi1).
      assert (Hd : deq (sd (final r1)) (dset p nw (sd s0))).
      { intros q. rewrite B, lookup_dset. reflexivity. }
      destruct (IH Hm' (next r1) (final r1) Hi1) as (I1 & I2 & I3). split; [|split].
      * rewrite all_states_prepend. apply Forall_app. split.
        -- unfold all_states in St. apply Forall_app in St. destruct St as [St _].
           eapply Forall_impl; [|exact St]. exact H1.
        -- eapply Forall_impl; [|exact I1]. intros s (j & t & J1 & J2 & J3).
           exists (S j), t. cbn [firstn apply_new length]. rewrite Ep, Ex, E.
           split; [lia|].
           pose proof (apply_new_ext xf k (firstn j rest) _ _ Hd) as X. split.
           ++ rewrite <- X. exact J2.
           ++ intros q Hq. rewrite <- X. auto.
      * cbn [prepend outc final]. intros H. cbn [apply_new]. rewrite Ep, Ex, E.
        intros q. rewrite (I2 H q). apply apply_new_ext. exact Hd.
      * cbn [prepend outc final rmfail stop]. intros e H2 H3 H4.
        destruct (I3 e H2 H3 H4) as (j & J1 & J2).
        exists (S j). cbn [firstn apply_new length]. rewrite Ep, Ex, E. split; [lia|].
        intros q. rewrite (J2 q). apply apply_new_ext. exact Hd.
Qed.

(** files the glob did not return are never touched *)
Theorem unmatched_untouched nm F xf k m paths n s0 :
  fresh_namer nm -> inplace_mode m paths -> in_try s0 = false ->
  Forall (fun s => exists t, forall q, ~ In q paths -> q <> t ->
                                       lookup q (sd s) = lookup q (sd s0))
         (all_states (run_files nm F xf k m paths n s0)).
Proof.
  intros Hf Hm Hi. destruct (loop_spec nm F xf k m Hf paths Hm n s0 Hi) as [H _].
  eapply Forall_impl; [|exact H]. intros s (j & t & _ & _ & J). exists t. intros q Hq Hq2.
  rewrite J by exact Hq2. apply apply_new_notin. intros X. apply Hq. eapply firstn_incl; eauto.
Qed.
