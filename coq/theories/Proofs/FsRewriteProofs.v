(** Proofs/FsRewriteProofs.v — placeholder, to be written. *)
