(** Proofs/FsRewriteProofs.v — lemmas about Model/FsRewrite.v (C15). *)
From PV Require Import FsRewrite.
From Coq Require Import Lia.
Open Scope string_scope.

(** * Directories *)
Lemma lookup_dset_same n b d : lookup n (dset n b d) = Some b.
Proof.
  induction d as [|[m c] r IH]; simpl.
  - now rewrite String.eqb_refl.
  - destruct (String.eqb n m) eqn:E; simpl; rewrite E; auto.
Qed.

Lemma lookup_dset_other n m b d : n <> m -> lookup m (dset n b d) = lookup m d.
Proof.
  intros H. induction d as [|[x c] r IH]; simpl.
  - destruct (String.eqb m n) eqn:E; [apply String.eqb_eq in E; congruence | reflexivity].
  - destruct (String.eqb n x) eqn:E; simpl.
    + apply String.eqb_eq in E; subst x.
      destruct (String.eqb m n) eqn:E2; [apply String.eqb_eq in E2; congruence | reflexivity].
    + now rewrite IH.
Qed.

Lemma lookup_dset n m b d :
  lookup m (dset n b d) = if String.eqb m n then Some b else lookup m d.
Proof.
  destruct (String.eqb m n) eqn:E.
  - apply String.eqb_eq in E; subst. apply lookup_dset_same.
  - apply lookup_dset_other. intros ->. now rewrite String.eqb_refl in E.
Qed.

Lemma lookup_dremove_same n d : lookup n (dremove n d) = None.
Proof.
  induction d as [|[m c] r IH]; simpl; auto.
  destruct (String.eqb n m) eqn:E; simpl; auto. now rewrite E.
Qed.

Lemma lookup_dremove_other n m d : n <> m -> lookup m (dremove n d) = lookup m d.
Proof.
  intros H. induction d as [|[x c] r IH]; simpl; auto.
  destruct (String.eqb n x) eqn:E; simpl.
  - apply String.eqb_eq in E; subst x.
    destruct (String.eqb m n) eqn:E2; [apply String.eqb_eq in E2; congruence | exact IH].
  - now rewrite IH.
Qed.

Lemma lookup_dremove n m d :
  lookup m (dremove n d) = if String.eqb m n then None else lookup m d.
Proof.
  destruct (String.eqb m n) eqn:E.
  - apply String.eqb_eq in E; subst. apply lookup_dremove_same.
  - apply lookup_dremove_other. intros ->. now rewrite String.eqb_refl in E.
Qed.

(** extensional equality of directories *)
Definition deq (d d' : dir) : Prop := forall q, lookup q d = lookup q d'.

Lemma deq_refl d : deq d d.
Proof. intro; reflexivity. Qed.

Lemma deq_dset p b d d' : deq d d' -> deq (dset p b d) (dset p b d').
Proof. intros H q. rewrite !lookup_dset. destruct (String.eqb q p); auto. Qed.

(** * The concrete name supply is fresh *)
Lemma length_append a b : String.length (a ++ b) = String.length a + String.length b.
Proof. induction a; simpl; auto. Qed.

Lemma length_repeat_char c n : String.length (repeat_char c n) = n.
Proof. induction n; simpl; auto. Qed.

Lemma lookup_some_maxlen n d b : lookup n d = Some b -> String.length n <= maxlen d.
Proof.
  induction d as [|[m c] r IH]; simpl; [discriminate|].
  destruct (String.eqb n m) eqn:E.
  - apply String.eqb_eq in E; subst. lia.
  - intros H. specialize (IH H). lia.
Qed.

Lemma default_namer_fresh : fresh_namer default_namer.
Proof.
  intros d pre. unfold default_namer.
  destruct (lookup _ d) eqn:E; [|reflexivity].
  apply lookup_some_maxlen in E.
  rewrite !length_append, length_repeat_char in E. simpl in E. lia.
Qed.

(** * Paths *)
Lemma dirpart_basename s : dirpart s ++ basename s = s.
Proof.
  induction s as [|c r IH]; [reflexivity|].
  cbn [dirpart basename contains_char].
  destruct (contains_char "/" r) eqn:E.
  - rewrite Bool.orb_true_r. simpl. now rewrite IH.
  - rewrite Bool.orb_false_r. destruct (Ascii.eqb "/" c) eqn:E2.
    + apply Ascii.eqb_eq in E2; subst c. simpl.
      f_equal. clear IH. destruct r as [|c' r']; [reflexivity|].
      simpl in E. simpl. now rewrite E.
    + assert (Ascii.eqb c "/" = false) as ->.
      { rewrite Ascii.eqb_sym. exact E2. }
      reflexivity.
Qed.

(** * Clean-up paths never touch the directory *)
Definition core_eq (s s' : st) : Prop :=
  sd s' = sd s /\ nrep s' = nrep s /\ wname s' = wname s.

Lemma core_eq_refl s : core_eq s s.
Proof. repeat split. Qed.

Lemma core_eq_trans a b c : core_eq a b -> core_eq b c -> core_eq a c.
Proof. unfold core_eq. intros (?&?&?) (?&?&?). repeat split; congruence. Qed.

Lemma core_set_src b s : core_eq s (set_src b s).
Proof. repeat split. Qed.

Lemma core_set_w ts s : core_eq s (set_w ts s).
Proof.
  unfold set_w, core_eq, wname. destruct (wh s) as [[t x]|] eqn:E; simpl; rewrite ?E; auto.
Qed.

Ltac fa := repeat (first [apply Forall_nil | apply Forall_cons]).

Ltac fa_core :=
  repeat (first [apply Forall_nil | apply Forall_cons]);
  try first [ assumption
            | apply core_set_src
            | eapply core_eq_trans; [eassumption | apply core_set_src] ].

Lemma unwind_core F n s e : Forall (core_eq s) (all_states (unwind F n s e)).
Proof.
  unfold unwind, all_states.
  pose proof (core_eq_refl s) as R.
  pose proof (core_set_w TBroken s) as RB. pose proof (core_set_w TClosed s) as RC.
  destruct (wh_is_open s).
  - destruct (F n); simpl.
    + destruct (src_open (set_w TClosed s)) eqn:O; [destruct (F (S n))|]; simpl; fa_core.
    + destruct (src_open (set_w TBroken s)) eqn:O; [destruct (F (S n))|]; simpl; fa_core.
    + fa_core.
  - destruct (src_open s); [destruct (F n)|]; simpl; fa_core.
Qed.

Lemma unwind_not_done F n s e : outc (unwind F n s e) <> Done.
Proof.
  unfold unwind.
  destruct (wh_is_open s).
  - destruct (F n); simpl.
    + destruct (src_open (set_w TClosed s)); [destruct (F (S n))|]; simpl; discriminate.
    + destruct (src_open (set_w TBroken s)); [destruct (F (S n))|]; simpl; discriminate.
    + discriminate.
  - destruct (src_open s); [destruct (F n)|]; simpl; discriminate.
Qed.

Lemma unwind_stop F n s e : stop (unwind F n s e) = None.
Proof.
  unfold unwind.
  destruct (wh_is_open s).
  - destruct (F n); simpl.
    + destruct (src_open (set_w TClosed s)); [destruct (F (S n))|]; reflexivity.
    + destruct (src_open (set_w TBroken s)); [destruct (F (S n))|]; reflexivity.
    + reflexivity.
  - destruct (src_open s); [destruct (F n)|]; reflexivity.
Qed.

(** an unwinding that is not killed ends in an exception *)
Lemma unwind_outcome F n s e :
  outc (unwind F n s e) = Crashed \/ exists e', outc (unwind F n s e) = Raised e'.
Proof.
  unfold unwind.
  destruct (wh_is_open s).
  - destruct (F n); simpl.
    + destruct (src_open (set_w TClosed s)); [destruct (F (S n))|]; simpl; eauto.
    + destruct (src_open (set_w TBroken s)); [destruct (F (S n))|]; simpl; eauto.
    + eauto.
  - destruct (src_open s); [destruct (F n)|]; simpl; eauto.
Qed.

(** * run_ops: generic facts *)
Lemma prepend_nil r : prepend [] r = r.
Proof. destruct r; reflexivity. Qed.

Lemma all_states_prepend h r : all_states (prepend h r) = (map snd h ++ all_states r)%list.
Proof. unfold all_states, prepend; simpl. now rewrite map_app, app_assoc. Qed.

Lemma all_states_with_stop x r : all_states (with_stop x r) = all_states r.
Proof. reflexivity. Qed.

Lemma final_in_all_states r : In (final r) (all_states r).
Proof. unfold all_states. apply in_or_app. right. now left. Qed.

Lemma handler_not_done nm F o n s e : outc (handler nm F o n s e) <> Done.
Proof.
  destruct o; simpl; try apply unwind_not_done.
  destruct (F n); simpl; try apply unwind_not_done. discriminate.
Qed.

Lemma handler_stop nm F o n s e : stop (handler nm F o n s e) = None.
Proof.
  destruct o; simpl; try apply unwind_stop.
  destruct (F n); simpl; try apply unwind_stop. reflexivity.
Qed.

Lemma handler_plain nm F o n s e :
  (forall d, o <> Replace d) -> handler nm F o n s e = unwind F n s e.
Proof. destruct o; intros H; try reflexivity. exfalso. eapply H; reflexivity. Qed.

(** the main line composes: running [pre ++ post] is running [pre] and, if that completes,
    [post] from where it ended *)
Lemma run_ops_app nm F pre post : forall n s,
  run_ops nm F (pre ++ post) n s =
  match outc (run_ops nm F pre n s) with
  | Done => prepend (hist (run_ops nm F pre n s))
                    (run_ops nm F post (next (run_ops nm F pre n s)) (final (run_ops nm F pre n s)))
  | _ => run_ops nm F pre n s
  end.
Proof.
  induction pre as [|o pre IH]; intros n s.
  - simpl. now rewrite prepend_nil.
  - cbn [app run_ops]. destruct (visible o).
    + destruct (F n).
      * rewrite IH. cbn [outc prepend].
        destruct (outc (run_ops nm F pre (S n) (exec nm o s))); reflexivity.
      * cbn [outc with_stop prepend].
        destruct (outc (handler nm F o (S n) (fail_effect o s) (EInj n))) eqn:E; try reflexivity.
        exfalso. eapply handler_not_done; eauto.
      * reflexivity.
    + cbn [outc with_stop].
      destruct (outc (unwind F n s (data_exn o))) eqn:E; try reflexivity.
      exfalso. eapply unwind_not_done; eauto.
Qed.

Lemma run_ops_done nm F ops : forall n s,
  outc (run_ops nm F ops n s) = Done ->
  stop (run_ops nm F ops n s) = None /\ Forall (fun o => visible o = true) ops.
Proof.
  induction ops as [|o ops IH]; intros n s; cbn [run_ops].
  - intros _. split; [reflexivity | constructor].
  - destruct (visible o) eqn:V.
    + destruct (F n); cbn [outc with_stop prepend stop].
      * intros H. destruct (IH _ _ H). split; auto.
      * intros H. exfalso. eapply handler_not_done; eauto.
      * discriminate.
    + cbn [outc with_stop]. intros H. exfalso. eapply unwind_not_done; eauto.
Qed.

Lemma run_ops_stop_in nm F ops : forall n s k o,
  stop (run_ops nm F ops n s) = Some (k, o) -> In o ops.
Proof.
  induction ops as [|o' ops IH]; intros n s k o; cbn [run_ops].
  - discriminate.
  - destruct (visible o').
    + destruct (F n); cbn [with_stop prepend stop].
      * intros H. right. eapply IH; eauto.
      * intros H. inversion H; subst. now left.
      * discriminate.
    + cbn [with_stop stop]. intros H. inversion H; subst. now left.
Qed.

(** ** steps that never touch the directory *)
Definition nosd (o : op) : bool :=
  match o with OpenRead _ | LoadFail | CloseSrc | CloseW => true | _ => false end.

Lemma exec_nosd nm o s : nosd o = true -> core_eq s (exec nm o s).
Proof.
  destruct o; simpl; try discriminate; intros _;
    first [apply core_set_src | apply core_set_w | apply core_eq_refl].
Qed.

Lemma fail_effect_core o s : core_eq s (fail_effect o s).
Proof.
  destruct o; simpl; first [apply core_set_src | apply core_set_w | apply core_eq_refl].
Qed.

Lemma Forall_core_trans s s1 l : core_eq s s1 -> Forall (core_eq s1) l -> Forall (core_eq s) l.
Proof.
  intros H. apply Forall_impl. intros a Ha. eapply core_eq_trans; eauto.
Qed.

Lemma run_nosd nm F ops : Forall (fun o => nosd o = true) ops ->
  forall n s, Forall (core_eq s) (all_states (run_ops nm F ops n s)).
Proof.
  induction 1 as [|o ops Ho Hops IH]; intros n s; cbn [run_ops].
  - unfold all_states; simpl. repeat constructor.
  - destruct (visible o).
    + destruct (F n).
      * rewrite all_states_prepend. simpl. constructor; [apply core_eq_refl|].
        eapply Forall_core_trans; [apply exec_nosd; exact Ho | apply IH].
      * rewrite all_states_with_stop, all_states_prepend. simpl.
        constructor; [apply core_eq_refl|].
        rewrite handler_plain by (intros d ->; discriminate).
        eapply Forall_core_trans; [apply fail_effect_core | apply unwind_core].
      * unfold all_states; simpl. repeat constructor.
    + rewrite all_states_with_stop. apply unwind_core.
Qed.

(** ** steps between the creation of the temp file and the rename: they only ever touch the
    file behind the write handle, which keeps existing *)
Definition classB (o : op) : bool :=
  match o with Write _ | FmtFail | CloseW | CloseSrc => true | _ => false end.

Definition relB (t : name) (s s' : st) : Prop :=
  nrep s' = nrep s /\ wname s' = Some t /\
  (forall q, q <> t -> lookup q (sd s') = lookup q (sd s)) /\ lookup t (sd s') <> None.

Lemma relB_core t s s1 s2 : relB t s s1 -> core_eq s1 s2 -> relB t s s2.
Proof.
  intros (A & B & C & D) (E & G & H). repeat split.
  - congruence.
  - congruence.
  - intros q Hq. rewrite E. auto.
  - rewrite E. exact D.
Qed.

Lemma relB_trans t s s1 s2 : relB t s s1 -> relB t s1 s2 -> relB t s s2.
Proof.
  intros (A & B & C & D) (A' & B' & C' & D'). repeat split; try congruence.
  intros q Hq. rewrite C' by auto. auto.
Qed.

Lemma relB_refl t s : wname s = Some t -> lookup t (sd s) <> None -> relB t s s.
Proof. intros. repeat split; auto. Qed.

Lemma exec_classB nm o s t :
  classB o = true -> wname s = Some t -> lookup t (sd s) <> None -> relB t s (exec nm o s).
Proof.
  intros Ho Hw Ht.
  destruct o; simpl in Ho; try discriminate.
  - (* CloseSrc *) eapply relB_core; [apply relB_refl; auto | apply core_set_src].
  - (* FmtFail *) apply relB_refl; auto.
  - (* Write *)
    unfold wname in Hw. simpl. destruct (wh s) as [[t' x]|] eqn:W; [|discriminate].
    inversion Hw; subst t'.
    destruct (lookup t (sd s)) as [b|] eqn:L; [|congruence].
    unfold relB, set_sd, wname; simpl. rewrite W. repeat split.
    + intros q Hq. apply lookup_dset_other. congruence.
    + rewrite lookup_dset_same. discriminate.
  - (* CloseW *) eapply relB_core; [apply relB_refl; auto | apply core_set_w].
Qed.

Lemma Forall_relB_trans t s s1 l : relB t s s1 -> Forall (relB t s1) l -> Forall (relB t s) l.
Proof. intros H. apply Forall_impl. intros a Ha. eapply relB_trans; eauto. Qed.

Lemma Forall_relB_core t s s1 l : relB t s s1 -> Forall (core_eq s1) l -> Forall (relB t s) l.
Proof. intros H. apply Forall_impl. intros a Ha. eapply relB_core; eauto. Qed.

Lemma run_classB nm F t ops : Forall (fun o => classB o = true) ops ->
  forall n s, wname s = Some t -> lookup t (sd s) <> None ->
  Forall (relB t s) (all_states (run_ops nm F ops n s)).
Proof.
  induction 1 as [|o ops Ho Hops IH]; intros n s Hw Ht; cbn [run_ops].
  - unfold all_states; simpl. repeat constructor; auto.
  - pose proof (relB_refl t s Hw Ht) as R.
    destruct (visible o).
    + destruct (F n).
      * rewrite all_states_prepend. simpl. constructor; [exact R|].
        pose proof (exec_classB nm o s t Ho Hw Ht) as E.
        eapply Forall_relB_trans; [exact E|].
        destruct E as (_ & E2 & _ & E4). apply IH; auto.
      * rewrite all_states_with_stop, all_states_prepend. simpl. constructor; [exact R|].
        rewrite handler_plain by (intros d ->; discriminate).
        eapply Forall_relB_core; [exact R|].
        eapply Forall_core_trans; [apply fail_effect_core | apply unwind_core].
      * unfold all_states; simpl. repeat constructor; auto.
    + rewrite all_states_with_stop. eapply Forall_relB_core; [exact R | apply unwind_core].
Qed.

(** ** the write loop: if it completes, the temp file holds every chunk, in order *)
Lemma append_nil_r (s : string) : s ++ "" = s.
Proof. induction s; simpl; congruence. Qed.

Lemma append_assoc (a b c : string) : (a ++ b) ++ c = a ++ (b ++ c).
Proof. induction a; simpl; congruence. Qed.

Lemma run_items_done nm F tail : Forall (fun o => nosd o = true) tail ->
  forall its n s t b0,
  wname s = Some t -> lookup t (sd s) = Some b0 ->
  outc (run_ops nm F (map item_op its ++ tail) n s) = Done ->
  exists c, concat_items its = Some c /\
            lookup t (sd (final (run_ops nm F (map item_op its ++ tail) n s))) = Some (b0 ++ c) /\
            wname (final (run_ops nm F (map item_op its ++ tail) n s)) = Some t.
Proof.
  intros Htail. induction its as [|[c|] its IH]; intros n s t b0 Hw Ht Hd.
  - simpl in *. exists "". split; [reflexivity|].
    pose proof (run_nosd nm F tail Htail n s) as H.
    rewrite Forall_forall in H. destruct (H _ (final_in_all_states _)) as (E1 & _ & E3).
    rewrite E1, E3, append_nil_r. auto.
  - cbn [map app item_op run_ops visible] in *.
    destruct (F n).
    + cbn [outc prepend final] in *.
      assert (W : wname (exec nm (Write c) s) = Some t /\
                  lookup t (sd (exec nm (Write c) s)) = Some (b0 ++ c)).
      { unfold wname in Hw. simpl. destruct (wh s) as [[t' x]|] eqn:W; [|discriminate].
        inversion Hw; subst t'. rewrite Ht. unfold set_sd, wname; simpl. rewrite W.
        split; [reflexivity | apply lookup_dset_same]. }
      destruct W as [W1 W2].
      destruct (IH _ _ _ _ W1 W2 Hd) as (c' & C1 & C2 & C3).
      exists (c ++ c'). cbn [concat_items]. rewrite C1. split; [reflexivity|].
      rewrite C2, append_assoc. auto.
    + cbn [outc with_stop prepend] in Hd. exfalso. eapply handler_not_done; eauto.
    + discriminate.
  - cbn [map app item_op run_ops visible] in *. cbn [outc with_stop] in Hd.
    exfalso. eapply unwind_not_done; eauto.
Qed.

(** * One in-place rewrite: A ++ [MkTemp] ++ (writes ++ closes) ++ [Replace] *)
Definition classA (o : op) : bool :=
  match o with OpenRead _ | LoadFail | CloseSrc => true | _ => false end.
Definition tailT (o : op) : bool :=
  match o with CloseW | CloseSrc => true | _ => false end.
(** where the main line can fail: before the temp file exists ... *)
Definition early (o : op) : bool :=
  match o with OpenRead _ | LoadFail | MkTemp _ => true | _ => false end.
(** ... or while it is being filled and closed *)
Definition late (o : op) : bool :=
  match o with Write _ | FmtFail | CloseW => true | _ => false end.

(** before the rename: nothing but the temp name [t] differs from the start *)
Definition phaseB (t : name) (s0 s : st) : Prop :=
  nrep s = nrep s0 /\ forall q, q <> t -> lookup q (sd s) = lookup q (sd s0).
(** after it: the start directory with [src] holding the complete new bytes, nothing else *)
Definition phaseC (src : name) (nw : bytes) (s0 s : st) : Prop :=
  nrep s = S (nrep s0) /\
  forall q, lookup q (sd s) = if String.eqb q src then Some nw else lookup q (sd s0).

Section OneFile.
Variables (nm : namer) (F : nat -> fmode) (src : name) (s0 : st) (nwo : option bytes).
Let t := nm (sd s0) (dirpart src).
Hypothesis Hfresh : lookup t (sd s0) = None.
Hypothesis Hsrc : lookup src (sd s0) <> None.

Definition okst (s : st) : Prop :=
  phaseB t s0 s \/ exists nw, nwo = Some nw /\ phaseC src nw s0 s.

Record Spec (r : result) : Prop := mkSpec {
  sp_states : Forall okst (all_states r);
  sp_done : outc r = Done -> exists nw, nwo = Some nw /\ phaseC src nw s0 (final r);
  sp_notdone : outc r <> Done -> phaseB t s0 (final r);
  sp_early : forall k o, stop r = Some (k, o) -> early o = true -> sd (final r) = sd s0;
  sp_replace : forall k d, stop r = Some (k, Replace d) -> F (S k) = NoFault ->
               deq (sd (final r)) (sd s0);
  sp_late : forall k o, stop r = Some (k, o) -> late o = true ->
            lookup t (sd (final r)) <> None
}.

Lemma t_neq_src : t <> src.
Proof. intros E. rewrite E in Hfresh. congruence. Qed.

Lemma phaseB_core s s' : phaseB t s0 s -> core_eq s s' -> phaseB t s0 s'.
Proof.
  intros (A & B) (E1 & E2 & _). split; [congruence|]. intros q Hq. rewrite E1. auto.
Qed.

Lemma phaseB_relB s s' : phaseB t s0 s -> relB t s s' -> phaseB t s0 s'.
Proof.
  intros (A & B) (E1 & _ & E3 & _). split; [congruence|].
  intros q Hq. rewrite E3 by auto. auto.
Qed.

Lemma Spec_prepend h r :
  Forall (phaseB t s0) (map snd h) -> Spec r -> Spec (prepend h r).
Proof.
  intros Hh [A B C D E G]. constructor; auto.
  rewrite all_states_prepend. apply Forall_app. split; [|exact A].
  eapply Forall_impl; [|exact Hh]. intros a Ha. now left.
Qed.

(** a run whose states all keep the directory of a phase-B state, and that does not complete *)
Lemma Spec_stuck sB r :
  phaseB t s0 sB -> Forall (core_eq sB) (all_states r) -> outc r <> Done ->
  (forall k o, stop r = Some (k, o) -> early o = true -> sd sB = sd s0) ->
  (forall k d, stop r = Some (k, Replace d) -> False) ->
  (forall k o, stop r = Some (k, o) -> late o = true -> lookup t (sd sB) <> None) ->
  Spec r.
Proof.
  intros HB Hall Hnd He Hr Hl.
  assert (Hfin : core_eq sB (final r)).
  { rewrite Forall_forall in Hall. apply Hall, final_in_all_states. }
  constructor.
  - eapply Forall_impl; [|exact Hall]. intros a Ha. left. eapply phaseB_core; eauto.
  - intros H. contradiction.
  - intros _. eapply phaseB_core; eauto.
  - intros k o H1 H2. destruct Hfin as (E & _). rewrite E. eauto.
  - intros k d H1 _. exfalso. eauto.
  - intros k o H1 H2. destruct Hfin as (E & _). rewrite E. eauto.
Qed.

(** the rename step *)
Lemma spec_replace n sB c :
  nwo = Some c -> phaseB t s0 sB -> wname sB = Some t -> lookup t (sd sB) = Some c ->
  Spec (run_ops nm F [Replace src] n sB).
Proof.
  intros Hn HB Hw Ht.
  cbn [run_ops visible]. destruct (F n) eqn:Fn.
  - (* the rename happens *)
    assert (HC : phaseC src c s0 (exec nm (Replace src) sB)).
    { unfold wname in Hw. simpl. destruct (wh sB) as [[t' x]|] eqn:W; [|discriminate].
      inversion Hw; subst t'. rewrite Ht. destruct HB as (B1 & B2).
      split; simpl; [congruence|].
      intros q. rewrite lookup_dremove, lookup_dset.
      destruct (String.eqb q t) eqn:Eq.
      - apply String.eqb_eq in Eq; subst q.
        destruct (String.eqb t src) eqn:E2.
        + apply String.eqb_eq in E2. exfalso. now apply t_neq_src.
        + now rewrite Hfresh.
      - destruct (String.eqb q src); [reflexivity|].
        apply B2. intros ->. now rewrite String.eqb_refl in Eq. }
    constructor; cbn [prepend run_ops final outc stop].
    + unfold all_states; simpl. constructor; [now left|].
      constructor; [|constructor]. right. eauto.
    + intros _. eauto.
    + intros H. congruence.
    + discriminate.
    + discriminate.
    + discriminate.
  - (* it raises: move_temp_file's handler *)
    cbn [fail_effect handler].
    destruct (F (S n)) eqn:Fn1.
    + (* the temp is removed *)
      set (sR := exec nm Remove sB).
      assert (HR : phaseB t s0 sR /\ deq (sd sR) (sd s0)).
      { unfold sR, wname in *. simpl. destruct (wh sB) as [[t' x]|] eqn:W; [|discriminate].
        inversion Hw; subst t'. destruct HB as (B1 & B2). unfold phaseB, deq, set_sd; simpl. split.
        - split; [exact B1|]. intros q Hq. rewrite lookup_dremove_other by congruence. auto.
        - intros q. rewrite lookup_dremove. destruct (String.eqb q t) eqn:Eq.
          + apply String.eqb_eq in Eq; subst q. now rewrite Hfresh.
          + apply B2. intros ->. now rewrite String.eqb_refl in Eq. }
      destruct HR as [HR1 HR2].
      pose proof (unwind_core F (S (S n)) sR (EInj n)) as U.
      assert (Hfin : core_eq sR (final (unwind F (S (S n)) sR (EInj n)))).
      { rewrite Forall_forall in U. apply U, final_in_all_states. }
      constructor; cbn [with_stop prepend final outc stop].
      * rewrite all_states_with_stop, !all_states_prepend. simpl.
        constructor; [now left|]. constructor; [now left|].
        eapply Forall_impl; [|exact U]. intros a Ha. left. eapply phaseB_core; eauto.
      * intros H. exfalso. eapply unwind_not_done; eauto.
      * intros _. eapply phaseB_core; eauto.
      * intros k o H. inversion H; subst. discriminate.
      * intros k d H _. destruct Hfin as (E & _). rewrite E. exact HR2.
      * intros k o H. inversion H; subst. discriminate.
    + (* the remove fails too: logged, the first error propagates, the temp stays *)
      pose proof (unwind_core F (S (S n)) sB (EInj n)) as U.
      assert (Hfin : core_eq sB (final (unwind F (S (S n)) sB (EInj n)))).
      { rewrite Forall_forall in U. apply U, final_in_all_states. }
      constructor; cbn [with_stop prepend final outc stop].
      * rewrite all_states_with_stop, !all_states_prepend. simpl.
        constructor; [now left|]. constructor; [now left|].
        eapply Forall_impl; [|exact U]. intros a Ha. left. eapply phaseB_core; eauto.
      * intros H. exfalso. eapply unwind_not_done; eauto.
      * intros _. eapply phaseB_core; eauto.
      * intros k o H. inversion H; subst. discriminate.
      * intros k d H H2. inversion H; subst. congruence.
      * intros k o H. inversion H; subst. discriminate.
    + (* killed inside the handler *)
      constructor; cbn [with_stop prepend final outc stop].
      * unfold all_states; simpl. fa; now left.
      * discriminate.
      * intros _. exact HB.
      * intros k o H. inversion H; subst. discriminate.
      * intros k d H H2. inversion H; subst. congruence.
      * intros k o H. inversion H; subst. discriminate.
  - (* killed at the rename *)
    constructor; cbn [final outc stop].
    + unfold all_states; simpl. fa; now left.
    + discriminate.
    + intros _. exact HB.
    + discriminate.
    + discriminate.
    + discriminate.
Qed.

(** filling and closing the temp file, then the rename *)
Lemma spec_fill its tail n s2 :
  Forall (fun o => tailT o = true) tail ->
  nwo = concat_items its ->
  phaseB t s0 s2 -> wname s2 = Some t -> lookup t (sd s2) = Some "" ->
  Spec (run_ops nm F ((map item_op its ++ tail) ++ [Replace src]) n s2).
Proof.
  intros Htail Hn HB Hw Ht.
  assert (HclB : Forall (fun o => classB o = true) (map item_op its ++ tail)).
  { apply Forall_app. split.
    - rewrite Forall_forall. intros o Ho. apply in_map_iff in Ho.
      destruct Ho as ([c|] & <- & _); reflexivity.
    - eapply Forall_impl; [|exact Htail]. intros o; destruct o; simpl; congruence. }
  assert (Hnosd : Forall (fun o => nosd o = true) tail).
  { eapply Forall_impl; [|exact Htail]. intros o; destruct o; simpl; congruence. }
  assert (Ht' : lookup t (sd s2) <> None) by congruence.
  pose proof (run_classB nm F t _ HclB n s2 Hw Ht') as HBs.
  rewrite run_ops_app.
  set (rB := run_ops nm F (map item_op its ++ tail) n s2) in *.
  assert (Hfin : relB t s2 (final rB)).
  { rewrite Forall_forall in HBs. apply HBs, final_in_all_states. }
  destruct (outc rB) eqn:Ho.
  - (* the temp file is complete and closed *)
    destruct (run_items_done nm F tail Hnosd its n s2 t "" Hw Ht Ho) as (c & C1 & C2 & C3).
    fold rB in C2, C3. simpl in C2.
    apply Spec_prepend.
    + assert (Hall : Forall (relB t s2) (map snd (hist rB))).
      { unfold all_states in HBs. apply Forall_app in HBs. tauto. }
      eapply Forall_impl; [|exact Hall]. intros a Ha. eapply phaseB_relB; eauto.
    + eapply spec_replace; eauto.
      * congruence.
      * eapply phaseB_relB; eauto.
  - (* it raised *)
    constructor.
    + eapply Forall_impl; [|exact HBs]. intros a Ha. left. eapply phaseB_relB; eauto.
    + congruence.
    + intros _. eapply phaseB_relB; eauto.
    + intros k o H1 H2. apply run_ops_stop_in in H1.
      rewrite Forall_forall in HclB. specialize (HclB _ H1).
      destruct o; simpl in *; discriminate.
    + intros k d H1 _. apply run_ops_stop_in in H1.
      rewrite Forall_forall in HclB. specialize (HclB _ H1). discriminate.
    + intros k o _ _. destruct Hfin as (_ & _ & _ & E). exact E.
  - (* killed *)
    constructor.
    + eapply Forall_impl; [|exact HBs]. intros a Ha. left. eapply phaseB_relB; eauto.
    + congruence.
    + intros _. eapply phaseB_relB; eauto.
    + intros k o H1 H2. apply run_ops_stop_in in H1.
      rewrite Forall_forall in HclB. specialize (HclB _ H1).
      destruct o; simpl in *; discriminate.
    + intros k d H1 _. apply run_ops_stop_in in H1.
      rewrite Forall_forall in HclB. specialize (HclB _ H1). discriminate.
    + intros k o _ _. destruct Hfin as (_ & _ & _ & E). exact E.
  - (* not produced by run_ops, but harmless *)
    constructor.
    + eapply Forall_impl; [|exact HBs]. intros a Ha. left. eapply phaseB_relB; eauto.
    + congruence.
    + intros _. eapply phaseB_relB; eauto.
    + intros k o H1 H2. apply run_ops_stop_in in H1.
      rewrite Forall_forall in HclB. specialize (HclB _ H1).
      destruct o; simpl in *; discriminate.
    + intros k d H1 _. apply run_ops_stop_in in H1.
      rewrite Forall_forall in HclB. specialize (HclB _ H1). discriminate.
    + intros k o _ _. destruct Hfin as (_ & _ & _ & E). exact E.
Qed.

(** creating the temp file, and the rest *)
Lemma spec_mktemp its tail n sA :
  Forall (fun o => tailT o = true) tail ->
  nwo = concat_items its ->
  core_eq s0 sA ->
  Spec (run_ops nm F ([MkTemp src] ++ (map item_op its ++ tail) ++ [Replace src]) n sA).
Proof.
  intros Htail Hn HA.
  assert (HB0 : phaseB t s0 sA).
  { destruct HA as (E1 & E2 & _). split; [congruence|]. intros q _. now rewrite E1. }
  cbn [app run_ops visible]. destruct (F n) eqn:Fn.
  - (* created *)
    replace ((MkTemp src, sA) :: nil) with ([(MkTemp src, sA)]) by reflexivity.
    apply Spec_prepend; [simpl; fa; exact HB0|].
    assert (Et : nm (sd sA) (dirpart src) = t).
    { destruct HA as (E1 & _). unfold t. now rewrite E1. }
    apply spec_fill; auto.
    + destruct HA as (E1 & E2 & _). simpl. rewrite Et. split; [simpl; congruence|].
      intros q Hq. simpl. rewrite lookup_dset_other by congruence. now rewrite E1.
    + simpl. unfold wname; simpl. now rewrite Et.
    + simpl. rewrite Et. apply lookup_dset_same.
  - (* NamedTemporaryFile raises: nothing was created *)
    cbn [fail_effect handler].
    pose proof (unwind_core F (S n) sA (EInj n)) as U.
    eapply (Spec_stuck sA).
    + exact HB0.
    + rewrite all_states_with_stop, all_states_prepend. simpl.
      constructor; [apply core_eq_refl | exact U].
    + cbn [with_stop prepend outc]. apply unwind_not_done.
    + intros k o _ _. destruct HA as (E1 & _). exact E1.
    + cbn [with_stop stop]. intros k d H. inversion H.
    + cbn [with_stop stop]. intros k o H H2. inversion H; subst. discriminate.
  - (* killed *)
    eapply (Spec_stuck sA).
    + exact HB0.
    + unfold all_states; simpl. fa; apply core_eq_refl.
    + discriminate.
    + discriminate.
    + discriminate.
    + discriminate.
Qed.

(** the whole rewrite *)
Lemma spec_all A its tail n :
  Forall (fun o => classA o = true) A ->
  Forall (fun o => tailT o = true) tail ->
  nwo = concat_items its ->
  Spec (run_ops nm F (A ++ [MkTemp src] ++ (map item_op its ++ tail) ++ [Replace src]) n s0)
  /\ (outc (run_ops nm F (A ++ [MkTemp src] ++ (map item_op its ++ tail) ++ [Replace src]) n s0)
      = Done -> Forall (fun o => visible o = true) A).
Proof.
  intros HA Htail Hn.
  assert (HAn : Forall (fun o => nosd o = true) A).
  { eapply Forall_impl; [|exact HA]. intros o; destruct o; simpl; congruence. }
  pose proof (run_nosd nm F A HAn n s0) as HAs.
  rewrite run_ops_app.
  set (rA := run_ops nm F A n s0) in *.
  assert (Hfin : core_eq s0 (final rA)).
  { rewrite Forall_forall in HAs. apply HAs, final_in_all_states. }
  assert (HB0 : phaseB t s0 s0) by (split; auto).
  assert (Hstuck : outc rA <> Done -> Spec rA).
  { intros Hnd. eapply (Spec_stuck s0); auto.
    - intros k d H1. apply run_ops_stop_in in H1.
      rewrite Forall_forall in HA. specialize (HA _ H1). discriminate.
    - intros k o H1 H2. apply run_ops_stop_in in H1.
      rewrite Forall_forall in HA. specialize (HA _ H1).
      destruct o; simpl in *; discriminate. }
  destruct (outc rA) eqn:Ho.
  - split.
    + apply Spec_prepend.
      * assert (Hall : Forall (core_eq s0) (map snd (hist rA))).
        { unfold all_states in HAs. apply Forall_app in HAs. tauto. }
        eapply Forall_impl; [|exact Hall]. intros a Ha. eapply phaseB_core; eauto.
      * apply spec_mktemp; auto.
    + intros _. apply (run_ops_done nm F A n s0). exact Ho.
  - split; [apply Hstuck; congruence | rewrite Ho; discriminate].
  - split; [apply Hstuck; congruence | rewrite Ho; discriminate].
  - split; [apply Hstuck; congruence | rewrite Ho; discriminate].
Qed.

End OneFile.

(** * The two rewriters have that shape *)
Lemma stream_shape pl src :
  inplace_ops Stream pl src =
  ([OpenRead src] ++ [MkTemp src] ++ (map item_op (items pl) ++ [CloseW; CloseSrc]) ++ [Replace src])%list.
Proof. unfold inplace_ops. simpl. now rewrite <- app_assoc. Qed.

Lemma object_shape pl src :
  inplace_ops Object pl src =
  (([OpenRead src] ++ load_ops pl ++ [CloseSrc]) ++ [MkTemp src]
     ++ (map item_op (items pl) ++ [CloseW]) ++ [Replace src])%list.
Proof. unfold inplace_ops. simpl. rewrite <- !app_assoc. reflexivity. Qed.

Definition tmp_of (nm : namer) (s0 : st) (src : name) : name := nm (sd s0) (dirpart src).

Theorem inplace_spec nm F k pl src s0 n :
  fresh_namer nm -> lookup src (sd s0) <> None ->
  Spec nm F src s0 (new_of k pl) (run_ops nm F (inplace_ops k pl src) n s0).
Proof.
  intros Hf Hs. pose proof (Hf (sd s0) (dirpart src)) as Ht.
  destruct k.
  - rewrite stream_shape.
    refine (proj1 (spec_all nm F src s0 _ Ht Hs [OpenRead src] (items pl) [CloseW; CloseSrc] n
                     _ _ eq_refl)); repeat constructor.
  - destruct (load_ok pl) eqn:L.
    + rewrite object_shape. unfold new_of. rewrite L.
      refine (proj1 (spec_all nm F src s0 _ Ht Hs _ (items pl) [CloseW] n _ _ eq_refl));
        [|repeat constructor].
      unfold load_ops. rewrite L. repeat constructor.
    + (* the payload does not parse: the run ends before a temp file exists *)
      unfold new_of. rewrite L.
      replace (inplace_ops Object pl src)
        with (([OpenRead src; LoadFail] ++ [CloseSrc; MkTemp src] ++ map item_op (items pl)
                ++ [CloseW; Replace src])%list)
        by (unfold inplace_ops, load_ops; rewrite L; reflexivity).
      rewrite run_ops_app.
      set (rA := run_ops nm F [OpenRead src; LoadFail] n s0).
      assert (Hnd : outc rA <> Done).
      { intros H. apply run_ops_done in H. destruct H as [_ H].
        inversion H as [|? ? _ H2]. inversion H2 as [|? ? H3 _]. discriminate. }
      assert (Hall : Forall (core_eq s0) (all_states rA)).
      { apply run_nosd. repeat constructor. }
      assert (HS : Spec nm F src s0 None rA).
      { eapply (Spec_stuck nm F src s0 None s0); auto.
        - split; auto.
        - intros k d H. apply run_ops_stop_in in H. simpl in H.
          destruct H as [H|[H|[]]]; discriminate.
        - intros k o H H2. apply run_ops_stop_in in H. simpl in H.
          destruct H as [H|[H|[]]]; subst; discriminate. }
      destruct (outc rA); try exact HS. congruence.
Qed.

(** ** what the property asks of a single rewrite *)
Theorem source_old_or_new nm F k pl src old s0 n :
  fresh_namer nm -> lookup src (sd s0) = Some old ->
  Forall (fun s => (nrep s = nrep s0 /\ lookup src (sd s) = Some old) \/
                   (nrep s = S (nrep s0) /\
                    exists nw, new_of k pl = Some nw /\ lookup src (sd s) = Some nw))
         (all_states (run_ops nm F (inplace_ops k pl src) n s0)).
Proof.
  intros Hf Hs.
  assert (Hs' : lookup src (sd s0) <> None) by congruence.
  pose proof (sp_states _ _ _ _ _ _ (inplace_spec nm F k pl src s0 n Hf Hs')) as H.
  eapply Forall_impl; [|exact H]. intros s [(A & B)|(nw & E & A & B)].
  - left. split; auto. rewrite B; auto.
    intros E. pose proof (Hf (sd s0) (dirpart src)) as X. rewrite <- E in X. congruence.
  - right. split; auto. exists nw. split; auto. rewrite B. now rewrite String.eqb_refl.
Qed.

Theorem others_untouched nm F k pl src s0 n :
  fresh_namer nm -> lookup src (sd s0) <> None ->
  Forall (fun s => forall q, q <> src -> q <> tmp_of nm s0 src ->
                             lookup q (sd s) = lookup q (sd s0))
         (all_states (run_ops nm F (inplace_ops k pl src) n s0)).
Proof.
  intros Hf Hs.
  pose proof (sp_states _ _ _ _ _ _ (inplace_spec nm F k pl src s0 n Hf Hs)) as H.
  eapply Forall_impl; [|exact H]. intros s [(A & B)|(nw & E & A & B)] q Hq Hq2.
  - apply B. exact Hq2.
  - rewrite B. destruct (String.eqb q src) eqn:E2; auto.
    apply String.eqb_eq in E2. contradiction.
Qed.

Theorem success_same_entries nm F k pl src s0 n :
  fresh_namer nm -> lookup src (sd s0) <> None ->
  outc (run_ops nm F (inplace_ops k pl src) n s0) = Done ->
  exists nw, new_of k pl = Some nw /\
    forall q, lookup q (sd (final (run_ops nm F (inplace_ops k pl src) n s0)))
              = if String.eqb q src then Some nw else lookup q (sd s0).
Proof.
  intros Hf Hs Hd.
  destruct (sp_done _ _ _ _ _ _ (inplace_spec nm F k pl src s0 n Hf Hs) Hd) as (nw & E & _ & B).
  eauto.
Qed.

Theorem failure_leaves_old nm F k pl src old s0 n :
  fresh_namer nm -> lookup src (sd s0) = Some old ->
  outc (run_ops nm F (inplace_ops k pl src) n s0) <> Done ->
  lookup src (sd (final (run_ops nm F (inplace_ops k pl src) n s0))) = Some old /\
  nrep (final (run_ops nm F (inplace_ops k pl src) n s0)) = nrep s0.
Proof.
  intros Hf Hs Hd.
  assert (Hs' : lookup src (sd s0) <> None) by congruence.
  destruct (sp_notdone _ _ _ _ _ _ (inplace_spec nm F k pl src s0 n Hf Hs') Hd) as (A & B).
  split; auto. rewrite B; auto.
  intros E. pose proof (Hf (sd s0) (dirpart src)) as X. unfold tmp_of in *. rewrite <- E in X.
  congruence.
Qed.

(** the clean-up that IS there: failures before the temp exists, and a failing rename
    whose handler's remove works *)
Theorem raise_no_temp_partial nm F k pl src s0 n kk o :
  fresh_namer nm -> lookup src (sd s0) <> None ->
  stop (run_ops nm F (inplace_ops k pl src) n s0) = Some (kk, o) ->
  early o = true \/ ((exists d, o = Replace d) /\ F (S kk) = NoFault) ->
  deq (sd (final (run_ops nm F (inplace_ops k pl src) n s0))) (sd s0).
Proof.
  intros Hf Hs Hst [He|[(d & ->) Hr]].
  - rewrite (sp_early _ _ _ _ _ _ (inplace_spec nm F k pl src s0 n Hf Hs) _ _ Hst He).
    apply deq_refl.
  - exact (sp_replace _ _ _ _ _ _ (inplace_spec nm F k pl src s0 n Hf Hs) _ _ Hst Hr).
Qed.

(** the clean-up that is NOT there: any failure while the temp file is being filled or
    closed leaves it in the directory *)
Theorem late_failure_leaves_temp nm F k pl src s0 n kk o :
  fresh_namer nm -> lookup src (sd s0) <> None ->
  stop (run_ops nm F (inplace_ops k pl src) n s0) = Some (kk, o) -> late o = true ->
  lookup (tmp_of nm s0 src) (sd s0) = None /\
  lookup (tmp_of nm s0 src) (sd (final (run_ops nm F (inplace_ops k pl src) n s0))) <> None.
Proof.
  intros Hf Hs Hst Hl. split; [apply Hf|].
  exact (sp_late _ _ _ _ _ _ (inplace_spec nm F k pl src s0 n Hf Hs) _ _ Hst Hl).
Qed.

(** ** fault-free execution up to a formatting failure *)
Lemma unwind_nofault F n s e : (forall i, F i = NoFault) ->
  outc (unwind F n s e) = Raised e.
Proof.
  intros H. unfold unwind. rewrite !H.
  destruct (wh_is_open s); [destruct (src_open (set_w TClosed s))|destruct (src_open s)];
    reflexivity.
Qed.

Lemma run_nofault_done nm F ops : (forall i, F i = NoFault) ->
  Forall (fun o => visible o = true) ops ->
  forall n s, outc (run_ops nm F ops n s) = Done.
Proof.
  intros H. induction 1 as [|o ops Ho _ IH]; intros n s; cbn [run_ops]; [reflexivity|].
  rewrite Ho, H. cbn [prepend outc]. apply IH.
Qed.

Lemma is_some_visible (l : list (option bytes)) :
  Forall (fun i => i <> None) l -> Forall (fun o => visible o = true) (map item_op l).
Proof.
  induction 1 as [|[c|] l H _ IH]; simpl; constructor; auto; congruence.
Qed.

Theorem format_error_leaves_temp nm F k pl src old s0 n pre post :
  fresh_namer nm -> lookup src (sd s0) = Some old ->
  (forall i, F i = NoFault) ->
  (k = Object -> load_ok pl = true) ->
  items pl = (pre ++ None :: post)%list -> Forall (fun i => i <> None) pre ->
  let r := run_ops nm F (inplace_ops k pl src) n s0 in
  outc r = Raised EFormat /\
  lookup src (sd (final r)) = Some old /\
  lookup (tmp_of nm s0 src) (sd s0) = None /\
  lookup (tmp_of nm s0 src) (sd (final r)) <> None.
Proof.
  intros Hf Hs HF Hl Hi Hpre r.
  assert (Hs' : lookup src (sd s0) <> None) by congruence.
  assert (Hshape : exists P Q, inplace_ops k pl src = (P ++ FmtFail :: Q)%list /\
                               Forall (fun o => visible o = true) P).
  { destruct k.
    - exists ([OpenRead src; MkTemp src] ++ map item_op pre)%list.
      exists (map item_op post ++ [CloseW; CloseSrc; Replace src])%list. split.
      + unfold inplace_ops. rewrite Hi, map_app. simpl. rewrite <- !app_assoc. reflexivity.
      + apply Forall_app. split; [repeat constructor | now apply is_some_visible].
    - exists ([OpenRead src; CloseSrc; MkTemp src] ++ map item_op pre)%list.
      exists (map item_op post ++ [CloseW; Replace src])%list. split.
      + unfold inplace_ops, load_ops. rewrite (Hl eq_refl), Hi, map_app. simpl.
        rewrite <- !app_assoc. reflexivity.
      + apply Forall_app. split; [repeat constructor | now apply is_some_visible]. }
  destruct Hshape as (P & Q & HPQ & HP).
  assert (Hr : outc r = Raised EFormat /\ exists kk, stop r = Some (kk, FmtFail)).
  { unfold r. rewrite HPQ, run_ops_app, (run_nofault_done nm F P HF HP).
    cbn [run_ops visible prepend with_stop outc stop data_exn].
    split; [now apply unwind_nofault | eauto]. }
  destruct Hr as (Ho & kk & Hst).
  split; [exact Ho|].
  split.
  - apply (failure_leaves_old nm F k pl src old s0 n Hf Hs). fold r. congruence.
  - apply (late_failure_leaves_temp nm F k pl src s0 n kk FmtFail Hf Hs' Hst eq_refl).
Qed.

(** * out names another file: written directly, the source is only read *)
Theorem direct_spec nm F k pl src out s0 n :
  Forall (fun s => nrep s = nrep s0 /\ forall q, q <> out -> lookup q (sd s) = lookup q (sd s0))
         (all_states (run_ops nm F (direct_ops k pl src out) n s0)).
Proof.
  assert (G : forall A tail, Forall (fun o => nosd o = true) A ->
            Forall (fun o => classB o = true) tail ->
            Forall (fun s => nrep s = nrep s0 /\
                             forall q, q <> out -> lookup q (sd s) = lookup q (sd s0))
              (all_states (run_ops nm F (A ++ [OpenWrite out] ++ map item_op (items pl) ++ tail) n s0))).
  { intros A tail HA Htail.
    pose proof (run_nosd nm F A HA n s0) as HAs.
    assert (Pcore : forall s, core_eq s0 s ->
              nrep s = nrep s0 /\ forall q, q <> out -> lookup q (sd s) = lookup q (sd s0)).
    { intros s (E1 & E2 & _). split; auto. intros q _. now rewrite E1. }
    rewrite run_ops_app. set (rA := run_ops nm F A n s0) in *.
    assert (Hfin : core_eq s0 (final rA)).
    { rewrite Forall_forall in HAs. apply HAs, final_in_all_states. }
    destruct (outc rA); try (eapply Forall_impl; [|exact HAs]; auto).
    rewrite all_states_prepend. apply Forall_app. split.
    { unfold all_states in HAs. apply Forall_app in HAs. destruct HAs as [H _].
      eapply Forall_impl; [|exact H]; auto. }
    set (sA := final rA) in *. cbn [app run_ops visible]. destruct (F (next rA)).
    - rewrite all_states_prepend. simpl. constructor; [auto|].
      set (s2 := exec nm (OpenWrite out) sA).
      assert (H2 : wname s2 = Some out /\ lookup out (sd s2) <> None /\
                   nrep s2 = nrep s0 /\
                   forall q, q <> out -> lookup q (sd s2) = lookup q (sd s0)).
      { unfold s2; simpl. destruct Hfin as (E1 & E2 & _). repeat split; auto.
        - rewrite lookup_dset_same. discriminate.
        - intros q Hq. rewrite lookup_dset_other by congruence. now rewrite E1. }
      destruct H2 as (W & L & N & Q).
      assert (HB : Forall (fun o => classB o = true) (map item_op (items pl) ++ tail)).
      { apply Forall_app. split; auto. rewrite Forall_forall. intros o Ho.
        apply in_map_iff in Ho. destruct Ho as ([c|] & <- & _); reflexivity. }
      pose proof (run_classB nm F out _ HB (S (next rA)) s2 W L) as HBs.
      eapply Forall_impl; [|exact HBs]. intros s (B1 & _ & B3 & _). split; [congruence|].
      intros q Hq. rewrite B3; auto.
    - rewrite all_states_with_stop, all_states_prepend. simpl. constructor; [auto|].
      cbn [fail_effect handler].
      pose proof (unwind_core F (S (next rA)) sA (EInj (next rA))) as U.
      eapply Forall_impl; [|exact U]. intros s Hs. apply Pcore.
      eapply core_eq_trans; eauto.
    - unfold all_states; simpl. fa; auto. }
  destruct k; unfold direct_ops.
  - replace ([OpenRead src; OpenWrite out] ++ map item_op (items pl) ++ [CloseW; CloseSrc])%list
      with ([OpenRead src] ++ [OpenWrite out] ++ map item_op (items pl) ++ [CloseW; CloseSrc])%list
      by reflexivity.
    apply G; repeat constructor.
  - replace ([OpenRead src] ++ load_ops pl ++ [CloseSrc; OpenWrite out]
               ++ map item_op (items pl) ++ [CloseW])%list
      with (([OpenRead src] ++ load_ops pl ++ [CloseSrc]) ++ [OpenWrite out]
               ++ map item_op (items pl) ++ [CloseW])%list
      by (rewrite <- !app_assoc; reflexivity).
    apply G; [|repeat constructor].
    unfold load_ops. destruct (load_ok pl); repeat constructor.
Qed.

(** * Routing: out == in is the in-place path *)
Lemma route_no_out k pl p : file_ops k pl p NoOut = inplace_ops k pl p.
Proof. reflexivity. Qed.

Lemma route_same_file k pl p : file_ops k pl p (OutFile p) = inplace_ops k pl p.
Proof. unfold file_ops; simpl. now rewrite String.eqb_refl. Qed.

Lemma route_same_dir k pl p : file_ops k pl p (OutDir (dirpart p)) = inplace_ops k pl p.
Proof. unfold file_ops; simpl. now rewrite dirpart_basename, String.eqb_refl. Qed.

Lemma route_other_file k pl p o : o <> p -> file_ops k pl p (OutFile o) = direct_ops k pl p o.
Proof.
  intros H. unfold file_ops; simpl. destruct (String.eqb o p) eqn:E; auto.
  apply String.eqb_eq in E. contradiction.
Qed.

(** * files_in_to_out: the loop over the glob result *)
Lemma apply_new_ext xf k ps : forall d d', deq d d' -> deq (apply_new xf k ps d) (apply_new xf k ps d').
Proof.
  induction ps as [|p ps IH]; intros d d' H; cbn [apply_new]; [exact H|].
  rewrite <- (H p). destruct (lookup p d) as [old|]; [|now apply IH].
  destruct (xf old) as [pl|]; [|now apply IH].
  destruct (new_of k pl) as [nw|]; [|now apply IH].
  apply IH. now apply deq_dset.
Qed.

Lemma apply_new_notin xf k ps : forall d q, ~ In q ps -> lookup q (apply_new xf k ps d) = lookup q d.
Proof.
  induction ps as [|p ps IH]; intros d q H; cbn [apply_new]; [reflexivity|].
  assert (Hp : p <> q) by (intros ->; apply H; now left).
  assert (Hq : ~ In q ps) by (intros X; apply H; now right).
  destruct (lookup p d) as [old|]; [|now apply IH].
  destruct (xf old) as [pl|]; [|now apply IH].
  destruct (new_of k pl) as [nw|]; [|now apply IH].
  rewrite IH by exact Hq. now apply lookup_dset_other.
Qed.

Lemma firstn_incl {A} (l : list A) : forall j x, In x (firstn j l) -> In x l.
Proof.
  induction l as [|a l IH]; intros [|j] x; simpl; try tauto.
  intros [H|H]; [now left | right; eauto].
Qed.

(** every file of [paths] is routed to the in-place path *)
Definition inplace_mode (m : outmode) (paths : list name) : Prop :=
  forall p, In p paths -> target p m = None \/ target p m = Some p.

Lemma inplace_mode_ops m paths k pl p :
  inplace_mode m paths -> In p paths -> file_ops k pl p m = inplace_ops k pl p.
Proof.
  intros H Hp. unfold file_ops. destruct (H p Hp) as [-> | ->]; [reflexivity|].
  now rewrite String.eqb_refl.
Qed.

(** the directory is that of "the first j files completely rewritten, the others as they
    were", give or take one extra name [t] that is not an entry of that directory *)
Definition snap_ok (xf : xform) (k : kind) (paths : list name) (d0 : dir) (s : st) : Prop :=
  exists j t, j <= List.length paths /\
    lookup t (apply_new xf k (firstn j paths) d0) = None /\
    forall q, q <> t -> lookup q (sd s) = lookup q (apply_new xf k (firstn j paths) d0).

Theorem loop_spec nm F xf k m : fresh_namer nm ->
  forall paths, inplace_mode m paths -> forall n s0,
  Forall (snap_ok xf k paths (sd s0)) (all_states (run_files nm F xf k m paths n s0)) /\
  (outc (run_files nm F xf k m paths n s0) = Done ->
   deq (sd (final (run_files nm F xf k m paths n s0))) (apply_new xf k paths (sd s0))).
Proof.
  intros Hf. induction paths as [|p rest IH]; intros Hm n s0.
  - cbn [run_files]. split.
    + unfold all_states; simpl. constructor; [|constructor].
      exists 0, (nm (sd s0) ""). simpl. split; [lia|]. split; [apply Hf | auto].
    + intros _. apply deq_refl.
  - assert (Hm' : inplace_mode m rest) by (intros q Hq; apply Hm; now right).
    cbn [run_files].
    destruct (lookup p (sd s0)) as [old|] eqn:Ep.
    2:{ (* not a file: skipped *)
      destruct (IH Hm' n s0) as [I1 I2]. split.
      - eapply Forall_impl; [|exact I1]. intros s (j & t & J1 & J2 & J3).
        exists (S j), t. cbn [firstn apply_new length]. rewrite Ep. split; [lia|]. auto.
      - intros H. cbn [apply_new]. rewrite Ep. auto. }
    destruct (xf old) as [pl|] eqn:Ex.
    2:{ split; [|discriminate].
        unfold all_states; simpl. constructor; [|constructor].
        exists 0, (nm (sd s0) ""). simpl. split; [lia|]. split; [apply Hf | auto]. }
    rewrite (inplace_mode_ops m (p :: rest) k pl p Hm (or_introl eq_refl)).
    assert (Hs : lookup p (sd s0) <> None) by congruence.
    pose proof (inplace_spec nm F k pl p s0 n Hf Hs) as S1.
    set (r1 := run_ops nm F (inplace_ops k pl p) n s0) in *.
    (* every state of this file's rewrite is a snapshot with j = 0 or j = 1 *)
    assert (H1 : forall s, okst nm p s0 (new_of k pl) s -> snap_ok xf k (p :: rest) (sd s0) s).
    { intros s [(A & B)|(nw & E & A & B)].
      - exists 0, (nm (sd s0) (dirpart p)). simpl. split; [lia|]. split; [apply Hf | exact B].
      - exists 1, (nm (dset p nw (sd s0)) ""). cbn [firstn apply_new length].
        rewrite Ep, Ex, E. cbn [apply_new]. split; [lia|]. split; [apply Hf|].
        intros q _. rewrite B, lookup_dset. reflexivity. }
    pose proof (sp_states _ _ _ _ _ _ S1) as St.
    destruct (outc r1) eqn:Ho.
    + (* this file is done: on to the rest, from a directory that is the start one with p new *)
      destruct (sp_done _ _ _ _ _ _ S1 Ho) as (nw & E & _ & B).
      assert (Hd : deq (sd (final r1)) (dset p nw (sd s0))).
      { intros q. rewrite B, lookup_dset. reflexivity. }
      destruct (IH Hm' (next r1) (final r1)) as [I1 I2]. split.
      * rewrite all_states_prepend. apply Forall_app. split.
        -- unfold all_states in St. apply Forall_app in St. destruct St as [St _].
           eapply Forall_impl; [|exact St]. exact H1.
        -- eapply Forall_impl; [|exact I1]. intros s (j & t & J1 & J2 & J3).
           exists (S j), t. cbn [firstn apply_new length]. rewrite Ep, Ex, E.
           split; [lia|].
           pose proof (apply_new_ext xf k (firstn j rest) _ _ Hd) as X. split.
           ++ rewrite <- X. exact J2.
           ++ intros q Hq. rewrite <- X. auto.
      * cbn [prepend outc final]. intros H. cbn [apply_new]. rewrite Ep, Ex, E.
        intros q. rewrite (I2 H q). apply apply_new_ext. exact Hd.
    + split; [|intros H; congruence]. eapply Forall_impl; [|exact St]. exact H1.
    + split; [|intros H; congruence]. eapply Forall_impl; [|exact St]. exact H1.
    + split; [|intros H; congruence]. eapply Forall_impl; [|exact St]. exact H1.
Qed.

(** files the glob did not return are never touched *)
Theorem unmatched_untouched nm F xf k m paths n s0 :
  fresh_namer nm -> inplace_mode m paths ->
  Forall (fun s => exists t, forall q, ~ In q paths -> q <> t ->
                                       lookup q (sd s) = lookup q (sd s0))
         (all_states (run_files nm F xf k m paths n s0)).
Proof.
  intros Hf Hm. destruct (loop_spec nm F xf k m Hf paths Hm n s0) as [H _].
  eapply Forall_impl; [|exact H]. intros s (j & t & _ & _ & J). exists t. intros q Hq Hq2.
  rewrite J by exact Hq2. apply apply_new_notin. intros X. apply Hq. eapply firstn_incl; eauto.
Qed.
