(** Proofs/FormatProofs.v — lemmas about Model/Format.v. *)
From PV Require Import Format.
From Coq Require Import Lia.
Open Scope string_scope.

(** * Tokenizer on brace-free and escaped text *)
Definition is_brace (c : ascii) : bool := Ascii.eqb c lbrace || Ascii.eqb c rbrace.

Fixpoint no_brace (s : string) : bool :=
  match s with
  | EmptyString => true
  | String c r => negb (is_brace c) && no_brace r
  end.

(** [esc s]: every brace doubled — how a literal is written inside a format string. *)
Fixpoint esc (s : string) : string :=
  match s with
  | EmptyString => EmptyString
  | String c r => if is_brace c then String c (String c (esc r)) else String c (esc r)
  end.

Lemma esc_no_brace s : no_brace s = true -> esc s = s.
Proof.
  induction s as [|c r IH]; simpl; intros H; [reflexivity|].
  apply andb_true_iff in H. destruct H as [H1 H2].
  apply negb_true_iff in H1. rewrite H1. now rewrite IH.
Qed.

(** prefix before the first brace, and what follows it *)
Fixpoint first_chunk (s : string) : string * option (ascii * string) :=
  match s with
  | EmptyString => (EmptyString, None)
  | String c r =>
      if is_brace c then (EmptyString, Some (c, r))
      else let '(l, k) := first_chunk r in (String c l, k)
  end.

Lemma read_lit_esc s :
  read_lit (esc s) =
  match first_chunk s with
  | (l, None) => (l, None)
  | (l, Some (b, r)) => (l, Some (b, String b (esc r)))
  end.
Proof.
  induction s as [|c r IH]; simpl; [reflexivity|].
  destruct (is_brace c) eqn:B.
  - simpl. unfold is_brace in B. rewrite B. reflexivity.
  - simpl. unfold is_brace in B. rewrite B. rewrite IH.
    destruct (first_chunk r) as [l [[b r']|]]; reflexivity.
Qed.

Lemma first_chunk_none s l : first_chunk s = (l, None) -> l = s.
Proof.
  revert l; induction s as [|c r IH]; simpl; intros l H.
  - now inversion H.
  - destruct (is_brace c); [discriminate|].
    destruct (first_chunk r) as [l' k] eqn:E. inversion H; subst.
    f_equal. now apply IH.
Qed.

Lemma first_chunk_some s l b r :
  first_chunk s = (l, Some (b, r)) ->
  s = l ++ String b r /\ is_brace b = true /\ (String.length r < String.length s)%nat.
Proof.
  revert l; induction s as [|c s' IH]; simpl; intros l H; [discriminate|].
  destruct (is_brace c) eqn:B.
  - inversion H; subst. simpl. repeat split; try assumption; try lia.
  - destruct (first_chunk s') as [l' k] eqn:E. inversion H; subst.
    destruct (IH _ eq_refl) as (-> & Hb & Hl). simpl. repeat split; try assumption. lia.
Qed.

Definition all_lit (its : list item) : Prop :=
  Forall (fun it : item => snd it = None /\ fst it <> EmptyString) its.

Fixpoint concat_lits (its : list item) : string :=
  match its with [] => EmptyString | (l, _) :: r => l ++ concat_lits r end.

Lemma append_assoc_s (a b c : string) : (a ++ b) ++ c = a ++ (b ++ c).
Proof. induction a; simpl; congruence. Qed.

Lemma append_nil_r (a : string) : a ++ "" = a.
Proof. induction a; simpl; congruence. Qed.

Lemma append_nonempty_r (a : string) c : a ++ String c "" <> "".
Proof. destruct a; simpl; discriminate. Qed.

Lemma esc_length s : (String.length s <= String.length (esc s))%nat.
Proof. induction s as [|c r IH]; simpl; [lia|]. destruct (is_brace c); simpl; lia. Qed.

Lemma parse_fmt_esc f s :
  (String.length s < f)%nat ->
  exists its, parse_fmt f (esc s) = (its, PEnd) /\ all_lit its /\ concat_lits its = s.
Proof.
  revert s; induction f as [|f IH]; intros s Hlen; [lia|].
  destruct s as [|c0 s0] eqn:Es.
  - exists []. simpl. repeat split; constructor.
  - rewrite <- Es in *.
    assert (Hne : esc s <> EmptyString).
    { rewrite Es. simpl. destruct (is_brace c0); discriminate. }
    simpl. destruct (esc s) as [|e1 e2] eqn:Ee; [congruence|]. rewrite <- Ee.
    rewrite read_lit_esc.
    destruct (first_chunk s) as [l [[b r]|]] eqn:Fc.
    + destruct (first_chunk_some _ _ _ _ Fc) as (Hs & Hb & Hl).
      rewrite Ascii.eqb_refl.
      destruct (IH r ltac:(lia)) as (its & Hp & Hall & Hcat).
      rewrite Hp. eexists; split; [reflexivity|]. split.
      * constructor; [split; [reflexivity|apply append_nonempty_r]|exact Hall].
      * simpl. rewrite Hcat, Hs, append_assoc_s. reflexivity.
    + apply first_chunk_none in Fc. subst l.
      exists [(s, None)]. split; [reflexivity|]. split.
      * constructor; [|constructor]. split; [reflexivity|]. rewrite Es; discriminate.
      * simpl. apply append_nil_r.
Qed.

Lemma parse_esc s :
  exists its, parse (esc s) = (its, PEnd) /\ all_lit its /\ concat_lits its = s.
Proof. unfold parse. apply parse_fmt_esc. pose proof (esc_length s). lia. Qed.

(** * The formatter on literal-only items *)
Section WithCtx.
  Variable ctx : dict.
  Variable rec : val -> bool -> res val.

  Lemma build_all_lit is_rec its :
    all_lit its -> build ctx rec is_rec its PEnd = Ok (map (fun it : item => ELit (fst it)) its).
  Proof.
    induction 1 as [|[l fo] its [Hn Hl] Hall IH]; simpl; [reflexivity|].
    simpl in Hn, Hl. subst fo. simpl. rewrite IH. simpl.
    destruct l; [congruence|]. reflexivity.
  Qed.

  Lemma render_lits its :
    render (map (fun it : item => ELit (fst it)) its) = Ok (concat_lits its).
  Proof.
    induction its as [|[l fo] its IH]; simpl; [reflexivity|]. rewrite IH. reflexivity.
  Qed.

  Lemma keep_items_all_lit is_rec its :
    all_lit its -> keep_items ctx rec is_rec its PEnd = Ok (VStr (concat_lits its)).
  Proof.
    intros H. unfold keep_items. rewrite (build_all_lit _ _ H). simpl.
    destruct its as [|[l1 f1] [|[l2 f2] its]].
    - reflexivity.
    - simpl. now rewrite append_nil_r.
    - pose proof (render_lits ((l1, f1) :: (l2, f2) :: its)) as R.
      cbn [map fst] in *. unfold finish. rewrite R. reflexivity.
  Qed.

  (** escapes collapse; a brace-free string formats to itself *)
  Lemma keep_type_esc s is_rec : keep_type ctx rec (esc s) is_rec = Ok (VStr s).
  Proof.
    unfold keep_type. destruct (parse_esc s) as (its & Hp & Hall & Hcat).
    rewrite Hp. rewrite keep_items_all_lit by assumption. now rewrite Hcat.
  Qed.

  Lemma keep_type_no_brace s is_rec : no_brace s = true -> keep_type ctx rec s is_rec = Ok (VStr s).
  Proof. intros H. rewrite <- (esc_no_brace s H) at 1. apply keep_type_esc. Qed.

  (** * Fields *)
  Lemma vformat_std_empty d : vformat_std ctx (S d) "" = Ok "".
  Proof. reflexivity. Qed.

  Lemma get_field_ok_present name v :
    get_field ctx name = Ok v -> shas (fst (split_first name)) ctx = true.
  Proof.
    unfold get_field, shas, sget, dict_has.
    destruct (split_first name) as [first rest]. simpl.
    destruct (isdigit first); [discriminate|].
    destruct (dict_get (VStr first) ctx); [reflexivity|discriminate].
  Qed.

  Lemma lookup_field_ok_present name v :
    lookup_field ctx name = Ok v -> shas (fst (split_first name)) ctx = true.
  Proof.
    unfold lookup_field. destruct name; [discriminate|]. apply get_field_ok_present.
  Qed.

  Lemma lookup_field_missing name :
    name <> "" ->
    isdigit (fst (split_first name)) = false ->
    sget (fst (split_first name)) ctx = None ->
    lookup_field ctx name = key_missing (fst (split_first name)).
  Proof.
    intros Hn Hd Hs. unfold lookup_field. destruct name; [congruence|].
    unfold get_field. destruct (split_first (String a name)) as [first rest]. simpl in *.
    now rewrite Hd, Hs.
  Qed.

  Definition item_fields_present (it : item) : Prop :=
    match snd it with
    | None => True
    | Some (name, _, _) => shas (fst (split_first name)) ctx = true
    end.

  Lemma field_entry_ok_present is_rec name spec conv e :
    field_entry ctx rec is_rec (name, spec, conv) = Ok e ->
    shas (fst (split_first name)) ctx = true.
  Proof.
    unfold field_entry. destruct (lookup_field ctx name) eqn:L; simpl; try discriminate.
    intros _. eapply lookup_field_ok_present; eauto.
  Qed.

  Lemma build_ok_fields_present is_rec its tl es :
    build ctx rec is_rec its tl = Ok es -> tl = PEnd /\ Forall item_fields_present its.
  Proof.
    revert es; induction its as [|[lit fo] its IH]; simpl; intros es H.
    - destruct tl; simpl in H; try discriminate. split; constructor.
    - destruct fo as [[[name spec] conv]|].
      + destruct (field_entry ctx rec is_rec (name, spec, conv)) eqn:F; simpl in H; try discriminate.
        destruct (build ctx rec is_rec its tl) eqn:B; simpl in H; try discriminate.
        destruct (IH _ eq_refl) as [-> Hall]. split; [reflexivity|].
        constructor; [|assumption]. unfold item_fields_present. simpl.
        eapply field_entry_ok_present; eauto.
      + simpl in H.
        destruct (build ctx rec is_rec its tl) eqn:B; simpl in H; try discriminate.
        destruct (IH _ eq_refl) as [-> Hall]. split; [reflexivity|].
        constructor; [exact I|assumption].
  Qed.

  (** never a partial result: an [Ok] outcome implies every referenced key exists *)
  Lemma keep_items_ok_fields_present is_rec its tl v :
    keep_items ctx rec is_rec its tl = Ok v -> tl = PEnd /\ Forall item_fields_present its.
  Proof.
    unfold keep_items. destruct (build ctx rec is_rec its tl) eqn:B; simpl; try discriminate.
    intros _. eapply build_ok_fields_present; eauto.
  Qed.

  (** a missing first reference raises exactly the key-lookup error *)
  Lemma keep_items_first_missing is_rec lits lit name spec conv rest tl :
    all_lit lits ->
    name <> "" ->
    isdigit (fst (split_first name)) = false ->
    sget (fst (split_first name)) ctx = None ->
    keep_items ctx rec is_rec (lits ++ (lit, Some (name, spec, conv)) :: rest)%list tl
    = key_missing (fst (split_first name)).
  Proof.
    intros Hall Hn Hd Hs. unfold keep_items.
    assert (B : build ctx rec is_rec (lits ++ (lit, Some (name, spec, conv)) :: rest)%list tl
                = key_missing (fst (split_first name))).
    { induction Hall as [|[l fo] its [Hnone Hl] Hall IH]; simpl.
      - unfold field_entry. rewrite (lookup_field_missing _ Hn Hd Hs). reflexivity.
      - simpl in Hnone. subst fo. simpl. rewrite IH. reflexivity. }
    rewrite B. reflexivity.
  Qed.

  (** * The single-expression rule *)
  Lemma keep_items_single name is_rec :
    keep_items ctx rec is_rec [("", Some (name, "", None))] PEnd
    = (let* obj := lookup_field ctx name in rec obj is_rec).
  Proof.
    unfold keep_items. cbn [build]. unfold field_entry.
    destruct (lookup_field ctx name) as [obj| |]; simpl; try reflexivity.
    destruct is_rec; simpl.
    - destruct (rec obj true); reflexivity.
    - destruct (rec obj false); reflexivity.
  Qed.

  Lemma keep_items_single_ff name is_rec :
    keep_items ctx rec is_rec [("", Some (name, "ff", None))] PEnd = lookup_field ctx name.
  Proof.
    unfold keep_items. cbn [build]. unfold field_entry.
    destruct (lookup_field ctx name) as [obj| |]; simpl; try reflexivity.
    rewrite andb_false_r. reflexivity.
  Qed.

  Lemma keep_items_single_rf name is_rec :
    keep_items ctx rec is_rec [("", Some (name, "rf", None))] PEnd
    = (let* obj := lookup_field ctx name in rec obj true).
  Proof.
    unfold keep_items. cbn [build]. unfold field_entry.
    destruct (lookup_field ctx name) as [obj| |]; simpl; try reflexivity.
    destruct (rec obj true); reflexivity.
  Qed.

  (** * Mixed strings: one level deep, always a string *)
  Definition simple_item (it : item) : Prop :=
    match snd it with
    | None => True
    | Some (_, spec, conv) => spec = "" /\ conv = None
    end.

  (** number of entries a list of items produces *)
  Fixpoint n_entries (its : list item) : nat :=
    match its with
    | [] => O
    | (lit, fo) :: r =>
        ((match lit with "" => 0 | _ => 1 end) + (match fo with None => 0 | Some _ => 1 end)
         + n_entries r)%nat
    end.

  (** reference semantics of a flat (non-recursive) mixed string: first every reference
      is looked up left to right (no formatting of what is found), then each object is
      rendered with [str()] and the pieces are concatenated. *)
  Fixpoint lookups (its : list item) : res (list (string * option val)) :=
    match its with
    | [] => Ok []
    | (lit, None) :: r => let* rest := lookups r in Ok ((lit, None) :: rest)
    | (lit, Some (name, _, _)) :: r =>
        let* obj := lookup_field ctx name in
        let* rest := lookups r in
        Ok ((lit, Some obj) :: rest)
    end.

  Fixpoint join_flat (os : list (string * option val)) : res string :=
    match os with
    | [] => Ok ""
    | (lit, None) :: r => let* rest := join_flat r in Ok (lit ++ rest)
    | (lit, Some obj) :: r =>
        let* out := res_of_opt (py_str obj) in
        let* rest := join_flat r in
        Ok (lit ++ out ++ rest)
    end.

  Definition flat_render (its : list item) : res string :=
    let* os := lookups its in join_flat os.

  Fixpoint entries_of (os : list (string * option val)) : list entry :=
    match os with
    | [] => []
    | (lit, o) :: r =>
        ((match lit with "" => [] | _ => [ELit lit] end) ++
         (match o with None => [] | Some obj => [EObj obj (mk_rspec "") false] end) ++
         entries_of r)%list
    end.

  Lemma build_flat its :
    Forall simple_item its ->
    build ctx rec false its PEnd = (let* os := lookups its in Ok (entries_of os)).
  Proof.
    induction 1 as [|[lit fo] its Hs Hall IH]; simpl; [reflexivity|].
    rewrite IH. destruct fo as [[[name spec] conv]|].
    - unfold simple_item in Hs. simpl in Hs. destruct Hs as [-> ->].
      unfold field_entry. destruct (lookup_field ctx name); simpl; try reflexivity.
      destruct (lookups its); reflexivity.
    - simpl. destruct (lookups its); reflexivity.
  Qed.

  Lemma render_entries_of os : render (entries_of os) = join_flat os.
  Proof.
    induction os as [|[lit o] os IH]; simpl; [reflexivity|].
    destruct lit; destruct o as [obj|]; simpl; rewrite IH; try reflexivity;
      try (destruct (res_of_opt (py_str obj)); simpl; try reflexivity);
      destruct (join_flat os); reflexivity.
  Qed.

  Lemma entries_of_length its os :
    lookups its = Ok os -> List.length (entries_of os) = n_entries its.
  Proof.
    revert os; induction its as [|[lit fo] its IH]; simpl; intros os H.
    - now inversion H.
    - destruct fo as [[[name spec] conv]|].
      + destruct (lookup_field ctx name); simpl in H; try discriminate.
        destruct (lookups its) eqn:E; simpl in H; try discriminate.
        inversion H; subst. simpl. rewrite !app_length. simpl. rewrite (IH _ eq_refl).
        destruct lit; simpl; lia.
      + destruct (lookups its) eqn:E; simpl in H; try discriminate.
        inversion H; subst. simpl. rewrite !app_length. simpl. rewrite (IH _ eq_refl).
        destruct lit; simpl; lia.
  Qed.

  Lemma finish_many es :
    (List.length es <> 1)%nat -> finish rec es = (let* out := render es in Ok (VStr out)).
  Proof.
    destruct es as [|e1 [|e2 es]]; simpl; intros H; try reflexivity; try lia.
    destruct e1; reflexivity.
  Qed.

  Lemma keep_items_mixed its :
    Forall simple_item its -> (n_entries its <> 1)%nat ->
    keep_items ctx rec false its PEnd = (let* s := flat_render its in Ok (VStr s)).
  Proof.
    intros Hs Hn. unfold keep_items, flat_render. rewrite build_flat by assumption.
    destruct (lookups its) as [os| |] eqn:E; simpl; try reflexivity.
    rewrite finish_many; [now rewrite render_entries_of|].
    rewrite (entries_of_length _ _ E). exact Hn.
  Qed.
End WithCtx.

(** * Structure preservation / purity (C09) *)
Lemma mapM_ok_Forall2 {A B} (f : A -> res B) l l' :
  mapM f l = Ok l' -> Forall2 (fun x y => f x = Ok y) l l'.
Proof.
  revert l'; induction l as [|x l IH]; simpl; intros l' H.
  - inversion H. constructor.
  - destruct (f x) eqn:Fx; simpl in H; try discriminate.
    destruct (mapM f l) eqn:M; simpl in H; try discriminate.
    inversion H; subst. constructor; auto.
Qed.

Lemma mapM_id {A} (f : A -> res A) l :
  Forall (fun x => f x = Ok x) l -> mapM f l = Ok l.
Proof.
  induction 1 as [|x l Hx Hall IH]; simpl; [reflexivity|]. now rewrite Hx, IH.
Qed.

Section Shape.
  Variable ctx : dict.

  (** non-string leaves come through unchanged *)
  Definition is_leaf (v : val) : bool :=
    match v with
    | VNone | VBool _ | VInt _ | VFloat _ | VBytes _ | VObj _ | VExn _ _ _ => true
    | _ => false
    end.

  Lemma fmt_iter_leaf f v r : is_leaf v = true -> fmt_iter ctx (S f) v r = Ok v.
  Proof. destruct v; simpl; intros H; try discriminate; reflexivity. Qed.

  Lemma fmt_iter_list f l r v :
    fmt_iter ctx (S f) (VList l) r = Ok v ->
    exists l', v = VList l' /\ Forall2 (fun x y => fmt_iter ctx f x r = Ok y) l l'.
  Proof.
    simpl. destruct (mapM _ l) as [l'| |] eqn:M; simpl; try discriminate.
    intros H; inversion H; subst. exists l'. split; [reflexivity|].
    now apply mapM_ok_Forall2 in M.
  Qed.

  Lemma fmt_iter_tuple f l r v :
    fmt_iter ctx (S f) (VTuple l) r = Ok v ->
    exists l', v = VTuple l' /\ Forall2 (fun x y => fmt_iter ctx f x r = Ok y) l l'.
  Proof.
    simpl. destruct (mapM _ l) as [l'| |] eqn:M; simpl; try discriminate.
    intros H; inversion H; subst. exists l'. split; [reflexivity|].
    now apply mapM_ok_Forall2 in M.
  Qed.

  Lemma fmt_iter_set f l r v :
    fmt_iter ctx (S f) (VSet l) r = Ok v ->
    exists l' s, v = VSet s /\ set_of_list l' = Some s /\
                 Forall2 (fun x y => fmt_iter ctx f x r = Ok y) l l'.
  Proof.
    simpl. destruct (mapM _ l) as [l'| |] eqn:M; simpl; try discriminate.
    destruct (set_of_list l') as [s|] eqn:S; simpl; try discriminate.
    intros H; inversion H; subst. exists l', s. repeat split; try assumption.
    now apply mapM_ok_Forall2 in M.
  Qed.

  Lemma fmt_iter_dict f l r v :
    fmt_iter ctx (S f) (VDict l) r = Ok v ->
    exists l', v = VDict (rebuild_dict l') /\
               Forall2 (fun kv kv' => fmt_iter ctx f (fst kv) r = Ok (fst kv') /\
                                      fmt_iter ctx f (snd kv) r = Ok (snd kv')) l l'.
  Proof.
    simpl. destruct (mapM _ l) as [l'| |] eqn:M; simpl; try discriminate.
    intros H; inversion H; subst. exists l'. split; [reflexivity|].
    apply mapM_ok_Forall2 in M.
    induction M as [|[k x] [k' x'] l l' Hkv M IH]; constructor; auto.
    simpl in *. destruct (fmt_iter ctx f k r); simpl in Hkv; try discriminate.
    destruct (fmt_iter ctx f x r); simpl in Hkv; try discriminate.
    inversion Hkv; subst. split; reflexivity.
  Qed.

  (** depth-indexed "contains no brace and no special tag" *)
  Fixpoint plainN (n : nat) (v : val) : Prop :=
    match n with
    | O => False
    | S m =>
        match v with
        | VNone | VBool _ | VInt _ | VFloat _ | VBytes _ | VObj _ | VExn _ _ _ => True
        | VStr s => no_brace s = true
        | VList l | VTuple l => Forall (plainN m) l
        | VSet l => Forall (plainN m) l /\ set_of_list l = Some l
        | VDict l =>
            Forall (fun kv : val * val => plainN m (fst kv) /\ plainN m (snd kv)) l
            /\ rebuild_dict l = l
        | VPy _ _ | VSic _ | VJsonify _ => False
        end
    end.

  Lemma fmt_iter_plain n v r : plainN n v -> fmt_iter ctx n v r = Ok v.
  Proof.
    revert v; induction n as [|n IH]; intros v H; [destruct H|].
    destruct v; simpl in H |- *; try reflexivity; try (exfalso; exact H).
    - (* str *) now apply keep_type_no_brace.
    - (* list *) rewrite mapM_id; [simpl; reflexivity|]. eapply Forall_impl; [|exact H]. intros; now apply IH.
    - (* tuple *) rewrite mapM_id; [simpl; reflexivity|]. eapply Forall_impl; [|exact H]. intros; now apply IH.
    - (* set *) destruct H as [H H0]. rewrite mapM_id; [simpl; rewrite H0; reflexivity|].
      eapply Forall_impl; [|exact H]. intros; now apply IH.
    - (* dict *) destruct H as [H H0].
      assert (M : mapM (fun kv : val * val =>
                          let* k := fmt_iter ctx n (fst kv) r in
                          let* x := fmt_iter ctx n (snd kv) r in Ok (k, x)) l = Ok l).
      { clear H0. induction H as [|[k x] l [Hk Hx] Hall IHl]; simpl; [reflexivity|].
        simpl in Hk, Hx. rewrite (IH _ Hk), (IH _ Hx). simpl. now rewrite IHl. }
      rewrite M. simpl. now rewrite H0.
  Qed.
End Shape.

(** * Tokenizer round-trip: rendering a list of parts and parsing it gives the parts back.
    This ties the item-level theorems (C08) to concrete strings of the grammar. *)
Definition name_char_ok (c : ascii) : bool :=
  negb (Ascii.eqb c lbrace || Ascii.eqb c rbrace || Ascii.eqb c "["%char || Ascii.eqb c "]"%char
        || Ascii.eqb c ":"%char || Ascii.eqb c "!"%char).

Fixpoint name_ok (s : string) : bool :=
  match s with
  | EmptyString => true
  | String c r => name_char_ok c && name_ok r
  end.

Definition is_term (c : ascii) : bool :=
  Ascii.eqb c rbrace || Ascii.eqb c ":"%char || Ascii.eqb c "!"%char.

Lemma name_char_ok_not_term c : name_char_ok c = true ->
  Ascii.eqb c lbrace = false /\ Ascii.eqb c rbrace = false /\ Ascii.eqb c ":"%char = false
  /\ Ascii.eqb c "!"%char = false /\ Ascii.eqb c "["%char = false.
Proof.
  unfold name_char_ok. rewrite negb_true_iff, !orb_false_iff. tauto.
Qed.

Lemma read_name_plain name : forall t rest fuel,
  name_ok name = true -> is_term t = true -> (String.length name < fuel)%nat ->
  read_name fuel (name ++ String t rest) = Ok (name, t, rest).
Proof.
  induction name as [|c name IH]; intros t rest fuel Hn Ht Hf.
  - destruct fuel; [simpl in Hf; lia|]. simpl.
    unfold is_term in Ht.
    destruct (Ascii.eqb t lbrace) eqn:E1.
    { apply Ascii.eqb_eq in E1. subst t. discriminate Ht. }
    rewrite Ht. reflexivity.
  - destruct fuel; [simpl in Hf; lia|]. simpl in Hn. apply andb_true_iff in Hn. destruct Hn as [Hc Hn].
    destruct (name_char_ok_not_term c Hc) as (E1 & E2 & E3 & E4 & E5).
    simpl. rewrite E1, E2, E3, E4, E5. simpl.
    rewrite (IH t rest fuel Hn Ht) by (simpl in Hf; lia). reflexivity.
Qed.

Lemma read_spec_plain spec : forall rest,
  no_brace spec = true -> read_spec (spec ++ String rbrace rest) 1 = Ok (spec, rest).
Proof.
  induction spec as [|c spec IH]; intros rest Hs; simpl.
  - reflexivity.
  - simpl in Hs. apply andb_true_iff in Hs. destruct Hs as [Hc Hs].
    apply negb_true_iff in Hc. unfold is_brace in Hc. apply orb_false_iff in Hc. destruct Hc as [C1 C2].
    rewrite C1, C2. rewrite (IH rest Hs). reflexivity.
Qed.

Definition conv_text (cv : option ascii) : string :=
  match cv with Some c => String "!"%char (String c EmptyString) | None => EmptyString end.

Definition spec_text (sp : string) : string :=
  match sp with EmptyString => EmptyString | _ => String ":"%char sp end.

(** the text of a field after its opening brace *)
Definition field_body (f : field) : string :=
  let '(name, sp, cv) := f in name ++ conv_text cv ++ spec_text sp ++ String rbrace EmptyString.

(** (the conversion character, when there is one, is ASCII: the model's strings are byte strings) *)
Definition conv_ok (cv : option ascii) : Prop :=
  match cv with Some c => Nat.leb 128 (nat_of_ascii c) = false | None => True end.

Definition field_ok (f : field) : Prop :=
  let '(name, sp, cv) := f in name_ok name = true /\ no_brace sp = true /\ conv_ok cv.

Lemma parse_field_shape name t r :
  name_ok name = true -> is_term t = true ->
  parse_field (name ++ String t r) =
  (if Ascii.eqb t rbrace then Ok ((name, EmptyString, None), r)
   else if Ascii.eqb t "!"%char then
     match r with
     | EmptyString => Err "ValueError" "end of string while looking for conversion specifier"
     | String cv r1 =>
         if Nat.leb 128 (nat_of_ascii cv) then Unsup else
         match r1 with
         | EmptyString => Err "ValueError" "unmatched '{' in format spec"
         | String c2 r2 =>
             if Ascii.eqb c2 rbrace then Ok ((name, EmptyString, Some cv), r2)
             else if Ascii.eqb c2 ":"%char then
               let* (sp, rest) := read_spec r2 1 in Ok ((name, sp, Some cv), rest)
             else Err "ValueError" "expected ':' after conversion specifier"
         end
     end
   else let* (sp, rest) := read_spec r 1 in Ok ((name, sp, None), rest)).
Proof.
  intros Hn Ht. unfold parse_field.
  rewrite (read_name_plain name t r (S (String.length (name ++ String t r))) Hn Ht).
  - reflexivity.
  - assert (L : forall a b : string, String.length (a ++ b) = (String.length a + String.length b)%nat)
      by (induction a; simpl; intros; auto).
    rewrite L. simpl. lia.
Qed.

Lemma parse_field_render f rest :
  field_ok f -> parse_field (field_body f ++ rest) = Ok (f, rest).
Proof.
  destruct f as [[name sp] cv]. intros [Hn [Hs Hc]]. unfold field_body. simpl in Hc.
  rewrite !append_assoc_s.
  destruct cv as [c|]; destruct sp as [|s0 sp'].
  - change (name ++ conv_text (Some c) ++ spec_text "" ++ String rbrace "" ++ rest)
      with (name ++ String "!"%char (String c (String rbrace rest))).
    rewrite (parse_field_shape name "!"%char _ Hn eq_refl).
    replace (Ascii.eqb "!"%char rbrace) with false by reflexivity.
    replace (Ascii.eqb "!"%char "!"%char) with true by reflexivity.
    cbv iota. rewrite Hc. now rewrite Ascii.eqb_refl.
  - change (name ++ conv_text (Some c) ++ spec_text (String s0 sp') ++ String rbrace "" ++ rest)
      with (name ++ String "!"%char (String c (String ":"%char (String s0 sp' ++ String rbrace rest)))).
    rewrite (parse_field_shape name "!"%char _ Hn eq_refl).
    replace (Ascii.eqb "!"%char rbrace) with false by reflexivity.
    replace (Ascii.eqb "!"%char "!"%char) with true by reflexivity.
    cbv iota. rewrite Hc.
    replace (Ascii.eqb ":"%char rbrace) with false by reflexivity.
    replace (Ascii.eqb ":"%char ":"%char) with true by reflexivity.
    rewrite (read_spec_plain (String s0 sp') rest Hs). reflexivity.
  - change (name ++ conv_text None ++ spec_text "" ++ String rbrace "" ++ rest)
      with (name ++ String rbrace rest).
    rewrite (parse_field_shape name rbrace _ Hn eq_refl). now rewrite Ascii.eqb_refl.
  - change (name ++ conv_text None ++ spec_text (String s0 sp') ++ String rbrace "" ++ rest)
      with (name ++ String ":"%char (String s0 sp' ++ String rbrace rest)).
    rewrite (parse_field_shape name ":"%char _ Hn eq_refl).
    replace (Ascii.eqb ":"%char rbrace) with false by reflexivity.
    replace (Ascii.eqb ":"%char "!"%char) with false by reflexivity.
    rewrite (read_spec_plain (String s0 sp') rest Hs). reflexivity.
Qed.

Lemma read_lit_app_brace lit b r :
  no_brace lit = true -> is_brace b = true ->
  read_lit (lit ++ String b r) = (lit, Some (b, r)).
Proof.
  intros Hl Hb. induction lit as [|c lit IH]; simpl.
  - unfold is_brace in Hb. rewrite Hb. reflexivity.
  - simpl in Hl. apply andb_true_iff in Hl. destruct Hl as [Hc Hl].
    apply negb_true_iff in Hc. unfold is_brace in Hc. rewrite Hc, (IH Hl). reflexivity.
Qed.

Lemma read_lit_no_brace s : no_brace s = true -> read_lit s = (s, None).
Proof.
  induction s as [|c s IH]; simpl; intros H; [reflexivity|].
  apply andb_true_iff in H. destruct H as [Hc Hs].
  apply negb_true_iff in Hc. unfold is_brace in Hc. rewrite Hc, (IH Hs). reflexivity.
Qed.

Fixpoint render_parts (fs : list (string * field)) (tail : string) : string :=
  match fs with
  | [] => tail
  | (lit, f) :: r => lit ++ String lbrace (field_body f ++ render_parts r tail)
  end.

Definition items_of (fs : list (string * field)) (tail : string) : list item :=
  (map (fun lf : string * field => (fst lf, Some (snd lf))) fs
   ++ match tail with EmptyString => [] | _ => [(tail, None)] end)%list.

Definition part_ok (lf : string * field) : Prop := no_brace (fst lf) = true /\ field_ok (snd lf).

Lemma field_body_first_not_lbrace f rest :
  field_ok f -> exists d r', field_body f ++ rest = String d r' /\ Ascii.eqb lbrace d = false.
Proof.
  destruct f as [[name sp] cv]. intros [Hn _]. unfold field_body.
  destruct name as [|c name].
  - destruct cv as [c|]; [eexists; eexists; split; [reflexivity|reflexivity]|].
    destruct sp; simpl; eexists; eexists; split; reflexivity.
  - simpl in Hn. apply andb_true_iff in Hn. destruct Hn as [Hc _].
    destruct (name_char_ok_not_term c Hc) as (E1 & _).
    exists c. eexists. split; [reflexivity|]. rewrite Ascii.eqb_sym. exact E1.
Qed.

Lemma parse_fmt_render fs : forall tail fuel,
  Forall part_ok fs -> no_brace tail = true ->
  (String.length (render_parts fs tail) < fuel)%nat ->
  parse_fmt fuel (render_parts fs tail) = (items_of fs tail, PEnd).
Proof.
  induction fs as [|[lit f] fs IH]; intros tail fuel Hall Ht Hf.
  - simpl in *. destruct fuel; [lia|]. unfold items_of. simpl.
    destruct tail as [|c t]; [reflexivity|].
    rewrite (read_lit_no_brace _ Ht). reflexivity.
  - inversion Hall as [|? ? [Hl Hfo] Hrest]; subst. simpl in Hl, Hfo.
    destruct fuel; [simpl in Hf; lia|].
    cbn [render_parts] in *.
    assert (Hne : lit ++ String lbrace (field_body f ++ render_parts fs tail) <> EmptyString)
      by (destruct lit; discriminate).
    cbn [parse_fmt].
    destruct (lit ++ String lbrace (field_body f ++ render_parts fs tail)) as [|e1 e2] eqn:Es; [congruence|].
    rewrite <- Es.
    rewrite (read_lit_app_brace lit lbrace _ Hl) by reflexivity.
    destruct (field_body_first_not_lbrace f (render_parts fs tail) Hfo) as (d & r' & Hd & Hneq).
    rewrite Hd. rewrite Hneq.
    replace (Ascii.eqb lbrace rbrace) with false by reflexivity.
    rewrite <- Hd. rewrite (parse_field_render f _ Hfo).
    assert (Hlen : (String.length (render_parts fs tail) < fuel)%nat).
    { rewrite <- Es in Hf. clear - Hf.
      assert (L : forall a b : string, String.length (a ++ b) = (String.length a + String.length b)%nat)
        by (induction a; simpl; intros; auto).
      rewrite L in Hf. simpl in Hf. rewrite L in Hf. lia. }
    rewrite (IH tail fuel Hrest Ht Hlen). unfold items_of. reflexivity.
Qed.

Theorem parse_render fs tail :
  Forall part_ok fs -> no_brace tail = true ->
  parse (render_parts fs tail) = (items_of fs tail, PEnd).
Proof. intros. unfold parse. apply parse_fmt_render; auto. Qed.

Lemma keep_type_render ctx rec fs tail is_rec :
  Forall part_ok fs -> no_brace tail = true ->
  keep_type ctx rec (render_parts fs tail) is_rec = keep_items ctx rec is_rec (items_of fs tail) PEnd.
Proof. intros Hf Ht. unfold keep_type. now rewrite (parse_render fs tail Hf Ht). Qed.

(** the single-expression rule, on the concrete string "{name}" for every well-formed name *)
Lemma keep_type_single_string ctx rec name is_rec :
  name_ok name = true ->
  keep_type ctx rec (String lbrace (name ++ String rbrace EmptyString)) is_rec
  = (let* obj := lookup_field ctx name in rec obj is_rec).
Proof.
  intros Hn.
  assert (E : String lbrace (name ++ String rbrace EmptyString)
              = render_parts [(EmptyString, (name, EmptyString, None))] EmptyString).
  { cbn [render_parts field_body conv_text spec_text append]. now rewrite append_nil_r. }
  rewrite E.
  rewrite keep_type_render; [apply keep_items_single| |reflexivity].
  constructor; [|constructor]. split; [reflexivity|]. split; [exact Hn|split; [reflexivity|exact I]].
Qed.
