(* Proofs/GenC10Proofs.v - placeholder *)
