(** Proofs/GenC10Proofs.v — Tie B for C10: the loop bodies GENERATED from the current source of
    Context.merge.merge_recurse and Context.set_defaults.defaults_recurse (Gen/GenC10.v, syntax
    trees in the statement language of Model/Merge.v), interpreted by [Merge.run_item], ARE the
    hand-written [merge_item] / [defaults_item] — for every state, cursor, key, value and every
    behaviour of the recursive call; hence [run_rec] = [merge_rec] / [defaults_rec] for every
    fuel, and the two steps read from their source are [step_run].

    A change to the type dispatch (a test dropped, reordered, another class), to which value is
    formatted (or when: before / after the key is hashed, inside / outside the union), to the
    operand order of + and |, to what is assigned, extended or recursed into, to the key names
    or the method the steps use, changes the generated term and these equalities stop being
    provable.  The proofs are by case analysis on the MEANING of the generated tree, so a
    refactor that keeps the meaning (renamed locals, elif chain <-> nested if, `continue`
    instead of else) still goes through. *)
From PV Require Import Format Merge MergeProofs.
From PV.Gen Require Import GenC10.
Open Scope string_scope.

Lemma key_check_res s k cont :
  key_check s k cont =
  match key_res k with Ok _ => cont | Err n m => (SErr n m, s) | Unsup => (SUnsup, s) end.
Proof. destruct k; reflexivity. Qed.

(** case analysis on everything the two sides look at, in evaluation order (the formatted
    incoming value first: in the str / tag branch the key is hashed after it) *)
Ltac item_cases rec2 :=
  repeat (cbn; unfold dict_has;
    match goal with
    | |- ?x = ?x => reflexivity
    | |- context [fmtv ?f ?s ?v] => destruct (fmtv f s v) as [?x| |]
    | |- context [key_check _ _ _] => rewrite key_check_res
    | |- context [key_res ?k] => destruct (key_res k) as [[]| |]
    | |- context [cur_dict ?s ?a] => destruct (cur_dict s a)
    | |- context [dict_get ?k ?c] => destruct (dict_get k c) as [?ev|]
    | |- context [set_of_list ?l] => destruct (set_of_list l)
    | |- context [assign ?p ?s ?a ?k ?x ?sh] => destruct (assign p s a k x sh) as [[] ?]
    | |- context [extend ?p ?s ?w ?x ?sh] => destruct (extend p s w x sh) as [[] ?]
    | |- context [rec2 ?s ?b ?l] => destruct (rec2 s b l) as [[] ?]
    | |- context [match ?x with _ => _ end] => is_var x; destruct x
    end).

Section Items.
  Variable ff : nat.
  Variable prot : option path.
  Variables rec1 rec2 : st -> path -> dict -> out.
  Hypothesis Hrec : forall s b l, rec1 s b l = rec2 s b l.

  Opaque fmt fmtv assign extend leaf_share tree_share cur_dict set_of_list dict_get key_res.

  Lemma gen_merge_item_is_model s a k v :
    run_item ff prot rec1 gen_merge_body s a k v = merge_item ff prot rec2 s a k v.
  Proof.
    unfold run_item, gen_merge_body, merge_item, lift.
    cbn. unfold lift_x, cur_item, share_of, with_k. cbn.
    destruct (fmt ff s k) as [kf| |]; cbn; try reflexivity.
    rewrite key_check_res.
    destruct v; cbn; rewrite ?key_check_res, ?Hrec.
    all: item_cases rec2; cbn; try reflexivity.
  Qed.

  Lemma gen_defaults_item_is_model s a k v :
    run_item ff prot rec1 gen_defaults_body s a k v = defaults_item ff prot rec2 s a k v.
  Proof.
    unfold run_item, gen_defaults_body, defaults_item, lift.
    cbn. unfold lift_x, cur_item, share_of, with_k. cbn.
    destruct (fmt ff s k) as [kf| |]; cbn; try reflexivity.
    rewrite key_check_res.
    destruct v; cbn; rewrite ?key_check_res, ?Hrec.
    all: item_cases rec2; cbn; try reflexivity.
  Qed.

  Transparent fmt fmtv assign extend leaf_share tree_share cur_dict set_of_list dict_get key_res.

  Lemma gen_merge_items_is_model items : forall s a,
    run_items ff prot rec1 gen_merge_body s a items = merge_items ff prot rec2 s a items.
  Proof.
    induction items as [|[k v] items IH]; intros s a; [reflexivity|].
    cbn [run_items merge_items]. rewrite gen_merge_item_is_model.
    destruct (merge_item ff prot rec2 s a k v) as [[| |] s1]; auto.
  Qed.

  Lemma gen_defaults_items_is_model items : forall s a,
    run_items ff prot rec1 gen_defaults_body s a items = defaults_items ff prot rec2 s a items.
  Proof.
    induction items as [|[k v] items IH]; intros s a; [reflexivity|].
    cbn [run_items defaults_items]. rewrite gen_defaults_item_is_model.
    destruct (defaults_item ff prot rec2 s a k v) as [[| |] s1]; auto.
  Qed.
End Items.

Lemma gen_merge_rec_is_model ff prot fuel : forall s a items,
  run_rec ff prot gen_merge_body fuel s a items = merge_rec ff prot fuel s a items.
Proof.
  induction fuel as [|f IH]; intros s a items; [reflexivity|].
  cbn [run_rec merge_rec]. now apply gen_merge_items_is_model.
Qed.

Lemma gen_defaults_rec_is_model ff prot fuel : forall s a items,
  run_rec ff prot gen_defaults_body fuel s a items = defaults_rec ff prot fuel s a items.
Proof.
  induction fuel as [|f IH]; intros s a items; [reflexivity|].
  cbn [run_rec defaults_rec]. now apply gen_defaults_items_is_model.
Qed.

Lemma gen_merge_top_is_model ff fuel root add :
  run_top ff fuel gen_merge_body root add = merge_top ff fuel root add.
Proof. apply gen_merge_rec_is_model. Qed.

Lemma gen_defaults_top_is_model ff fuel root add :
  run_top ff fuel gen_defaults_body root add = defaults_top ff fuel root add.
Proof. apply gen_defaults_rec_is_model. Qed.

(** pypyr/dsl.py: the subclasses of SpecialTagDirective are exactly the three tags of [val] *)
Lemma gen_special_tags_is_model : gen_special_tag_classes = special_tag_classes.
Proof. reflexivity. Qed.

(** the two steps *)
Lemma gen_contextmerge_step_is_model ff fuel root :
  step_run_src gen_contextmerge_step ff fuel root = step_run true ff fuel root.
Proof.
  unfold step_run_src, step_run, gen_contextmerge_step. cbn.
  destruct (sget "contextMerge" root) as [[]|]; reflexivity.
Qed.

Lemma gen_default_step_is_model ff fuel root :
  step_run_src gen_default_step ff fuel root = step_run false ff fuel root.
Proof.
  unfold step_run_src, step_run, gen_default_step. cbn.
  destruct (sget "defaults" root) as [[]|]; reflexivity.
Qed.
