(** Proofs/GenProofs.v — Tie B for the small pure leaves: the definitions GENERATED from the
    current Python source (Gen/Leaves.v, rewritten on every run by tools/py2coq.py) are proved
    equal to the hand-written model functions the property theorems are about.  An edit to one
    of those Python functions therefore re-checks — or breaks — these lemmas themselves. *)
From PV Require Import Engine Leaves Parsers Cli.
From Coq Require Import QArith.
Open Scope string_scope.

(** utils/types.py *)
Lemma gen_cast_str_to_bool_is_model s : gen_cast_str_to_bool s = cast_str_to_bool s.
Proof. reflexivity. Qed.

Lemma gen_cast_to_bool_str s : gen_cast_to_bool (VStr s) = cast_str_to_bool s.
Proof. reflexivity. Qed.

Lemma gen_cast_to_bool_other v : (forall s, v <> VStr s) -> gen_cast_to_bool v = py_truth v.
Proof. intros H. destruct v; try reflexivity. exfalso. now apply (H s). Qed.

(** the string rule inside [as_bool] is the generated one *)
Lemma as_bool_uses_generated_rule s x y :
  fmt s (VStr x) = Ok (VStr y) -> as_bool s (VStr x) = Ok (gen_cast_str_to_bool y).
Proof. intros H. unfold as_bool. now rewrite H. Qed.

(** pipeline.py Pipeline._get_parse_input: the generated function is the C18 model's *)
Lemma gen_get_parse_input_is_model pa a d :
  gen_get_parse_input pa a d = Cli.get_parse_input pa a d.
Proof.
  unfold gen_get_parse_input, Cli.get_parse_input, args_falsy, is_some.
  destruct pa as [b|]; [reflexivity|]. destruct a as [[|x l]|]; destruct d; reflexivity.
Qed.

(** ... and the engine's API rule *)
Lemma gen_get_parse_input_is_engine (a : option (list string)) (dict_none : bool) :
  gen_get_parse_input None a (if dict_none then None else Some (@nil (val * val)))
  = match api_parse a dict_none with Some _ => true | None => false end.
Proof. destruct a as [[|x l]|]; destruct dict_none; reflexivity. Qed.

(** retries.py *)
Lemma gen_backoff_min_is_model mx x : gen_backoff_min mx x = qmin_opt x mx.
Proof.
  unfold gen_backoff_min, qmin_opt. destruct mx as [m|]; [|reflexivity].
  destruct (Qeq_bool m 0); reflexivity.
Qed.

Lemma gen_linear_is_model sleep mx jrc r base n :
  backoff "linear" (VFloat sleep) mx jrc r base n = Some (gen_linear sleep mx n).
Proof. unfold gen_linear. rewrite gen_backoff_min_is_model. reflexivity. Qed.

Lemma gen_exponential_is_model sleep mx jrc r base n :
  backoff "exponential" (VFloat sleep) mx jrc r base n = Some (gen_exponential sleep base mx n).
Proof. unfold gen_exponential. rewrite gen_backoff_min_is_model. reflexivity. Qed.

(** [Context.get_eval_string], read from the source: a !py expression is evaluated in a chain of
    namespaces whose FIRST map is a fresh empty dict created by that very call (so names bound with :=
    die with the evaluation and can shadow nothing afterwards), then the context, then the imports;
    there is no other namespace argument; an empty expression raises ValueError. *)
Lemma gen_eval_scope_is_fresh_chain :
  gen_eval_scope = (["{}"; "self"; "self._pystring_globals"]%list, true).
Proof. reflexivity. Qed.
