(** Proofs/CacheProofs.v — invariants of the Cache.get / Cache.clear transition system,
    each proved for one step and lifted to every schedule by induction; injectivity of
    the pipeline-cache key (refuted in general, proved on '+'-free names / parents). *)
From PV Require Import Cache.
From Coq Require Import Lia.
Open Scope string_scope.

(** * The key function: the (parent-or-None, name) pair *)

Lemma key_eqb_spec (a b : key) : reflect (a = b) (key_eqb a b).
Proof.
  destruct a as [pa na], b as [pb nb]. unfold key_eqb, req_eqb. cbn [fst snd].
  destruct pa as [x|], pb as [y|]; cbn;
    try (destruct (String.eqb_spec x y)); try (destruct (String.eqb_spec na nb));
    cbn; constructor; congruence.
Qed.

Lemma key_eqb_refl k : key_eqb k k = true.
Proof. destruct (key_eqb_spec k k); congruence. Qed.

Lemma key_eqb_eq a b : key_eqb a b = true -> a = b.
Proof. destruct (key_eqb_spec a b); congruence. Qed.

Lemma key_eqb_neq a b : a <> b -> key_eqb a b = false.
Proof. destruct (key_eqb_spec a b); congruence. Qed.

Lemma key_eqb_sym a b : key_eqb a b = key_eqb b a.
Proof. destruct (key_eqb_spec a b), (key_eqb_spec b a); congruence. Qed.

(** the key IS the normalised request *)
Lemma key_is_norm_req r : key_of r = norm_req r.
Proof. reflexivity. Qed.

Lemma key_injective r r' : key_of r = key_of r' -> norm_req r = norm_req r'.
Proof. intros H. exact H. Qed.

Lemma key_complete r r' : norm_req r = norm_req r' -> key_of r = key_of r'.
Proof. intros H. exact H. Qed.

(** * Generic plumbing *)

Lemma upd_same f t th : upd f t th t = th.
Proof. unfold upd. now rewrite Nat.eqb_refl. Qed.

Lemma upd_other f t th t' : t' <> t -> upd f t th t' = f t'.
Proof. unfold upd. intros H. apply Nat.eqb_neq in H. now rewrite H. Qed.

Lemma run_app s1 s2 st : run (s1 ++ s2) st = run s2 (run s1 st).
Proof. revert st; induction s1; simpl; auto. Qed.

Lemma run_inv (I : state -> Prop) :
  (forall t st, I st -> I (step t st)) ->
  forall sched st, I st -> I (run sched st).
Proof. intros Hs sched. induction sched; simpl; auto. Qed.

(** case analysis of one step of thread t: thread t's record becomes explicit, every
    branch of [step] is exposed *)
Ltac open_step t st Hth :=
  let pr := fresh "pr" in let p := fresh "p" in let rg := fresh "rg" in
  unfold step; destruct (threads st t) as [pr p rg] eqn:Hth;
  destruct pr as [|[?r ?ok|] ?rest]; cbn [prog tpc reg];
  [ | destruct p | destruct p ];
  unfold goto; cbn [prog tpc reg];
  repeat match goal with
         | |- context [match ?x with _ => _ end] => destruct x eqn:?
         end.

Ltac split_thread t' t Hne :=
  destruct (Nat.eq_dec t' t) as [->|Hne];
  [rewrite ?upd_same|rewrite ?upd_other by exact Hne].

(** * A. lock ownership = program point (mutual exclusion) *)

Definition invA (st : state) : Prop :=
  forall t, holds (threads st t) = true <-> lock st = Some t.

Lemma invA_init nc progs : invA (init nc progs).
Proof.
  intros t. unfold init, holds; simpl. destruct (nth t progs []) as [|[]]; simpl;
    split; discriminate.
Qed.

Lemma invA_step t st : invA st -> invA (step t st).
Proof.
  intros H. pose proof (H t) as Ht.
  open_step t st Hth; try exact H; try rewrite Hth in Ht; cbn in Ht;
  intros t'; cbn [threads lock]; pose proof (H t') as Ht';
  split_thread t' t Hne; cbn; try solve [intuition congruence];
  destruct rest as [|[? ?|] ?]; cbn; intuition congruence.
Qed.

(** * B. program point vs. store: between the membership test and the store nobody
      else touches the dict *)
Definition invB (st : state) : Prop :=
  forall t r ok rest, prog (threads st t) = OGet r ok :: rest ->
    match tpc (threads st t) with
    | PLoad => store st (key_of r) <> None
    | PCreateEnter | PCreateExit | PStore => store st (key_of r) = None
    | _ => True
    end.

Lemma invB_init nc progs : invB (init nc progs).
Proof. intros t r ok rest _. exact I. Qed.

Lemma invB_step t st : invA st -> invB st -> invB (step t st).
Proof.
  intros HA H. pose proof (HA t) as At. pose proof (H t) as Ht.
  open_step t st Hth; try exact H; try rewrite Hth in *; cbn in At, Ht;
  intros t' r' ok' rest'; cbn [threads store];
  pose proof (H t' r' ok' rest') as Ht'; pose proof (HA t') as At';
  split_thread t' t Hne; cbn [prog tpc reg]; try exact Ht';
  try (intros E; inversion E; subst; specialize (Ht _ _ _ eq_refl); cbn;
       solve [ exact I | congruence | assumption ]).
  all: try (intros E; destruct (threads st t') as [pr' p' rg'] eqn:Hth'; cbn in *; subst;
            destruct p'; cbn in *; try exact I; exfalso; intuition congruence).
  all: intros; exact I.
Qed.

(** * N. with caching enabled nobody is on the no-cache path *)
Definition invN (st : state) : Prop :=
  nocache st = false /\
  forall t, tpc (threads st t) <> PNcEnter /\ tpc (threads st t) <> PNcExit.

Lemma invN_init progs : invN (init false progs).
Proof. split; [reflexivity|]. intros t; cbn. split; discriminate. Qed.

Lemma invN_step t st : invN st -> invN (step t st).
Proof.
  intros [Hn H]. pose proof (H t) as Ht.
  open_step t st Hth; try (split; assumption); try rewrite Hth in *; cbn in Ht;
  try congruence; try tauto;
  (split; [exact Hn|]); intros t'; cbn [threads]; pose proof (H t') as Ht';
  split_thread t' t Hne; cbn [tpc]; try exact Ht'; split; discriminate.
Qed.

(** * C2. every object handed out under the lock in the current epoch is the stored one *)
Definition invC2 (st : state) : Prop :=
  forall k o, In o (got_for k (since_clear (log st))) -> store st k = Some o.

Lemma invC2_init nc progs : invC2 (init nc progs).
Proof. intros k o []. Qed.

Lemma invC2_step t st : invB st -> invC2 st -> invC2 (step t st).
Proof.
  intros HB H. pose proof (HB t) as Bt.
  open_step t st Hth; try exact H; try rewrite Hth in *; cbn in Bt;
  try specialize (Bt _ _ _ eq_refl);
  intros k o'; cbn [log store since_clear is_clear got_for]; try exact (H k o').
  - destruct (key_eqb_spec (key_of r) k) as [<-|Hk]; [|exact (H k o')].
    intros [<-|Hi]; [assumption|exact (H _ _ Hi)].
  - unfold supd. destruct (key_eqb_spec (key_of r) k) as [<-|Hk].
    + rewrite key_eqb_refl. intros [<-|Hi]; [reflexivity|].
      apply H in Hi. congruence.
    + apply key_eqb_neq in Hk. rewrite key_eqb_sym, Hk. exact (H k o').
  - intros [].
Qed.

(** * C1. single flight: the objects created for k in the current epoch are exactly the
      stored one, or the one its creator (still holding the lock) is about to store *)
Definition pend_th (th : thread) (k : key) : list obj :=
  match tpc th with
  | PStore => match prog th, reg th with
              | OGet r _ :: _, Some o => if key_eqb (key_of r) k then [o] else []
              | _, _ => []
              end
  | _ => []
  end.

Definition pending (st : state) (k : key) : list obj :=
  match lock st with
  | Some t => pend_th (threads st t) k
  | None => []
  end.

Definition invC1 (st : state) : Prop :=
  forall k, created_for k (since_clear (log st))
            = match store st k with Some o => [o] | None => pending st k end.

Lemma invC1_init nc progs : invC1 (init nc progs).
Proof. intros k. reflexivity. Qed.

Lemma invC1_step t st : invA st -> invB st -> invN st -> invC1 st -> invC1 (step t st).
Proof.
  intros HA HB [Hnc HN] H. pose proof (HA t) as At. pose proof (HB t) as Bt.
  pose proof (HN t) as Nt.
  open_step t st Hth; try exact H; try rewrite Hth in *; cbn in At, Bt, Nt;
  try specialize (Bt _ _ _ eq_refl); try congruence; try tauto;
  intros k; pose proof (H k) as Hk; unfold pending in *;
  cbn [log store lock threads since_clear is_clear created_for];
  try reflexivity;
  first [ assert (Hl : lock st = Some t) by (apply At; reflexivity);
          rewrite ?Hl in *; rewrite ?upd_same; rewrite ?Hth in Hk;
          cbn [pend_th tpc prog reg] in *
        | idtac ];
  try exact Hk.
  all: try (destruct (lock st) as [t0|] eqn:Hl0; [|exact Hk];
            assert (t0 <> t) by (intros ->; destruct At as [_ At']; discriminate (At' eq_refl));
            rewrite upd_other by assumption; exact Hk).
  all: try (match goal with E : lock _ = None |- _ => rewrite E in Hk end;
            rewrite upd_same; cbn [pend_th tpc]; exact Hk).
  - destruct (key_eqb_spec (key_of r) k) as [E|Hne]; [subst k|exact Hk].
    rewrite Bt in *. rewrite Hk. reflexivity.
  - unfold supd. destruct (key_eqb_spec (key_of r) k) as [E|Hne]; [subst k|].
    + rewrite key_eqb_refl in *. rewrite Bt in Hk. exact Hk.
    + apply key_eqb_neq in Hne. rewrite key_eqb_sym, Hne. exact Hk.
  - reflexivity.
Qed.

(** * D. creators return fresh objects *)
Definition invD (st : state) : Prop :=
  Forall (fun o => (o < next st)%Z) (all_created (log st)) /\ NoDup (all_created (log st)).

Lemma invD_init nc progs : invD (init nc progs).
Proof. split; constructor. Qed.

Lemma Forall_lt_weaken l n : Forall (fun o => (o < n)%Z) l -> Forall (fun o => (o < n + 1)%Z) l.
Proof. intros H. eapply Forall_impl; [|exact H]. cbn. intros; lia. Qed.

Lemma invD_step t st : invD st -> invD (step t st).
Proof.
  intros [HF HN].
  open_step t st Hth; try (split; assumption); unfold invD; cbn [log next all_created];
  try (split; assumption);
  (split; [constructor; [lia|apply Forall_lt_weaken; exact HF]
          |constructor; [|exact HN]; intros Hin;
           rewrite Forall_forall in HF; apply HF in Hin; lia]).
Qed.

(** * E. what a look-up returns is what it obtained under the lock *)
Definition got_ev (t : tid) (r : req) (o : obj) (l : list event) : Prop :=
  In (ELoad t r o) l \/ In (EStore t r o) l.

Lemma got_ev_cons e t r o l : got_ev t r o l -> got_ev t r o (e :: l).
Proof. intros [H|H]; [left|right]; right; exact H. Qed.

Definition invE (st : state) : Prop :=
  (forall t r o, In (ERet t r o) (log st) -> got_ev t r o (log st)) /\
  (forall t r ok rest o,
      prog (threads st t) = OGet r ok :: rest -> reg (threads st t) = Some o ->
      tpc (threads st t) = PRelease \/ tpc (threads st t) = PReturn ->
      got_ev t r o (log st)).

Lemma invE_init nc progs : invE (init nc progs).
Proof. split; [intros ? ? ? []|]. intros t r ok rest o _ H. discriminate. Qed.

Lemma invE_step t st : invN st -> invE st -> invE (step t st).
Proof.
  intros [Hnc HN] [H1 H2]. pose proof (HN t) as Nt. pose proof (H2 t) as Et.
  open_step t st Hth; try (split; assumption); try rewrite Hth in *; cbn in Nt, Et;
  try congruence; try tauto;
  (split;
   [ intros t' r' o'; cbn [log]; intros Hin;
     try (destruct Hin as [Hin|Hin]; [try discriminate|]);
     try (apply got_ev_cons); try (apply H1; exact Hin)
   | intros t' r' ok' rest' o'; cbn [log threads]; pose proof (H2 t' r' ok' rest' o') as Et';
     split_thread t' t Hne; cbn [prog tpc reg];
     try (intros; apply got_ev_cons; apply Et'; assumption);
     try exact Et';
     try (intros E1 E2 [E3|E3]; discriminate) ]).
  - intros E1 E2 _. inversion E1; inversion E2; subst. left; left; reflexivity.
  - intros E1 E2 _. inversion E1; inversion E2; subst. right; left; reflexivity.
  - intros E1 E2 _. inversion E1; subst. apply got_ev_cons.
    apply (Et _ _ _ _ eq_refl eq_refl). left; reflexivity.
  - inversion Hin; subst. apply (Et _ _ _ _ eq_refl eq_refl). right; reflexivity.
Qed.

(** * H. provenance: whatever is stored, held or returned for key k was made by a creator
      invoked for a request with that key (both modes) *)
Definition made (k : key) (o : obj) (l : list event) : Prop :=
  exists t' r', In (ECreated t' r' o) l /\ key_of r' = k.

Lemma made_cons e k o l : made k o l -> made k o (e :: l).
Proof. intros (t' & r' & H & E). exists t', r'. split; [right; exact H|exact E]. Qed.

Definition invH (st : state) : Prop :=
  (forall k o, store st k = Some o -> made k o (log st)) /\
  (forall t r ok rest o,
      prog (threads st t) = OGet r ok :: rest -> reg (threads st t) = Some o ->
      made (key_of r) o (log st)) /\
  (forall t r o, In (ERet t r o) (log st) -> made (key_of r) o (log st)).

Lemma invH_init nc progs : invH (init nc progs).
Proof.
  split; [intros k o H; discriminate|]. split; [|intros ? ? ? []].
  intros t r ok rest o _ H. discriminate.
Qed.

Lemma invH_step t st : invH st -> invH (step t st).
Proof.
  intros (H1 & H2 & H3). pose proof (H2 t) as Ht.
  open_step t st Hth; try (repeat split; assumption); try rewrite Hth in *; cbn in Ht;
  (split; [|split];
  [ intros k' o'; cbn [store log]; intros Hs; try (apply made_cons); try (apply H1; exact Hs)
  | intros t' r' ok' rest' o'; cbn [log threads]; pose proof (H2 t' r' ok' rest' o') as Ht';
    split_thread t' t Hne; cbn [prog tpc reg];
    try (intros; apply made_cons; apply Ht'; assumption); try exact Ht';
    try (intros E1 E2; try apply made_cons; apply (Ht _ _ _ _ E1 E2));
    try (intros E1 E2; discriminate)
  | intros t' r' o'; cbn [log]; intros Hin;
    try (destruct Hin as [Hin|Hin]; [try discriminate|]);
    try (apply made_cons); try (eapply H3; exact Hin) ]).
  - intros E1 E2. injection E1 as <- _ _. injection E2 as <-.
    apply made_cons. apply H1. exact Heqo.
  - intros E1 E2. injection E1 as <- _ _. injection E2 as <-.
    exists t, r. split; [left; reflexivity|reflexivity].
  - unfold supd in Hs. destruct (key_eqb_spec k' (key_of r)) as [->|Hne].
    + injection Hs as <-. apply (Ht _ _ _ _ eq_refl eq_refl).
    + apply H1. exact Hs.
  - injection Hin as <- <- <-. apply (Ht _ _ _ _ eq_refl eq_refl).
  - intros E1 E2. injection E1 as <- _ _. injection E2 as <-.
    exists t, r. split; [left; reflexivity|reflexivity].
  - discriminate.
Qed.

(** * G. outcomes: a look-up returns iff the creator for its key succeeds (both modes),
      when what a creator does is a function [okf] of the key *)
Definition invG (okf : key -> bool) (st : state) : Prop :=
  (forall t, Forall (fun o => op_ok okf o = true) (prog (threads st t))) /\
  (forall k o, store st k = Some o -> okf k = true) /\
  (forall t r ok rest, prog (threads st t) = OGet r ok :: rest ->
      match tpc (threads st t) with
      | PStore | PRelease | PReturn => okf (key_of r) = true
      | PReleaseExc | PRaise => okf (key_of r) = false
      | _ => True
      end) /\
  (forall t r o, In (ERet t r o) (log st) -> okf (key_of r) = true) /\
  (forall t r, In (ERaise t r) (log st) -> okf (key_of r) = false).

Lemma invG_init okf nc progs :
  Forall (Forall (fun o => op_ok okf o = true)) progs -> invG okf (init nc progs).
Proof.
  intros H. split; [|split; [|split; [|split]]].
  - intros t. cbn. rewrite Forall_forall in H.
    destruct (Nat.lt_ge_cases t (length progs)) as [L|L].
    + apply H. apply nth_In. exact L.
    + rewrite nth_overflow by exact L. constructor.
  - intros k o E; discriminate.
  - intros t r ok rest _. exact I.
  - intros ? ? ? [].
  - intros ? ? [].
Qed.

Lemma invG_step okf t st : invB st -> invG okf st -> invG okf (step t st).
Proof.
  intros HB (H1 & H2 & H3 & H4 & H5). pose proof (HB t) as Bt.
  pose proof (H1 t) as Ft. pose proof (H3 t) as Gt.
  open_step t st Hth; try (repeat split; assumption); try rewrite Hth in *;
  cbn in Bt, Gt, Ft; try specialize (Bt _ _ _ eq_refl); try specialize (Gt _ _ _ eq_refl);
  try congruence;
  inversion Ft as [|? ? Hop Hrest]; subst; unfold op_ok in Hop;
  try (apply Bool.eqb_prop in Hop; symmetry in Hop);
  (split; [|split; [|split; [|split]]];
  [ intros t'; cbn [threads]; split_thread t' t Hne; cbn [prog]; auto
  | intros k' o'; cbn [store]; intros Hs; try (eapply H2; exact Hs)
  | intros t' r' ok' rest'; cbn [threads]; pose proof (H3 t' r' ok' rest') as Gt';
    split_thread t' t Hne; cbn [prog tpc]; try exact Gt';
    try (intros E1; injection E1 as <- <- <-; solve [exact I | assumption | congruence
                                                    | eapply H2; eassumption])
  | intros t' r' o'; cbn [log]; intros Hin;
    try (destruct Hin as [Hin|Hin]; [try discriminate|]);
    try (eapply H4; exact Hin); try (injection Hin as <- <- <-; assumption)
  | intros t' r'; cbn [log]; intros Hin;
    try (destruct Hin as [Hin|Hin]; [try discriminate|]);
    try (eapply H5; exact Hin); try (injection Hin as <- <-; assumption) ]).
  all: try (intros; exact I).
  - unfold supd in Hs. destruct (key_eqb_spec k' (key_of r)) as [->|Hne];
      [exact Gt|eapply H2; exact Hs].
  - discriminate.
Qed.

(** * F. caching disabled: the dict is never written, every look-up calls its creator
      exactly once and returns that call's object *)
Definition inflight (th : thread) : nat :=
  match prog th with
  | OGet _ _ :: _ => match tpc th with PNcExit | PReturn | PRaise => 1 | _ => 0 end
  | _ => 0
  end.

Definition nc_pc (th : thread) : Prop :=
  match prog th with
  | OGet _ _ :: _ =>
      match tpc th with P0 | PNcEnter | PNcExit | PReturn | PRaise => True | _ => False end
  | _ => True
  end.

Definition invF (st : state) : Prop :=
  nocache st = true /\
  (forall k, store st k = None) /\
  (forall t, nc_pc (threads st t) /\
             calls_by t (log st) = finished_by t (log st) + inflight (threads st t)) /\
  (forall t r o, In (ERet t r o) (log st) -> In (ECreated t r o) (log st)) /\
  (forall t r ok rest o, prog (threads st t) = OGet r ok :: rest ->
      reg (threads st t) = Some o -> In (ECreated t r o) (log st)).

Lemma invF_init progs : invF (init true progs).
Proof.
  split; [reflexivity|]. split; [reflexivity|]. split; [|split].
  - intros t. unfold nc_pc, inflight; cbn. destruct (nth t progs []) as [|[]]; auto.
  - intros ? ? ? [].
  - intros t r ok rest o _ E. discriminate.
Qed.

Lemma invF_step t st : invF st -> invF (step t st).
Proof.
  intros (Hnc & Hs & H3 & H4 & H5). pose proof (H3 t) as [Pt Ct]. pose proof (H5 t) as Rt.
  unfold nc_pc, inflight in Pt, Ct.
  open_step t st Hth; try (repeat split; assumption); try rewrite Hth in *;
  cbn in Pt, Ct, Rt; try contradiction; try congruence;
  (split; [exact Hnc|split; [|split; [|split]]];
  [ intros k'; cbn [store]; try apply Hs; try reflexivity
  | intros t'; cbn [threads log calls_by finished_by]; pose proof (H3 t') as [Pt' Ct'];
    split_thread t' t Hne; unfold nc_pc, inflight; cbn [prog tpc reg];
    rewrite ?Nat.eqb_refl;
    try (replace (Nat.eqb t t') with false by (symmetry; apply Nat.eqb_neq; congruence));
    try (split; [exact Pt'|]; cbn; exact Ct')
  | intros t' r' o'; cbn [log]; intros Hin;
    try (destruct Hin as [Hin|Hin]; [try discriminate|]);
    try (right; eapply H4; exact Hin); try (eapply H4; exact Hin)
  | intros t' r' ok' rest' o'; cbn [log threads]; pose proof (H5 t' r' ok' rest' o') as Rt';
    split_thread t' t Hne; cbn [prog tpc reg];
    try (intros; right; apply Rt'; assumption); try exact Rt';
    try (intros E1 E2; discriminate) ]).
  all: try (split; [exact I|lia]).
  all: try (destruct rest as [|[? ?|] ?]; cbn; split; try exact I; lia).
  all: try (intros E1 E2; first [apply (Rt _ _ _ _ E1 E2) | right; apply (Rt _ _ _ _ E1 E2)]).
  - injection Hin as <- <- <-. right. apply (Rt _ _ _ _ eq_refl eq_refl).
  - intros E1 E2. injection E1 as <- _ _. injection E2 as <-. left; reflexivity.
Qed.

(** * Every schedule: the invariants hold in every reachable state *)
Definition reach (nc : bool) (progs : list (list op)) (sched : list tid) : state :=
  run sched (init nc progs).

Lemma reach_AB nc progs sched :
  invA (reach nc progs sched) /\ invB (reach nc progs sched).
Proof.
  unfold reach. apply (run_inv (fun st => invA st /\ invB st)).
  - intros t st [A B]. split; [apply invA_step|apply invB_step]; assumption.
  - split; [apply invA_init|apply invB_init].
Qed.

Lemma reach_cached progs sched :
  let st := reach false progs sched in
  invA st /\ invB st /\ invN st /\ invC1 st /\ invC2 st /\ invE st.
Proof.
  unfold reach.
  apply (run_inv (fun st => invA st /\ invB st /\ invN st /\ invC1 st /\ invC2 st /\ invE st)).
  - intros t st (A & B & N & C1 & C2 & E).
    split; [|split; [|split; [|split; [|split]]]];
      [apply invA_step|apply invB_step|apply invN_step|apply invC1_step|apply invC2_step
      |apply invE_step]; assumption.
  - split; [|split; [|split; [|split; [|split]]]];
      [apply invA_init|apply invB_init|apply invN_init|apply invC1_init|apply invC2_init
      |apply invE_init].
Qed.

Lemma reach_C2 nc progs sched : invC2 (reach nc progs sched).
Proof.
  unfold reach.
  apply (run_inv (fun st => (invA st /\ invB st) /\ invC2 st)).
  - intros t st [[A B] C]. split; [split|];
      [apply invA_step|apply invB_step|apply invC2_step]; assumption.
  - split; [split|]; [apply invA_init|apply invB_init|apply invC2_init].
Qed.

Lemma reach_D nc progs sched : invD (reach nc progs sched).
Proof. unfold reach. apply (run_inv invD); [apply invD_step|apply invD_init]. Qed.

Lemma reach_H nc progs sched : invH (reach nc progs sched).
Proof. unfold reach. apply (run_inv invH); [apply invH_step|apply invH_init]. Qed.

Lemma reach_G okf nc progs sched :
  Forall (Forall (fun o => op_ok okf o = true)) progs -> invG okf (reach nc progs sched).
Proof.
  intros H. unfold reach.
  apply (run_inv (fun st => (invA st /\ invB st) /\ invG okf st)).
  - intros t st [[A B] G]. split; [split|];
      [apply invA_step|apply invB_step|apply invG_step]; assumption.
  - split; [split; [apply invA_init|apply invB_init]|apply invG_init, H].
Qed.

Lemma reach_F progs sched : invF (reach true progs sched).
Proof. unfold reach. apply (run_inv invF); [apply invF_step|apply invF_init]. Qed.

(** * The statements used by Props/C13.v *)

Lemma mutex nc progs sched t1 t2 :
  let st := reach nc progs sched in
  holds (threads st t1) = true -> holds (threads st t2) = true -> t1 = t2.
Proof.
  intros st H1 H2. destruct (reach_AB nc progs sched) as [A _].
  apply A in H1. apply A in H2. fold st in H1, H2. congruence.
Qed.

Lemma lock_owner nc progs sched t :
  let st := reach nc progs sched in
  lock st = Some t <-> holds (threads st t) = true.
Proof. intros st. destruct (reach_AB nc progs sched) as [A _]. symmetry. apply A. Qed.

Lemma single_flight progs sched k :
  length (created_for k (since_clear (log (reach false progs sched)))) <= 1.
Proof.
  destruct (reach_cached progs sched) as (_ & _ & _ & C1 & _).
  rewrite (C1 k). destruct (store _ k); [cbn; lia|].
  unfold pending. destruct (lock _); [|cbn; lia].
  unfold pend_th. destruct (tpc _); cbn; try lia.
  destruct (prog _) as [|[r ok|] ?]; cbn; try lia.
  destruct (reg _); cbn; try lia. destruct (key_eqb _ _); cbn; lia.
Qed.

Lemma stored_is_the_created_one progs sched k o :
  let st := reach false progs sched in
  store st k = Some o -> created_for k (since_clear (log st)) = [o].
Proof.
  intros st Hs. destruct (reach_cached progs sched) as (_ & _ & _ & C1 & _).
  fold st in C1. rewrite (C1 k), Hs. reflexivity.
Qed.

Lemma no_recreate_while_stored nc progs sched t k :
  let st := reach nc progs sched in
  creating (threads st t) k = true -> store st k = None.
Proof.
  intros st H. destruct (reach_AB nc progs sched) as [_ B]. fold st in B.
  specialize (B t). unfold creating in H.
  destruct (threads st t) as [[|[r ok|] rest] p rg]; cbn in *; try discriminate.
  specialize (B _ _ _ eq_refl).
  destruct p; try discriminate; apply key_eqb_eq in H; subst k; exact B.
Qed.

Lemma same_object nc progs sched k o :
  let st := reach nc progs sched in
  In o (got_for k (since_clear (log st))) -> store st k = Some o.
Proof. intros st. apply (reach_C2 nc progs sched). Qed.

Lemma same_object_pair nc progs sched k o1 o2 :
  let l := since_clear (log (reach nc progs sched)) in
  In o1 (got_for k l) -> In o2 (got_for k l) -> o1 = o2.
Proof.
  intros l H1 H2. apply (reach_C2 nc progs sched) in H1. apply (reach_C2 nc progs sched) in H2.
  congruence.
Qed.

Lemma return_is_got progs sched t r o :
  let st := reach false progs sched in
  In (ERet t r o) (log st) -> got_ev t r o (log st).
Proof.
  intros st. destruct (reach_cached progs sched) as (_ & _ & _ & _ & _ & [E _]). apply E.
Qed.

Lemma failure_not_cached nc progs sched t r rest rg :
  let st := reach nc progs sched in
  threads st t = mkTh (OGet r false :: rest) PCreateExit rg ->
  let st3 := step t (step t (step t st)) in
  store (step t st) = store st /\ store st3 = store st /\ store st3 (key_of r) = None /\
  lock st3 = None /\ threads st3 t = mkTh rest P0 None /\
  log st3 = ERaise t r :: ERel t :: EFailed t r :: log st.
Proof.
  intros st Hth. destruct (reach_AB nc progs sched) as [_ B]. fold st in B.
  pose proof (B t) as Bt. rewrite Hth in Bt. specialize (Bt _ _ _ eq_refl). cbn in Bt.
  cbn zeta.
  assert (E1 : step t st = mkSt (upd (threads st) t (mkTh (OGet r false :: rest) PReleaseExc rg))
                                (store st) (lock st) (next st) (nocache st)
                                (EFailed t r :: log st))
    by (unfold step; rewrite Hth; reflexivity).
  rewrite E1. set (st1 := mkSt _ _ _ _ _ _).
  assert (T1 : threads st1 t = mkTh (OGet r false :: rest) PReleaseExc rg) by apply upd_same.
  assert (E2 : step t st1 = mkSt (upd (threads st1) t (mkTh (OGet r false :: rest) PRaise rg))
                                 (store st1) None (next st1) (nocache st1)
                                 (ERel t :: log st1))
    by (unfold step; rewrite T1; reflexivity).
  rewrite E2. set (st2 := mkSt _ _ _ _ _ _).
  assert (T2 : threads st2 t = mkTh (OGet r false :: rest) PRaise rg) by apply upd_same.
  assert (E3 : step t st2 = mkSt (upd (threads st2) t (mkTh rest P0 None))
                                 (store st2) (lock st2) (next st2) (nocache st2)
                                 (ERaise t r :: log st2))
    by (unfold step; rewrite T2; reflexivity).
  rewrite E3. cbn [store lock threads log]. rewrite upd_same.
  repeat split; assumption.
Qed.

Lemma raising_thread_holds_no_lock nc progs sched t :
  let st := reach nc progs sched in
  tpc (threads st t) = PRaise -> lock st <> Some t.
Proof.
  intros st H L. apply (lock_owner nc progs sched t) in L. fold st in L.
  unfold holds in L. rewrite H in L. destruct (prog _) as [|[]]; discriminate.
Qed.

Lemma miss_calls_creator st t r ok rest rg :
  threads st t = mkTh (OGet r ok :: rest) PIfContains rg ->
  store st (key_of r) = None ->
  tpc (threads (step t st) t) = PCreateEnter /\
  log (step t (step t st)) = ECall t r :: log st.
Proof.
  intros Hth Hs. unfold step at 1 3. rewrite Hth. cbn [prog tpc reg]. rewrite Hs.
  unfold goto. cbn [prog tpc reg threads]. rewrite upd_same. split; [reflexivity|].
  unfold step. cbn [threads]. rewrite upd_same. reflexivity.
Qed.

Lemma clear_empties st t rest rg :
  threads st t = mkTh (OClear :: rest) PClearAll rg ->
  forall k, store (step t st) k = None /\
            created_for k (since_clear (log (step t st))) = [] /\
            got_for k (since_clear (log (step t st))) = [].
Proof. intros Hth k. unfold step. rewrite Hth. cbn. auto. Qed.

Lemma fresh_objects nc progs sched : NoDup (all_created (log (reach nc progs sched))).
Proof. apply reach_D. Qed.

Lemma no_cache_never_stores progs sched k : store (reach true progs sched) k = None.
Proof. destruct (reach_F progs sched) as (_ & S & _). apply S. Qed.

Lemma no_cache_calls_every_time progs sched t :
  let st := reach true progs sched in
  calls_by t (log st) = finished_by t (log st) + inflight (threads st t).
Proof. intros st. destruct (reach_F progs sched) as (_ & _ & H & _). apply H. Qed.

Lemma no_cache_returns_own_creation progs sched t r o :
  let st := reach true progs sched in
  In (ERet t r o) (log st) -> In (ECreated t r o) (log st).
Proof. intros st. destruct (reach_F progs sched) as (_ & _ & _ & H & _). apply H. Qed.

Lemma outcome_is_the_creators okf nc progs sched :
  Forall (Forall (fun o => op_ok okf o = true)) progs ->
  let st := reach nc progs sched in
  (forall t r o, In (ERet t r o) (log st) -> okf (key_of r) = true) /\
  (forall t r, In (ERaise t r) (log st) -> okf (key_of r) = false).
Proof.
  intros H st. destruct (reach_G okf nc progs sched H) as (_ & _ & _ & R & X).
  split; assumption.
Qed.

Lemma returned_object_made_for_key nc progs sched t r o :
  let st := reach nc progs sched in
  In (ERet t r o) (log st) ->
  exists t' r', In (ECreated t' r' o) (log st) /\ key_of r' = key_of r.
Proof. intros st. destruct (reach_H nc progs sched) as (_ & _ & H). apply H. Qed.

Lemma no_cross_talk nc progs sched t r o :
  let st := reach nc progs sched in
  In (ERet t r o) (log st) ->
  exists t' r', In (ECreated t' r' o) (log st) /\ norm_req r' = norm_req r.
Proof.
  intros st Hin.
  destruct (returned_object_made_for_key nc progs sched t r o Hin) as (t' & r' & Hc & Hk).
  exists t', r'. split; [exact Hc|apply key_injective; exact Hk].
Qed.

(** the requests that collided under the old joined-string key *)
Definition collide_progs : list (list op) :=
  [[OGet (Some "/x", "a+b") true; OGet (Some "/x+a", "b") true;
    OGet (None, "q+r") true; OGet (Some "q", "r") true]].
Definition collide_sched : list tid := repeat 0 40.

(** * add_sys_path: every directory is appended at most once, and never when already there *)

Lemma str_in_In s l : str_in s l = true <-> In s l.
Proof.
  induction l as [|x l IH]; cbn; [split; [discriminate|intros []]|].
  rewrite orb_true_iff, IH. split; intros [H|H]; auto.
  - left. apply String.eqb_eq in H. auto.
  - left. subst. apply String.eqb_refl.
Qed.

Lemma NoDup_snoc (l : list string) x : NoDup l -> ~ In x l -> NoDup (l ++ [x]).
Proof.
  induction l as [|y l IH]; cbn; intros N H.
  - constructor; [intros []|constructor].
  - inversion N; subst. constructor.
    + rewrite in_app_iff. cbn. intuition congruence.
    + apply IH; tauto.
Qed.

Lemma aupd_same f t th : aupd f t th t = th.
Proof. unfold aupd. now rewrite Nat.eqb_refl. Qed.

Lemma aupd_other f t th t' : t' <> t -> aupd f t th t' = f t'.
Proof. unfold aupd. intros H. apply Nat.eqb_neq in H. now rewrite H. Qed.

Lemma arun_inv (I : astate -> Prop) :
  (forall t st, I st -> I (astep t st)) ->
  forall sched st, I st -> I (arun sched st).
Proof. intros Hs sched. induction sched; simpl; auto. Qed.

Definition ainv (st : astate) : Prop :=
  (forall t, aholds (athreads st t) = true <-> alock st = Some t) /\
  (forall t p ex rest, aprog (athreads st t) = (p, ex) :: rest ->
      apcv (athreads st t) = AAppend -> ~ In p (base st ++ added st)) /\
  NoDup (added st) /\
  (forall p, In p (added st) -> ~ In p (base st)).

Lemma ainv_init sp0 progs : ainv (ainit sp0 progs).
Proof.
  split; [|split; [|split]].
  - intros t. unfold aholds; cbn. destruct (nth t progs []); split; discriminate.
  - intros t p ex rest _ H. discriminate.
  - constructor.
  - intros p [].
Qed.

Lemma ainv_step t st : ainv st -> ainv (astep t st).
Proof.
  intros H. pose proof H as (HA & HB & HN & HD). pose proof (HA t) as At. pose proof (HB t) as Bt.
  unfold astep. destruct (athreads st t) as [pr pc] eqn:Hth.
  destruct pr as [|[p ex] rest]; cbn [aprog apcv]; [exact H|].
  unfold aholds in At. cbn in At, Bt.
  destruct pc; cbn [aprog apcv];
  repeat match goal with
         | |- context [match ?x with _ => _ end] => destruct x eqn:?
         end;
  try exact H.
  all: split; [|split; [|split]]; cbn [athreads base added known alock alog].
  all: try assumption.
  all: try (intros t'; pose proof (HA t') as At'; destruct (Nat.eq_dec t' t) as [->|Hne];
            [rewrite aupd_same|rewrite aupd_other by exact Hne]; unfold aholds; cbn;
            try (rewrite Hth in At'; cbn in At');
            try solve [intuition congruence];
            destruct rest as [|? ?]; cbn; intuition congruence).
  all: try (intros t' p' ex' rest'; pose proof (HB t' p' ex' rest') as Bt';
            pose proof (HA t') as At';
            destruct (Nat.eq_dec t' t) as [->|Hne];
            [rewrite aupd_same; cbn; try (intros; discriminate)
            |rewrite aupd_other by exact Hne; try exact Bt']).
  - intros E _. injection E as <- _ _. intros Hin. apply str_in_In in Hin. congruence.
  - intros E1 E2. exfalso.
    assert (X : aholds (athreads st t') = true) by (unfold aholds; rewrite E1, E2; reflexivity).
    apply At' in X. destruct At as [At1 _]. specialize (At1 eq_refl). congruence.
  - specialize (Bt _ _ _ eq_refl eq_refl). rewrite in_app_iff in Bt.
    apply NoDup_snoc; tauto.
  - specialize (Bt _ _ _ eq_refl eq_refl). rewrite in_app_iff in Bt.
    intros p0 Hin. apply in_app_iff in Hin. destruct Hin as [Hin|[<-|[]]]; [apply HD; exact Hin|tauto].
Qed.

Lemma asp_no_duplicates sp0 progs sched :
  let st := arun sched (ainit sp0 progs) in
  base st = sp0 /\ NoDup (added st) /\ forall p, In p (added st) -> ~ In p sp0.
Proof.
  cbn zeta.
  assert (B : forall sched st, base (arun sched st) = base st).
  { intros s. induction s as [|t s IH]; intros st; [reflexivity|]. cbn. rewrite IH.
    unfold astep. destruct (aprog _) as [|[p ex] rest]; [reflexivity|].
    destruct (apcv _); cbn;
    repeat match goal with
           | |- context [match ?x with _ => _ end] => destruct x eqn:?
           end; reflexivity. }
  pose proof (arun_inv ainv ainv_step sched _ (ainv_init sp0 progs)) as (_ & _ & N & D).
  rewrite B in D. split; [apply B|]. split; assumption.
Qed.

Lemma asp_mutex sp0 progs sched t1 t2 :
  let st := arun sched (ainit sp0 progs) in
  aholds (athreads st t1) = true -> aholds (athreads st t2) = true -> t1 = t2.
Proof.
  intros st H1 H2.
  pose proof (arun_inv ainv ainv_step sched _ (ainv_init sp0 progs)) as (A & _).
  apply A in H1. apply A in H2. fold st in H1, H2. congruence.
Qed.
