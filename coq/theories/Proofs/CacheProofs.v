(** Proofs/CacheProofs.v — placeholder, to be written. *)
