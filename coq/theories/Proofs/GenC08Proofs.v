(* Proofs/GenC08Proofs.v - placeholder *)
