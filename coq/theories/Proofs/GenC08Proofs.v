(** Proofs/GenC08Proofs.v — Tie B for C08 / C09: the definitions GENERATED from the current
    pypyr/formatting.py (Gen/GenC08.v, rewritten before every build by tools/py2coq_c08.py)
    are proved equal, for all inputs, to the hand-written model the C08 / C09 theorems are
    about (Model/Format.v): RecursionSpec = [mk_rspec]; the loop body of _format_keep_type =
    [field_entry] and the literal rule of [build]; _format_keep_type = [keep_type];
    _get_formatted_iterable, instantiated with how Context builds the formatter, = [iter_body]
    (one step of [fmt_iter]); closed on fuel it is [fmt_iter] itself; vformat = [format_value].

    The proofs do not mention the generated terms literally (fresh-name suffixes, the order of
    let-bindings, joined or duplicated continuations may change with harmless edits of the
    source): they destruct the inputs and the results of the abstract calls and compute. *)
From PV Require Import Format FormatProofs FormatSrc GenC08.
From Coq Require Import Lia.
Open Scope string_scope.

(** * small facts *)
Lemma bind_ret {A} (m : res A) : bind m (fun x => Ok x) = m.
Proof. destruct m; reflexivity. Qed.

Lemma mapM_ext {A B} (f g : A -> res B) l : (forall x, f x = g x) -> mapM f l = mapM g l.
Proof. intros H. induction l as [|x l IH]; simpl; [reflexivity|]. now rewrite H, IH. Qed.

Lemma bind_mapM_ext {A B C} (f g : A -> res B) l (k : list B -> res C) :
  (forall x, f x = g x) -> bind (mapM f l) k = bind (mapM g l) k.
Proof. intros H. now rewrite (mapM_ext f g l H). Qed.

Lemma bind_mapM_ext2 {A B C} (f g : A -> res B) l (k1 k2 : list B -> res C) :
  (forall x, f x = g x) -> (forall ys, k1 ys = k2 ys) -> bind (mapM f l) k1 = bind (mapM g l) k2.
Proof. intros H K. rewrite (mapM_ext f g l H). destruct (mapM g l); simpl; auto. Qed.

(** the innermost scrutinee of a chain of binds / ifs / matches *)
Ltac inner m :=
  lazymatch m with
  | bind ?m' _ => inner m'
  | (if ?c then _ else _) => inner c
  | (match ?x with _ => _ end) => inner x
  | _ => m
  end.

Ltac head t := lazymatch t with ?f _ => head f | _ => t end.

Ltac crunch1 :=
  match goal with
  | |- ?L = _ =>
      let m := inner L in
      let h := head m in
      tryif is_constructor h then fail else (tryif is_var m then destruct m else destruct m eqn:?)
  end.

(** compute, but keep the model's big functions folded *)
Ltac hide_cbn :=
  cbn -[keep_type gen_format_keep_type vformat_std get_field parse format_field
        convert_field eval_pystring json_dumps set_of_list rebuild_dict].

Ltac crunch := repeat (hide_cbn; try reflexivity; crunch1).

(** * RecursionSpec *)
Lemma gen_RecursionSpec_is_model spec :
  gen_RecursionSpec spec = src_of_rspec (mk_rspec spec) false.
Proof.
  destruct spec as [|a [|b rest]]; try reflexivity;
    destruct a as [[] [] [] [] [] [] [] []]; try reflexivity;
    destruct b as [[] [] [] [] [] [] [] []]; reflexivity.
Qed.

(** the flags of a parsed spec, read off the generated constructor *)
Lemma gen_RecursionSpec_flags spec :
  rs_has_recursed (gen_RecursionSpec spec) = false
  /\ rs_is_recursive (gen_RecursionSpec spec) = r_recursive (mk_rspec spec)
  /\ rs_is_flat (gen_RecursionSpec spec) = r_flat (mk_rspec spec)
  /\ rs_is_set (gen_RecursionSpec spec) = (r_recursive (mk_rspec spec) || r_flat (mk_rspec spec))
  /\ rs_format_spec (gen_RecursionSpec spec) = r_spec (mk_rspec spec).
Proof. rewrite gen_RecursionSpec_is_model. repeat split. Qed.

(** * numbered fields: with no positional arguments they raise inside get_field *)
Lemma is_digit_not_sep c :
  is_digit c = true -> (Ascii.eqb c "."%char || Ascii.eqb c "["%char) = false.
Proof. destruct c as [[] [] [] [] [] [] [] []]; simpl; intros H; try reflexivity; discriminate. Qed.

Lemma split_first_digits s : all_digits s = true -> split_first s = (s, "").
Proof.
  induction s as [|c s IH]; simpl; intros H; [reflexivity|].
  apply andb_true_iff in H as [Hc Hs]. rewrite (is_digit_not_sep c Hc), (IH Hs). reflexivity.
Qed.

Lemma get_field_digits ctx name :
  isdigit name = true -> get_field ctx name = Err "TypeError" "'NoneType' object is not subscriptable".
Proof.
  intros H. unfold get_field.
  assert (D : all_digits name = true) by (destruct name; [discriminate|exact H]).
  rewrite (split_first_digits name D). now rewrite H.
Qed.

Lemma get_field_auto0 ctx :
  get_field ctx (auto_str (AutoAt 0)) = Err "TypeError" "'NoneType' object is not subscriptable".
Proof. reflexivity. Qed.

(** * [''.join] of the rendered entries *)
Fixpoint concat_strs (l : list string) : string :=
  match l with [] => "" | x :: r => x ++ concat_strs r end.

Lemma join_empty_sep l : join "" l = concat_strs l.
Proof.
  induction l as [|x [|y r] IH]; simpl; [reflexivity| now rewrite append_nil_r |].
  simpl in IH. now rewrite IH.
Qed.

Lemma strs_of_vals_VStr ss : strs_of_vals (map VStr ss) = Ok ss.
Proof. induction ss as [|s ss IH]; simpl; [reflexivity|]. now rewrite IH. Qed.

Fixpoint render_list (es : list entry) : res (list string) :=
  match es with
  | [] => Ok []
  | ELit l :: r => let* rest := render_list r in Ok (l :: rest)
  | EObj obj rs _ :: r =>
      let* out := format_field obj (r_spec rs) in
      let* rest := render_list r in Ok (out :: rest)
  end.

Lemma render_render_list es : render es = (let* ss := render_list es in Ok (concat_strs ss)).
Proof.
  induction es as [|[l|obj rs b] es IH]; simpl; [reflexivity| |].
  - rewrite IH. destruct (render_list es); reflexivity.
  - destruct (format_field obj (r_spec rs)); simpl; try reflexivity.
    rewrite IH. destruct (render_list es); reflexivity.
Qed.

(** whatever the generated element function looks like, if it renders an encoded entry as
    the model does, joining the results is [render] *)
Lemma join_is_render (F : src_entry -> res val) es :
  (forall e, F (enc_entry e) =
             match e with
             | ELit l => Ok (VStr l)
             | EObj obj rs _ => let* s := format_field obj (r_spec rs) in Ok (VStr s)
             end) ->
  (let* ys := mapM F (map enc_entry es) in let* j := str_join_vals "" ys in Ok (VStr j))
  = (let* out := render es in Ok (VStr out)).
Proof.
  intros H. rewrite render_render_list.
  assert (M : mapM F (map enc_entry es) = (let* ss := render_list es in Ok (map VStr ss))).
  { induction es as [|e es IH]; simpl; [reflexivity|]. rewrite H, IH.
    destruct e as [l|obj rs b]; simpl.
    - destruct (render_list es); reflexivity.
    - destruct (format_field obj (r_spec rs)); simpl; try reflexivity.
      destruct (render_list es); reflexivity. }
  rewrite M. destruct (render_list es) as [ss| |]; simpl; try reflexivity.
  unfold str_join_vals. rewrite strs_of_vals_VStr. simpl. now rewrite join_empty_sep.
Qed.

(** * the model is extensional in the nested formatting (used to close the knot) *)
Section Ext.
  Variable ctx : dict.
  Variables rec1 rec2 : val -> bool -> res val.
  Hypothesis Hrec : forall v r, rec1 v r = rec2 v r.

  Lemma field_entry_ext is_rec fld : field_entry ctx rec1 is_rec fld = field_entry ctx rec2 is_rec fld.
  Proof.
    destruct fld as [[name spec] conv]. unfold field_entry.
    destruct (lookup_field ctx name); cbn [bind]; try reflexivity.
    destruct (vformat_std ctx 2 spec); cbn [bind]; try reflexivity.
    cbv zeta. now rewrite Hrec.
  Qed.

  Lemma build_ext is_rec items tl : build ctx rec1 is_rec items tl = build ctx rec2 is_rec items tl.
  Proof.
    induction items as [|[lit fo] items IH]; simpl; [reflexivity|].
    rewrite IH. destruct fo as [fld|]; [now rewrite field_entry_ext|reflexivity].
  Qed.

  Lemma finish_ext es : finish rec1 es = finish rec2 es.
  Proof. destruct es as [|[l|obj rs b] [|e2 es]]; simpl; try reflexivity. now rewrite Hrec. Qed.

  Lemma keep_type_ext s is_rec : keep_type ctx rec1 s is_rec = keep_type ctx rec2 s is_rec.
  Proof.
    unfold keep_type. destruct (parse s) as [items tl]. unfold keep_items. rewrite build_ext.
    destruct (build ctx rec2 is_rec items tl); simpl; try reflexivity. apply finish_ext.
  Qed.

  Lemma iter_body_ext v r : iter_body ctx rec1 v r = iter_body ctx rec2 v r.
  Proof.
    destruct v; simpl; try reflexivity.
    - apply keep_type_ext.
    - apply bind_mapM_ext. intros x. apply Hrec.
    - apply bind_mapM_ext. intros x. apply Hrec.
    - apply bind_mapM_ext. intros x. apply Hrec.
    - apply bind_mapM_ext. intros [k x]. simpl. now rewrite !Hrec.
    - now rewrite Hrec.
  Qed.
End Ext.

(** * _format_keep_type *)
Section Tie.
  Variable ctx : dict.
  Variable rec : val -> bool -> res val.

  Definition lit_entries (lit : string) : list entry :=
    match lit with EmptyString => [] | _ => [ELit lit] end.

  (** the generated loop body on one parse item, in the only reachable numbering state *)
  Lemma body_is_model is_rec acc lit fo :
    gen_format_keep_type_body (src_get_field ctx) (src_vformat ctx) convert_field rec
      2 is_rec (AutoAt 0, map enc_entry acc) (lit, fo)
    = (let* mid := match fo with
                   | None => Ok []
                   | Some fld => let* e := field_entry ctx rec is_rec fld in Ok [e]
                   end in
       Ok (AutoAt 0, map enc_entry (acc ++ lit_entries lit ++ mid)%list)).
  Proof.
    unfold gen_format_keep_type_body.
    destruct fo as [[[name spec] conv]|].
    2: { destruct lit; cbn; rewrite ?map_app, ?app_nil_r; reflexivity. }
    unfold field_entry, lookup_field, src_get_field, src_vformat.
    change (Z.to_nat (2 - 1 + 1)) with 2%nat.
    destruct name as [|c name].
    - (* '{}' : auto-numbered *)
      cbn [String.eqb auto_is_false]. rewrite get_field_auto0. destruct lit; reflexivity.
    - cbn [String.eqb].
      destruct (isdigit (String c name)) eqn:D.
      + (* '{0}' : numbered *)
        cbn [auto_truth Z.eqb negb]. rewrite (get_field_digits ctx _ D). destruct lit; reflexivity.
      + destruct (get_field ctx (String c name)) as [obj| |]; [|destruct lit; reflexivity..].
        cbn [bind]. destruct (vformat_std ctx 2 spec) as [spec'| |]; [|destruct lit; reflexivity..].
        cbn [bind]. rewrite gen_RecursionSpec_is_model.
        destruct (mk_rspec spec') as [r f sp].
        destruct r, f, is_rec; cbn [src_of_rspec rs_is_recursive rs_is_flat r_recursive r_flat orb andb negb bind];
          try (destruct (rec obj true) as [obj'| |]; [|destruct lit; reflexivity..]; cbn [bind]);
          (match goal with |- context [convert_field ?o conv] =>
             destruct (convert_field o conv); [|destruct lit; reflexivity..] end);
          destruct lit; cbn; rewrite ?map_app; cbn; rewrite <- ?app_assoc; reflexivity.
  Qed.

  Lemma loop_is_model is_rec items tl : forall acc,
    for_items items tl
      (gen_format_keep_type_body (src_get_field ctx) (src_vformat ctx) convert_field rec 2 is_rec)
      (AutoAt 0, map enc_entry acc)
    = (let* es := build ctx rec is_rec items tl in Ok (AutoAt 0, map enc_entry (acc ++ es)%list)).
  Proof.
    induction items as [|[lit fo] items IH]; intros acc; cbn [for_items build].
    - destruct tl; cbn; rewrite ?app_nil_r; reflexivity.
    - rewrite body_is_model.
      destruct (match fo with
                | None => Ok []
                | Some fld => let* e := field_entry ctx rec is_rec fld in Ok [e]
                end) as [mid| |]; cbn [bind]; try reflexivity.
      rewrite IH. destruct (build ctx rec is_rec items tl) as [es| |]; cbn [bind]; try reflexivity.
      unfold lit_entries. rewrite <- !app_assoc. reflexivity.
  Qed.

  Theorem keep_type_is_model s is_rec :
    gen_format_keep_type parse (src_get_field ctx) (src_vformat ctx) convert_field format_field rec
      s gen_FORMAT_SPEC_RECURSION_DEPTH (AutoAt 0) is_rec
    = keep_type ctx rec s is_rec.
  Proof.
    unfold gen_format_keep_type, gen_FORMAT_SPEC_RECURSION_DEPTH, keep_type, keep_items, for_parse.
    destruct (parse s) as [items tl]. cbn [Z.ltb Z.compare fst snd].
    pose proof (loop_is_model is_rec items tl []) as L. cbn [map app] in L. rewrite L. clear L.
    destruct (build ctx rec is_rec items tl) as [es| |]; cbn [bind]; try reflexivity.
    rewrite map_length.
    destruct es as [|e [|e2 es]].
    - reflexivity.
    - destruct e as [l|obj [r f sp] recursed]; [reflexivity|].
      destruct recursed, r, f, sp; cbn;
        try (destruct (rec obj _); cbn; try reflexivity);
        try (match goal with |- context [format_field ?o ?sp] => destruct (format_field o sp) end);
        reflexivity.
    - change (Nat.eqb (List.length (e :: e2 :: es)) 1) with false. cbv iota.
      rewrite (finish_many rec (e :: e2 :: es)) by (simpl; lia).
      apply join_is_render. intros [l|obj rs b]; reflexivity.
  Qed.
End Tie.

(** * _get_formatted_iterable, with the formatter as Context builds it *)
Section Dispatch.
  Variable ctx : dict.
  Variable rec : val -> bool -> res val.

  Theorem iter_is_model v is_rec :
    gen_get_formatted_iterable gen_context_passthrough_types gen_context_special_types
      parse (src_get_field ctx) (src_vformat ctx) convert_field format_field
      (src_special_value ctx rec) rec v is_rec
    = iter_body ctx rec v is_rec.
  Proof.
    unfold gen_get_formatted_iterable.
    destruct v; hide_cbn;
      first [ reflexivity
            | rewrite keep_type_is_model; crunch
            | apply bind_mapM_ext2; [intros x; try (destruct x as [? ?]); crunch | intros ys; crunch]
            | crunch ].
  Qed.

  (** vformat: one call of the dispatch, not recursive *)
  Theorem vformat_is_model v :
    gen_vformat gen_context_passthrough_types gen_context_special_types
      parse (src_get_field ctx) (src_vformat ctx) convert_field format_field
      (src_special_value ctx rec) rec v
    = iter_body ctx rec v false.
  Proof.
    unfold gen_vformat. rewrite iter_is_model. destruct (iter_body ctx rec v false); reflexivity.
  Qed.
End Dispatch.

(** * the special tags (pypyr/dsl.py): what [prim_get_value] was instantiated with is the
    generated [get_value] of PyString / SicString / Jsonify, with [context.get_eval_string] the
    model's evaluator of the paired expression, [context.get_formatted_value v] = [rec v false]
    (vformat's default) and [json.dumps] the model's *)
Theorem special_value_is_source ctx rec v :
  src_special_value ctx rec v =
  match v with
  | VPy src e => gen_PyString_get_value (fun _ => eval_py (S (pyexpr_size e)) ctx e) src
  | VSic s => gen_SicString_get_value s
  | VJsonify x =>
      gen_Jsonify_get_value (fun y => rec y false) (fun y => res_of_opt (json_dumps y)) x
  | _ => Unsup
  end.
Proof.
  destruct v; try reflexivity;
    unfold gen_PyString_get_value, gen_SicString_get_value, gen_Jsonify_get_value;
    cbn [src_special_value]; first [ destruct src; reflexivity | crunch ].
Qed.

(** * the knot: the generated dispatch closed on fuel is the model's [fmt_iter] *)
Fixpoint gen_fmt_iter (ctx : dict) (fuel : nat) (v : val) (is_rec : bool) {struct fuel} : res val :=
  match fuel with
  | O => Unsup
  | S f =>
      gen_get_formatted_iterable gen_context_passthrough_types gen_context_special_types
        parse (src_get_field ctx) (src_vformat ctx) convert_field format_field
        (src_special_value ctx (gen_fmt_iter ctx f)) (gen_fmt_iter ctx f) v is_rec
  end.

Theorem gen_fmt_iter_is_model ctx fuel : forall v is_rec,
  gen_fmt_iter ctx fuel v is_rec = fmt_iter ctx fuel v is_rec.
Proof.
  induction fuel as [|f IH]; intros v r; [reflexivity|].
  cbn [gen_fmt_iter fmt_iter]. rewrite iter_is_model. apply iter_body_ext. exact IH.
Qed.

(** the model's [fmt_iter] satisfies the recursion equation of the source *)
Theorem fmt_iter_unfolds_to_source ctx f v is_rec :
  fmt_iter ctx (S f) v is_rec
  = gen_get_formatted_iterable gen_context_passthrough_types gen_context_special_types
      parse (src_get_field ctx) (src_vformat ctx) convert_field format_field
      (src_special_value ctx (fmt_iter ctx f)) (fmt_iter ctx f) v is_rec.
Proof. symmetry. apply iter_is_model. Qed.

(** [Context.get_formatted_value(v)] = [formatter.vformat(v, None, context)] *)
Theorem format_value_is_vformat ctx f v :
  format_value (S f) ctx v
  = gen_vformat gen_context_passthrough_types gen_context_special_types
      parse (src_get_field ctx) (src_vformat ctx) convert_field format_field
      (src_special_value ctx (fmt_iter ctx f)) (fmt_iter ctx f) v.
Proof. symmetry. apply vformat_is_model. Qed.

(** how Context constructs and calls the formatter — what [src_get_field] / [src_vformat] /
    the dispatch on special tags assume *)
Theorem context_formatter_is_model :
  gen_formatter_attrs = ["passthrough_types"; "special_types"]
  /\ gen_context_passthrough_types = None
  /\ gen_context_special_types = Some ["SpecialTagDirective"]
  /\ gen_context_get_formatted_value_call = mk_src_ambient true true
  /\ gen_context_get_formatted_call = mk_src_ambient true true
  /\ gen_context_get_formatted_as_type_call = mk_src_ambient true true
  /\ gen_context_iter_formatted_strings_call = mk_src_ambient true true.
Proof. repeat split. Qed.

(** * the isinstance ladder of the dispatch, over Python's types
    The value universe has one constructor per kind of value, so [iter_is_model] cannot see a
    class dropped from (or added to) a test when no constructor distinguishes it — [bytes] vs
    [bytearray], [set] vs [frozenset], a dict / list subclass.  The translator therefore also
    emits the class tuples of every isinstance test, in source order, and here that ladder is
    run over a table of Python types: (type, the classes among those the translator knows by
    name that it is an instance of).  What is proved: which test each type is caught by.
    Together with [iter_is_model] (what the branch behind that test does, on the constructor
    representing the kind) this fixes the treatment of every listed type.  Reordering
    independent tests keeps the result; changing a class tuple does not. *)
Definition py_type_table : list (string * list string) :=
  [("str", ["str"; "Sequence"]);
   ("bytes", ["bytes"; "Sequence"]);
   ("bytearray", ["bytearray"; "Sequence"]);
   ("list", ["list"; "Sequence"]);
   ("CommentedSeq", ["list"; "Sequence"]);
   ("tuple", ["tuple"; "Sequence"]);
   ("set", ["Set"]);
   ("frozenset", ["Set"]);
   ("dict", ["dict"; "Mapping"]);
   ("OrderedDict", ["dict"; "Mapping"]);
   ("CommentedMap", ["dict"; "Mapping"]);
   ("Context", ["dict"; "Mapping"]);
   ("PyString", ["PyString"; "SpecialTagDirective"]);
   ("SicString", ["SicString"; "SpecialTagDirective"]);
   ("Jsonify", ["Jsonify"; "SpecialTagDirective"]);
   ("NoneType", ["NoneType"]);
   ("bool", ["bool"; "int"]);
   ("int", ["int"]);
   ("float", ["float"]);
   ("object", [])].

(** the classes a test stands for: the formatter's attributes are what Context passes *)
Definition resolve_test (t : list string) : list string :=
  if list_eqb String.eqb t ["self.passthrough_types"]
  then match gen_context_passthrough_types with Some l => l | None => [] end
  else if list_eqb String.eqb t ["self.special_types"]
  then match gen_context_special_types with Some l => l | None => [] end
  else t.

(** the first test of the ladder an instance of a type with these classes passes *)
Fixpoint first_match (classes : list string) (ladder : list (list string)) : list string :=
  match ladder with
  | [] => []
  | t :: r => if existsb (fun c => str_in c classes) (resolve_test t) then t else first_match classes r
  end.

Definition ladder_verdicts (ladder : list (list string)) : list (string * list string) :=
  map (fun ty => (fst ty, first_match (snd ty) ladder)) py_type_table.

Theorem isinstance_ladder_is_model :
  (* only the object being formatted is tested, and nowhere else in the formatter *)
  snd gen_get_formatted_iterable_isinstance_tests = []
  /\ gen_format_keep_type_isinstance_tests = ([], [])
  /\ gen_vformat_isinstance_tests = ([], [])
  /\ ladder_verdicts (fst gen_get_formatted_iterable_isinstance_tests)
     = [("str", ["str"]);
        ("bytes", ["bytearray"; "bytes"]);
        ("bytearray", ["bytearray"; "bytes"]);        (* a leaf: the identical object *)
        ("list", ["Sequence"; "Set"]);
        ("CommentedSeq", ["Sequence"; "Set"]);
        ("tuple", ["Sequence"; "Set"]);
        ("set", ["Sequence"; "Set"]);
        ("frozenset", ["Sequence"; "Set"]);
        ("dict", ["Mapping"]);
        ("OrderedDict", ["Mapping"]);
        ("CommentedMap", ["Mapping"]);
        ("Context", ["Mapping"]);
        ("PyString", ["self.special_types"]);
        ("SicString", ["self.special_types"]);
        ("Jsonify", ["self.special_types"]);
        ("NoneType", []);
        ("bool", []);
        ("int", []);
        ("float", []);
        ("object", [])].
Proof. repeat split. Qed.

(** the table agrees with the value universe on the kinds the latter has *)
Lemma py_type_table_agrees s l d src e v :
  let cls n := match find (fun ty => String.eqb (fst ty) n) py_type_table with
               | Some ty => snd ty | None => [] end in
  classes_of (VStr s) = cls "str" /\ classes_of (VBytes s) = cls "bytes"
  /\ classes_of (VList l) = cls "list" /\ classes_of (VTuple l) = cls "tuple"
  /\ classes_of (VSet l) = cls "set" /\ classes_of (VDict d) = cls "dict"
  /\ classes_of (VPy src e) = cls "PyString" /\ classes_of (VSic s) = cls "SicString"
  /\ classes_of (VJsonify v) = cls "Jsonify" /\ classes_of VNone = cls "NoneType".
Proof. cbv zeta. repeat split. Qed.

(** * shape preservation read off the generated dispatch (C09) *)
Section Shape.
  Variable ctx : dict.
  Variable rec : val -> bool -> res val.
  Notation gen_iter :=
    (gen_get_formatted_iterable gen_context_passthrough_types gen_context_special_types
       parse (src_get_field ctx) (src_vformat ctx) convert_field format_field
       (src_special_value ctx rec) rec).

  Theorem gen_iter_leaf v r : is_leaf v = true -> gen_iter v r = Ok v.
  Proof. intros H. rewrite iter_is_model. destruct v; try discriminate; reflexivity. Qed.

  Theorem gen_iter_list l r :
    gen_iter (VList l) r = (let* l' := mapM (fun x => rec x r) l in Ok (VList l')).
  Proof. now rewrite iter_is_model. Qed.

  Theorem gen_iter_tuple l r :
    gen_iter (VTuple l) r = (let* l' := mapM (fun x => rec x r) l in Ok (VTuple l')).
  Proof. now rewrite iter_is_model. Qed.

  Theorem gen_iter_set l r :
    gen_iter (VSet l) r
    = (let* l' := mapM (fun x => rec x r) l in
       let* s := res_of_opt (set_of_list l') in Ok (VSet s)).
  Proof. now rewrite iter_is_model. Qed.

  (** keys AND values, pairwise, in order *)
  Theorem gen_iter_dict l r :
    gen_iter (VDict l) r
    = (let* l' := mapM (fun kv => let* k := rec (fst kv) r in
                                  let* x := rec (snd kv) r in Ok (k, x)) l in
       Ok (VDict (rebuild_dict l'))).
  Proof. now rewrite iter_is_model. Qed.
End Shape.
