(** Proofs/ConfigProofs.v — placeholder, to be written. *)
