(** Proofs/ConfigProofs.v — lemmas about Model/Config.v for property C20.
    Layout: decidable equality of values (needed to reason about dict keys of any
    type), dict / attribute-table algebra, one file ([handle_payload]) seen through a
    "look", the files in sequence ([init]) for an arbitrary look, then the rejection,
    global-override, skip and acceptance lemmas. *)
From PV Require Import Config.
From Coq Require Import Lia.
Open Scope string_scope.

Lemma cmpop_eqb_eq a b : cmpop_eqb a b = true -> a = b.
Proof. destruct a, b; simpl; congruence. Qed.

Ltac eqb_step :=
  repeat match goal with
       | H : _ && _ = true |- _ => apply andb_true_iff in H; destruct H
       end;
  repeat match goal with
       | H : Bool.eqb _ _ = true |- _ => apply Bool.eqb_prop in H; subst
       | H : Z.eqb _ _ = true |- _ => apply Z.eqb_eq in H; subst
       | H : Pos.eqb _ _ = true |- _ => apply Pos.eqb_eq in H; subst
       | H : String.eqb _ _ = true |- _ => apply String.eqb_eq in H; subst
       | H : cmpop_eqb _ _ = true |- _ => apply cmpop_eqb_eq in H; subst
       end.

Fixpoint pyexpr_eqb_eq (a b : pyexpr) {struct a} : pyexpr_eqb a b = true -> a = b.
Proof.
  destruct a; destruct b; simpl; intros H; try discriminate; try reflexivity; eqb_step.
  all: try reflexivity.
  all: try (repeat match goal with
       | H : pyexpr_eqb ?x _ = true |- _ => apply (pyexpr_eqb_eq x) in H; subst
       end; reflexivity).
  - f_equal. revert l0 H. induction l as [|x xs IH]; intros [|y ys] H; try discriminate; auto.
    apply andb_true_iff in H as [H1 H2]. f_equal; [apply pyexpr_eqb_eq; exact H1|apply IH; exact H2].
  - f_equal. revert l0 H. induction l as [|x xs IH]; intros [|y ys] H; try discriminate; auto.
    apply andb_true_iff in H as [H1 H2]. f_equal; [apply pyexpr_eqb_eq; exact H1|apply IH; exact H2].
Qed.

Fixpoint pyexpr_eqb_refl (a : pyexpr) : pyexpr_eqb a a = true.
Proof.
  destruct a; simpl; rewrite ?Z.eqb_refl, ?String.eqb_refl, ?Bool.eqb_reflx, ?pyexpr_eqb_refl; try reflexivity.
  - induction l as [|x xs IH]; [reflexivity|]. rewrite pyexpr_eqb_refl. exact IH.
  - induction l as [|x xs IH]; [reflexivity|]. rewrite pyexpr_eqb_refl. exact IH.
  - destruct op; reflexivity.
Qed.

Lemma Q_eqb_eq a b : Q_eqb a b = true -> a = b.
Proof.
  destruct a, b; unfold Q_eqb; simpl; intros H. eqb_step. reflexivity.
Qed.

Lemma Q_eqb_refl a : Q_eqb a a = true.
Proof. unfold Q_eqb. now rewrite Z.eqb_refl, Pos.eqb_refl. Qed.

Fixpoint val_eqb_eq (a b : val) {struct a} : val_eqb a b = true -> a = b.
Proof.
  destruct a; destruct b; simpl; intros H; try discriminate; try reflexivity; eqb_step.
  all: try reflexivity.
  - apply Q_eqb_eq in H; subst; reflexivity.
  - f_equal. revert l0 H. induction l as [|x xs IH]; intros [|y ys] H; try discriminate; auto.
    apply andb_true_iff in H as [H1 H2]. f_equal; [apply val_eqb_eq; exact H1|apply IH; exact H2].
  - f_equal. revert l0 H. induction l as [|x xs IH]; intros [|y ys] H; try discriminate; auto.
    apply andb_true_iff in H as [H1 H2]. f_equal; [apply val_eqb_eq; exact H1|apply IH; exact H2].
  - f_equal. revert l0 H. induction l as [|x xs IH]; intros [|y ys] H; try discriminate; auto.
    apply andb_true_iff in H as [H1 H2]. f_equal; [apply val_eqb_eq; exact H1|apply IH; exact H2].
  - f_equal. revert l0 H. induction l as [|[k x] xs IH]; intros [|[k' y] ys] H; try discriminate; auto.
    apply andb_true_iff in H as [H1 H2]. apply andb_true_iff in H1 as [H0 H1].
    f_equal; [f_equal; apply val_eqb_eq; assumption|apply IH; exact H2].
  - apply pyexpr_eqb_eq in H0; subst; reflexivity.
  - apply val_eqb_eq in H; subst; reflexivity.
Qed.

Fixpoint val_eqb_refl (a : val) : val_eqb a a = true.
Proof.
  destruct a; simpl;
    rewrite ?Z.eqb_refl, ?String.eqb_refl, ?Bool.eqb_reflx, ?Q_eqb_refl, ?pyexpr_eqb_refl; try reflexivity.
  - induction l as [|x xs IH]; [reflexivity|]. rewrite val_eqb_refl. exact IH.
  - induction l as [|x xs IH]; [reflexivity|]. rewrite val_eqb_refl. exact IH.
  - induction l as [|x xs IH]; [reflexivity|]. rewrite val_eqb_refl. exact IH.
  - induction l as [|[k x] xs IH]; [reflexivity|]. rewrite !val_eqb_refl. exact IH.
  - apply val_eqb_refl.
Qed.

Lemma val_eqb_true_iff a b : val_eqb a b = true <-> a = b.
Proof. split; [apply val_eqb_eq|intros ->; apply val_eqb_refl]. Qed.

Lemma val_eqb_sym a b : val_eqb a b = val_eqb b a.
Proof.
  destruct (val_eqb a b) eqn:E.
  - apply val_eqb_eq in E; subst. symmetry; apply val_eqb_refl.
  - destruct (val_eqb b a) eqn:E'; [|reflexivity].
    apply val_eqb_eq in E'; subst. rewrite val_eqb_refl in E; discriminate.
Qed.

(** ** dictionaries *)
Lemma dict_get_set k k' v d :
  dict_get k (dict_set k' v d) = if val_eqb k k' then Some v else dict_get k d.
Proof.
  induction d as [|[k2 v2] r IH]; simpl.
  - destruct (val_eqb k k'); reflexivity.
  - destruct (val_eqb k' k2) eqn:E2; simpl.
    + apply val_eqb_eq in E2; subst k2. destruct (val_eqb k k'); reflexivity.
    + destruct (val_eqb k k2) eqn:E.
      * apply val_eqb_eq in E; subst k2. rewrite val_eqb_sym, E2. reflexivity.
      * exact IH.
Qed.

Lemma dict_get_in_keys k d : dict_get k d <> None <-> In k (dict_keys d).
Proof.
  induction d as [|[k2 v2] r IH]; simpl.
  - split; [congruence|tauto].
  - destruct (val_eqb k k2) eqn:E.
    + apply val_eqb_eq in E; subst. split; [auto|congruence].
    + rewrite IH. split; [auto|]. intros [->|H]; [rewrite val_eqb_refl in E; discriminate|exact H].
Qed.

Lemma map_update_fold_get k m : forall ks d,
  dict_get k (fold_left (fun acc k0 => match dict_get k0 m with
                                       | Some v => dict_set k0 v acc
                                       | None => acc
                                       end) ks d)
  = if existsb (val_eqb k) ks then or_else (dict_get k m) (dict_get k d) else dict_get k d.
Proof.
  induction ks as [|k0 ks IH]; intros d; simpl; [reflexivity|].
  rewrite IH. destruct (val_eqb k k0) eqn:E; simpl.
  - apply val_eqb_eq in E; subst k0.
    destruct (dict_get k m) as [v|] eqn:G; simpl.
    + rewrite dict_get_set, val_eqb_refl. destruct (existsb (val_eqb k) ks); reflexivity.
    + destruct (existsb (val_eqb k) ks); reflexivity.
  - destruct (dict_get k0 m) as [v|] eqn:G; [|reflexivity].
    rewrite dict_get_set, E. reflexivity.
Qed.

Lemma dict_get_map_update k d m :
  dict_get k (map_update d m) = or_else (dict_get k m) (dict_get k d).
Proof.
  unfold map_update. rewrite map_update_fold_get.
  destruct (existsb (val_eqb k) (dict_keys m)) eqn:E; [reflexivity|].
  destruct (dict_get k m) as [v|] eqn:G; [|reflexivity].
  exfalso. assert (H : In k (dict_keys m)) by (apply dict_get_in_keys; congruence).
  assert (X : existsb (val_eqb k) (dict_keys m) = true)
    by (apply existsb_exists; exists k; split; [exact H|apply val_eqb_refl]).
  congruence.
Qed.

(** ** the scalar table *)
Lemma sm_get_set k k' v m :
  sm_get k (sm_set k' v m) = if String.eqb k k' then Some v else sm_get k m.
Proof.
  induction m as [|[k2 v2] r IH]; simpl.
  - destruct (String.eqb k k'); reflexivity.
  - destruct (String.eqb k' k2) eqn:E2; simpl.
    + apply String.eqb_eq in E2; subst k2. destruct (String.eqb k k'); reflexivity.
    + destruct (String.eqb k k2) eqn:E.
      * apply String.eqb_eq in E; subst k2. rewrite String.eqb_sym, E2. reflexivity.
      * exact IH.
Qed.

Lemma str_in_In s l : str_in s l = true <-> In s l.
Proof.
  induction l as [|x r IH]; simpl; [split; [discriminate|tauto]|].
  rewrite orb_true_iff, IH, String.eqb_eq. split; intros [H|H]; auto.
Qed.

Lemma update_scalars_fold_get s p : forall names acc,
  sm_get s (fold_left (fun acc name => match dict_get (VStr name) p with
                                       | Some v => sm_set name v acc
                                       | None => acc
                                       end) names acc)
  = if str_in s names then or_else (dict_get (VStr s) p) (sm_get s acc) else sm_get s acc.
Proof.
  induction names as [|n names IH]; intros acc; simpl; [reflexivity|].
  rewrite IH. destruct (String.eqb s n) eqn:E; simpl.
  - apply String.eqb_eq in E; subst n.
    destruct (dict_get (VStr s) p) as [v|] eqn:G; simpl.
    + rewrite sm_get_set, String.eqb_refl. destruct (str_in s names); reflexivity.
    + destruct (str_in s names); reflexivity.
  - destruct (dict_get (VStr n) p) as [v|] eqn:G; [|reflexivity].
    rewrite sm_get_set, E. reflexivity.
Qed.

Lemma sm_get_update_scalars s m p :
  In s scalar_props ->
  sm_get s (update_scalars m p) = or_else (dict_get (VStr s) p) (sm_get s m).
Proof.
  intros H. unfold update_scalars. rewrite update_scalars_fold_get.
  apply str_in_In in H. rewrite H. reflexivity.
Qed.

(** ** plumbing *)
Lemma cbind_ok {A B} (r : cres A) (f : A -> cres B) b :
  cbind r f = COk b -> exists a, r = COk a /\ f a = COk b.
Proof. destruct r; simpl; intros H; try discriminate. eauto. Qed.

Lemma or_else_assoc a b c : or_else (or_else a b) c = or_else a (or_else b c).
Proof. destruct a; reflexivity. Qed.

Lemma or_else_none a : or_else a None = a.
Proof. destruct a; reflexivity. Qed.

Lemma first_setting_app says a b :
  first_setting says (a ++ b) = or_else (first_setting says a) (first_setting says b).
Proof.
  induction a as [|x r IH]; simpl; [reflexivity|].
  destruct (says x); [reflexivity|exact IH].
Qed.

Lemma first_setting_cons says x r :
  first_setting says (x :: r) = or_else (says x) (first_setting says r).
Proof. reflexivity. Qed.

(** ** [update], inverted *)
Lemma update_ok c d c1 :
  update c d = COk c1 ->
  unknown_keys d = [] /\
  exists sh vs,
    update_dict_prop (c_shortcuts c) (dict_get (VStr "shortcuts") d) = COk sh /\
    update_dict_prop (c_vars c) (dict_get (VStr "vars") d) = COk vs /\
    c1 = mkConfig (update_scalars (c_scalars c) d) sh vs (c_loaded c) (c_pyproject c)
                  (c_skip_init c) (c_paths c).
Proof.
  unfold update. destruct (unknown_keys d) eqn:U; [|discriminate].
  destruct (update_dict_prop (c_shortcuts c) _) as [sh|e1|] eqn:S;
  destruct (update_dict_prop (c_vars c) _) as [vs|e2|] eqn:V; intros H; try discriminate.
  inversion H; subst. split; [reflexivity|]. exists sh, vs. auto.
Qed.

Lemma handle_payload_ok c path v c' :
  handle_payload c path v = COk c' ->
  ((v = VNone \/ v = VDict []) /\ c' = c) \/
  (exists d c1, v = VDict d /\ d <> [] /\ update c d = COk c1 /\ c' = with_loaded c1 path).
Proof.
  unfold handle_payload. destruct v; try discriminate.
  - intros H; inversion H; subst. left; auto.
  - destruct l as [|kv r].
    + simpl. intros H; inversion H; subst. left; auto.
    + cbn [py_truth is_nil negb]. intros H. apply cbind_ok in H as (c1 & U & E).
      inversion E; subst. right. exists (kv :: r), c1. repeat split; auto. discriminate.
Qed.

Lemma empty_says_nothing k v : v = VNone \/ v = VDict [] -> file_sets k v = None.
Proof. intros [->| ->]; reflexivity. Qed.

(** one file, one scalar *)
Lemma handle_payload_scalar s c path v c' :
  In s scalar_props ->
  handle_payload c path v = COk c' ->
  setting s c' = or_else (file_sets (VStr s) v) (setting s c).
Proof.
  intros Hs H. apply handle_payload_ok in H as [[T ->]|(d & c1 & -> & _ & U & ->)].
  - rewrite empty_says_nothing by exact T. reflexivity.
  - apply update_ok in U as (_ & sh & vs & _ & _ & ->).
    unfold setting; simpl. apply sm_get_update_scalars. exact Hs.
Qed.

Lemma update_dict_prop_get cur o r k :
  update_dict_prop cur o = COk r ->
  dict_get k r = or_else (match o with Some (VDict m) => dict_get k m | _ => None end)
                         (dict_get k cur).
Proof.
  destruct o as [v|]; simpl; [|intros H; inversion H; reflexivity].
  destruct v; simpl; intros H; try discriminate; try (inversion H; subst; reflexivity).
  - destruct s; [inversion H; reflexivity|discriminate].
  - destruct l; [inversion H; reflexivity|discriminate].
  - destruct l; [inversion H; reflexivity|discriminate].
  - inversion H; subst. apply dict_get_map_update.
Qed.

(** one file, one key of vars / of shortcuts *)
Lemma handle_payload_vars k c path v c' :
  handle_payload c path v = COk c' ->
  dict_get k (c_vars c') = or_else (file_sets_in "vars" k v) (dict_get k (c_vars c)).
Proof.
  intros H. apply handle_payload_ok in H as [[T ->]|(d & c1 & -> & _ & U & ->)].
  - unfold file_sets_in. rewrite empty_says_nothing by exact T. reflexivity.
  - apply update_ok in U as (_ & sh & vs & _ & V & ->). simpl.
    rewrite (update_dict_prop_get _ _ _ k V). unfold file_sets_in; simpl.
    destruct (dict_get (VStr "vars") d) as [[]|]; reflexivity.
Qed.

Lemma handle_payload_shortcuts k c path v c' :
  handle_payload c path v = COk c' ->
  dict_get k (c_shortcuts c') = or_else (file_sets_in "shortcuts" k v) (dict_get k (c_shortcuts c)).
Proof.
  intros H. apply handle_payload_ok in H as [[T ->]|(d & c1 & -> & _ & U & ->)].
  - unfold file_sets_in. rewrite empty_says_nothing by exact T. reflexivity.
  - apply update_ok in U as (_ & sh & vs & S & _ & ->). simpl.
    rewrite (update_dict_prop_get _ _ _ k S). unfold file_sets_in; simpl.
    destruct (dict_get (VStr "shortcuts") d) as [[]|]; reflexivity.
Qed.

(** ** the files in sequence *)
Lemma load_yaml_ok fs p raise v :
  load_yaml fs p raise = COk v -> v = payload_at fs p.
Proof.
  unfold load_yaml, payload_at. destruct (fs p); [destruct raise|]; intros H; inversion H; reflexivity.
Qed.

Lemma load_pyproject_ok fs c c' v :
  load_pyproject fs c pyproject_name = COk (c', v) ->
  v = pyproject_payload fs /\ (c' = c \/ exists t, c' = with_pyproject c t).
Proof.
  unfold load_pyproject, pyproject_payload.
  destruct (fs pyproject_name) as [|[]]; intros H; try discriminate;
    try (inversion H; subst; split; [reflexivity|left; reflexivity]).
  destruct (is_nil l) eqn:N.
  - inversion H; subst. destruct l; [|discriminate]. simpl. split; [reflexivity|left; reflexivity].
  - destruct (dict_get (VStr "tool") l) as [tool|].
    + destruct (py_truth tool) eqn:T.
      * destruct tool; try discriminate. inversion H; subst. split; [reflexivity|right; eauto].
      * inversion H; subst. split; [|right; eauto].
        destruct tool; try reflexivity. destruct l0; [reflexivity|discriminate].
    + inversion H; subst. split; [reflexivity|right; eauto].
Qed.

Section Overlay.
  (** [look] reads one piece of the effective configuration, [says] reads the same piece
      off one file's payload. *)
  Variable look : config -> option val.
  Variable says : val -> option val.
  Hypothesis look_step : forall c path v c',
    handle_payload c path v = COk c' -> look c' = or_else (says v) (look c).
  Hypothesis look_paths : forall c u cs, look (with_paths c u cs) = look c.
  Hypothesis look_pyproject : forall c t, look (with_pyproject c t) = look c.

  Lemma handle_yaml_look fs c p raise c' :
    handle_yaml fs c p raise = COk c' -> look c' = or_else (says (payload_at fs p)) (look c).
  Proof.
    unfold handle_yaml. intros H. apply cbind_ok in H as (v & L & H).
    apply load_yaml_ok in L; subst v. eapply look_step; eauto.
  Qed.

  Lemma handle_yamls_look fs : forall ps c c',
    handle_yamls fs c ps = COk c' ->
    look c' = or_else (first_setting says (rev (map (payload_at fs) ps))) (look c).
  Proof.
    induction ps as [|p r IH]; simpl; intros c c' H.
    - inversion H; reflexivity.
    - apply cbind_ok in H as (c1 & H1 & H2).
      rewrite (IH _ _ H2), (handle_yaml_look _ _ _ _ _ H1).
      rewrite first_setting_app, or_else_assoc. f_equal.
      rewrite first_setting_cons. simpl first_setting. rewrite or_else_none. reflexivity.
  Qed.

  Lemma handle_pyproject_look fs c c' :
    handle_pyproject fs c pyproject_name = COk c' ->
    look c' = or_else (says (pyproject_payload fs)) (look c).
  Proof.
    unfold handle_pyproject. intros H. apply cbind_ok in H as ([c1 v] & L & H). simpl in H.
    apply load_pyproject_ok in L as (-> & [->|(t & ->)]).
    - eapply look_step; eauto.
    - rewrite (look_step _ _ _ _ H), look_pyproject. reflexivity.
  Qed.

  Lemma init_look e fs c c' :
    skip_requested e = false ->
    init e fs c = COk c' ->
    look c' = or_else (first_setting says (map snd (precedence e fs))) (look c).
  Proof.
    intros S H. unfold init in H. rewrite S in H.
    apply cbind_ok in H as (c2 & H12 & H).
    apply cbind_ok in H as (c3 & H3 & H4).
    apply handle_yaml_look in H4. apply handle_pyproject_look in H3.
    unfold precedence. rewrite H4, H3. simpl map. rewrite !first_setting_cons, !or_else_assoc.
    f_equal. f_equal.
    destruct (global_path e) as [g|].
    - apply cbind_ok in H12 as (c1 & H1 & E). inversion E; subst.
      rewrite look_paths, (handle_yaml_look _ _ _ _ _ H1). simpl map.
      rewrite first_setting_cons. simpl first_setting. rewrite or_else_none. reflexivity.
    - apply cbind_ok in H12 as (c1 & H1 & H2).
      rewrite (handle_yaml_look _ _ _ _ _ H2), (handle_yamls_look _ _ _ _ H1), look_paths.
      simpl map. rewrite first_setting_cons, or_else_assoc, map_map. simpl.
      rewrite map_rev, rev_involutive. reflexivity.
  Qed.
End Overlay.

Lemma init_scalar e fs c c' s :
  skip_requested e = false -> init e fs c = COk c' -> In s scalar_props ->
  setting s c' = or_else (first_setting (file_sets (VStr s)) (map snd (precedence e fs))) (setting s c).
Proof.
  intros S H Hs. apply (init_look (setting s) (file_sets (VStr s))); auto.
  intros; eapply handle_payload_scalar; eauto.
Qed.

Lemma init_vars e fs c c' k :
  skip_requested e = false -> init e fs c = COk c' ->
  dict_get k (c_vars c') =
  or_else (first_setting (file_sets_in "vars" k) (map snd (precedence e fs))) (dict_get k (c_vars c)).
Proof.
  intros S H. apply (init_look (fun c => dict_get k (c_vars c)) (file_sets_in "vars" k)); auto.
  intros; eapply handle_payload_vars; eauto.
Qed.

Lemma init_shortcuts e fs c c' k :
  skip_requested e = false -> init e fs c = COk c' ->
  dict_get k (c_shortcuts c') =
  or_else (first_setting (file_sets_in "shortcuts" k) (map snd (precedence e fs)))
          (dict_get k (c_shortcuts c)).
Proof.
  intros S H. apply (init_look (fun c => dict_get k (c_shortcuts c)) (file_sets_in "shortcuts" k)); auto.
  intros; eapply handle_payload_shortcuts; eauto.
Qed.

(** ** every consulted file went through [handle_path] successfully *)
Definition handled (path : string) (v : val) : Prop :=
  exists c1 c2, handle_payload c1 path v = COk c2.

Lemma handle_yaml_handled fs c p raise c' :
  handle_yaml fs c p raise = COk c' -> handled p (payload_at fs p).
Proof.
  unfold handle_yaml. intros H. apply cbind_ok in H as (v & L & H).
  apply load_yaml_ok in L; subst v. exists c, c'. exact H.
Qed.

Lemma handle_yamls_handled fs : forall ps c c',
  handle_yamls fs c ps = COk c' -> forall p, In p ps -> handled p (payload_at fs p).
Proof.
  induction ps as [|p r IH]; simpl; intros c c' H q Hq; [contradiction|].
  apply cbind_ok in H as (c1 & H1 & H2). destruct Hq as [<-|Hq].
  - eapply handle_yaml_handled; eauto.
  - eapply IH; eauto.
Qed.

Lemma handle_pyproject_handled fs c c' :
  handle_pyproject fs c pyproject_name = COk c' -> handled pyproject_name (pyproject_payload fs).
Proof.
  unfold handle_pyproject. intros H. apply cbind_ok in H as ([c1 v] & L & H). simpl in H.
  apply load_pyproject_ok in L as (-> & _). exists c1, c'. exact H.
Qed.

Lemma init_all_handled e fs c c' :
  skip_requested e = false -> init e fs c = COk c' ->
  forall path v, In (path, v) (precedence e fs) -> handled path v.
Proof.
  intros S H path v Hin. unfold init in H. rewrite S in H.
  apply cbind_ok in H as (c2 & H12 & H).
  apply cbind_ok in H as (c3 & H3 & H4).
  unfold precedence in Hin. destruct Hin as [E|[E|Hin]].
  - inversion E; subst. eapply handle_yaml_handled; eauto.
  - inversion E; subst. eapply handle_pyproject_handled; eauto.
  - destruct (global_path e) as [g|].
    + apply cbind_ok in H12 as (c1 & H1 & _). destruct Hin as [E|[]].
      inversion E; subst. eapply handle_yaml_handled; eauto.
    + apply cbind_ok in H12 as (c1 & H1 & H2). destruct Hin as [E|Hin].
      * inversion E; subst. eapply handle_yaml_handled; eauto.
      * apply in_map_iff in Hin as (p & E & Hp). inversion E; subst.
        eapply handle_yamls_handled; eauto. apply in_rev in Hp. exact Hp.
Qed.

(** ** unknown settings *)
Lemma unknown_keys_spec d k : In k (unknown_keys d) <-> In k (dict_keys d) /\ is_known k = false.
Proof.
  unfold unknown_keys. rewrite filter_In. rewrite negb_true_iff. reflexivity.
Qed.

Lemma update_unknown c d :
  (exists k, In k (dict_keys d) /\ is_known k = false) ->
  update c d = CErr (EUnknownProps (unknown_keys d)) /\ unknown_keys d <> [].
Proof.
  intros (k & Hk). apply unknown_keys_spec in Hk. unfold update.
  destruct (unknown_keys d); [contradiction|]. split; [reflexivity|discriminate].
Qed.

Lemma handle_payload_unknown c path d :
  (exists k, In k (dict_keys d) /\ is_known k = false) ->
  handle_payload c path (VDict d) = CErr (EUnknownProps (unknown_keys d))
  /\ unknown_keys d <> []
  /\ (forall k, In k (unknown_keys d) <-> In k (dict_keys d) /\ is_known k = false).
Proof.
  intros H. destruct (update_unknown c d H) as [U N]. split; [|split; [exact N|apply unknown_keys_spec]].
  unfold handle_payload. destruct H as (k & Hk & _).
  destruct d as [|kv r]; [contradiction|]. cbn [py_truth is_nil negb]. rewrite U. reflexivity.
Qed.

Lemma init_unknown_rejected e fs c path d k :
  skip_requested e = false ->
  In (path, VDict d) (precedence e fs) -> In k (dict_keys d) -> is_known k = false ->
  forall c', init e fs c <> COk c'.
Proof.
  intros S Hin Hk Hu c' H.
  destruct (init_all_handled _ _ _ _ S H _ _ Hin) as (c1 & c2 & Hh).
  destruct (handle_payload_unknown c1 path d) as (E & _); [eauto|]. congruence.
Qed.

(** ** non-mapping payloads *)
Lemma handle_payload_nonmapping c path v :
  is_mapping v = false -> v <> VNone -> handle_payload c path v = CErr (ENotMapping path).
Proof.
  unfold handle_payload. intros M N. destruct v; try reflexivity; [congruence|discriminate].
Qed.

Lemma init_nonmapping_rejected e fs c path v :
  skip_requested e = false ->
  In (path, v) (precedence e fs) -> is_mapping v = false -> v <> VNone ->
  forall c', init e fs c <> COk c'.
Proof.
  intros S Hin M N c' H.
  destruct (init_all_handled _ _ _ _ S H _ _ Hin) as (c1 & c2 & Hh).
  rewrite handle_payload_nonmapping in Hh by assumption. discriminate.
Qed.

(** ** $PYPYR_CONFIG_GLOBAL *)
Lemma init_global_must_exist e fs c g :
  skip_requested e = false -> global_path e = Some g -> fs g = Absent ->
  init e fs c = CErr (ENotFound g).
Proof.
  intros S G A. unfold init. rewrite S, G. unfold handle_yaml, load_yaml. rewrite A. reflexivity.
Qed.

Lemma init_global_replaces e fs1 fs2 c g :
  global_path e = Some g ->
  fs1 g = fs2 g -> fs1 pyproject_name = fs2 pyproject_name -> fs1 (local_name e) = fs2 (local_name e) ->
  init e fs1 c = init e fs2 c.
Proof.
  intros G Eg Ep El. unfold init. rewrite G.
  unfold handle_yaml, load_yaml, handle_pyproject, load_pyproject. rewrite Eg, Ep, El. reflexivity.
Qed.

Lemma precedence_global e fs g :
  global_path e = Some g ->
  precedence e fs = [(local_name e, payload_at fs (local_name e));
                     (pyproject_name, pyproject_payload fs);
                     (g, payload_at fs g)].
Proof. intros G. unfold precedence. rewrite G. reflexivity. Qed.

Lemma precedence_no_global e fs :
  global_path e = None ->
  precedence e fs = (local_name e, payload_at fs (local_name e)) ::
                    (pyproject_name, pyproject_payload fs) ::
                    (user_path e, payload_at fs (user_path e)) ::
                    map (fun p => (p, payload_at fs p)) (common_paths e).
Proof. intros G. unfold precedence. rewrite G. reflexivity. Qed.

(** ** $PYPYR_SKIP_INIT *)
Lemma init_skip e fs c : skip_requested e = true -> init e fs c = COk (with_skip c).
Proof. intros S. unfold init. rewrite S. reflexivity. Qed.

(** ** well-formed files are accepted: [init] returns a configuration *)
Lemma handle_payload_wf c path v :
  payload_wellformed v = true -> exists c', handle_payload c path v = COk c'.
Proof.
  destruct v; try discriminate; intros W.
  - exists c; reflexivity.
  - unfold handle_payload. destruct (py_truth (VDict l)); [|eauto].
    simpl in W. apply andb_true_iff in W as [W Wv]. apply andb_true_iff in W as [Wu Ws].
    unfold update. destruct (unknown_keys l); [|discriminate].
    destruct (dict_get (VStr "shortcuts") l) as [[]|]; try discriminate;
    destruct (dict_get (VStr "vars") l) as [[]|]; try discriminate; simpl; eauto.
Qed.

Lemma load_yaml_present fs p raise :
  (raise = true -> fs p <> Absent) -> load_yaml fs p raise = COk (payload_at fs p).
Proof.
  unfold load_yaml, payload_at. destruct (fs p); [|reflexivity].
  destruct raise; [|reflexivity]. intros H. exfalso. apply H; reflexivity.
Qed.

Lemma handle_yaml_wf fs c p raise :
  (raise = true -> fs p <> Absent) -> payload_wellformed (payload_at fs p) = true ->
  exists c', handle_yaml fs c p raise = COk c'.
Proof.
  intros R W. unfold handle_yaml. rewrite load_yaml_present by exact R. simpl.
  apply handle_payload_wf; exact W.
Qed.

Lemma handle_yamls_wf fs : forall ps c,
  (forall p, In p ps -> payload_wellformed (payload_at fs p) = true) ->
  exists c', handle_yamls fs c ps = COk c'.
Proof.
  induction ps as [|p r IH]; simpl; intros c W; [eauto|].
  destruct (handle_yaml_wf fs c p false) as (c1 & H1); [discriminate|apply W; auto|].
  rewrite H1; simpl. apply IH. intros; apply W; auto.
Qed.

Lemma load_pyproject_wf fs c :
  pyproject_wellformed fs = true ->
  exists c1, load_pyproject fs c pyproject_name = COk (c1, pyproject_payload fs).
Proof.
  unfold pyproject_wellformed, load_pyproject, pyproject_payload.
  destruct (fs pyproject_name) as [|[]]; try discriminate; [eauto|].
  destruct l as [|kv r]; [simpl; eauto|].
  cbn [is_nil]. destruct (dict_get (VStr "tool") (kv :: r)) as [[]|]; try discriminate; [|eauto].
  intros _. destruct l as [|kv' r']; simpl; eauto.
Qed.

Lemma init_wf e fs c :
  skip_requested e = false ->
  (forall g, global_path e = Some g -> fs g <> Absent) ->
  pyproject_wellformed fs = true ->
  (forall path v, In (path, v) (precedence e fs) -> payload_wellformed v = true) ->
  exists c', init e fs c = COk c'.
Proof.
  intros S G P W. unfold init. rewrite S. unfold precedence in W.
  assert (W1 : payload_wellformed (payload_at fs (local_name e)) = true) by (eapply W; left; eauto).
  assert (W2 : payload_wellformed (pyproject_payload fs) = true) by (eapply W; right; left; eauto).
  assert (X : exists c2,
    match global_path e with
    | Some g => cbind (handle_yaml fs c g true) (fun c' => COk (with_paths c' g [g]))
    | None => cbind (handle_yamls fs (with_paths c (user_path e) (common_paths e)) (rev (common_paths e)))
                    (fun c1 => handle_yaml fs c1 (user_path e) false)
    end = COk c2).
  { destruct (global_path e) as [g|].
    - destruct (handle_yaml_wf fs c g true) as (c1 & H1);
        [intros _; apply G; reflexivity|eapply W; right; right; left; eauto|].
      rewrite H1; simpl; eauto.
    - destruct (handle_yamls_wf fs (rev (common_paths e))
                  (with_paths c (user_path e) (common_paths e))) as (c1 & H1).
      { intros p Hp. apply in_rev in Hp. eapply W. right; right; right.
        apply in_map_iff. exists p; split; [reflexivity|exact Hp]. }
      rewrite H1; simpl. apply handle_yaml_wf; [discriminate|]. eapply W; right; right; left; eauto. }
  destruct X as (c2 & ->). simpl.
  unfold handle_pyproject. destruct (load_pyproject_wf fs c2 P) as (c2' & ->). simpl.
  destruct (handle_payload_wf c2' pyproject_name _ W2) as (c3 & ->). simpl.
  apply handle_yaml_wf; [discriminate|exact W1].
Qed.

(** ** repeated paths: precedence goes by POSITION in the consulted order *)
Lemma first_setting_position says hi v lo x :
  (forall q, In q hi -> says q = None) -> says v = Some x ->
  first_setting says (hi ++ v :: lo)%list = Some x.
Proof.
  intros Hhi Hv. induction hi as [|q r IH]; simpl.
  - rewrite Hv. reflexivity.
  - rewrite (Hhi q) by (left; reflexivity). apply IH. intros; apply Hhi; right; assumption.
Qed.

Lemma position_says (says : val -> option val) (hi : list (string * val)) :
  (forall q, In q hi -> says (snd q) = None) -> forall w, In w (map snd hi) -> says w = None.
Proof. intros H w Hw. apply in_map_iff in Hw as (q & <- & Hq). apply H; exact Hq. Qed.

Lemma init_highest_position_wins e fs c c' hi path v lo :
  skip_requested e = false -> init e fs c = COk c' ->
  precedence e fs = (hi ++ (path, v) :: lo)%list ->
  (forall s x, In s scalar_props ->
     (forall q, In q hi -> file_sets (VStr s) (snd q) = None) ->
     file_sets (VStr s) v = Some x -> setting s c' = Some x)
  /\ (forall k x,
     (forall q, In q hi -> file_sets_in "vars" k (snd q) = None) ->
     file_sets_in "vars" k v = Some x -> dict_get k (c_vars c') = Some x)
  /\ (forall k x,
     (forall q, In q hi -> file_sets_in "shortcuts" k (snd q) = None) ->
     file_sets_in "shortcuts" k v = Some x -> dict_get k (c_shortcuts c') = Some x).
Proof.
  intros S H P. repeat split.
  - intros s x Hs Hhi Hv. rewrite (init_scalar _ _ _ _ _ S H Hs), P, map_app. simpl map.
    rewrite (first_setting_position _ _ _ _ x (position_says _ _ Hhi) Hv). reflexivity.
  - intros k x Hhi Hv. rewrite (init_vars _ _ _ _ k S H), P, map_app. simpl map.
    rewrite (first_setting_position _ _ _ _ x (position_says _ _ Hhi) Hv). reflexivity.
  - intros k x Hhi Hv. rewrite (init_shortcuts _ _ _ _ k S H), P, map_app. simpl map.
    rewrite (first_setting_position _ _ _ _ x (position_says _ _ Hhi) Hv). reflexivity.
Qed.

(** ** [config_loaded_paths]: one entry per consulted position that was merged *)
Lemma loaded_of_app a b : loaded_of (a ++ b)%list = (loaded_of a ++ loaded_of b)%list.
Proof. unfold loaded_of. rewrite filter_app, map_app. reflexivity. Qed.

Lemma handle_payload_loaded c path v c' :
  handle_payload c path v = COk c' -> c_loaded c' = (c_loaded c ++ loaded_of [(path, v)])%list.
Proof.
  intros H. apply handle_payload_ok in H as [[[->| ->] ->]|(d & c1 & -> & N & U & ->)].
  - simpl. rewrite app_nil_r. reflexivity.
  - simpl. rewrite app_nil_r. reflexivity.
  - apply update_ok in U as (_ & sh & vs & _ & _ & ->). destruct d; [congruence|]. reflexivity.
Qed.

Lemma handle_yaml_loaded fs c p raise c' :
  handle_yaml fs c p raise = COk c' -> c_loaded c' = (c_loaded c ++ loaded_of [(p, payload_at fs p)])%list.
Proof.
  unfold handle_yaml. intros H. apply cbind_ok in H as (v & L & H).
  apply load_yaml_ok in L; subst v. apply handle_payload_loaded; exact H.
Qed.

Lemma handle_yamls_loaded fs : forall ps c c',
  handle_yamls fs c ps = COk c' ->
  c_loaded c' = (c_loaded c ++ loaded_of (map (fun p => (p, payload_at fs p)) ps))%list.
Proof.
  induction ps as [|p r IH]; simpl; intros c c' H.
  - inversion H. rewrite app_nil_r. reflexivity.
  - apply cbind_ok in H as (c1 & H1 & H2).
    rewrite (IH _ _ H2), (handle_yaml_loaded _ _ _ _ _ H1), <- app_assoc.
    f_equal. symmetry. apply (loaded_of_app [_]).
Qed.

Lemma handle_pyproject_loaded fs c c' :
  handle_pyproject fs c pyproject_name = COk c' ->
  c_loaded c' = (c_loaded c ++ loaded_of [(pyproject_name, pyproject_payload fs)])%list.
Proof.
  unfold handle_pyproject. intros H. apply cbind_ok in H as ([c1 v] & L & H). simpl in H.
  apply load_pyproject_ok in L as (-> & [->|(t & ->)]);
    rewrite (handle_payload_loaded _ _ _ _ H); reflexivity.
Qed.

Lemma loaded_of_cons x l : loaded_of (x :: l) = (loaded_of [x] ++ loaded_of l)%list.
Proof. apply (loaded_of_app [x] l). Qed.

Lemma init_loaded e fs c c' :
  skip_requested e = false -> init e fs c = COk c' ->
  c_loaded c' = (c_loaded c ++ loaded_of (rev (precedence e fs)))%list.
Proof.
  intros S H. unfold init in H. rewrite S in H.
  apply cbind_ok in H as (c2 & H12 & H).
  apply cbind_ok in H as (c3 & H3 & H4).
  rewrite (handle_yaml_loaded _ _ _ _ _ H4), (handle_pyproject_loaded _ _ _ H3).
  unfold precedence.
  set (X := match global_path e with
            | Some g => [(g, payload_at fs g)]
            | None => (user_path e, payload_at fs (user_path e))
                      :: map (fun p => (p, payload_at fs p)) (common_paths e)
            end).
  assert (E2 : c_loaded c2 = (c_loaded c ++ loaded_of (rev X))%list).
  { subst X. destruct (global_path e) as [g|].
    - apply cbind_ok in H12 as (c1 & H1 & E). inversion E; subst. simpl c_loaded.
      rewrite (handle_yaml_loaded _ _ _ _ _ H1). reflexivity.
    - apply cbind_ok in H12 as (c1 & H1 & H2).
      rewrite (handle_yaml_loaded _ _ _ _ _ H2), (handle_yamls_loaded _ _ _ _ H1). simpl c_loaded.
      simpl rev. rewrite loaded_of_app, <- map_rev, <- app_assoc. reflexivity. }
  rewrite E2. simpl rev. rewrite !loaded_of_app, <- !app_assoc. reflexivity.
Qed.
