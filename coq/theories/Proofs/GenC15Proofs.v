(* Proofs/GenC15Proofs.v - placeholder *)
