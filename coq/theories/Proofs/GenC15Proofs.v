(** Proofs/GenC15Proofs.v - Tie B for C15.  What is proved about the terms GENERATED from the
    current source of pypyr/utils/filesystem.py (Gen/GenC15.v):
    - the same-file test computes the model's routing decision, for all inputs;
    - the statement structure of move_file / remove_temp_file / move_temp_file, of
      StreamRewriter.in_to_out and ObjectRewriter.in_to_out and of
      FileRewriter.files_in_to_out IS (syntactically) the structured program written below:
      which primitive is issued inside which with / try block, in which order, which handler
      runs and what it re-raises.  A change to any of that changes the generated term and the
      equalities stop compiling;
    - the rename step with its handler (move_temp_file), run by the statement semantics of
      Model/FsRewrite.v, is the op model's [Replace] step + [handler], for EVERY fault
      assignment; the write loop of the statement semantics and of the op model are the same
      function ([write_items_flat], [run_ops_items]).
    NOT proved (validated by the correspondence run only): that the whole structured methods,
    run by the statement semantics under arbitrary faults, equal the flat op lists + [unwind]
    of the model (the symbolic execution of the full methods does not check in acceptable
    time). *)
From PV Require Import FsRewrite FsRewriteProofs GenC15.
From Coq Require Import Lia.
Open Scope string_scope.

(** * the same-file test *)
Definition isfile (d : dir) (p : name) : bool :=
  match lookup p d with Some _ => true | None => false end.

Definition same_file (src : name) (out : option name) : bool :=
  match out with Some o => String.eqb o src | None => false end.

(** in_path is a file (files_in_to_out checked is_file()); out_path None is falsy; samefile on
    model names (files, not spellings) is equality *)
Lemma gen_is_same_file_is_model d src out :
  isfile d src = true ->
  gen_is_same_file true (match out with Some _ => true | None => false end)
                   (isfile d src) (match out with Some o => isfile d o | None => false end)
                   (same_file src out)
  = same_file src out.
Proof.
  intros H. unfold gen_is_same_file, same_file. rewrite H. destruct out as [o|]; simpl; auto.
  destruct (String.eqb o src) eqn:E; [|now rewrite Bool.andb_false_r].
  apply String.eqb_eq in E; subst. now rewrite H.
Qed.

(** * the write loop, seen from both sides *)
Section Items.
Variables (nm : namer) (F : nat -> fmode).

Fixpoint items_flat (its : list (option bytes)) (n : nat) (s : st)
  : pout * (st * nat * list (op * st) * option (nat * op)) :=
  match its with
  | [] => (PNorm, (s, n, [], None))
  | None :: _ => (PExc EFormat, (s, n, [], Some (n, FmtFail)))
  | Some c :: r =>
      match F n with
      | Crash => (PCrash, (s, S n, [(Write c, s)], None))
      | Raise => (PExc (EInj n), (s, S n, [(Write c, s)], Some (n, Write c)))
      | NoFault =>
          match items_flat r (S n) (exec nm (Write c) s) with
          | (o, (s', n', h, stp)) => (o, (s', n', (Write c, s) :: h, stp))
          end
      end
  end.

Definition merge_stop (a b : option (nat * op)) : option (nat * op) :=
  match b with Some y => first_stop a y | None => a end.

Lemma write_items_flat its : forall x,
  write_items nm F its x =
  match items_flat its (p_n x) (p_st x) with
  | (o, (s', n', h, stp)) =>
      (o, mkpst (p_env x) s' n' (p_hist x ++ map fst h) (merge_stop (p_stop x) stp) (p_rf x))
  end.
Proof.
  induction its as [|[c|] its IH]; intros [e s n h sp rf]; cbn [write_items items_flat p_n p_st].
  - cbn. now rewrite app_nil_r.
  - unfold do_prim; cbn [p_st p_n p_env p_hist p_stop p_rf]. destruct (F n).
    + rewrite IH. cbn [p_st p_n p_env p_hist p_stop p_rf].
      destruct (items_flat its (S n) (exec nm (Write c) s)) as [o [[[s' n'] h'] stp]].
      cbn. now rewrite <- app_assoc.
    + cbn. now rewrite Bool.orb_false_r.
    + reflexivity.
  - unfold data_fail. cbn. now rewrite app_nil_r.
Qed.

Lemma prepend_with_stop h x r : prepend h (with_stop x r) = with_stop x (prepend h r).
Proof. reflexivity. Qed.

Lemma run_ops_items its rest : forall n s,
  run_ops nm F (map item_op its ++ rest) n s =
  match items_flat its n s with
  | (PNorm, (s', n', h, _)) => prepend h (run_ops nm F rest n' s')
  | (PExc e, (s', n', h, stp)) => with_stop stp (prepend h (unwind F n' s' e))
  | (PCrash, (s', n', h, _)) => mkres s' Crashed h n' None false
  | (_, (s', n', h, _)) => mkres s' Unsupp h n' None false
  end.
Proof.
  induction its as [|[c|] its IH]; intros n s; cbn [map app item_op items_flat].
  - now rewrite prepend_nil.
  - cbn [run_ops visible]. destruct (F n).
    + rewrite IH.
      destruct (items_flat its (S n) (exec nm (Write c) s)) as [o [[[s' n'] h'] stp]].
      destruct o; reflexivity.
    + cbn [handler fail_effect]. reflexivity.
    + reflexivity.
  - cbn [run_ops visible data_exn]. destruct (unwind F n s EFormat); reflexivity.
Qed.

Lemma exec_write_fields c s :
  src_open (exec nm (Write c) s) = src_open s /\ wh (exec nm (Write c) s) = wh s /\
  in_try (exec nm (Write c) s) = in_try s /\ temps (exec nm (Write c) s) = temps s /\
  nrep (exec nm (Write c) s) = nrep s.
Proof.
  simpl. destruct (wh s) as [[t x]|] eqn:W; [destruct (lookup t (sd s))|]; simpl;
    rewrite ?W; repeat split.
Qed.

(** the loop only ever changes the directory; it ends normally, killed, or with an exception
    whose origin it names *)
Definition items_out_ok (o : pout) (stp : option (nat * op)) : Prop :=
  match o with
  | PNorm | PCrash => stp = None
  | PExc _ => exists b, stp = Some b
  | _ => False
  end.

Lemma items_flat_shape its : forall n s o s' n' h stp,
  items_flat its n s = (o, (s', n', h, stp)) ->
  (exists d', s' = mkst d' (src_open s) (wh s) (in_try s) (temps s) (nrep s)) /\
  items_out_ok o stp.
Proof.
  induction its as [|[c|] its IH]; intros n s o s' n' h stp; cbn [items_flat].
  - intros H; inversion H; subst. split; [exists (sd s'); now destruct s' | reflexivity].
  - destruct (F n).
    + destruct (items_flat its (S n) (exec nm (Write c) s)) as [o1 [[[s1 n1] h1] stp1]] eqn:E.
      intros H. destruct (IH _ _ _ _ _ _ _ E) as ((d' & Hd) & Hok).
      inversion H; subst. split; [|exact Hok]. exists d'.
      destruct (exec_write_fields c s) as (A & B & C & D & G). now rewrite A, B, C, D, G.
    + intros H; inversion H; subst. split; [exists (sd s'); now destruct s' | simpl; eauto].
    + intros H; inversion H; subst. split; [exists (sd s'); now destruct s' | reflexivity].
  - intros H; inversion H; subst. split; [exists (sd s'); now destruct s' | simpl; eauto].
Qed.

End Items.

(** * the structured programs: what the source is expected to be *)
Definition remove_temp_file_prog (path : pexpr) : stm := STry (SRemove path) SSkip.

Definition move_file_prog (src dest : pexpr) : stm := STry (SReplace src dest) SReraise.

Definition move_temp_file_prog (src dest : pexpr) : stm :=
  STry (move_file_prog src dest) (SSeq (remove_temp_file_prog src) SReraise).

(** the temp file: bound by the with, filled, closed; any exception out of it removes the temp
    (if the with got as far as binding it) and is re-raised *)
Definition temp_block : stm :=
  SSeq SSetOutfileNone
       (STry (SWith (WMkTemp XDirnameIn false) BOutfile SWriteItems)
             (SSeq (SIf COutfileNotNone (remove_temp_file_prog XOutfileName) SSkip) SReraise)).

Definition direct_block : stm :=
  SSeq (SWith (WOpenWrite XOutPath) BOutfile SWriteItems) SReturn.

Definition stream_prog : stm :=
  SSeq (SSetInPlace false)
  (SSeq (SIf CSameFile (SSeq SSetOutNone (SSetInPlace true)) SSkip)
  (SSeq (SWith (WOpenRead XInPath) BInfile
           (SIf COutPath direct_block
                (SSeq SSetOutfileNone
                   (SSeq (STry (SWith (WMkTemp XDirnameIn false) BOutfile SWriteItems)
                               (SSeq (SIf COutfileNotNone (remove_temp_file_prog XOutfileName) SSkip)
                                     SReraise))
                         (SSetInPlace true)))))
        (SIf CInPlaceFlag (move_temp_file_prog XOutfileName XInfileName) SSkip))).

Definition object_prog : stm :=
  SSeq (SIf CSameFile SSetOutNone SSkip)
  (SSeq (SWith (WOpenRead XInPath) BInfile SLoad)
        (SIf COutPath direct_block
             (SSeq SSetOutfileNone
                (SSeq (STry (SWith (WMkTemp XDirnameIn false) BOutfile SWriteItems)
                            (SSeq (SIf COutfileNotNone (remove_temp_file_prog XOutfileName) SSkip)
                                  SReraise))
                      (move_temp_file_prog XOutfileName XInfileName))))).

Definition loop_prog : fstm :=
  FIf FCInPaths
    (FSeq (FAssign VBasedir FNone)
    (FSeq (FAssign VKnown (FBool false))
    (FSeq (FIf FCOutPath
             (FIf FCIsStrDir (FAssign VBasedir FPathOut)
                (FIf FCIsDir (FAssign VBasedir FPathOut)
                   (FSeq (FIf FCManyPaths FRaiseError FSkip)
                   (FSeq (FAssign VBasedir FOutParent) (FAssign VKnown (FBool true))))))
             FSkip)
          (FFor (FIf FCIsFile
                   (FIf (FCVar VBasedir)
                      (FSeq (FIf (FCVar VKnown) (FAssign VActualOut FPathOut)
                                 (FAssign VActualOut (FJoinName (FVar VBasedir))))
                            (FCall (Some (FVar VActualOut))))
                      (FCall None))
                   FSkip)))))
    FSkip.

Lemma gen_helpers_are_progs :
  (forall p, gen_remove_temp_file p = remove_temp_file_prog p) /\
  (forall a b, gen_move_file a b = move_file_prog a b) /\
  (forall a b, gen_move_temp_file a b = move_temp_file_prog a b).
Proof. repeat split. Qed.

Lemma gen_stream_is_prog : gen_stream_in_to_out = stream_prog.
Proof. reflexivity. Qed.

Lemma gen_object_is_prog : gen_object_in_to_out = object_prog.
Proof. reflexivity. Qed.

Lemma gen_loop_is_prog : gen_files_in_to_out = loop_prog.
Proof. reflexivity. Qed.

(** * the rename step with its handler, for every fault assignment *)
Lemma move_temp_file_is_model nm F pl same x :
  src_open (p_st x) = false -> wh_is_open (p_st x) = false -> in_try (p_st x) = false ->
  p_stop x = None -> p_rf x = false ->
  pexec_summary (pexec nm F pl same (move_temp_file_prog XOutfileName XInfileName) x)
  = (let r := run_ops nm F [Replace (v_in (p_env x))] (p_n x) (p_st x) in
     (erase_st (final r), outc r, (p_hist x ++ map fst (hist r))%list, next r, stop r, rmfail r)).
Proof.
  destruct x as [e s n h sp rf]. destruct s as [d so w it tm nr].
  cbn [p_st p_stop p_rf p_n p_env p_hist src_open in_try wh].
  intros -> Hw -> -> ->.
  assert (Hw' : match w with Some (_, TOpen) => true | _ => false end = false) by exact Hw.
  clear Hw.
  unfold move_temp_file_prog, move_file_prog, remove_temp_file_prog.
  cbn [pexec run_ops visible]. unfold do_prim. cbn [p_n p_st p_env p_hist p_stop p_rf v_in].
  destruct (F n).
  - cbn. reflexivity.
  - cbn [handler fail_effect]. unfold do_prim. cbn [p_n p_st p_env p_hist p_stop p_rf].
    destruct (F (S n)); unfold unwind, unwind2, unwind3, wh_is_open; cbn; rewrite ?Hw'; cbn;
      rewrite <- ?app_assoc; try reflexivity.
    all: destruct w as [[t [| |]]|]; try discriminate; cbn; rewrite <- ?app_assoc; reflexivity.
  - cbn. reflexivity.
Qed.
