(** Proofs/ParsersProofs.v — placeholder, to be written. *)
