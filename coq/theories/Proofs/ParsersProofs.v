(** Proofs/ParsersProofs.v — lemmas about the context parsers of Model/Parsers.v. *)
From Coq Require Import Lia.
From PV Require Import Parsers.
Open Scope string_scope.
Open Scope nat_scope.

(** * Specification vocabulary *)

(** String-keyed association lists and their embedding into dicts. *)
Definition alist := list (string * val).
Definition skv (qs : alist) : dict := map (fun p => (VStr (fst p), snd p)) qs.

Fixpoint aget (k : string) (qs : alist) : option val :=
  match qs with
  | [] => None
  | (k', v) :: r => if String.eqb k k' then Some v else aget k r
  end.

(** The value of the LAST pair with key [k]. *)
Fixpoint last_assoc (k : string) (ps : alist) : option val :=
  match ps with
  | [] => None
  | (k', v) :: r =>
      match last_assoc k r with
      | Some w => Some w
      | None => if String.eqb k k' then Some v else None
      end
  end.

(** Each key once, at the position of its FIRST occurrence. *)
Fixpoint dedup (l : list string) : list string :=
  match l with
  | [] => []
  | x :: r => x :: filter (fun y => negb (String.eqb x y)) (dedup r)
  end.

Definition has_eq (s : string) : bool := contains_char eq_char s.
Definition no_eq (s : string) : bool := negb (has_eq s).

Definition key_of (s : string) : string := fst (kv_of s).
Definition kvs (s : string) : string * val := (fst (kv_of s), VStr (snd (kv_of s))).

Fixpoint total_length (l : list string) : nat :=
  match l with [] => 0 | x :: r => String.length x + total_length r end.

(** * partition *)
Lemma partition_first_app c a b :
  contains_char c a = false -> partition_first c (a ++ String c b) = (a, true, b).
Proof.
  induction a as [|d r IH]; simpl; intros H.
  - now rewrite Ascii.eqb_refl.
  - apply orb_false_iff in H as [H1 H2]. rewrite H1, (IH H2). reflexivity.
Qed.

Lemma partition_first_none c s :
  contains_char c s = false -> partition_first c s = (s, false, "").
Proof.
  induction s as [|d r IH]; simpl; intros H; [reflexivity|].
  apply orb_false_iff in H as [H1 H2]. rewrite H1, (IH H2). reflexivity.
Qed.

Lemma partition_first_found c s a f b :
  partition_first c s = (a, f, b) -> f = contains_char c s.
Proof.
  revert a f b; induction s as [|d r IH]; simpl; intros a f b H.
  - now inversion H.
  - destruct (Ascii.eqb c d); [now inversion H|].
    destruct (partition_first c r) as [[a' f'] b'] eqn:P. inversion H; subst.
    simpl. eapply IH; eauto.
Qed.

Lemma kv_of_split a b : has_eq a = false -> kv_of (a ++ String eq_char b) = (a, b).
Proof. intros H. unfold kv_of. now rewrite (partition_first_app _ _ _ H). Qed.

Lemma kv_of_bare s : has_eq s = false -> kv_of s = (s, "").
Proof. intros H. unfold kv_of. now rewrite (partition_first_none _ _ H). Qed.

Lemma kv_of_key_no_eq s : has_eq (fst (kv_of s)) = false.
Proof.
  unfold kv_of, has_eq. destruct (partition_first eq_char s) as [[a f] b] eqn:P. simpl.
  eapply partition_first_before_nosep; eauto.
Qed.

(** every string is of one of the two forms *)
Lemma kv_of_cases s :
  (has_eq s = false /\ kv_of s = (s, "")) \/
  (exists a b, s = a ++ String eq_char b /\ has_eq a = false /\ kv_of s = (a, b)).
Proof.
  unfold kv_of, has_eq. destruct (partition_first eq_char s) as [[a f] b] eqn:P.
  destruct f.
  - right. exists a, b. split; [eapply partition_first_join; eauto|].
    split; [eapply partition_first_before_nosep; eauto|reflexivity].
  - left. destruct (partition_first_nosep _ _ _ _ P) as (-> & -> & H). auto.
Qed.

(** * dict operations under string keys *)
Lemma val_eqb_str_inv a x : val_eqb (VStr a) x = true -> x = VStr a.
Proof.
  destruct x; simpl; try discriminate. intros H. apply String.eqb_eq in H. now subst.
Qed.

Lemma dict_get_set_str k k' v d :
  dict_get (VStr k) (dict_set (VStr k') v d)
  = if String.eqb k k' then Some v else dict_get (VStr k) d.
Proof.
  induction d as [|[k0 v0] r IH].
  - simpl. destruct (String.eqb k k'); reflexivity.
  - cbn [dict_set]. destruct (val_eqb (VStr k') k0) eqn:E.
    + apply val_eqb_str_inv in E. subst k0. cbn [dict_get].
      change (val_eqb (VStr k) (VStr k')) with (String.eqb k k').
      destruct (String.eqb k k'); reflexivity.
    + cbn [dict_get]. destruct (val_eqb (VStr k) k0) eqn:E2.
      * apply val_eqb_str_inv in E2. subst k0.
        change (val_eqb (VStr k') (VStr k)) with (String.eqb k' k) in E.
        rewrite String.eqb_sym in E. rewrite E. reflexivity.
      * exact IH.
Qed.

Lemma dict_update_cons d p e : dict_update d (p :: e) = dict_update (dict_set (fst p) (snd p) d) e.
Proof. reflexivity. Qed.

Lemma dict_get_update_str k ps : forall d,
  dict_get (VStr k) (dict_update d (skv ps))
  = match last_assoc k ps with Some v => Some v | None => dict_get (VStr k) d end.
Proof.
  induction ps as [|[k' v] r IH]; intros d; [reflexivity|].
  simpl skv. rewrite dict_update_cons. simpl fst; simpl snd. rewrite IH. simpl.
  destruct (last_assoc k r); [reflexivity|].
  rewrite dict_get_set_str. destruct (String.eqb k k'); reflexivity.
Qed.

Lemma last_assoc_app k (a b : alist) :
  last_assoc k (a ++ b)%list = match last_assoc k b with Some w => Some w | None => last_assoc k a end.
Proof.
  induction a as [|[k' v] r IH]; simpl.
  - destruct (last_assoc k b); reflexivity.
  - rewrite IH. destruct (last_assoc k b); reflexivity.
Qed.

Lemma last_assoc_none k ps :
  (forall p, In p ps -> fst p <> k) -> last_assoc k ps = None.
Proof.
  induction ps as [|[k' v] r IH]; intros H; [reflexivity|]. simpl.
  rewrite IH by (intros p Hp; apply H; now right).
  destruct (String.eqb k k') eqn:E; [|reflexivity].
  apply String.eqb_eq in E. subst. exfalso. apply (H (k', v)); [now left|reflexivity].
Qed.

(** * The association-list view of dict construction *)
Fixpoint aset (k : string) (v : val) (qs : alist) : alist :=
  match qs with
  | [] => [(k, v)]
  | (k', v') :: r => if String.eqb k k' then (k', v) :: r else (k', v') :: aset k v r
  end.

Definition abuild (qs ps : alist) : alist :=
  fold_left (fun acc p => aset (fst p) (snd p) acc) ps qs.

Lemma dict_set_skv k v qs : dict_set (VStr k) v (skv qs) = skv (aset k v qs).
Proof.
  induction qs as [|[k' v'] r IH]; simpl; [reflexivity|].
  destruct (String.eqb k k'); simpl; [reflexivity|]. now rewrite IH.
Qed.

Lemma dict_update_skv ps : forall qs, dict_update (skv qs) (skv ps) = skv (abuild qs ps).
Proof.
  induction ps as [|[k v] r IH]; intros qs; [reflexivity|].
  simpl skv. rewrite dict_update_cons. simpl fst; simpl snd.
  rewrite dict_set_skv. rewrite IH. reflexivity.
Qed.

Lemma dict_of_pairs_skv ps : dict_of_pairs (skv ps) = skv (abuild [] ps).
Proof. exact (dict_update_skv ps []). Qed.

Lemma dict_get_skv k qs : dict_get (VStr k) (skv qs) = aget k qs.
Proof.
  induction qs as [|[k' v] r IH]; simpl; [reflexivity|].
  destruct (String.eqb k k'); [reflexivity|exact IH].
Qed.

Lemma dict_keys_skv qs : dict_keys (skv qs) = map VStr (map fst qs).
Proof. unfold dict_keys, skv. rewrite !map_map. reflexivity. Qed.

Definition kmem (k : string) (ks : list string) : bool := existsb (String.eqb k) ks.

Lemma kmem_In k ks : kmem k ks = true <-> In k ks.
Proof.
  unfold kmem. rewrite existsb_exists. split.
  - intros (x & Hx & E). apply String.eqb_eq in E. now subst.
  - intros H. exists k. split; [exact H|apply String.eqb_refl].
Qed.

Lemma kmem_app k (a b : list string) : kmem k (a ++ b)%list = kmem k a || kmem k b.
Proof. unfold kmem. apply existsb_app. Qed.

Lemma aset_keys k v qs :
  map fst (aset k v qs) = if kmem k (map fst qs) then map fst qs else (map fst qs ++ [k])%list.
Proof.
  induction qs as [|[k' v'] r IH]; simpl; [reflexivity|].
  destruct (String.eqb k k') eqn:E; simpl; [reflexivity|].
  rewrite IH. destruct (kmem k (map fst r)); reflexivity.
Qed.

Lemma aset_fresh k v qs : kmem k (map fst qs) = false -> aset k v qs = (qs ++ [(k, v)])%list.
Proof.
  induction qs as [|[k' v'] r IH]; simpl; intros H; [reflexivity|].
  apply orb_false_iff in H as [H1 H2]. rewrite H1. now rewrite IH.
Qed.

Lemma filter_filter {A} (f g : A -> bool) l :
  filter f (filter g l) = filter (fun x => g x && f x) l.
Proof.
  induction l as [|x r IH]; simpl; [reflexivity|].
  destruct (g x); simpl; [destruct (f x); now rewrite IH|exact IH].
Qed.

Lemma filter_all {A} (f : A -> bool) l : (forall x, f x = true) -> filter f l = l.
Proof. intros H. induction l as [|x r IH]; simpl; [reflexivity|]. now rewrite H, IH. Qed.

(** Python dict order: existing keys keep their place, new keys are appended in order of
    first occurrence. *)
Lemma abuild_keys ps : forall qs,
  map fst (abuild qs ps)
  = (map fst qs ++ filter (fun y => negb (kmem y (map fst qs))) (dedup (map fst ps)))%list.
Proof.
  induction ps as [|[k v] r IH]; intros qs; simpl.
  - now rewrite app_nil_r.
  - unfold abuild in *. simpl. rewrite IH. rewrite aset_keys.
    rewrite filter_filter.
    destruct (kmem k (map fst qs)) eqn:M; simpl.
    + f_equal. apply filter_ext. intros y.
      destruct (String.eqb k y) eqn:E; simpl; [|reflexivity].
      apply String.eqb_eq in E. subst. now rewrite M.
    + rewrite <- app_assoc. simpl. f_equal. f_equal. apply filter_ext. intros y.
      rewrite kmem_app. simpl. rewrite orb_false_r.
      rewrite (String.eqb_sym y k). destruct (String.eqb k y); simpl.
      * now rewrite orb_true_r.
      * now rewrite orb_false_r.
Qed.

Lemma abuild_nil_keys ps : map fst (abuild [] ps) = dedup (map fst ps).
Proof. rewrite abuild_keys. simpl. apply filter_all. reflexivity. Qed.

Lemma NoDup_snoc {A} (x : A) l : NoDup l -> ~ In x l -> NoDup (l ++ [x])%list.
Proof.
  induction 1 as [|y l Hy ND IH]; simpl; intros Hx.
  - constructor; [intros []|constructor].
  - constructor.
    + intros HI. apply in_app_or in HI as [HI|[HI|[]]]; [contradiction|].
      subst. apply Hx. now left.
    + apply IH. intros HI. apply Hx. now right.
Qed.

Lemma filter_all_in {A} (f : A -> bool) l : (forall x, In x l -> f x = true) -> filter f l = l.
Proof.
  induction l as [|x r IH]; simpl; intros H; [reflexivity|].
  rewrite (H x) by now left. f_equal. apply IH. intros y Hy. apply H. now right.
Qed.

Lemma aset_nodup k v qs : NoDup (map fst qs) -> NoDup (map fst (aset k v qs)).
Proof.
  intros H. rewrite aset_keys. destruct (kmem k (map fst qs)) eqn:M; [exact H|].
  apply NoDup_snoc; [exact H|]. intros HI. apply kmem_In in HI. congruence.
Qed.

Lemma abuild_nodup ps : forall qs, NoDup (map fst qs) -> NoDup (map fst (abuild qs ps)).
Proof.
  induction ps as [|[k v] r IH]; intros qs H; [exact H|].
  unfold abuild in *. simpl. apply IH. now apply aset_nodup.
Qed.

(** writing a duplicate-free association list into a dict that has none of its keys appends it *)
Lemma abuild_fresh ps : forall qs,
  NoDup (map fst ps) -> (forall x, In x (map fst ps) -> kmem x (map fst qs) = false) ->
  abuild qs ps = (qs ++ ps)%list.
Proof.
  induction ps as [|[k v] r IH]; intros qs ND H; simpl.
  - now rewrite app_nil_r.
  - unfold abuild in *. simpl. rewrite aset_fresh by (apply H; now left).
    inversion ND as [|? ? Hk ND']; subst.
    rewrite IH; [now rewrite <- app_assoc|exact ND'|].
    intros x Hx. rewrite map_app, kmem_app. simpl. rewrite orb_false_r.
    rewrite (H x) by now right. simpl.
    destruct (String.eqb x k) eqn:E; [|reflexivity].
    apply String.eqb_eq in E. subst. contradiction.
Qed.

Lemma dict_update_nil_skv qs : NoDup (map fst qs) -> dict_update [] (skv qs) = skv qs.
Proof.
  intros H. change (@nil (val * val)) with (skv []). rewrite dict_update_skv.
  now rewrite abuild_fresh by (auto; intros; reflexivity).
Qed.

Lemma aget_last_assoc k qs : NoDup (map fst qs) -> last_assoc k qs = aget k qs.
Proof.
  induction qs as [|[k' v] r IH]; simpl; intros H; [reflexivity|].
  inversion H as [|? ? Hk ND]; subst. rewrite (IH ND).
  destruct (String.eqb k k') eqn:E.
  - apply String.eqb_eq in E. subst.
    assert (A : aget k' r = None).
    { clear -Hk. induction r as [|[k2 v2] r IH]; simpl; [reflexivity|].
      destruct (String.eqb k' k2) eqn:E.
      - apply String.eqb_eq in E. subst. exfalso. apply Hk. now left.
      - apply IH. intros HI. apply Hk. now right. }
    now rewrite A.
  - destruct (aget k r); reflexivity.
Qed.

(** [update] with a parser result: parsed keys win, every other key keeps its value. *)
Lemma dict_update_str_lookup ctx qs k :
  NoDup (map fst qs) ->
  sget k (dict_update ctx (skv qs))
  = match aget k qs with Some v => Some v | None => sget k ctx end.
Proof.
  intros H. unfold sget. rewrite dict_get_update_str. now rewrite aget_last_assoc.
Qed.

(** * dedup is "first occurrences, in order" *)
Lemma dedup_In x l : In x (dedup l) <-> In x l.
Proof.
  induction l as [|y r IH]; simpl; [tauto|].
  rewrite filter_In, IH. split.
  - intros [H|[H _]]; auto.
  - intros [H|H]; [now left|].
    destruct (String.eqb y x) eqn:E.
    + left. now apply String.eqb_eq.
    + right. split; [exact H|reflexivity].
Qed.

Lemma NoDup_filter {A} (f : A -> bool) l : NoDup l -> NoDup (filter f l).
Proof.
  induction 1 as [|x l Hx ND IH]; simpl; [constructor|].
  destruct (f x); [|exact IH]. constructor; [|exact IH].
  intros HI. apply filter_In in HI. tauto.
Qed.

Lemma dedup_NoDup l : NoDup (dedup l).
Proof.
  induction l as [|y r IH]; simpl; constructor.
  - intros HI. apply filter_In in HI as [_ H]. now rewrite String.eqb_refl in H.
  - now apply NoDup_filter.
Qed.

Lemma dedup_nodup_id l : NoDup l -> dedup l = l.
Proof.
  induction 1 as [|x l Hx ND IH]; simpl; [reflexivity|]. rewrite IH. f_equal.
  apply filter_all_in. intros y Hy. destruct (String.eqb x y) eqn:E; [|reflexivity].
  apply String.eqb_eq in E. subst. contradiction.
Qed.

(** * keyvaluepairs *)
Lemma map_kv_pair l : map kv_pair l = skv (map kvs l).
Proof.
  unfold skv. rewrite map_map. apply map_ext. intros s. unfold kv_pair, kvs.
  destruct (kv_of s); reflexivity.
Qed.

Lemma kvp_dict_alist l : kvp_dict l = skv (abuild [] (map kvs l)).
Proof. unfold kvp_dict. rewrite map_kv_pair. apply dict_of_pairs_skv. Qed.

Lemma kvp_first_eq_split a b :
  contains_char eq_char a = false -> kv_of (a ++ String eq_char b) = (a, b).
Proof. exact (kv_of_split a b). Qed.

Lemma kvp_first_eq_bare s : contains_char eq_char s = false -> kv_of s = (s, "").
Proof. exact (kv_of_bare s). Qed.

Lemma kvp_lookup k l : sget k (kvp_dict l) = last_assoc k (map kvs l).
Proof.
  unfold sget, kvp_dict, dict_of_pairs. rewrite map_kv_pair, dict_get_update_str.
  destruct (last_assoc k (map kvs l)); reflexivity.
Qed.

Lemma kvp_last_wins l1 s l2 k v :
  kv_of s = (k, v) ->
  (forall s', In s' l2 -> key_of s' <> k) ->
  sget k (kvp_dict (l1 ++ s :: l2)%list) = Some (VStr v).
Proof.
  intros Hs Hno. rewrite kvp_lookup, map_app, last_assoc_app. simpl.
  rewrite last_assoc_none.
  - unfold kvs at 1. rewrite Hs. simpl. now rewrite String.eqb_refl.
  - intros p Hp. apply in_map_iff in Hp as (s' & <- & Hs'). exact (Hno s' Hs').
Qed.

Lemma kvp_absent l k :
  (forall s, In s l -> key_of s <> k) -> sget k (kvp_dict l) = None.
Proof.
  intros H. rewrite kvp_lookup. apply last_assoc_none.
  intros p Hp. apply in_map_iff in Hp as (s & <- & Hs). exact (H s Hs).
Qed.

Lemma kvp_key_order l : dict_keys (kvp_dict l) = map VStr (dedup (map key_of l)).
Proof.
  rewrite kvp_dict_alist, dict_keys_skv, abuild_nil_keys. rewrite map_map. reflexivity.
Qed.

(** * keys *)
Definition true_pairs (l : list string) : alist := map (fun s => (s, VBool true)) l.

Lemma keys_dict_alist l : keys_dict l = skv (abuild [] (true_pairs l)).
Proof.
  unfold keys_dict. rewrite <- dict_of_pairs_skv. f_equal.
  unfold skv, true_pairs. now rewrite map_map.
Qed.

Lemma last_assoc_true_pairs k l :
  last_assoc k (true_pairs l) = if str_in k l then Some (VBool true) else None.
Proof.
  induction l as [|x r IH]; simpl; [reflexivity|]. rewrite IH.
  destruct (str_in k r); [now rewrite orb_true_r|]. rewrite orb_false_r. reflexivity.
Qed.

Lemma keys_lookup k l : sget k (keys_dict l) = if str_in k l then Some (VBool true) else None.
Proof.
  unfold sget, keys_dict, dict_of_pairs.
  replace (map (fun s => (VStr s, VBool true)) l) with (skv (true_pairs l))
    by (unfold skv, true_pairs; now rewrite map_map).
  rewrite dict_get_update_str, last_assoc_true_pairs. destruct (str_in k l); reflexivity.
Qed.

Lemma keys_key_order l : dict_keys (keys_dict l) = map VStr (dedup l).
Proof.
  rewrite keys_dict_alist, dict_keys_skv, abuild_nil_keys. unfold true_pairs.
  rewrite map_map. simpl. now rewrite map_id.
Qed.

(** * argskwargs *)
Lemma akw_fold l : forall d al,
  fold_left akw_step l (d, al)
  = (dict_update d (map kv_pair (filter has_eq l)), (al ++ filter no_eq l)%list).
Proof.
  induction l as [|s r IH]; intros d al; simpl.
  - now rewrite app_nil_r.
  - unfold akw_step at 2. unfold no_eq, has_eq in *.
    destruct (partition_first eq_char s) as [[k f] v] eqn:P.
    pose proof (partition_first_found _ _ _ _ _ P) as F. rewrite <- F.
    destruct f; simpl.
    + rewrite IH. f_equal. unfold kv_pair, kv_of. rewrite P. reflexivity.
    + rewrite IH. now rewrite <- app_assoc.
Qed.

Lemma argskwargs_split l :
  argskwargs_dict l
  = sset "argList" (VList (map VStr (filter no_eq l))) (kvp_dict (filter has_eq l)).
Proof. unfold argskwargs_dict. rewrite akw_fold. reflexivity. Qed.

(** * the one-key parsers *)
Lemma parse_list_in_order l : parse_list (Some l) = Some [(VStr "argList", VList (map VStr l))].
Proof. destruct l; reflexivity. Qed.

Lemma parse_string_joined l : parse_string (Some l) = Some [(VStr "argString", VStr (join " " l))].
Proof. destruct l; reflexivity. Qed.

Lemma append_length (a b : string) : String.length (a ++ b) = String.length a + String.length b.
Proof. induction a; simpl; auto. Qed.

(** exactly one separator character between consecutive arguments *)
Lemma join_space_length l :
  String.length (join " " l) = total_length l + (List.length l - 1).
Proof.
  induction l as [|x r IH]; [reflexivity|].
  destruct r as [|y r'].
  - simpl. lia.
  - change (join " " (x :: y :: r')) with (x ++ " " ++ join " " (y :: r')).
    rewrite !append_length, IH. simpl. lia.
Qed.

Lemma parse_dict_nested a :
  parse_dict a
  = Some [(VStr "argDict",
           VDict (match parse_keyvaluepairs a with Some d => d | None => [] end))].
Proof. destruct a as [[|x r]|]; reflexivity. Qed.

(** * totality, determinism, empty shapes *)
Lemma parsers_total p a : p <> PJson -> exists r, run_parser p a = Ok r.
Proof. destruct p; intros H; try (eexists; reflexivity). contradiction. Qed.

Lemma parsers_none_is_empty p : run_parser p None = run_parser p (Some []).
Proof. destruct p; reflexivity. Qed.

Lemma empty_args_shapes a :
  args_falsy a = true ->
  run_parser PKeyValuePairs a = Ok None
  /\ run_parser PKeys a = Ok None
  /\ run_parser PJson a = Ok None
  /\ run_parser PList a = Ok (Some [(VStr "argList", VList [])])
  /\ run_parser PArgsKwargs a = Ok (Some [(VStr "argList", VList [])])
  /\ run_parser PString a = Ok (Some [(VStr "argString", VStr "")])
  /\ run_parser PDict a = Ok (Some [(VStr "argDict", VDict [])]).
Proof.
  intros H. unfold run_parser, parse_keyvaluepairs, parse_keys, parse_json, parse_list,
    parse_argskwargs, parse_string, parse_dict. rewrite H. repeat split.
Qed.

(** every result of a non-json parser is a dict with string keys, each key once *)
Lemma parser_result_alist p a d :
  p <> PJson -> run_parser p a = Ok (Some d) ->
  exists qs, d = skv qs /\ NoDup (map fst qs).
Proof.
  intros Hp H. destruct p; try contradiction; simpl in H; inversion H as [H1]; clear H.
  - unfold parse_keyvaluepairs in H1. destruct (args_falsy a); [discriminate|].
    inversion H1. rewrite kvp_dict_alist. eexists; split; [reflexivity|].
    apply abuild_nodup. constructor.
  - unfold parse_argskwargs in H1. destruct (args_falsy a); inversion H1.
    + exists [("argList", VList [])]. split; [reflexivity|]. repeat constructor. intros [].
    + rewrite argskwargs_split, kvp_dict_alist. unfold sset. rewrite dict_set_skv.
      eexists; split; [reflexivity|]. apply aset_nodup, abuild_nodup. constructor.
  - unfold parse_dict in H1. destruct (args_falsy a); inversion H1.
    + exists [("argDict", VDict [])]. split; [reflexivity|]. repeat constructor. intros [].
    + eexists [("argDict", _)]. split; [reflexivity|]. repeat constructor. intros [].
  - unfold parse_list in H1. destruct (args_falsy a); inversion H1.
    + exists [("argList", VList [])]. split; [reflexivity|]. repeat constructor. intros [].
    + eexists [("argList", _)]. split; [reflexivity|]. repeat constructor. intros [].
  - unfold parse_string in H1. destruct (args_falsy a); inversion H1.
    + exists [("argString", VStr "")]. split; [reflexivity|]. repeat constructor. intros [].
    + eexists [("argString", _)]. split; [reflexivity|]. repeat constructor. intros [].
  - unfold parse_keys in H1. destruct (args_falsy a); [discriminate|].
    inversion H1. rewrite keys_dict_alist. eexists; split; [reflexivity|].
    apply abuild_nodup. constructor.
Qed.

(** * json *)
Lemma parse_json_shape x l :
  parse_json (Some (x :: l))
  = match json_loads (join " " (x :: l)) with
    | Ok (VDict d) => Ok (Some d)
    | Ok _ => Err "TypeError" json_type_error_msg
    | Err n m => Err n m
    | Unsup => Unsup
    end.
Proof.
  unfold parse_json. simpl args_falsy. cbv iota. simpl args_list.
  destruct (json_loads (join " " (x :: l))) as [v| |]; simpl; [|reflexivity|reflexivity].
  destruct v; reflexivity.
Qed.

(** ** the loader on flat objects of plain strings: what is written is what is loaded *)
Definition simple_char (c : ascii) : bool :=
  negb (Ascii.eqb c dquote) && negb (Ascii.eqb c "\"%char) && negb (Nat.ltb (nat_of_ascii c) 32).

Fixpoint simple_str (s : string) : bool :=
  match s with
  | EmptyString => true
  | String c r => simple_char c && simple_str r
  end.

Definition simple_pair (p : string * string) : Prop :=
  simple_str (fst p) = true /\ simple_str (snd p) = true.

(** ["k":"v"] followed by [tail] *)
Definition render_pair (p : string * string) (tail : string) : string :=
  String dquote (fst p ++ String dquote (String ":" (String dquote (snd p ++ String dquote tail)))).

Fixpoint render_members (p : string * string) (ps : list (string * string)) (tail : string) : string :=
  match ps with
  | [] => render_pair p (String "}" tail)
  | q :: r => render_pair p (String "," (render_members q r tail))
  end.

Definition render_object (ps : list (string * string)) : string :=
  match ps with
  | [] => "{}"
  | p :: r => String "{" (render_members p r "")
  end.

Definition str_pair (p : string * string) : val * val := (VStr (fst p), VStr (snd p)).

Lemma jstring_simple s rest :
  simple_str s = true -> jstring (s ++ String dquote rest) = Ok (s, rest).
Proof.
  induction s as [|c r IH]; intros H.
  - reflexivity.
  - simpl in H. apply andb_true_iff in H as [Hc Hr]. unfold simple_char in Hc.
    apply andb_true_iff in Hc as [Hc H3]. apply andb_true_iff in Hc as [H1 H2].
    apply negb_true_iff in H1, H2, H3.
    change ((String c r) ++ String dquote rest) with (String c (r ++ String dquote rest)).
    cbn [jstring]. rewrite H1, H2, H3, (IH Hr). reflexivity.
Qed.

Lemma jmembers_dq f r :
  jmembers (S f) (String dquote r) =
  (let* (key, k1) := jstring r in
   match skip_ws k1 with
   | String c2 k2 =>
       if Ascii.eqb c2 ":"%char then
         let* (v, k3) := jvalue f (skip_ws k2) in
         match skip_ws k3 with
         | String c4 k4 =>
             if Ascii.eqb c4 "}"%char then Ok ([(VStr key, v)], k4)
             else if Ascii.eqb c4 ","%char then
               let* (ps, k5) := jmembers f (skip_ws k4) in Ok ((VStr key, v) :: ps, k5)
             else jerr
         | EmptyString => jerr
         end
       else jerr
   | EmptyString => jerr
   end).
Proof. reflexivity. Qed.

Lemma jvalue_dq f r :
  jvalue (S f) (String dquote r) = (let* (t, k) := jstring r in Ok (VStr t, k)).
Proof. reflexivity. Qed.

Lemma jvalue_obj f r :
  jvalue (S f) (String "{" (String dquote r))
  = (let* (ps, k) := jmembers f (String dquote r) in Ok (VDict (dict_update [] ps), k)).
Proof. reflexivity. Qed.

Lemma render_members_head p ps tail :
  exists r, render_members p ps tail = String dquote r.
Proof. destruct ps; eexists; reflexivity. Qed.

Opaque jvalue jmembers jelements.

Lemma jmembers_render ps : forall p tail fuel,
  simple_pair p -> Forall simple_pair ps -> (2 * List.length ps + 2 <= fuel) ->
  jmembers fuel (render_members p ps tail) = Ok (map str_pair (p :: ps), tail).
Proof.
  induction ps as [|q r IH]; intros p tail fuel [Hk Hv] F L.
  - destruct fuel as [|[|f]]; [simpl in L; lia|simpl in L; lia|].
    unfold render_members, render_pair.
    rewrite jmembers_dq, (jstring_simple _ _ Hk). simpl.
    rewrite jvalue_dq, (jstring_simple _ _ Hv). simpl. reflexivity.
  - inversion F as [|? ? Hq Fr]; subst.
    destruct fuel as [|[|f]]; [simpl in L; lia|simpl in L; lia|].
    cbn [render_members]. unfold render_pair at 1.
    rewrite jmembers_dq, (jstring_simple _ _ Hk). simpl.
    rewrite jvalue_dq, (jstring_simple _ _ Hv). simpl.
    destruct (render_members_head q r tail) as (r' & E). rewrite E. simpl. rewrite <- E.
    rewrite (IH q tail (S f) Hq Fr); [reflexivity|simpl in *; lia].
Qed.

Transparent jvalue jmembers jelements.

Lemma render_members_length p ps tail :
  2 * List.length ps + 2 <= String.length (render_members p ps tail).
Proof.
  revert p; induction ps as [|q r IH]; intros p; cbn [render_members]; unfold render_pair.
  - simpl. rewrite append_length. simpl. lia.
  - specialize (IH q). simpl. rewrite append_length. simpl. rewrite append_length. simpl.
    simpl in IH. lia.
Qed.

(** a flat object written with plain string keys and values loads as the dict of its pairs
    (later duplicates win, first position kept) *)
Lemma json_loads_render_object ps :
  Forall simple_pair ps ->
  json_loads (render_object ps) = Ok (VDict (dict_of_pairs (map str_pair ps))).
Proof.
  intros F. destruct ps as [|p r]; [reflexivity|].
  inversion F as [|? ? Hp Fr]; subst.
  unfold json_loads, render_object.
  destruct (render_members_head p r "") as (r' & E).
  change (skip_ws (String "{" (render_members p r ""))) with (String "{" (render_members p r "")).
  rewrite E at 2. rewrite jvalue_obj. rewrite <- E.
  rewrite (jmembers_render r p "" _ Hp Fr).
  - reflexivity.
  - simpl String.length. pose proof (render_members_length p r ""). lia.
Qed.
