(* Proofs/GenC17Proofs.v - placeholder *)
