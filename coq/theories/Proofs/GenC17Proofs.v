(** Proofs/GenC17Proofs.v — the definitions GENERATED from the current source (Gen/GenC17.v, by
    tools/py2coq_c17.py from pypyr/subproc.py, pypyr/steps/dsl/cmd.py, pypyr/aio/subproc.py,
    pypyr/steps/dsl/cmdasync.py) are the hand-written model's functions (Model/Cmd.v).

    [os args shell] is what the operating system does with an argv; the model's oracle is
    [fun c => os (sync_args shell c) shell]: the command line as pypyr hands it to the OS.
    A change of the exit-status check, of what is appended to [results] and when, of the
    try/finally structure, of the isinstance order, of a keyword of the spawn call ... changes
    the generated term and these equalities stop being provable. *)
From Coq Require Import ZArith List Bool String Lia.
From PV Require Import PyStr PyVal.
From PV.Model Require Import Cmd.
From PV.Gen Require Import GenC17.
From PV.Proofs Require Import CmdProofs.
Import ListNotations.
Local Open Scope string_scope.
Local Open Scope list_scope.

Definition to_gout (e : option perr) : gout :=
  match e with None => GOk | Some x => GExc x end.

Lemma andthen_ok_id {S} (r : gout * S) : andthen r (fun s => (GOk, s)) = r.
Proof. destruct r as [[|e] s]; reflexivity. Qed.

Lemma rstrip_if_truthy o :
  (if py_truth (VStr o) then val_rstrip (VStr o) else VStr o) = VStr (rstrip o).
Proof. destruct o; reflexivity. Qed.

Lemma gst_eta s : mkGst (g_trace s) (g_self s) (g_local s) (g_out s) = s.
Proof. destruct s; reflexivity. Qed.

(** * pypyr.subproc / pypyr.steps.dsl.cmd *)
Section SyncTie.
  Variable os : val -> bool -> outcome.
  Variable shell : bool.

  (** the model's oracle: the OS applied to what pypyr passes it *)
  Definition orc_of : oracle := fun c => os (sync_args shell c) shell.

  (** the Command object [CmdStep.__init__] builds for the model's [scmd] *)
  Definition py_of (k : scmd) : pycmd := mkPycmd (sc_run k) shell (sc_save k) (sc_text k).

  (** the generated methods, with CPython's and POSIX's side plugged in *)
  Definition G__run := gen_Command__run (py_subprocess_run os) py_check_returncode shlex_split false.
  Definition G_run := gen_Command_run (py_subprocess_run os) py_check_returncode shlex_split false.
  Definition G_run_step := gen_CmdStep_run_step G_run.

  Definition spawned (st : list string) : list (val * bool) :=
    map (fun c => (sync_args shell c, shell)) st.

  (** state after spawning [st] and appending [rs] to the running Command's results *)
  Definition after (s : gst) (st : list string) (rs : list res1) : gst :=
    mkGst (g_trace s ++ spawned st) (g_self s ++ rs) (g_local s) (g_out s).

  Lemma after_nil s : after s [] [] = s.
  Proof. unfold after, spawned. cbn. rewrite !app_nil_r. apply gst_eta. Qed.

  Lemma after_after s st rs st' rs' : after (after s st rs) st' rs' = after s (st ++ st') (rs ++ rs').
  Proof. unfold after, spawned. cbn. rewrite map_app, !app_assoc. reflexivity. Qed.

  (** [Command._run] is the model's [run1] *)
  Lemma gen__run_is_model k c s :
    G__run (py_of k) c s =
    (to_gout (snd (run1 orc_of shell k c)), after s [c] (fst (run1 orc_of shell k c))).
  Proof.
    unfold G__run, gen_Command__run, run1, orc_of, py_of, after, spawned, py_subprocess_run, sync_args.
    cbn [pc_is_shell pc_is_save pc_is_text map]. rewrite orb_false_r.
    set (a := if shell then VStr c else VList (map VStr (shlex_split c))).
    destruct (sc_save k) eqn:SV; cbn [bindv andb].
    - destruct (os a shell) as [rc o e|n m]; cbn [bindv fst snd to_gout]; [|rewrite app_nil_r; reflexivity].
      unfold py_check_returncode, sync_result, sync_error, sync_args. cbn. fold a.
      destruct (sc_text k); cbn.
      + destruct o as [|? ?], e as [|? ?]; destruct (Z.eqb rc 0); reflexivity.
      + destruct (Z.eqb rc 0); reflexivity.
    - destruct (os a shell) as [rc o e|n m]; cbn [bindv fst snd to_gout]; [|rewrite app_nil_r; reflexivity].
      unfold sync_error, sync_args. fold a.
      destruct (Z.eqb rc 0); cbn; rewrite app_nil_r; reflexivity.
  Qed.

  Lemma gen_run_loop k cs : forall s,
    for_each cs (fun c s' => andthen (G__run (py_of k) c s') (fun s'' => (GOk, s''))) s =
    (let '(st, rs, er) := run_strs orc_of shell k cs in (to_gout er, after s st rs)).
  Proof.
    induction cs as [|c r IH]; intro s.
    - cbn. rewrite after_nil. reflexivity.
    - cbn [for_each run_strs]. rewrite andthen_ok_id, gen__run_is_model.
      destruct (run1 orc_of shell k c) as [rs [e|]]; cbn [fst snd to_gout andthen].
      + reflexivity.
      + rewrite IH. destruct (run_strs orc_of shell k r) as [[st rs'] er].
        rewrite after_after. reflexivity.
  Qed.

  (** [Command.run] is the model's [run_strs] over the run instruction(s) *)
  Lemma gen_run_is_model k s :
    G_run (py_of k) s =
    (let '(st, rs, er) := run_strs orc_of shell k (run_list (sc_run k)) in (to_gout er, after s st rs)).
  Proof.
    unfold G_run, gen_Command_run. fold G__run. cbn [py_of pc_cmd].
    destruct (sc_run k) as [c|l]; cbn [is_simple is_sequence as_str seq_items run_list].
    - rewrite andthen_ok_id, gen__run_is_model. cbn [run_strs].
      destruct (run1 orc_of shell k c) as [rs [e|]]; cbn [fst snd]; [reflexivity|].
      rewrite app_nil_r. reflexivity.
    - rewrite andthen_ok_id. apply gen_run_loop.
  Qed.

  (** the loop of [CmdStep.run_step], for ANY loop body that does to one fresh Command what the
      model's [run_strs] does (spawns, appends the saved results to the local list, raises) *)
  Definition body_spec (body : pycmd -> gst -> GR) : Prop :=
    forall k s, exists self',
      body (py_of k) s =
      (let '(st, rs, er) := run_strs orc_of shell k (run_list (sc_run k)) in
       (to_gout er, mkGst (g_trace s ++ spawned st) self' (g_local s ++ rs) (g_out s))).

  Lemma gen_run_step_loop body : body_spec body -> forall ks s, exists self',
    for_each (map py_of ks) body s =
    (let '(st, rs, er) := run_cmds orc_of shell ks in
     (to_gout er, mkGst (g_trace s ++ spawned st) self' (g_local s ++ rs) (g_out s))).
  Proof.
    intro B. induction ks as [|k r IH]; intro s.
    - exists (g_self s). cbn. unfold spawned. cbn. rewrite !app_nil_r. rewrite gst_eta. reflexivity.
    - cbn [map for_each run_cmds]. destruct (B k s) as [self1 E1]. rewrite E1.
      destruct (run_strs orc_of shell k (run_list (sc_run k))) as [[st rs] er].
      destruct er as [e|]; cbn [to_gout andthen].
      + eexists. reflexivity.
      + destruct (IH (mkGst (g_trace s ++ spawned st) self1 (g_local s ++ rs) (g_out s))) as [self' E].
        rewrite E. destruct (run_cmds orc_of shell r) as [[st' rs'] er']. cbn.
        exists self'. unfold spawned. rewrite map_app, !app_assoc. reflexivity.
  Qed.

  (** what of the final state is observable *)
  Definition gobs (r : GR) : gout * list (val * bool) * cmdout :=
    (fst r, g_trace (snd r), g_out (snd r)).

  (** [CmdStep.run_step] is the model's [run_cmds] followed by [sync_cmdout] *)
  Lemma gen_run_step_is_model ks s :
    gobs (G_run_step (map py_of ks) s) =
    (let '(st, rs, er) := run_cmds orc_of shell ks in
     (to_gout er, g_trace s ++ spawned st,
      match rs with [] => g_out s | _ => sync_cmdout rs end)).
  Proof.
    unfold G_run_step, gen_CmdStep_run_step.
    match goal with |- context [for_each (map py_of ks) ?b ?s0] =>
      assert (B : body_spec b);
      [|destruct (gen_run_step_loop b B ks s0) as [self' E]; rewrite E]
    end.
    { intros k s1. cbv zeta. rewrite !andthen_ok_id, gen_run_is_model.
      destruct (run_strs orc_of shell k (run_list (sc_run k))) as [[st rs] er].
      unfold finally_, after, set_self, set_local. cbn.
      destruct rs; cbn; rewrite ?app_nil_r; eexists; reflexivity. }
    destruct (run_cmds orc_of shell ks) as [[st rs] er].
    rewrite !andthen_ok_id. unfold gobs, finally_, set_local, set_out. cbn.
    destruct rs as [|r1 [|r2 rs]]; reflexivity.
  Qed.

  (** end to end: the generated step on the Commands built from any step input, started in
      an empty world, reports what [run_sync] reports *)
  Lemma gen_sync_step_is_run_sync cf s :
    g_trace s = [] -> g_out s = OutUnset ->
    gobs (G_run_step (map py_of (sync_commands cf)) s) =
    (let m := run_sync orc_of shell cf in
     (match ob_err m with NoError => GOk | Raised e => GExc e | Multi _ => GOk end,
      spawned (ob_started m), ob_out m)).
  Proof.
    intros T O. rewrite gen_run_step_is_model. unfold run_sync.
    destruct (run_cmds orc_of shell (sync_commands cf)) as [[st rs] er].
    cbn [ob_err ob_started ob_out]. rewrite T, O. cbn [app].
    destruct er; destruct rs; reflexivity.
  Qed.
End SyncTie.

(** * pypyr.subproc.SubprocessResult.check_returncode, pypyr.aio.subproc *)

Definition opt_list {A} (o : option A) : list A := match o with Some x => [x] | None => [] end.

(** [SubprocessResult.check_returncode] is the model's [res_error] on result objects *)
Lemma gen_check_returncode_is_model cmd rc o e :
  opt_list (gen_SubprocessResult_check_returncode (R1 cmd rc o e)) = res_error (R1 cmd rc o e).
Proof.
  unfold gen_SubprocessResult_check_returncode, res_error. cbn.
  destruct (Z.eqb rc 0); reflexivity.
Qed.

(** the errors one element of [Command._results] contributes *)
Definition entry_errors (x : rentry) : list perr :=
  match x with EOne r => res_error r | ESer l => flat_map res_error l end.

Definition G_parse_result := gen_aio_Command__parse_result gen_SubprocessResult_check_returncode.
Definition G_parse_results := gen_aio_Command_parse_results gen_SubprocessResult_check_returncode.

(** [_parse_result]: a single object never re-enters; a list re-enters once per element *)
Lemma gen_parse_result_one rec r : G_parse_result rec (EOne r) = res_error r.
Proof.
  unfold G_parse_result, gen_aio_Command__parse_result.
  destruct r as [cmd rc o e|n m]; cbn; [|reflexivity].
  unfold gen_SubprocessResult_check_returncode. cbn. destruct (Z.eqb rc 0); reflexivity.
Qed.

Lemma gen_parse_result_list rec l :
  G_parse_result rec (ESer l) = flat_map (fun n => rec (EOne n)) l.
Proof. reflexivity. Qed.

(** the model's [entry_errors] is the fixpoint of the generated recursion — and the only one:
    two unfoldings of ANY function already give it *)
Lemma gen_parse_result_is_model x : G_parse_result entry_errors x = entry_errors x.
Proof. destruct x as [r|l]; [apply gen_parse_result_one|reflexivity]. Qed.

Lemma gen_parse_result_unique rec x : G_parse_result (G_parse_result rec) x = entry_errors x.
Proof.
  destruct x as [r|l]; [apply gen_parse_result_one|].
  rewrite gen_parse_result_list. cbn [entry_errors].
  induction l as [|n t IH]; [reflexivity|]. cbn [flat_map]. rewrite gen_parse_result_one, IH. reflexivity.
Qed.

Lemma flat_map_singleton {A} (l : list A) : flat_map (fun x => [x]) l = l.
Proof. induction l as [|a r IH]; [reflexivity|]. cbn. rewrite IH. reflexivity. Qed.

(** [parse_results] flattens the errors of every element, in order *)
Lemma gen_parse_results_is_model results :
  G_parse_results entry_errors results = flat_map entry_errors results.
Proof.
  unfold G_parse_results, gen_aio_Command_parse_results. fold G_parse_result.
  apply flat_map_ext. intro x. rewrite flat_map_singleton. apply gen_parse_result_is_model.
Qed.

Lemma ast_eta s : mkAst (a_trace s) (a_local s) (a_ran s) (a_results s) (a_errors s) (a_out s) = s.
Proof. destruct s; reflexivity. Qed.

Section AsyncTie.
  Variable os : val -> bool -> outcome.
  Variable shell : bool.
  Let orc : oracle := orc_of os shell.

  (** the Command object as [_spawn] / [_run] read it *)
  Definition apy_of (k : acmd) : pycmd := mkPycmd (RunStr "") shell (ac_save k) (ac_text k).

  Definition G_spawn := gen_aio_Command__spawn (py_create_subprocess os) py_communicate shlex_split.
  Definition G_arun := gen_aio_Command__run (py_create_subprocess os) py_communicate shlex_split.

  (** state after spawning [st] and appending [rs] to the serial loop's local list *)
  Definition aafter (s : ast_) (st : list string) (rs : list res1) : ast_ :=
    mkAst (a_trace s ++ spawned shell st) (a_local s ++ rs) (a_ran s) (a_results s) (a_errors s) (a_out s).

  Lemma aafter_aafter s st rs st' rs' :
    aafter (aafter s st rs) st' rs' = aafter s (st ++ st') (rs ++ rs').
  Proof. unfold aafter, spawned. cbn. rewrite map_app, !app_assoc. reflexivity. Qed.

  (** [_spawn] with the handles [__init__] sets up (PIPE exactly when saving): the spawn is
      recorded; a spawn failure is raised; otherwise the model's [async_result] *)
  Lemma gen_spawn_is_model k c s :
    G_spawn (apy_of k) c (ac_save k) (ac_save k) s =
    (match orc c with
     | SpawnFail n m => GRaise (PExn n m)
     | Exited rc o e => GVal (async_result shell (ac_save k) (ac_text k) c rc o e)
     end, aafter s [c] []).
  Proof.
    unfold G_spawn, gen_aio_Command__spawn, apy_of, orc, orc_of, sync_args, py_create_subprocess,
      py_communicate, async_result, async_args, async_stream, aafter, spawned, aset_trace.
    cbn [pc_is_shell pc_is_save pc_is_text map]. rewrite app_nil_r.
    destruct shell; cbn [bindvv].
    - destruct (os (VStr c) true) as [rc o e|n m]; cbn [bindvv]; [|reflexivity].
      destruct (ac_save k), (ac_text k), o as [|? ?], e as [|? ?]; reflexivity.
    - destruct (os (VList (map VStr (shlex_split c))) false) as [rc o e|n m]; cbn [bindvv]; [|reflexivity].
      destruct (ac_save k), (ac_text k), o as [|? ?], e as [|? ?]; reflexivity.
  Qed.

  (** the serial sub-list loop with its [except Exception], for ANY loop body that does to one
      command what [_spawn] + append + "stop on non-zero" does *)
  Definition aspec_body (k : acmd) (body : string -> ast_ -> gval bool * ast_) : Prop :=
    forall c s,
      body c s =
      match orc c with
      | SpawnFail n m => (GRaise (PExn n m), aafter s [c] [])
      | Exited rc o e =>
          (GVal (negb (Z.eqb rc 0)),
           aafter s [c] [async_result shell (ac_save k) (ac_text k) c rc o e])
      end.

  Lemma gen_serial_loop k body handler :
    aspec_body k body ->
    (forall e s, handler e s = (GOk, aset_local s (a_local s ++ [res_of_exn e]))) ->
    forall l s,
    catch_ (andthen (for_each_until l body s) (fun s' => (GOk, s'))) handler =
    (GOk, aafter s (upto_bad orc l) (map snd (ser_spec orc shell (ac_save k) (ac_text k) l))).
  Proof.
    intros B H. induction l as [|c r IH]; intro s.
    - cbn. unfold aafter, spawned. cbn. rewrite !app_nil_r, ast_eta. reflexivity.
    - cbn [for_each_until ser_spec upto_bad]. rewrite B. unfold exit_zero.
      destruct (orc c) as [rc o e|n m] eqn:O.
      + destruct (Z.eqb rc 0) eqn:Z; cbn [negb].
        * rewrite IH, aafter_aafter. reflexivity.
        * reflexivity.
      + cbn [andthen catch_]. rewrite H. unfold aafter, aset_local. cbn.
        rewrite <- app_assoc. reflexivity.
  Qed.

  (** [Command._run] (async): a single command line is spawned and its result (or the spawn
      error) returned; a list runs serially up to the first non-zero exit / spawn error and
      returns the model's [ser_spec] results *)
  Lemma gen_arun_one_is_model k c s :
    G_arun (apy_of k) (AOne c) (ac_save k) (ac_save k) s =
    (match orc c with
     | SpawnFail n m => GRaise (PExn n m)
     | Exited rc o e => GVal (EOne (async_result shell (ac_save k) (ac_text k) c rc o e))
     end, aafter s [c] []).
  Proof.
    unfold G_arun, gen_aio_Command__run. fold G_spawn. cbn [aent_is_list aent_as_str].
    rewrite gen_spawn_is_model. destruct (orc c); reflexivity.
  Qed.

  Lemma gen_arun_list_is_model k l s :
    G_arun (apy_of k) (ASer l) (ac_save k) (ac_save k) s =
    (GVal (ESer (map snd (ser_spec orc shell (ac_save k) (ac_text k) l))),
     aafter (aset_local s []) (upto_bad orc l)
            (map snd (ser_spec orc shell (ac_save k) (ac_text k) l))).
  Proof.
    unfold G_arun, gen_aio_Command__run. fold G_spawn. cbn [aent_is_list aent_items]. cbv zeta.
    match goal with |- context [for_each_until l ?b ?s0] =>
      match goal with |- context [catch_ _ ?h] =>
        rewrite (gen_serial_loop k b h)
      end
    end.
    - reflexivity.
    - intros c s1. rewrite gen_spawn_is_model. destruct (orc c) as [rc o e|n m]; [|reflexivity].
      cbn [bindvv res_returncode async_result]. unfold aafter, aset_local. cbn.
      rewrite app_nil_r. reflexivity.
    - intros e s1. reflexivity.
  Qed.

  (** in the model's own terms: what the task of entry [e] leaves in its slot *)
  Lemma gen_arun_list_is_slot k l s :
    fst (G_arun (apy_of k) (ASer l) (ac_save k) (ac_save k) s) =
    GVal (slot_entry (fslot orc shell k (ASer l))).
  Proof.
    rewrite gen_arun_list_is_model. cbn [fst]. rewrite fslot_entry. cbn [entry_out].
    rewrite ser_spec_closed, map_map. reflexivity.
  Qed.

  (** ** Commands.run: aggregation after the event loop has finished *)
  Definition G_commands_run :=
    gen_aio_Commands_run (fun s => (GOk, aset_ran s true)) (G_parse_results entry_errors).

  Definition saved_of (cs : list acmdo) : list rentry :=
    flat_map (fun c => if ao_is_save c then ao_results c else []) cs.
  Definition errors_of (cs : list acmdo) : list perr :=
    flat_map (fun c => flat_map entry_errors (ao_results c)) cs.

  Definition acc_body_spec (body : acmdo -> ast_ -> gout * ast_) : Prop :=
    forall c s, a_ran s = true ->
      body c s =
      (GOk, mkAst (a_trace s) (a_local s) true
                  (a_results s ++ (if ao_is_save c then ao_results c else []))
                  (a_errors s ++ flat_map entry_errors (ao_results c)) (a_out s)).

  Lemma gen_commands_loop body : acc_body_spec body -> forall cs s, a_ran s = true ->
    for_each cs body s =
    (GOk, mkAst (a_trace s) (a_local s) true (a_results s ++ saved_of cs)
                (a_errors s ++ errors_of cs) (a_out s)).
  Proof.
    intro B. induction cs as [|c r IH]; intros s R.
    - cbn. rewrite !app_nil_r, <- R, ast_eta. reflexivity.
    - cbn [for_each]. rewrite B by exact R. cbn [andthen]. rewrite IH by reflexivity. cbn.
      unfold saved_of, errors_of. cbn [flat_map]. rewrite !app_assoc. reflexivity.
  Qed.

  (** [Commands.run]: cmdOut material = the [_results] of the saving Commands, in order; one
      MultiError holding every error of every Command, in order, iff there is any *)
  Lemma gen_commands_run_is_model cs s :
    G_commands_run cs s =
    (match errors_of cs with [] => GOk | _ => GExc (PExn "pypyr.errors.MultiError" "") end,
     mkAst (a_trace s) (a_local s) true (a_results s ++ saved_of cs) (errors_of cs) (a_out s)).
  Proof.
    unfold G_commands_run, gen_aio_Commands_run. cbn [andthen]. cbv zeta.
    match goal with |- context [for_each cs ?b ?s0] =>
      rewrite (gen_commands_loop b)
    end.
    - cbn [andthen a_errors app]. destruct (errors_of cs); reflexivity.
    - intros c s1 R. rewrite !gen_parse_results_is_model.
      unfold ao_results_now, aset_results, aset_errors. cbn [a_ran]. rewrite R.
      destruct (ao_is_save c), (flat_map entry_errors (ao_results c)) eqn:F;
        cbn [negb is_nil a_trace a_local a_ran a_results a_errors a_out];
        rewrite ?app_nil_r, ?R; try reflexivity.
      all: rewrite <- R at 1; rewrite ?ast_eta; reflexivity.
    - reflexivity.
  Qed.

  (** the Commands as the event loop leaves them, by the model: each Command's [_results] are
      its tasks' slots in declaration order (this is the gather assumption) *)
  Definition acmdo_of (k : acmd) : acmdo :=
    mkAcmdo (ac_save k) (map (entry_out orc shell k) (entries k)).

  Lemma entry_errors_entry_out k e :
    entry_errors (entry_out orc shell k e) =
    flat_map (afailure orc shell k) (upto_bad orc (entry_cmds e)).
  Proof.
    rewrite <- fslot_errors, <- fslot_entry.
    unfold slot_entry, slot_errors, fslot. destruct e as [c|l]; cbn [is_ser sl_ser sl_done entry_cmds].
    - rewrite upto_bad_single. cbn. rewrite app_nil_r. reflexivity.
    - cbn [entry_errors]. induction (upto_bad orc l) as [|c r IH]; [reflexivity|].
      cbn. rewrite IH. reflexivity.
  Qed.

  Lemma saved_of_model ks :
    saved_of (map acmdo_of ks) =
    flat_map (fun p => if ac_save (fst p) then [entry_out orc shell (fst p) (snd p)] else [])
             (aentries ks).
  Proof.
    unfold saved_of, aentries. induction ks as [|k r IH]; [reflexivity|].
    cbn [map flat_map]. rewrite flat_map_app, IH. f_equal.
    cbn [acmdo_of ao_is_save ao_results]. destruct (ac_save k) eqn:SV.
    - induction (entries k) as [|e t IHt]; [reflexivity|].
      cbn [map flat_map fst snd]. rewrite SV. cbn [app]. rewrite IHt. reflexivity.
    - induction (entries k) as [|e t IHt]; [reflexivity|].
      cbn [map flat_map fst snd]. rewrite SV. cbn [app]. exact IHt.
  Qed.

  Lemma errors_of_model ks : errors_of (map acmdo_of ks) = all_failures orc shell ks.
  Proof.
    unfold errors_of, all_failures, aentries. induction ks as [|k r IH]; [reflexivity|].
    cbn [map flat_map]. rewrite flat_map_app, IH. f_equal.
    cbn [acmdo_of ao_results]. induction (entries k) as [|e t IHt]; [reflexivity|].
    cbn. rewrite IHt, entry_errors_entry_out. reflexivity.
  Qed.

  (** ** AsyncCmdStep.run_step *)
  Definition G_async_step (ks : list acmd) :=
    gen_AsyncCmdStep_run_step (G_commands_run (map acmdo_of ks)) (any_save ks).

  (** end to end, for EVERY schedule: started from a fresh Commands object, the generated
      aggregation and step report the model's error and cmdOut *)
  Lemma gen_async_step_is_run_async sched cf s :
    a_results s = [] -> a_out s = OutUnset ->
    let m := run_async orc shell sched cf in
    let r := G_async_step (async_commands cf) s in
    a_out (snd r) = ob_out m /\
    match ob_err m with
    | NoError => fst r = GOk
    | Multi l => fst r = GExc (PExn "pypyr.errors.MultiError" "") /\ a_errors (snd r) = l
    | Raised _ => False
    end.
  Proof.
    intros R O. cbv zeta. unfold run_async. rewrite async_out, async_err.
    unfold G_async_step, gen_AsyncCmdStep_run_step. rewrite !andthen_ok_id.
    rewrite gen_commands_run_is_model, R, saved_of_model, errors_of_model. cbn [app].
    unfold finally_, aset_out. cbn.
    destruct (any_save (async_commands cf)); cbn;
      destruct (all_failures orc shell (async_commands cf)); cbn; rewrite ?O; auto.
  Qed.
End AsyncTie.
