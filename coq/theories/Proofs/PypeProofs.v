(** Proofs/PypeProofs.v — placeholder, to be written. *)
