(** Proofs/CliProofs.v — placeholder, to be written. *)
