(** Proofs/CliProofs.v — lemmas about Model/Cli.v: the exit-code ladder, the argv shapes
    that pypyr documents, the parse_input table and the update of the context. *)
From Coq Require Import Lia.
From PV Require Import Parsers Cli ParsersProofs.
Open Scope string_scope.

(** * Exit codes *)
Lemma cli_main_inv runner cwd argv m :
  cli_main runner cwd argv = Ok m ->
  exists a, parse_argv argv = Ok a /\ m = main_of_end (a_log a) (runner (call_of cwd a)).
Proof.
  unfold cli_main. destruct (parse_argv argv) as [a| |]; simpl; intros H; try discriminate.
  inversion H. eauto.
Qed.

Lemma exit_code_table runner cwd argv m :
  cli_main runner cwd argv = Ok m ->
  exists a, parse_argv argv = Ok a /\
    match runner (call_of cwd a) with
    | Completed | Stopped =>
        m = Returned None "" "" false /\ process_status m = 0%Z
    | RaisedException ty msg =>
        m = Returned (Some 255%Z) "" (err_text ty msg) (wants_traceback (a_log a))
        /\ process_status m = 255%Z
    | RaisedKeyboardInterrupt =>
        m = Returned (Some 130%Z) nl "" false /\ process_status m = 130%Z
    | e => m = Propagated e
    end.
Proof.
  intros H. apply cli_main_inv in H as (a & Ha & ->). exists a. split; [exact Ha|].
  destruct (runner (call_of cwd a)); simpl; auto.
Qed.

Definition is_system_exit (e : run_end) : bool :=
  match e with RaisedSystemExit _ => true | _ => false end.

Lemma exit_zero_iff_partial log e :
  is_system_exit e = false ->
  (process_status (main_of_end log e) = 0%Z <-> e = Completed \/ e = Stopped).
Proof.
  intros H. destruct e; simpl in *; try discriminate; split; intros H1;
    try (destruct H1; discriminate); try discriminate; auto.
Qed.

Lemma exit_zero_iff_refuted :
  exists log e, process_status (main_of_end log e) = 0%Z /\ e <> Completed /\ e <> Stopped.
Proof. exists None, (RaisedSystemExit (Some 0%Z)). repeat split; discriminate. Qed.

Lemma error_never_zero log ty msg :
  process_status (main_of_end log (RaisedException ty msg)) = 255%Z.
Proof. reflexivity. Qed.

(** * argv: the documented call shapes *)
Inductive opt_item :=
| IGroups (g : list string)
| ISuccess (s : string)
| IFailure (s : string)
| IDir (s : string)
| ILog (alias : bool) (digits : string)      (* --log / --loglevel *)
| ILogPath (s : string).

Definition render_item (it : opt_item) : list string :=
  match it with
  | IGroups g => "--groups" :: g
  | ISuccess s => ["--success"; s]
  | IFailure s => ["--failure"; s]
  | IDir s => ["--dir"; s]
  | ILog false t => ["--log"; t]
  | ILog true t => ["--loglevel"; t]
  | ILogPath s => ["--logpath"; s]
  end.

Definition render_items (items : list opt_item) : list string := flat_map render_item items.

Definition plain (s : string) : Prop := is_flag s = false.

Definition item_wf (it : opt_item) : Prop :=
  match it with
  | IGroups g => Forall plain g
  | ISuccess s | IFailure s | IDir s | ILogPath s => plain s
  | ILog _ t => isdigit t = true
  end.

Definition apply_item (a : cli_args) (it : opt_item) : cli_args :=
  match it with
  | IGroups g => mk_cli_args (a_name a) (a_ctx a) (Some g) (a_success a) (a_failure a) (a_dir a)
                             (a_log a) (a_logpath a)
  | ISuccess s => mk_cli_args (a_name a) (a_ctx a) (a_groups a) (Some s) (a_failure a) (a_dir a)
                              (a_log a) (a_logpath a)
  | IFailure s => mk_cli_args (a_name a) (a_ctx a) (a_groups a) (a_success a) (Some s) (a_dir a)
                              (a_log a) (a_logpath a)
  | IDir s => mk_cli_args (a_name a) (a_ctx a) (a_groups a) (a_success a) (a_failure a) (Some s)
                          (a_log a) (a_logpath a)
  | ILog _ t => mk_cli_args (a_name a) (a_ctx a) (a_groups a) (a_success a) (a_failure a)
                            (a_dir a) (Some (digits_to_Z t 0)) (a_logpath a)
  | ILogPath s => mk_cli_args (a_name a) (a_ctx a) (a_groups a) (a_success a) (a_failure a)
                              (a_dir a) (a_log a) (Some s)
  end.

(** no options at all *)
Definition bare_args (name : string) (ctx : list string) : cli_args :=
  mk_cli_args name ctx None None None None None None.

(** the last occurrence of an option wins; options that do not occur stay unset *)
Definition apply_items (items : list opt_item) (a : cli_args) : cli_args :=
  fold_left apply_item items a.

(** ** plain tokens are never mistaken for an option *)
Lemma is_flag_cons c r : is_flag (String c r) = Ascii.eqb c "-".
Proof.
  unfold is_flag.
  change (String.prefix "-" (String c r))
    with (if ascii_dec "-" c then String.prefix "" r else false).
  destruct (ascii_dec "-" c) as [E|E].
  - subst. rewrite Ascii.eqb_refl. destruct r; reflexivity.
  - symmetry. apply Ascii.eqb_neq. congruence.
Qed.

Lemma plain_head s : plain s -> s = "" \/ exists c r, s = String c r /\ c <> "-"%char.
Proof.
  unfold plain. destruct s as [|c r]; [now left|]. rewrite is_flag_cons. intros H.
  right. exists c, r. split; [reflexivity|]. now apply Ascii.eqb_neq.
Qed.

Lemma eqb_dash_false s t : plain s -> String.eqb s (String "-" t) = false.
Proof.
  intros H. destruct (plain_head s H) as [->|(c & r & -> & Hc)]; [reflexivity|].
  simpl. destruct (Ascii.eqb c "-") eqn:E; [|reflexivity].
  apply Ascii.eqb_eq in E. contradiction.
Qed.

Lemma plain_opt_of s : plain s -> opt_of s = None.
Proof. intros H. unfold opt_of. now rewrite !(eqb_dash_false s _ H). Qed.

(** ** the state after one option group *)
Definition open_mode (m : mode) : Prop :=
  match m with MTop | MGroups | MPos => True | _ => False end.

Definition set_field (o : optname) (tok : string) (st : pstate) : pstate :=
  match set_opt o tok st with Ok st' => st' | _ => st end.

Definition after_item (st : pstate) (it : opt_item) : pstate :=
  match it with
  | IGroups g => with_mode MGroups (set_groups (Some g) st)
  | ISuccess s => set_field OSuccess s st
  | IFailure s => set_field OFailure s st
  | IDir s => set_field ODir s st
  | ILog _ t => set_field OLog t st
  | ILogPath s => set_field OLogPath s st
  end.

Definition args_of (st : pstate) (name : string) (ctx : list string) : cli_args :=
  mk_cli_args name ctx (p_groups st) (p_success st) (p_failure st) (p_dir st) (p_log st)
              (p_logpath st).

Lemma run_tokens_app st a b :
  run_tokens st (a ++ b) = (let* st' := run_tokens st a in run_tokens st' b).
Proof.
  revert st; induction a as [|t r IH]; intros st; simpl; [reflexivity|].
  destruct (step st t); simpl; auto.
Qed.

Lemma step_plain_groups st t :
  p_mode st = MGroups -> plain t -> step st t = Ok (push_group t st).
Proof.
  intros M H. unfold step. rewrite M.
  rewrite (eqb_dash_false t _ H), (eqb_dash_false t _ H), (plain_opt_of t H).
  unfold plain in H. now rewrite H.
Qed.

Lemma run_groups_values g : forall st g0,
  p_mode st = MGroups -> p_groups st = Some g0 -> Forall plain g ->
  run_tokens st g = Ok (set_groups (Some (g0 ++ g)%list) st).
Proof.
  induction g as [|t r IH]; intros st g0 M G F; simpl.
  - rewrite app_nil_r. destruct st; simpl in *. now subst.
  - inversion F as [|? ? Ht Fr]; subst. rewrite (step_plain_groups st t M Ht). simpl.
    rewrite (IH (push_group t st) (g0 ++ [t])%list); auto.
    + unfold push_group. rewrite G. destruct st; simpl. now rewrite <- app_assoc.
    + unfold push_group. now rewrite G.
Qed.

Lemma step_option st tok o :
  open_mode (p_mode st) -> opt_of tok = Some o -> step st tok = Ok (with_mode (MVal o) st).
Proof.
  intros M H. unfold step.
  assert (E1 : String.eqb tok "--" = false).
  { destruct (String.eqb tok "--") eqn:E; [|reflexivity]. apply String.eqb_eq in E. now subst. }
  assert (E2 : String.eqb tok "--groups" = false).
  { destruct (String.eqb tok "--groups") eqn:E; [|reflexivity]. apply String.eqb_eq in E. now subst. }
  destruct (p_mode st); try contradiction; now rewrite E1, E2, H.
Qed.

Lemma step_value st o tok :
  p_mode st = MVal o -> plain tok -> step st tok = set_opt o tok st.
Proof. intros M H. unfold step. rewrite M. unfold plain in H. now rewrite H. Qed.

Lemma run_item st it :
  open_mode (p_mode st) -> item_wf it ->
  run_tokens st (render_item it) = Ok (after_item st it).
Proof.
  intros M W. destruct it as [g|s|s|s|al t|s]; simpl in W.
  - (* --groups *)
    simpl. assert (S1 : step st "--groups" = Ok (with_mode MGroups (set_groups (Some []) st))).
    { unfold step. destruct (p_mode st); try contradiction; reflexivity. }
    rewrite S1. simpl.
    rewrite (run_groups_values g _ []) by auto.
    destruct st; reflexivity.
  - simpl. rewrite (step_option st "--success" OSuccess M eq_refl). simpl.
    rewrite (step_value _ OSuccess) by (auto; destruct st; reflexivity). destruct st; reflexivity.
  - simpl. rewrite (step_option st "--failure" OFailure M eq_refl). simpl.
    rewrite (step_value _ OFailure) by (auto; destruct st; reflexivity). destruct st; reflexivity.
  - simpl. rewrite (step_option st "--dir" ODir M eq_refl). simpl.
    rewrite (step_value _ ODir) by (auto; destruct st; reflexivity). destruct st; reflexivity.
  - assert (P : plain t).
    { unfold plain. destruct t as [|c r]; [reflexivity|]. rewrite is_flag_cons.
      destruct (Ascii.eqb c "-") eqn:E; [|reflexivity].
      apply Ascii.eqb_eq in E. subst. discriminate W. }
    destruct al; simpl.
    + rewrite (step_option st "--loglevel" OLog M eq_refl). simpl.
      rewrite (step_value _ OLog) by (auto; destruct st; reflexivity).
      unfold set_field, set_opt, parse_int. rewrite W. destruct st; reflexivity.
    + rewrite (step_option st "--log" OLog M eq_refl). simpl.
      rewrite (step_value _ OLog) by (auto; destruct st; reflexivity).
      unfold set_field, set_opt, parse_int. rewrite W. destruct st; reflexivity.
  - simpl. rewrite (step_option st "--logpath" OLogPath M eq_refl). simpl.
    rewrite (step_value _ OLogPath) by (auto; destruct st; reflexivity). destruct st; reflexivity.
Qed.

Lemma after_item_inv st it :
  item_wf it ->
  open_mode (p_mode (after_item st it)) /\ p_mode (after_item st it) <> MPos
  /\ p_seen (after_item st it) = p_seen st /\ p_pos (after_item st it) = p_pos st
  /\ forall n c, args_of (after_item st it) n c = apply_item (args_of st n c) it.
Proof.
  intros W. destruct it; simpl in *; unfold set_field, set_opt, parse_int; try rewrite W;
    destruct st; simpl; repeat split; try discriminate.
Qed.

Lemma after_item_top st it :
  item_wf it -> (forall g, it <> IGroups g) -> p_mode (after_item st it) = MTop.
Proof.
  intros W N. destruct it; simpl in *; unfold set_field, set_opt, parse_int; try rewrite W;
    destruct st; try reflexivity. exfalso. now apply (N g).
Qed.

Lemma run_items items : forall st,
  open_mode (p_mode st) -> Forall item_wf items ->
  run_tokens st (render_items items) = Ok (fold_left after_item items st).
Proof.
  induction items as [|it r IH]; intros st M F; [reflexivity|].
  inversion F as [|? ? W Fr]; subst. unfold render_items in *. simpl.
  rewrite run_tokens_app, (run_item st it M W). simpl.
  apply IH; [|exact Fr]. now destruct (after_item_inv st it W) as (H & _).
Qed.

Lemma fold_after_inv items : forall st,
  Forall item_wf items ->
  p_seen (fold_left after_item items st) = p_seen st
  /\ p_pos (fold_left after_item items st) = p_pos st
  /\ (open_mode (p_mode st) -> open_mode (p_mode (fold_left after_item items st)))
  /\ (items <> [] -> p_mode (fold_left after_item items st) <> MPos)
  /\ forall n c, args_of (fold_left after_item items st) n c = apply_items items (args_of st n c).
Proof.
  induction items as [|it r IH]; intros st F; simpl.
  - repeat split; auto; intros H; contradiction.
  - inversion F as [|? ? W Fr]; subst.
    destruct (after_item_inv st it W) as (A1 & A2 & A3 & A4 & A5).
    destruct (IH (after_item st it) Fr) as (B1 & B2 & B3 & B4 & B5).
    repeat split.
    + now rewrite B1.
    + now rewrite B2.
    + intros _. now apply B3.
    + intros _. destruct r as [|it2 r']; [exact A2|]. apply B4. discriminate.
    + intros n c. rewrite B5, A5. reflexivity.
Qed.

(** ** positional tokens *)
Lemma step_plain_pos st t :
  p_mode st = MPos -> plain t -> step st t = Ok (push_pos t st).
Proof.
  intros M H. unfold step. rewrite M.
  rewrite (eqb_dash_false t _ H), (eqb_dash_false t _ H), (plain_opt_of t H).
  unfold plain in H. now rewrite H.
Qed.

Definition add_pos (l : list string) (st : pstate) : pstate :=
  mk_pstate (p_mode st) true (p_pos st ++ l)%list (p_groups st) (p_success st) (p_failure st)
            (p_dir st) (p_log st) (p_logpath st).

Lemma run_plain_pos l : forall st,
  p_mode st = MPos -> p_seen st = true -> Forall plain l ->
  run_tokens st l = Ok (add_pos l st).
Proof.
  induction l as [|t r IH]; intros st M S F; simpl.
  - unfold add_pos. rewrite app_nil_r. destruct st; simpl in *. now subst.
  - inversion F as [|? ? Ht Fr]; subst. rewrite (step_plain_pos st t M Ht). simpl.
    rewrite IH; auto. unfold add_pos, push_pos. simpl. now rewrite <- app_assoc.
Qed.

Lemma run_rest_pos l : forall st,
  p_mode st = MRest -> Forall (fun t => t <> "--") l ->
  l <> [] -> run_tokens st l = Ok (add_pos l st).
Proof.
  induction l as [|t r IH]; intros st M F N; [contradiction|].
  inversion F as [|? ? Ht Fr]; subst. simpl.
  assert (S1 : step st t = Ok (push_pos t st)).
  { unfold step. rewrite M. destruct (String.eqb t "--") eqn:E; [|reflexivity].
    apply String.eqb_eq in E. contradiction. }
  rewrite S1. simpl. destruct r as [|t2 r'].
  - simpl. unfold add_pos, push_pos. reflexivity.
  - rewrite IH; auto; [|discriminate]. unfold add_pos, push_pos. simpl. now rewrite <- app_assoc.
Qed.

Lemma step_first_pos st t :
  p_mode st = MTop -> p_seen st = false -> plain t ->
  step st t = Ok (push_pos t (with_mode MPos st)).
Proof.
  intros M S H. unfold step. rewrite M.
  rewrite (eqb_dash_false t _ H), (eqb_dash_false t _ H), (plain_opt_of t H).
  unfold plain in H. now rewrite H, S.
Qed.

Lemma finish_open st name ctx :
  (forall o, p_mode st <> MVal o) -> p_pos st = name :: ctx ->
  finish st = Ok (args_of st name ctx).
Proof.
  intros M P. unfold finish. rewrite P.
  destruct (p_mode st) eqn:E; try reflexivity. exfalso. now apply (M o).
Qed.

(** ** shape A:  NAME CTX… [options…] *)
Lemma parse_argv_positionals_first name ctx items :
  plain name -> Forall plain ctx -> Forall item_wf items ->
  parse_argv (name :: ctx ++ render_items items) = Ok (apply_items items (bare_args name ctx)).
Proof.
  intros Hn Hc Hi. unfold parse_argv. simpl run_tokens.
  rewrite (step_first_pos pstate0 name eq_refl eq_refl Hn). cbn [bind].
  rewrite run_tokens_app.
  rewrite (run_plain_pos ctx) by (auto; reflexivity). cbn [bind].
  set (st1 := add_pos ctx (push_pos name (with_mode MPos pstate0))).
  rewrite (run_items items st1) by (auto; exact I). cbn [bind].
  destruct (fold_after_inv items st1 Hi) as (B1 & B2 & B3 & B4 & B5).
  rewrite (finish_open _ name ctx).
  - rewrite B5. reflexivity.
  - intros o E. specialize (B3 I). rewrite E in B3. exact B3.
  - rewrite B2. reflexivity.
Qed.

(** ** shape B:  [options…] -- NAME CTX… *)
Lemma parse_argv_options_first name ctx items :
  name <> "--" -> Forall (fun t => t <> "--") ctx -> Forall item_wf items ->
  parse_argv (render_items items ++ "--" :: name :: ctx)
  = Ok (apply_items items (bare_args name ctx)).
Proof.
  intros Hn Hc Hi. unfold parse_argv. rewrite run_tokens_app.
  rewrite (run_items items pstate0) by (auto; exact I). cbn [bind].
  destruct (fold_after_inv items pstate0 Hi) as (B1 & B2 & B3 & B4 & B5).
  set (st1 := fold_left after_item items pstate0) in *.
  assert (S1 : step st1 "--" = Ok (with_mode MRest st1)).
  { unfold step. specialize (B3 I). rewrite B1. simpl.
    destruct (p_mode st1); try contradiction; reflexivity. }
  change (run_tokens st1 ("--" :: name :: ctx))
    with (let* st' := step st1 "--" in run_tokens st' (name :: ctx)).
  rewrite S1. cbn [bind].
  rewrite (run_rest_pos (name :: ctx)); [|destruct st1; reflexivity|now constructor|discriminate].
  cbn [bind]. rewrite (finish_open _ name ctx).
  - unfold args_of. simpl. specialize (B5 name ctx). unfold args_of in B5. simpl in B5.
    destruct st1; simpl in *. exact (f_equal _ B5).
  - intros o. destruct st1; discriminate.
  - simpl. destruct st1; simpl in *. now rewrite B2.
Qed.

(** ** shape D:  options… (the last one not --groups) NAME CTX… *)
Lemma parse_argv_options_then_positionals name ctx items it :
  plain name -> Forall plain ctx -> Forall item_wf items -> item_wf it ->
  (forall g, it <> IGroups g) ->
  parse_argv (render_items (items ++ [it]) ++ name :: ctx)
  = Ok (apply_items (items ++ [it]) (bare_args name ctx)).
Proof.
  intros Hn Hc Hi Wi Ng. unfold parse_argv. rewrite run_tokens_app.
  assert (F : Forall item_wf (items ++ [it])) by (apply Forall_app; split; auto).
  rewrite (run_items _ pstate0) by (auto; exact I). cbn [bind].
  destruct (fold_after_inv (items ++ [it]) pstate0 F) as (B1 & B2 & B3 & B4 & B5).
  set (st1 := fold_left after_item (items ++ [it]) pstate0) in *.
  assert (MT : p_mode st1 = MTop).
  { unfold st1. rewrite fold_left_app. simpl. now apply after_item_top. }
  change (run_tokens st1 (name :: ctx))
    with (let* st' := step st1 name in run_tokens st' ctx).
  rewrite (step_first_pos st1 name MT B1 Hn). cbn [bind].
  rewrite (run_plain_pos ctx) by (auto; reflexivity). cbn [bind].
  rewrite (finish_open _ name ctx).
  - specialize (B5 name ctx). unfold args_of in *. simpl in *. exact (f_equal _ B5).
  - intros o. simpl. discriminate.
  - simpl. now rewrite B2.
Qed.

(** the call into the runner for an accepted command line *)
Lemma call_passthrough cwd a :
  let c := call_of cwd a in
  rc_name c = a_name a /\ rc_args_in c = Some (a_ctx a) /\ rc_groups c = a_groups a
  /\ rc_success c = a_success a /\ rc_failure c = a_failure a
  /\ rc_dir c = (match a_dir a with Some d => d | None => cwd end)
  /\ rc_parse_args c = Some true /\ rc_dict_in c = None /\ rc_loader c = None.
Proof. repeat split. Qed.

Lemma apply_items_name_ctx items : forall a,
  a_name (apply_items items a) = a_name a /\ a_ctx (apply_items items a) = a_ctx a.
Proof.
  induction items as [|it r IH]; intros a; [split; reflexivity|]. simpl.
  destruct (IH (apply_item a it)) as [H1 H2]. rewrite H1, H2. destruct it; split; reflexivity.
Qed.

(** * The API table *)
Lemma parse_input_table :
  (forall ai di, get_parse_input (Some true) ai di = true)
  /\ (forall ai di, get_parse_input (Some false) ai di = false)
  /\ (forall ai di, args_falsy ai = false -> get_parse_input None ai di = true)
  /\ (forall ai, get_parse_input None ai None = true)
  /\ (forall ai d, args_falsy ai = true -> get_parse_input None ai (Some d) = false).
Proof.
  repeat split; intros; unfold get_parse_input; simpl; try rewrite H; simpl;
    try reflexivity. now rewrite andb_false_r.
Qed.

Lemma parser_skipped_iff pa ai di :
  get_parse_input pa ai di = false
  <-> pa = Some false \/ (pa = None /\ args_falsy ai = true /\ di <> None).
Proof.
  unfold get_parse_input. destruct pa as [[|]|]; simpl.
  - split; [discriminate|]. intros [H|(H & _)]; discriminate.
  - split; auto.
  - destruct (args_falsy ai), di; simpl; split; intros H; try discriminate; auto.
    + right. repeat split. discriminate.
    + destruct H as [H|(_ & _ & H)]; [discriminate|contradiction].
    + destruct H as [H|(_ & H & _)]; discriminate.
    + destruct H as [H|(_ & H & _)]; discriminate.
Qed.

(** * The parser result updates the context *)
Lemma dict_update_nil_r (d : dict) : dict_update d [] = d.
Proof. reflexivity. Qed.

Lemma prepare_context_spec parse_input parser a ctx :
  prepare_context parse_input parser a ctx =
  match parse_input, parser with
  | false, _ => Ok ctx
  | true, None => Ok ctx
  | true, Some p =>
      match run_parser p a with
      | Ok None => Ok ctx
      | Ok (Some d) => Ok (dict_update ctx d)
      | Err n m => Err n m
      | Unsup => Unsup
      end
  end.
Proof.
  unfold prepare_context. destruct parse_input; [|reflexivity].
  destruct parser as [p|]; [|reflexivity].
  destruct (run_parser p a) as [[d|]| |]; simpl; try reflexivity.
  destruct d; reflexivity.
Qed.

(** parsed keys override, every other key keeps the value it had *)
Lemma prepare_context_lookup p a ctx qs k :
  run_parser p a = Ok (Some (skv qs)) -> NoDup (map fst qs) ->
  exists ctx', prepare_context true (Some p) a ctx = Ok ctx'
    /\ sget k ctx' = match aget k qs with Some v => Some v | None => sget k ctx end.
Proof.
  intros H ND. rewrite prepare_context_spec, H. eexists; split; [reflexivity|].
  now apply dict_update_str_lookup.
Qed.

(** the command line: an empty context updated with the parser's result, i.e. that result *)
Lemma cli_context_is_parser_result parser argv a :
  parse_argv argv = Ok a ->
  cli_first_step_context parser argv = prepare_context true parser (Some (a_ctx a)) [].
Proof. intros H. unfold cli_first_step_context, api_first_step_context. now rewrite H. Qed.

Lemma cli_context_builtin p argv a d :
  p <> PJson -> parse_argv argv = Ok a ->
  run_parser p (Some (a_ctx a)) = Ok (Some d) ->
  cli_first_step_context (Some p) argv = Ok d.
Proof.
  intros Hp Ha Hr. rewrite (cli_context_is_parser_result _ _ _ Ha), prepare_context_spec, Hr.
  destruct (parser_result_alist p _ d Hp Hr) as (qs & -> & ND).
  now rewrite dict_update_nil_skv.
Qed.

Lemma cli_context_kvp argv a x l :
  parse_argv argv = Ok a -> a_ctx a = x :: l ->
  cli_first_step_context (Some PKeyValuePairs) argv = Ok (kvp_dict (x :: l)).
Proof.
  intros Ha Hc. apply (cli_context_builtin PKeyValuePairs argv a); [discriminate|exact Ha|].
  rewrite Hc. reflexivity.
Qed.
