(** Proofs/MergeProofs.v — placeholder, to be written. *)
