(** Proofs/MergeProofs.v — lemmas about Model/Merge.v.

    Layout: (0) [val_eqb] decides equality; (1) dict get/set; (2) paths: lookup / update;
    (3) the frame relation and the merge; (4) set_defaults; (5) the type-clash table;
    (6) appending; (7) which keys get written; (8) counter-examples. *)
From PV Require Import Format FormatProofs Merge.
From Coq Require Import Lia.
Open Scope string_scope.

(** * 0. [val_eqb] decides Leibniz equality (nested induction principles by hand) *)
Section PyexprInd.
  Variable P : pyexpr -> Prop.
  Hypothesis HNone : P ENone.
  Hypothesis HBool : forall b, P (EBool b).
  Hypothesis HInt : forall z, P (EInt z).
  Hypothesis HStr : forall s, P (EStr s).
  Hypothesis HName : forall s, P (EName s).
  Hypothesis HList : forall l, Forall P l -> P (EList l).
  Hypothesis HTuple : forall l, Forall P l -> P (ETuple l).
  Hypothesis HCmp : forall o a b, P a -> P b -> P (ECmp o a b).
  Hypothesis HAnd : forall a b, P a -> P b -> P (EAnd a b).
  Hypothesis HOr : forall a b, P a -> P b -> P (EOr a b).
  Hypothesis HNot : forall a, P a -> P (ENot a).
  Hypothesis HAdd : forall a b, P a -> P b -> P (EAdd a b).
  Hypothesis HSub : forall a b, P a -> P b -> P (ESub a b).
  Hypothesis HMul : forall a b, P a -> P b -> P (EMul a b).
  Hypothesis HLen : forall a, P a -> P (ELen a).
  Hypothesis HIn : forall a b, P a -> P b -> P (EIn a b).
  Hypothesis HIndex : forall a b, P a -> P b -> P (EIndex a b).
  Hypothesis HWalrus : forall x a, P a -> P (EWalrus x a).
  Hypothesis HLambda : forall x a b, P a -> P b -> P (ELambdaCall x a b).
  Hypothesis HComp : forall a x b, P a -> P b -> P (EListComp a x b).

  Fixpoint pyexpr_ind2 (e : pyexpr) : P e :=
    let fix go (l : list pyexpr) : Forall P l :=
      match l with
      | [] => Forall_nil P
      | x :: r => Forall_cons x (pyexpr_ind2 x) (go r)
      end in
    match e with
    | ENone => HNone
    | EBool b => HBool b
    | EInt z => HInt z
    | EStr s => HStr s
    | EName s => HName s
    | EList l => HList l (go l)
    | ETuple l => HTuple l (go l)
    | ECmp o a b => HCmp o a b (pyexpr_ind2 a) (pyexpr_ind2 b)
    | EAnd a b => HAnd a b (pyexpr_ind2 a) (pyexpr_ind2 b)
    | EOr a b => HOr a b (pyexpr_ind2 a) (pyexpr_ind2 b)
    | ENot a => HNot a (pyexpr_ind2 a)
    | EAdd a b => HAdd a b (pyexpr_ind2 a) (pyexpr_ind2 b)
    | ESub a b => HSub a b (pyexpr_ind2 a) (pyexpr_ind2 b)
    | EMul a b => HMul a b (pyexpr_ind2 a) (pyexpr_ind2 b)
    | ELen a => HLen a (pyexpr_ind2 a)
    | EIn a b => HIn a b (pyexpr_ind2 a) (pyexpr_ind2 b)
    | EIndex a b => HIndex a b (pyexpr_ind2 a) (pyexpr_ind2 b)
    | EWalrus x a => HWalrus x a (pyexpr_ind2 a)
    | ELambdaCall x a b => HLambda x a b (pyexpr_ind2 a) (pyexpr_ind2 b)
    | EListComp a x b => HComp a x b (pyexpr_ind2 a) (pyexpr_ind2 b)
    end.
End PyexprInd.

Section ValInd.
  Variable P : val -> Prop.
  Hypothesis HNone : P VNone.
  Hypothesis HBool : forall b, P (VBool b).
  Hypothesis HInt : forall z, P (VInt z).
  Hypothesis HFloat : forall q, P (VFloat q).
  Hypothesis HStr : forall s, P (VStr s).
  Hypothesis HBytes : forall s, P (VBytes s).
  Hypothesis HList : forall l, Forall P l -> P (VList l).
  Hypothesis HTuple : forall l, Forall P l -> P (VTuple l).
  Hypothesis HSet : forall l, Forall P l -> P (VSet l).
  Hypothesis HDict : forall l, Forall (fun kv => P (fst kv) /\ P (snd kv)) l -> P (VDict l).
  Hypothesis HPy : forall s e, P (VPy s e).
  Hypothesis HSic : forall s, P (VSic s).
  Hypothesis HJsonify : forall v, P v -> P (VJsonify v).
  Hypothesis HObj : forall i, P (VObj i).
  Hypothesis HExn : forall n m i, P (VExn n m i).

  Fixpoint val_ind2 (v : val) : P v :=
    let fix go (l : list val) : Forall P l :=
      match l with
      | [] => Forall_nil P
      | x :: r => Forall_cons x (val_ind2 x) (go r)
      end in
    let fix god (l : list (val * val)) : Forall (fun kv => P (fst kv) /\ P (snd kv)) l :=
      match l with
      | [] => Forall_nil _
      | (k, x) :: r => Forall_cons (k, x) (conj (val_ind2 k) (val_ind2 x)) (god r)
      end in
    match v with
    | VNone => HNone
    | VBool b => HBool b
    | VInt z => HInt z
    | VFloat q => HFloat q
    | VStr s => HStr s
    | VBytes s => HBytes s
    | VList l => HList l (go l)
    | VTuple l => HTuple l (go l)
    | VSet l => HSet l (go l)
    | VDict l => HDict l (god l)
    | VPy s e => HPy s e
    | VSic s => HSic s
    | VJsonify x => HJsonify x (val_ind2 x)
    | VObj i => HObj i
    | VExn n m i => HExn n m i
    end.
End ValInd.

Lemma cmpop_eqb_eq a b : cmpop_eqb a b = true <-> a = b.
Proof. split; [destruct a, b; simpl; congruence|intros ->; destruct b; reflexivity]. Qed.

Lemma pyexpr_eqb_eq : forall a b, pyexpr_eqb a b = true <-> a = b.
Proof.
  induction a using pyexpr_ind2; intros b0.
  all: try (destruct b0; simpl; split; try congruence; try discriminate;
            rewrite ?andb_true_iff, ?Bool.eqb_true_iff, ?Z.eqb_eq, ?String.eqb_eq, ?cmpop_eqb_eq,
              ?IHa, ?IHa1, ?IHa2;
            [intuition congruence | intros E; inversion E; subst; auto]).
  all: destruct b0; simpl; try (split; congruence).
  all: match goal with |- _ ?l ?l0 = true <-> _ =>
         assert (G : forall l0, (fix go (l1 l2 : list pyexpr) {struct l1} : bool :=
                    match l1 with
                    | [] => match l2 with [] => true | _ :: _ => false end
                    | x :: xs => match l2 with [] => false | y :: ys => pyexpr_eqb x y && go xs ys end
                    end) l l0 = true <-> l = l0);
         [ clear l0; induction H as [|x l Hx Hl IH]; intros [|y l0]; try (split; congruence);
           rewrite andb_true_iff, Hx, IH; split; [intros [-> ->]; reflexivity|intros E; inversion E; auto]
         | rewrite G; split; [congruence|intros E; inversion E; auto] ]
       end.
Qed.

Lemma Q_eqb_eq a b : Q_eqb a b = true <-> a = b.
Proof.
  unfold Q_eqb. rewrite andb_true_iff, Z.eqb_eq, Pos.eqb_eq. destruct a, b; simpl.
  split; [intros [-> ->]; reflexivity|intros E; inversion E; auto].
Qed.

Lemma val_eqb_eq : forall a b, val_eqb a b = true <-> a = b.
Proof.
  induction a using val_ind2; intros b0.
  all: try (destruct b0; simpl; split; try congruence; try discriminate;
            rewrite ?andb_true_iff, ?Bool.eqb_true_iff, ?Z.eqb_eq, ?String.eqb_eq, ?Q_eqb_eq,
              ?pyexpr_eqb_eq, ?IHa;
            [intuition congruence | intros E; inversion E; subst; auto]).
  all: destruct b0; simpl; try (split; congruence).
  1-3: match goal with |- _ ?l ?l0 = true <-> _ =>
         assert (G : forall l0, (fix go (l1 l2 : list val) {struct l1} : bool :=
                    match l1 with
                    | [] => match l2 with [] => true | _ :: _ => false end
                    | x :: xs => match l2 with [] => false | y :: ys => val_eqb x y && go xs ys end
                    end) l l0 = true <-> l = l0);
         [ clear l0; induction H as [|x l Hx Hl IH]; intros [|y l0]; try (split; congruence);
           rewrite andb_true_iff, Hx, IH; split; [intros [-> ->]; reflexivity|intros E; inversion E; auto]
         | rewrite G; split; [congruence|intros E; inversion E; auto] ]
       end.
  match goal with |- _ ?l ?l0 = true <-> _ =>
         assert (G : forall l0, (fix god (l1 l2 : list (val * val)) {struct l1} : bool :=
                    match l1 with
                    | [] => match l2 with [] => true | _ :: _ => false end
                    | (k1, v1) :: xs => match l2 with [] => false
                        | (k2, v2) :: ys => val_eqb k1 k2 && val_eqb v1 v2 && god xs ys end
                    end) l l0 = true <-> l = l0);
         [ clear l0; induction H as [|[k x] l [Hk Hx] Hl IH]; intros [|[k' y] l0]; try (split; congruence);
           simpl in Hk, Hx;
           rewrite !andb_true_iff, Hk, Hx, IH; split; [intros [[-> ->] ->]; reflexivity|intros E; inversion E; auto]
         | rewrite G; split; [congruence|intros E; inversion E; auto] ]
       end.
Qed.

Lemma val_eqb_refl a : val_eqb a a = true.
Proof. now apply val_eqb_eq. Qed.

Lemma val_eq_dec (a b : val) : {a = b} + {a <> b}.
Proof.
  destruct (val_eqb a b) eqn:E.
  - left. now apply val_eqb_eq.
  - right. intros H. apply val_eqb_eq in H. congruence.
Qed.

Lemma val_eqb_neq a b : a <> b -> val_eqb a b = false.
Proof. intros H. destruct (val_eqb a b) eqn:E; [|reflexivity]. apply val_eqb_eq in E. contradiction. Qed.

(** * 1. Dictionaries *)
Lemma dict_get_set_same k x d : dict_get k (dict_set k x d) = Some x.
Proof.
  induction d as [|[k0 v0] d IH]; simpl.
  - now rewrite val_eqb_refl.
  - destruct (val_eqb k k0) eqn:E; simpl; rewrite E; [reflexivity|exact IH].
Qed.

Lemma dict_get_set_other k k' x d : k' <> k -> dict_get k' (dict_set k x d) = dict_get k' d.
Proof.
  intros N. induction d as [|[k0 v0] d IH]; simpl.
  - now rewrite (val_eqb_neq _ _ N).
  - destruct (val_eqb k k0) eqn:E; simpl.
    + apply val_eqb_eq in E. subst k0. now rewrite (val_eqb_neq _ _ N).
    + destruct (val_eqb k' k0); [reflexivity|exact IH].
Qed.

(** * 2. Paths *)
Definition prefix (a p : path) : Prop := exists r, p = (a ++ r)%list.
(** neither path is at, above or below the other *)
Definition disjoint (p w : path) : Prop := ~ prefix p w /\ ~ prefix w p.

Lemma prefix_nil p : prefix [] p.
Proof. now exists p. Qed.

Lemma prefix_cons k a p : prefix (k :: a) (k :: p) <-> prefix a p.
Proof.
  split; intros [r H].
  - exists r. simpl in H. now inversion H.
  - exists r. simpl. now rewrite H.
Qed.

Lemma prefix_cons_inv k k' a p : prefix (k :: a) (k' :: p) -> k = k' /\ prefix a p.
Proof. intros [r H]. simpl in H. inversion H; subst. split; [reflexivity|now exists r]. Qed.

Lemma prefix_refl p : prefix p p.
Proof. exists []. now rewrite app_nil_r. Qed.

Lemma prefix_trans a b c : prefix a b -> prefix b c -> prefix a c.
Proof. intros [r ->] [r' ->]. exists (r ++ r')%list. now rewrite app_assoc. Qed.

Lemma prefix_app a r : prefix a (a ++ r)%list.
Proof. now exists r. Qed.

Lemma strip_prefix_spec a p r : strip_prefix a p = Some r <-> p = (a ++ r)%list.
Proof.
  revert p; induction a as [|x a IH]; intros p; simpl.
  - split; [now inversion 1|now intros ->].
  - destruct p as [|y p]; [split; discriminate|].
    destruct (val_eqb x y) eqn:E.
    + apply val_eqb_eq in E. subst y. rewrite IH. split; [now intros ->|now inversion 1].
    + split; [discriminate|]. inversion 1; subst. now rewrite val_eqb_refl in E.
Qed.

Lemma is_prefix_spec a p : is_prefix a p = true <-> prefix a p.
Proof.
  unfold is_prefix, prefix. destruct (strip_prefix a p) as [r|] eqn:E.
  - apply strip_prefix_spec in E. split; [now exists r|reflexivity].
  - split; [discriminate|]. intros [r H]. apply strip_prefix_spec in H. congruence.
Qed.

Lemma prefix_dec a p : {prefix a p} + {~ prefix a p}.
Proof.
  destruct (is_prefix a p) eqn:E.
  - left. now apply is_prefix_spec.
  - right. intros H. apply is_prefix_spec in H. congruence.
Qed.

Definition disjointb (p w : path) : bool := negb (is_prefix p w) && negb (is_prefix w p).

Lemma disjointb_spec p w : disjointb p w = true <-> disjoint p w.
Proof.
  unfold disjointb, disjoint. rewrite andb_true_iff, !negb_true_iff.
  split; intros [H1 H2]; split.
  - intros H. apply is_prefix_spec in H. congruence.
  - intros H. apply is_prefix_spec in H. congruence.
  - destruct (is_prefix p w) eqn:E; [|reflexivity]. apply is_prefix_spec in E. contradiction.
  - destruct (is_prefix w p) eqn:E; [|reflexivity]. apply is_prefix_spec in E. contradiction.
Qed.

Lemma lookup_app v a r :
  lookup_path v (a ++ r)%list =
  match lookup_path v a with Some x => lookup_path x r | None => None end.
Proof.
  revert v; induction a as [|k a IH]; intros v; simpl; [reflexivity|].
  destruct v; try reflexivity. destruct (dict_get k l); [apply IH|reflexivity].
Qed.

(** a write at [a] is invisible from every path that is not at, above or below [a] *)
Lemma update_at_elsewhere a : forall v p f,
  ~ prefix a p -> ~ prefix p a -> lookup_path (update_at v a f) p = lookup_path v p.
Proof.
  induction a as [|k0 a IH]; intros v p f N1 N2.
  - exfalso. apply N1. apply prefix_nil.
  - destruct p as [|k1 p]; [exfalso; apply N2; apply prefix_nil|].
    simpl update_at. destruct v; try reflexivity.
    destruct (dict_get k0 l) as [x0|] eqn:G; [|reflexivity].
    simpl. destruct (val_eq_dec k1 k0) as [->|N].
    + rewrite dict_get_set_same, G. apply IH.
      * intros H. apply N1. now apply prefix_cons.
      * intros H. apply N2. now apply prefix_cons.
    + now rewrite dict_get_set_other.
Qed.

(** below the written object one sees the new object *)
Lemma update_at_under a : forall v r f,
  lookup_path (update_at v a f) (a ++ r)%list =
  match lookup_path v a with Some x => lookup_path (f x) r | None => None end.
Proof.
  induction a as [|k0 a IH]; intros v r f; simpl; [reflexivity|].
  destruct v; try reflexivity.
  destruct (dict_get k0 l) as [x0|] eqn:G.
  - simpl. rewrite dict_get_set_same. apply IH.
  - simpl. now rewrite G.
Qed.

(** strictly above it one sees the same kind of thing, updated inside *)
Lemma update_at_above p : forall v r f x,
  lookup_path v p = Some x ->
  lookup_path (update_at v (p ++ r)%list f) p = Some (update_at x r f).
Proof.
  induction p as [|k p IH]; intros v r f x H; simpl in *.
  - now inversion H.
  - destruct v; try discriminate.
    destruct (dict_get k l) as [x0|] eqn:G; [|discriminate].
    simpl. rewrite dict_get_set_same. now apply IH.
Qed.

Definition dict_pres (f : val -> val) : Prop := forall d, exists d', f (VDict d) = VDict d'.

Lemma vdict_set_pres k x : dict_pres (vdict_set k x).
Proof. intros d. simpl. eauto. Qed.

Lemma vlist_extend_pres xs : dict_pres (vlist_extend xs).
Proof. intros d. simpl. eauto. Qed.

Lemma upd_spec root a f : dict_pres f -> VDict (upd root a f) = update_at (VDict root) a f.
Proof.
  intros P. unfold upd. destruct a as [|k a]; simpl.
  - destruct (P root) as [d' ->]. reflexivity.
  - destruct (dict_get k root); reflexivity.
Qed.

(** [current[k] = x] on the dict at [a]: invisible from every path disjoint from [a ++ [k]] *)
Lemma assign_elsewhere v a k x p :
  disjoint p (a ++ [k])%list ->
  lookup_path (update_at v a (vdict_set k x)) p = lookup_path v p.
Proof.
  intros [N1 N2]. destruct (prefix_dec a p) as [[r ->]|NP].
  - rewrite update_at_under, lookup_app.
    destruct (lookup_path v a) as [xd|]; [|reflexivity].
    destruct r as [|k' r].
    + exfalso. apply N1. rewrite app_nil_r. apply prefix_app.
    + destruct xd; try reflexivity. simpl.
      rewrite dict_get_set_other; [reflexivity|].
      intros ->. apply N2. exists r. now rewrite <- app_assoc.
  - apply update_at_elsewhere; [exact NP|].
    intros H. apply N1. eapply prefix_trans; [exact H|apply prefix_app].
Qed.

(** * 3. The frame relation *)
(** [frame_rel s s']: provided no by-reference value was ever stored up to [s'], the trace only
    grew, and every path disjoint from all newly written paths has the same value. *)
Definition frame_rel (s s' : st) : Prop :=
  s_sh s' = NoShare ->
  s_sh s = NoShare /\
  exists new, s_tr s' = (new ++ s_tr s)%list /\
    forall p, (forall w, In w new -> disjoint p w) ->
      lookup_path (VDict (s_root s')) p = lookup_path (VDict (s_root s)) p.

Lemma frame_refl s : frame_rel s s.
Proof. intros H. split; [exact H|]. exists []. split; [reflexivity|]. reflexivity. Qed.

Lemma frame_trans s1 s2 s3 : frame_rel s1 s2 -> frame_rel s2 s3 -> frame_rel s1 s3.
Proof.
  intros F12 F23 H3. destruct (F23 H3) as (H2 & n2 & T2 & L2).
  destruct (F12 H2) as (H1 & n1 & T1 & L1). split; [exact H1|].
  exists (n2 ++ n1)%list. split; [now rewrite T2, T1, app_assoc|].
  intros p D. rewrite L2, L1; [reflexivity| |]; intros w I; apply D; apply in_or_app; auto.
Qed.

Lemma obj_write_sh prot s a f s1 : obj_write prot s a f = Some s1 -> s_sh s1 = s_sh s /\ s_tr s1 = s_tr s.
Proof.
  unfold obj_write. destruct (sh_taint (s_sh s) && negb (is_nil a)); [discriminate|].
  destruct (under prot a); [discriminate|].
  destruct (mirror (sh_link (s_sh s)) a) as [b|].
  - destruct (under prot b); [discriminate|]. inversion 1; subst. now split.
  - inversion 1; subst. now split.
Qed.

Lemma obj_write_noshare prot s a f s1 :
  s_sh s = NoShare -> obj_write prot s a f = Some s1 ->
  s1 = mkst (upd (s_root s) a f) (s_tr s) NoShare.
Proof.
  intros N. unfold obj_write. rewrite N. simpl.
  destruct (under prot a); [discriminate|]. now inversion 1.
Qed.

Lemma drop_link_noshare sh w : drop_link sh w = NoShare -> sh = NoShare.
Proof.
  destruct sh as [|[[u v]|]|]; simpl; try congruence.
  destruct (is_prefix w u || is_prefix w v); discriminate.
Qed.

Lemma add_share_noshare sh nested w x : add_share sh nested w x = Some NoShare -> sh = NoShare /\ x = ShNone.
Proof.
  destruct x; simpl.
  - inversion 1. now split.
  - destruct (is_prefix w q || is_prefix q w); [discriminate|].
    destruct sh as [|[?|]|]; discriminate.
  - destruct nested; discriminate.
Qed.

(** what [assign] does when nothing is shared *)
Lemma assign_noshare prot s a k x sh stt s' :
  assign prot s a k x sh = (stt, s') -> s_sh s' = NoShare ->
  (stt = SUnsup /\ s' = s) \/
  (stt = SOk /\ sh = ShNone /\ s_sh s = NoShare /\
   s' = mkst (upd (s_root s) a (vdict_set k x)) ((a ++ [k])%list :: s_tr s) NoShare).
Proof.
  unfold assign. intros H N.
  destruct (obj_write prot s a (vdict_set k x)) as [s1|] eqn:W; [|inversion H; now left].
  destruct (add_share _ _ _ sh) as [sh'|] eqn:A; [|inversion H; now left].
  inversion H; subst; clear H. simpl in N. subst sh'.
  apply add_share_noshare in A. destruct A as [A ->]. apply drop_link_noshare in A.
  destruct (obj_write_sh _ _ _ _ _ W) as [S1 T1]. rewrite A in S1.
  right. rewrite (obj_write_noshare _ _ _ _ _ (eq_sym S1) W). simpl. auto.
Qed.

Lemma extend_noshare prot s w xs sh stt s' :
  extend prot s w xs sh = (stt, s') -> s_sh s' = NoShare ->
  (stt = SUnsup /\ s' = s) \/
  (stt = SOk /\ sh = ShNone /\ s_sh s = NoShare /\
   s' = mkst (upd (s_root s) w (vlist_extend xs)) (w :: s_tr s) NoShare).
Proof.
  unfold extend. intros H N.
  destruct (obj_write prot s w (vlist_extend xs)) as [s1|] eqn:W; [|inversion H; now left].
  destruct (add_share _ _ _ sh) as [sh'|] eqn:A; [|inversion H; now left].
  inversion H; subst; clear H. simpl in N. subst sh'.
  apply add_share_noshare in A. destruct A as [A ->].
  destruct (obj_write_sh _ _ _ _ _ W) as [S1 T1]. rewrite A in S1.
  right. rewrite (obj_write_noshare _ _ _ _ _ (eq_sym S1) W). simpl. auto.
Qed.

Lemma assign_frame prot s a k x sh stt s' : assign prot s a k x sh = (stt, s') -> frame_rel s s'.
Proof.
  intros H N. destruct (assign_noshare _ _ _ _ _ _ _ _ H N) as [[_ ->]|(_ & _ & NS & ->)].
  - now apply frame_refl.
  - split; [exact NS|]. exists [(a ++ [k])%list]. split; [reflexivity|].
    intros p D. simpl. rewrite (upd_spec _ _ _ (vdict_set_pres k x)).
    apply assign_elsewhere. apply D. now left.
Qed.

Lemma extend_frame prot s w xs sh stt s' : extend prot s w xs sh = (stt, s') -> frame_rel s s'.
Proof.
  intros H N. destruct (extend_noshare _ _ _ _ _ _ _ H N) as [[_ ->]|(_ & _ & NS & ->)].
  - now apply frame_refl.
  - split; [exact NS|]. exists [w]. split; [reflexivity|].
    intros p D. simpl. rewrite (upd_spec _ _ _ (vlist_extend_pres xs)).
    destruct (D w (or_introl eq_refl)) as [D1 D2].
    now apply update_at_elsewhere.
Qed.

(** ** Inversion of one loop iteration: it does nothing, or performs exactly one primitive
    write under the formatted key, or recurses under the formatted key. *)
Lemma key_check_inv s k cont o :
  key_check s k cont = o -> o = cont \/ (snd o = s /\ fst o <> SOk).
Proof. destruct k; simpl; intros <-; auto; right; split; auto; discriminate. Qed.

Lemma merge_item_cases ff prot rec s a k v stt s' :
  merge_item ff prot rec s a k v = (stt, s') ->
  s' = s \/
  exists kf, fmt ff s k = Ok kf /\
    ((exists x sh, assign prot s a kf x sh = (stt, s')) \/
     (exists xs sh, extend prot s (a ++ [kf])%list xs sh = (stt, s')) \/
     (exists l, v = VDict l /\ rec s (a ++ [kf])%list l = (stt, s'))).
Proof.
  intros H. unfold merge_item, lift in H.
  destruct (fmt ff s k) as [kf| |] eqn:K; try (inversion H; now left).
  assert (G :
     (s' = s \/ (exists x sh, assign prot s a kf x sh = (stt, s')) \/
      (exists xs sh, extend prot s (a ++ [kf])%list xs sh = (stt, s')) \/
      (exists l, v = VDict l /\ rec s (a ++ [kf])%list l = (stt, s'))) ->
     s' = s \/ exists kf0, Ok kf = Ok kf0 /\
       ((exists x sh, assign prot s a kf0 x sh = (stt, s')) \/
        (exists xs sh, extend prot s (a ++ [kf0])%list xs sh = (stt, s')) \/
        (exists l, v = VDict l /\ rec s (a ++ [kf0])%list l = (stt, s')))).
  { intros [E|E]; [now left|right]. exists kf. split; [reflexivity|exact E]. }
  apply G; clear G.
  destruct (is_strtag v).
  - destruct (fmtv ff s v) as [x| |]; try (inversion H; now left).
    apply key_check_inv in H. destruct H as [H|[H _]]; [|now left]. right; left. eauto.
  - destruct v; (apply key_check_inv in H; destruct H as [H|[H _]]; [symmetry in H|now left]);
    try (right; left; eexists; eexists; exact H);
    (destruct (cur_dict s a) as [cur|]; [|inversion H; now left]);
    (destruct (dict_get kf cur) as [ev|];
     [destruct ev|]);
    repeat match type of H with
           | context [match ?x with _ => _ end] =>
               match x with
               | rec _ _ _ => fail 1
               | assign _ _ _ _ _ _ => fail 1
               | extend _ _ _ _ _ => fail 1
               | _ => destruct x
               end
           end;
    first [ inversion H; now left
          | right; left; eexists; eexists; exact H
          | right; right; left; eexists; eexists; exact H
          | right; right; right; eexists; split; [reflexivity|exact H] ].
Qed.

Lemma defaults_item_cases ff prot rec s a k v stt s' :
  defaults_item ff prot rec s a k v = (stt, s') ->
  (s' = s /\ (stt <> SOk \/
              exists kf cur ev, fmt ff s k = Ok kf /\ cur_dict s a = Some cur /\
                                dict_get kf cur = Some ev)) \/
  exists kf cur, fmt ff s k = Ok kf /\ cur_dict s a = Some cur /\
    ((exists x sh, dict_get kf cur = None /\ assign prot s a kf x sh = (stt, s')) \/
     (exists l d, v = VDict l /\ dict_get kf cur = Some (VDict d) /\
                  rec s (a ++ [kf])%list l = (stt, s'))).
Proof.
  intros H. unfold defaults_item, lift in H.
  destruct (fmt ff s k) as [kf| |] eqn:K;
    try (inversion H; left; split; [reflexivity|left; discriminate]).
  apply key_check_inv in H. destruct H as [H|[H1 H2]]; [symmetry in H|left; split; [exact H1|left; exact H2]].
  destruct (cur_dict s a) as [cur|] eqn:C;
    [|inversion H; left; split; [reflexivity|left; discriminate]].
  destruct (dict_get kf cur) as [ev|] eqn:G.
  - destruct ev; destruct v;
      first [ inversion H; subst; left; split; [reflexivity|right; exists kf, cur; eexists;
                split; [reflexivity|]; split; [reflexivity|exact G]]
            | right; exists kf, cur; split; [reflexivity|]; split; [reflexivity|];
              right; eexists; eexists; split; [reflexivity|]; split; [exact G|exact H] ].
  - destruct (fmtv ff s v) as [x| |];
      try (inversion H; left; split; [reflexivity|left; discriminate]).
    right. exists kf, cur. split; [reflexivity|]. split; [reflexivity|]. left. eauto.
Qed.

(** a relation that holds of every primitive write, of doing nothing, and is transitive, holds
    of the whole merge — whatever the recursive call does, as long as it satisfies it too. *)
Section Closure.
  Variable R : st -> st -> Prop.
  Hypothesis R_refl : forall s, R s s.
  Hypothesis R_trans : forall s1 s2 s3, R s1 s2 -> R s2 s3 -> R s1 s3.
  Hypothesis R_extend : forall prot s w xs sh stt s', extend prot s w xs sh = (stt, s') -> R s s'.

  Variable ff : nat.
  Variable prot : option path.

  Section MergeClosure.
    Hypothesis R_assign : forall prot s a k x sh stt s', assign prot s a k x sh = (stt, s') -> R s s'.

    Lemma merge_item_closed rec :
      (forall s a l stt s', rec s a l = (stt, s') -> R s s') ->
      forall s a k v stt s', merge_item ff prot rec s a k v = (stt, s') -> R s s'.
    Proof.
      intros Hrec s a k v stt s' H.
      destruct (merge_item_cases _ _ _ _ _ _ _ _ _ H)
        as [->|(kf & _ & [(x & sh & A)|[(xs & sh & A)|(l & _ & A)]])]; eauto.
    Qed.

    Lemma merge_items_closed rec :
      (forall s a l stt s', rec s a l = (stt, s') -> R s s') ->
      forall items s a stt s', merge_items ff prot rec s a items = (stt, s') -> R s s'.
    Proof.
      intros Hrec. induction items as [|[k v] items IH]; intros s a stt s' H; simpl in H.
      - inversion H; subst. apply R_refl.
      - destruct (merge_item ff prot rec s a k v) as [st1 s1] eqn:E.
        pose proof (merge_item_closed rec Hrec _ _ _ _ _ _ E) as R1.
        destruct st1; try (inversion H; subst; exact R1).
        eapply R_trans; [exact R1|]. eapply IH; exact H.
    Qed.

    Lemma merge_rec_closed fuel :
      forall s a items stt s', merge_rec ff prot fuel s a items = (stt, s') -> R s s'.
    Proof.
      induction fuel as [|f IH]; intros s a items stt s' H; simpl in H.
      - inversion H; subst. apply R_refl.
      - eapply merge_items_closed; [exact IH|exact H].
    Qed.
  End MergeClosure.

  (** set_defaults only ever assigns under a key that is absent from [current] *)
  Hypothesis R_assign_missing : forall prot s a k x sh cur stt s',
    cur_dict s a = Some cur -> dict_get k cur = None ->
    assign prot s a k x sh = (stt, s') -> R s s'.

  Lemma defaults_item_closed rec :
    (forall s a l stt s', rec s a l = (stt, s') -> R s s') ->
    forall s a k v stt s', defaults_item ff prot rec s a k v = (stt, s') -> R s s'.
  Proof.
    intros Hrec s a k v stt s' H.
    destruct (defaults_item_cases _ _ _ _ _ _ _ _ _ H)
      as [[-> _]|(kf & cur & _ & C & [(x & sh & G & A)|(l & d & _ & _ & A)])]; eauto.
  Qed.

  Lemma defaults_items_closed rec :
    (forall s a l stt s', rec s a l = (stt, s') -> R s s') ->
    forall items s a stt s', defaults_items ff prot rec s a items = (stt, s') -> R s s'.
  Proof.
    intros Hrec. induction items as [|[k v] items IH]; intros s a stt s' H; simpl in H.
    - inversion H; subst. apply R_refl.
    - destruct (defaults_item ff prot rec s a k v) as [st1 s1] eqn:E.
      pose proof (defaults_item_closed rec Hrec _ _ _ _ _ _ E) as R1.
      destruct st1; try (inversion H; subst; exact R1).
      eapply R_trans; [exact R1|]. eapply IH; exact H.
  Qed.

  Lemma defaults_rec_closed fuel :
    forall s a items stt s', defaults_rec ff prot fuel s a items = (stt, s') -> R s s'.
  Proof.
    induction fuel as [|f IH]; intros s a items stt s' H; simpl in H.
    - inversion H; subst. apply R_refl.
    - eapply defaults_items_closed; [exact IH|exact H].
  Qed.
End Closure.

(** merge: every path disjoint from all written paths keeps its value — for every pair of
    trees, every fuel, every status (an error half-way through included) *)
Lemma merge_rec_frame ff prot fuel s a items stt s' :
  merge_rec ff prot fuel s a items = (stt, s') -> frame_rel s s'.
Proof.
  apply (merge_rec_closed frame_rel frame_refl frame_trans extend_frame ff prot assign_frame).
Qed.

Lemma defaults_rec_frame ff prot fuel s a items stt s' :
  defaults_rec ff prot fuel s a items = (stt, s') -> frame_rel s s'.
Proof.
  apply (defaults_rec_closed frame_rel frame_refl frame_trans ff prot).
  intros. eapply assign_frame; eauto.
Qed.

(** * 4. set_defaults never overwrites and adds only what is missing *)
(** a leaf keeps its exact value; a mapping stays a mapping (it may gain keys) *)
Definition keeps (x x' : val) : Prop :=
  match x with VDict _ => exists d', x' = VDict d' | _ => x' = x end.

Lemma keeps_refl x : keeps x x.
Proof. destruct x; simpl; eauto. Qed.

Lemma keeps_trans x y z : keeps x y -> keeps y z -> keeps x z.
Proof.
  destruct x; simpl; try (intros ->; auto; fail).
  intros [d' ->]. simpl. auto.
Qed.

Lemma keeps_update_inside x r f : r <> [] -> keeps x (update_at x r f).
Proof.
  destruct r as [|k r]; [congruence|]. intros _. destruct x; simpl; try reflexivity.
  destruct (dict_get k l); eauto.
Qed.

Definition dflt_rel (s s' : st) : Prop :=
  s_sh s' = NoShare ->
  s_sh s = NoShare /\
  (forall p x, lookup_path (VDict (s_root s)) p = Some x ->
     exists x', lookup_path (VDict (s_root s')) p = Some x' /\ keeps x x') /\
  exists new, s_tr s' = (new ++ s_tr s)%list /\
    forall w, In w new -> lookup_path (VDict (s_root s)) w = None.

Lemma dflt_refl s : dflt_rel s s.
Proof.
  intros H. split; [exact H|]. split.
  - intros p x L. exists x. split; [exact L|apply keeps_refl].
  - exists []. split; [reflexivity|]. intros w [].
Qed.

Lemma dflt_trans s1 s2 s3 : dflt_rel s1 s2 -> dflt_rel s2 s3 -> dflt_rel s1 s3.
Proof.
  intros F12 F23 H3. destruct (F23 H3) as (H2 & K2 & n2 & T2 & M2).
  destruct (F12 H2) as (H1 & K1 & n1 & T1 & M1). split; [exact H1|]. split.
  - intros p x L. destruct (K1 _ _ L) as (x' & L' & Kx). destruct (K2 _ _ L') as (x'' & L'' & Kx').
    exists x''. split; [exact L''|]. eapply keeps_trans; eauto.
  - exists (n2 ++ n1)%list. split; [now rewrite T2, T1, app_assoc|].
    intros w I. apply in_app_or in I. destruct I as [I|I]; [|now apply M1].
    destruct (lookup_path (VDict (s_root s1)) w) as [x|] eqn:L; [|reflexivity].
    destruct (K1 _ _ L) as (x' & L' & _). rewrite (M2 _ I) in L'. discriminate.
Qed.

Lemma cur_dict_lookup s a cur : cur_dict s a = Some cur -> lookup_path (VDict (s_root s)) a = Some (VDict cur).
Proof.
  unfold cur_dict. destruct (lookup_path (VDict (s_root s)) a) as [[]|]; try discriminate.
  now inversion 1.
Qed.

Lemma assign_missing_dflt prot s a k x sh cur stt s' :
  cur_dict s a = Some cur -> dict_get k cur = None ->
  assign prot s a k x sh = (stt, s') -> dflt_rel s s'.
Proof.
  intros C G H N. destruct (assign_noshare _ _ _ _ _ _ _ _ H N) as [[_ ->]|(_ & _ & NS & ->)].
  - now apply dflt_refl.
  - apply cur_dict_lookup in C. split; [exact NS|]. split.
    + intros p y L. simpl. rewrite (upd_spec _ _ _ (vdict_set_pres k x)).
      destruct (prefix_dec a p) as [[r ->]|NP].
      * rewrite update_at_under, C. rewrite lookup_app, C in L.
        destruct r as [|k' r].
        -- simpl in *. inversion L; subst. eexists. split; [reflexivity|]. simpl. eauto.
        -- simpl in *. destruct (val_eq_dec k' k) as [->|NE].
           ++ rewrite G in L. discriminate.
           ++ rewrite dict_get_set_other by exact NE. exists y. split; [exact L|apply keeps_refl].
      * destruct (prefix_dec p a) as [[r ->]|NP'].
        -- rewrite (update_at_above _ _ _ _ _ L). eexists. split; [reflexivity|].
           apply keeps_update_inside. intros ->. apply NP. rewrite app_nil_r. apply prefix_refl.
        -- rewrite update_at_elsewhere by assumption. exists y. split; [exact L|apply keeps_refl].
    + exists [(a ++ [k])%list]. split; [reflexivity|]. intros w [<-|[]].
      rewrite lookup_app, C. simpl. now rewrite G.
Qed.

Lemma defaults_rec_dflt ff prot fuel s a items stt s' :
  defaults_rec ff prot fuel s a items = (stt, s') -> dflt_rel s s'.
Proof.
  apply (defaults_rec_closed dflt_rel dflt_refl dflt_trans ff prot).
  intros. eapply assign_missing_dflt; eauto.
Qed.

(** completeness: after one successful iteration the formatted key is present in [current] *)
Lemma defaults_item_adds ff prot rec s a k v s' :
  (forall s b l stt s1, rec s b l = (stt, s1) -> dflt_rel s s1) ->
  defaults_item ff prot rec s a k v = (SOk, s') -> s_sh s' = NoShare ->
  exists kf cur', fmt ff s k = Ok kf /\ cur_dict s' a = Some cur' /\ dict_has kf cur' = true.
Proof.
  intros Hrec H N.
  destruct (defaults_item_cases _ _ _ _ _ _ _ _ _ H)
    as [[-> [C|(kf & cur & ev & K & C & G)]]|(kf & cur & K & C & [(x & sh & G & A)|(l & d & _ & G & A)])].
  - congruence.
  - exists kf, cur. unfold dict_has. rewrite G. auto.
  - destruct (assign_noshare _ _ _ _ _ _ _ _ A N) as [[E _]|(_ & _ & _ & ->)]; [discriminate|].
    exists kf, (dict_set kf x cur). split; [exact K|]. split.
    + unfold cur_dict. simpl. rewrite (upd_spec _ _ _ (vdict_set_pres kf x)).
      rewrite <- (app_nil_r a) at 2. rewrite update_at_under.
      rewrite (cur_dict_lookup _ _ _ C). reflexivity.
    + unfold dict_has. now rewrite dict_get_set_same.
  - destruct (Hrec _ _ _ _ _ A N) as (_ & Keep & _).
    assert (L : lookup_path (VDict (s_root s)) (a ++ [kf])%list = Some (VDict d)).
    { rewrite lookup_app, (cur_dict_lookup _ _ _ C). simpl. now rewrite G. }
    destruct (Keep _ _ L) as (x' & L' & _). rewrite lookup_app in L'.
    unfold cur_dict. destruct (lookup_path (VDict (s_root s')) a) as [y|]; [|discriminate].
    simpl in L'. destruct y; try discriminate.
    exists kf, l0. split; [exact K|]. split; [reflexivity|].
    unfold dict_has. destruct (dict_get kf l0); [reflexivity|discriminate].
Qed.

(** * 5. The type-clash table: one lemma per row *)
Definition mergeable (ev v : val) : bool :=
  match ev, v with
  | VDict _, VDict _ | VList _, VList _ | VTuple _, VTuple _ | VSet _, VSet _ => true
  | _, _ => false
  end.

Section Table.
  Variable ff : nat.
  Variable prot : option path.
  Variable rec : st -> path -> dict -> out.
  Variables (s : st) (a : path) (k v kf : val).
  Hypothesis Hk : fmt ff s k = Ok kf.             (* the key is formatted *)
  Hypothesis Hhash : key_kind_ok kf = true.       (* and hashable *)

  (** str / special tag: overwrite with the formatted value, whatever is there *)
  Lemma row_str x :
    is_strtag v = true -> fmtv ff s v = Ok x ->
    merge_item ff prot rec s a k v = assign prot s a kf x (leaf_share (s_root s) v x).
  Proof.
    intros T F. unfold merge_item, lift. rewrite Hk, T, F.
    destruct kf; try discriminate; reflexivity.
  Qed.

  (** bytes: overwrite with the raw value *)
  Lemma row_bytes b :
    v = VBytes b -> merge_item ff prot rec s a k v = assign prot s a kf v ShNone.
  Proof.
    intros ->. unfold merge_item, lift. rewrite Hk. simpl.
    destruct kf; try discriminate; reflexivity.
  Qed.

  Variable cur : dict.
  Hypothesis Hcur : cur_dict s a = Some cur.
  (** both mappings: recurse, nothing is written at this level *)
  Lemma row_map_map d l :
    dict_get kf cur = Some (VDict d) -> v = VDict l ->
    merge_item ff prot rec s a k v = rec s (a ++ [kf])%list l.
  Proof.
    intros G ->. unfold merge_item, lift. rewrite Hk. simpl.
    destruct kf; try discriminate Hhash; simpl; rewrite Hcur, G; reflexivity.
  Qed.

  (** both lists: extend the existing list object with the formatted incoming list *)
  Lemma row_list_list el l xl :
    dict_get kf cur = Some (VList el) -> v = VList l -> fmtv ff s v = Ok (VList xl) ->
    merge_item ff prot rec s a k v
    = extend prot s (a ++ [kf])%list xl (tree_share ff (s_root s) v).
  Proof.
    intros G -> F. unfold merge_item, lift. rewrite Hk. simpl.
    destruct kf; try discriminate Hhash; simpl; rewrite Hcur, G, F; reflexivity.
  Qed.

  (** both tuples: existing members, then the formatted incoming members *)
  Lemma row_tuple_tuple el l xl :
    dict_get kf cur = Some (VTuple el) -> v = VTuple l -> fmtv ff s v = Ok (VTuple xl) ->
    merge_item ff prot rec s a k v
    = assign prot s a kf (VTuple (el ++ xl)%list) (tree_share ff (s_root s) v).
  Proof.
    intros G -> F. unfold merge_item, lift. rewrite Hk. simpl.
    destruct kf; try discriminate Hhash; simpl; rewrite Hcur, G, F; reflexivity.
  Qed.

  (** both sets: union *)
  Lemma row_set_set el l xl u :
    dict_get kf cur = Some (VSet el) -> v = VSet l -> fmtv ff s v = Ok (VSet xl) ->
    set_of_list (el ++ xl)%list = Some u ->
    merge_item ff prot rec s a k v = assign prot s a kf (VSet u) ShNone.
  Proof.
    intros G -> F U. unfold merge_item, lift. rewrite Hk. simpl.
    destruct kf; try discriminate Hhash; simpl; rewrite Hcur, G, F, U; reflexivity.
  Qed.

  (** set_defaults: a present key is left alone unless both sides are mappings *)
  Lemma drow_present ev :
    dict_get kf cur = Some ev -> mergeable ev v = false \/ (forall d, ev <> VDict d) ->
    defaults_item ff prot rec s a k v = (SOk, s).
  Proof.
    intros G M. unfold defaults_item, lift. rewrite Hk.
    destruct kf; try discriminate Hhash; simpl; rewrite Hcur, G;
      destruct ev; try reflexivity; destruct v; try reflexivity;
      destruct M as [M|M]; try discriminate M; exfalso; eapply M; reflexivity.
  Qed.

  Lemma drow_map_map d l :
    dict_get kf cur = Some (VDict d) -> v = VDict l ->
    defaults_item ff prot rec s a k v = rec s (a ++ [kf])%list l.
  Proof.
    intros G ->. unfold defaults_item, lift. rewrite Hk.
    destruct kf; try discriminate Hhash; simpl; rewrite Hcur, G; reflexivity.
  Qed.
  Hypothesis Hv : is_strtag v = false.
  Hypothesis Hb : forall b, v <> VBytes b.

  (** key absent: set the formatted value *)
  Lemma row_absent x :
    dict_get kf cur = None -> fmtv ff s v = Ok x ->
    merge_item ff prot rec s a k v = assign prot s a kf x (tree_share ff (s_root s) v).
  Proof.
    intros G F. unfold merge_item, lift. rewrite Hk, Hv.
    destruct v; try discriminate Hv; try (exfalso; eapply Hb; reflexivity);
      (destruct kf; try discriminate Hhash); simpl; rewrite Hcur, G, F; reflexivity.
  Qed.

  (** every other pairing of kinds: the formatted incoming value replaces what is there *)
  Lemma row_clash ev x :
    dict_get kf cur = Some ev -> mergeable ev v = false -> fmtv ff s v = Ok x ->
    merge_item ff prot rec s a k v = assign prot s a kf x (tree_share ff (s_root s) v).
  Proof.
    intros G M F. unfold merge_item, lift. rewrite Hk, Hv.
    destruct v; try discriminate Hv; try (exfalso; eapply Hb; reflexivity);
      (destruct kf; try discriminate Hhash); simpl; rewrite Hcur, G;
      destruct ev; try discriminate M; rewrite F; reflexivity.
  Qed.

End Table.

(** set_defaults, key absent (any incoming kind, str / tag / bytes included) *)
Lemma drow_absent ff prot rec s a k v kf cur x :
  fmt ff s k = Ok kf -> key_kind_ok kf = true -> cur_dict s a = Some cur ->
  dict_get kf cur = None -> fmtv ff s v = Ok x ->
  defaults_item ff prot rec s a k v
  = assign prot s a kf x (if is_strtag v then leaf_share (s_root s) v x
                          else tree_share ff (s_root s) v).
Proof.
  intros K Hh C G F. unfold defaults_item, lift. rewrite K.
  destruct kf; try discriminate Hh; simpl; rewrite C, G, F; reflexivity.
Qed.

(** what the two primitive writes do to the tree when nothing is shared *)
Lemma assign_effect s a k x cur :
  s_sh s = NoShare -> cur_dict s a = Some cur ->
  exists s', assign None s a k x ShNone = (SOk, s') /\ s_sh s' = NoShare /\
    s_tr s' = (a ++ [k])%list :: s_tr s /\
    lookup_path (VDict (s_root s')) (a ++ [k])%list = Some x /\
    cur_dict s' a = Some (dict_set k x cur).
Proof.
  intros N C. unfold assign, obj_write. rewrite N. simpl.
  eexists. split; [reflexivity|]. simpl. split; [reflexivity|]. split; [reflexivity|].
  apply cur_dict_lookup in C.
  rewrite (upd_spec _ _ _ (vdict_set_pres k x)). split.
  - rewrite update_at_under, C. simpl. now rewrite dict_get_set_same.
  - unfold cur_dict. simpl. rewrite (upd_spec _ _ _ (vdict_set_pres k x)).
    rewrite <- (app_nil_r a) at 2. rewrite update_at_under, C. reflexivity.
Qed.

Lemma extend_effect s w xs el :
  s_sh s = NoShare -> lookup_path (VDict (s_root s)) w = Some (VList el) ->
  exists s', extend None s w xs ShNone = (SOk, s') /\ s_sh s' = NoShare /\
    s_tr s' = w :: s_tr s /\
    lookup_path (VDict (s_root s')) w = Some (VList (el ++ xs)%list).
Proof.
  intros N L. unfold extend, obj_write. rewrite N. simpl.
  eexists. split; [reflexivity|]. simpl. split; [reflexivity|]. split; [reflexivity|].
  rewrite (upd_spec _ _ _ (vlist_extend_pres xs)).
  rewrite <- (app_nil_r w) at 2. rewrite update_at_under, L. reflexivity.
Qed.

(** * 6. Appending: existing members first, then the formatted incoming members *)
Lemma fmtv_ok ff s v x : fmtv ff s v = Ok x -> fmt ff s v = Ok x.
Proof.
  unfold fmtv. destruct (keys_fmt_ok ff (s_root s) v); [|discriminate].
  destruct (fmt ff s v) as [y| |]; try discriminate.
  destruct (keys_ok y); [now inversion 1|discriminate].
Qed.

(** the formatted incoming list / tuple is the member-wise formatted one *)
Lemma fmt_list_members f s l x :
  fmt (S f) s (VList l) = Ok x ->
  exists xl, x = VList xl /\ Forall2 (fun m y => format_value f (s_root s) m = Ok y) l xl.
Proof. unfold fmt, format_value. apply fmt_iter_list. Qed.

Lemma fmt_tuple_members f s l x :
  fmt (S f) s (VTuple l) = Ok x ->
  exists xl, x = VTuple xl /\ Forall2 (fun m y => format_value f (s_root s) m = Ok y) l xl.
Proof. unfold fmt, format_value. apply fmt_iter_tuple. Qed.

Lemma fmt_set_members f s l x :
  fmt (S f) s (VSet l) = Ok x ->
  exists l' xl, x = VSet xl /\ set_of_list l' = Some xl /\
                Forall2 (fun m y => format_value f (s_root s) m = Ok y) l l'.
Proof. unfold fmt, format_value. apply fmt_iter_set. Qed.

Lemma set_insert_In v : forall l l', set_insert v l = Some l' -> forall y, In y l' <-> y = v \/ In y l.
Proof.
  induction l as [|x r IH]; intros l' H y; simpl in H.
  - destruct (scalar_key v); [|discriminate]. inversion H; subst. simpl. intuition.
  - destruct (scalar_key v) as [kv|]; [|discriminate].
    destruct (scalar_key x) as [kx|]; [|discriminate].
    destruct (val_eqb v x) eqn:E.
    + apply val_eqb_eq in E. subst x. inversion H; subst. simpl. intuition.
    + destruct (key_ltb kv kx).
      * inversion H; subst. simpl. intuition.
      * destruct (set_insert v r) as [r'|] eqn:S; simpl in H; [|discriminate].
        inversion H; subst. simpl. rewrite (IH _ eq_refl). intuition.
Qed.

Lemma set_of_list_In : forall l l', set_of_list l = Some l' -> forall y, In y l' <-> In y l.
Proof.
  induction l as [|x r IH]; intros l' H y; simpl in H.
  - inversion H; subst. reflexivity.
  - destruct (set_of_list r) as [r'|] eqn:S; simpl in H; [|discriminate].
    rewrite (set_insert_In _ _ _ H). simpl. rewrite (IH _ eq_refl). intuition.
Qed.

Section Appends.
  Variable f : nat.
  Variable rec : st -> path -> dict -> out.
  Variables (s : st) (a : path) (k kf : val) (cur : dict) (l el : list val) (x : val).
  Hypothesis Hns : s_sh s = NoShare.
  Hypothesis Hk : fmt (S f) s k = Ok kf.
  Hypothesis Hhash : key_kind_ok kf = true.
  Hypothesis Hcur : cur_dict s a = Some cur.

  Lemma merge_list_appends_after :
    dict_get kf cur = Some (VList el) -> fmtv (S f) s (VList l) = Ok x ->
    tree_share (S f) (s_root s) (VList l) = ShNone ->
    exists xl s',
      Forall2 (fun m y => format_value f (s_root s) m = Ok y) l xl /\
      merge_item (S f) None rec s a k (VList l) = (SOk, s') /\
      lookup_path (VDict (s_root s')) (a ++ [kf])%list = Some (VList (el ++ xl)%list) /\
      s_tr s' = (a ++ [kf])%list :: s_tr s.
  Proof.
    intros G F T. destruct (fmt_list_members _ _ _ _ (fmtv_ok _ _ _ _ F)) as (xl & -> & M).
    assert (L : lookup_path (VDict (s_root s)) (a ++ [kf])%list = Some (VList el)).
    { rewrite lookup_app, (cur_dict_lookup _ _ _ Hcur). simpl. now rewrite G. }
    destruct (extend_effect s _ xl el Hns L) as (s' & E & _ & Tr & L').
    exists xl, s'. split; [exact M|].
    rewrite (row_list_list (S f) None rec s a k (VList l) kf Hk Hhash cur Hcur el l xl G eq_refl F), T.
    auto.
  Qed.

  Lemma merge_tuple_appends_after :
    dict_get kf cur = Some (VTuple el) -> fmtv (S f) s (VTuple l) = Ok x ->
    tree_share (S f) (s_root s) (VTuple l) = ShNone ->
    exists xl s',
      Forall2 (fun m y => format_value f (s_root s) m = Ok y) l xl /\
      merge_item (S f) None rec s a k (VTuple l) = (SOk, s') /\
      lookup_path (VDict (s_root s')) (a ++ [kf])%list = Some (VTuple (el ++ xl)%list).
  Proof.
    intros G F T. destruct (fmt_tuple_members _ _ _ _ (fmtv_ok _ _ _ _ F)) as (xl & -> & M).
    destruct (assign_effect s a kf (VTuple (el ++ xl)%list) cur Hns Hcur) as (s' & E & _ & _ & L' & _).
    exists xl, s'. split; [exact M|].
    rewrite (row_tuple_tuple (S f) None rec s a k (VTuple l) kf Hk Hhash cur Hcur el l xl G eq_refl F), T.
    auto.
  Qed.

  (** sets: the result holds exactly the existing members and the formatted incoming ones *)
  Lemma merge_set_union u xl :
    dict_get kf cur = Some (VSet el) -> fmtv (S f) s (VSet l) = Ok (VSet xl) ->
    set_of_list (el ++ xl)%list = Some u ->
    exists s',
      merge_item (S f) None rec s a k (VSet l) = (SOk, s') /\
      lookup_path (VDict (s_root s')) (a ++ [kf])%list = Some (VSet u) /\
      forall y, In y u <-> In y el \/ In y xl.
  Proof.
    intros G F U.
    destruct (assign_effect s a kf (VSet u) cur Hns Hcur) as (s' & E & _ & _ & L' & _).
    exists s'.
    rewrite (row_set_set (S f) None rec s a k (VSet l) kf Hk Hhash cur Hcur el l xl u G eq_refl F U).
    split; [exact E|]. split; [exact L'|].
    intros y. rewrite (set_of_list_In _ _ U). apply in_app_iff.
  Qed.
End Appends.

(** * 7. Which paths get written: the formatted images of the incoming tree's key paths *)
(** [named_by ff a items w]: [w] is [a] followed by the formatted images (each against some
    context [c] — the one current at that moment) of the keys along a path of the incoming
    tree [items], descending through incoming mappings only. *)
Inductive named_by (ff : nat) : path -> dict -> path -> Prop :=
| nb_here a items k v kf c :
    In (k, v) items -> format_value ff c k = Ok kf -> named_by ff a items (a ++ [kf])%list
| nb_deep a items k l kf c w :
    In (k, VDict l) items -> format_value ff c k = Ok kf ->
    named_by ff (a ++ [kf])%list l w -> named_by ff a items w.

Definition named_rel (ff : nat) (a : path) (items : dict) (s s' : st) : Prop :=
  exists new, s_tr s' = (new ++ s_tr s)%list /\ forall w, In w new -> named_by ff a items w.

Lemma named_by_incl ff a items items' w :
  (forall kv, In kv items -> In kv items') -> named_by ff a items w -> named_by ff a items' w.
Proof.
  intros I H. revert items' I. induction H; intros items' I.
  - eapply nb_here; eauto.
  - eapply nb_deep; eauto.
Qed.

Lemma named_by_below ff a items w : named_by ff a items w -> exists kf r, w = (a ++ kf :: r)%list.
Proof.
  induction 1 as [a items k v kf c|a items k l kf c w _ _ _ (kf' & r & ->)].
  - now exists kf, [].
  - exists kf, (kf' :: r). now rewrite <- app_assoc.
Qed.

Lemma assign_tr prot s a k x sh stt s' :
  assign prot s a k x sh = (stt, s') -> s_tr s' = s_tr s \/ s_tr s' = (a ++ [k])%list :: s_tr s.
Proof.
  unfold assign. destruct (obj_write prot s a (vdict_set k x)) as [s1|] eqn:W; [|inversion 1; now left].
  destruct (add_share _ _ _ sh); inversion 1; subst; [|now left].
  right. simpl. now destruct (obj_write_sh _ _ _ _ _ W) as [_ ->].
Qed.

Lemma extend_tr prot s w xs sh stt s' :
  extend prot s w xs sh = (stt, s') -> s_tr s' = s_tr s \/ s_tr s' = w :: s_tr s.
Proof.
  unfold extend. destruct (obj_write prot s w (vlist_extend xs)) as [s1|] eqn:W; [|inversion 1; now left].
  destruct (add_share _ _ _ sh); inversion 1; subst; [|now left].
  right. simpl. now destruct (obj_write_sh _ _ _ _ _ W) as [_ ->].
Qed.

Lemma named_rel_nil ff a items s : named_rel ff a items s s.
Proof. exists []. split; [reflexivity|]. intros w []. Qed.

Lemma named_rel_trans ff a items s1 s2 s3 :
  named_rel ff a items s1 s2 -> named_rel ff a items s2 s3 -> named_rel ff a items s1 s3.
Proof.
  intros (n1 & T1 & N1) (n2 & T2 & N2). exists (n2 ++ n1)%list.
  split; [now rewrite T2, T1, app_assoc|].
  intros w I. apply in_app_or in I. destruct I; auto.
Qed.

Lemma named_rel_incl ff a items items' s s' :
  (forall kv, In kv items -> In kv items') -> named_rel ff a items s s' -> named_rel ff a items' s s'.
Proof.
  intros I (n & T & N). exists n. split; [exact T|].
  intros w Hw. eapply named_by_incl; eauto.
Qed.

Lemma merge_item_named ff prot rec s a k v stt s' :
  (forall s b l stt s', rec s b l = (stt, s') -> named_rel ff b l s s') ->
  merge_item ff prot rec s a k v = (stt, s') -> named_rel ff a [(k, v)] s s'.
Proof.
  intros Hrec H.
  destruct (merge_item_cases _ _ _ _ _ _ _ _ _ H)
    as [->|(kf & K & [(x & sh & A)|[(xs & sh & A)|(l & -> & A)]])].
  - apply named_rel_nil.
  - destruct (assign_tr _ _ _ _ _ _ _ _ A) as [T|T].
    + exists []. split; [exact T|]. intros w [].
    + exists [(a ++ [kf])%list]. split; [exact T|]. intros w [<-|[]].
      eapply nb_here; [now left|exact K].
  - destruct (extend_tr _ _ _ _ _ _ _ A) as [T|T].
    + exists []. split; [exact T|]. intros w [].
    + exists [(a ++ [kf])%list]. split; [exact T|]. intros w [<-|[]].
      eapply nb_here; [now left|exact K].
  - destruct (Hrec _ _ _ _ _ A) as (n & T & N). exists n. split; [exact T|].
    intros w I. eapply nb_deep; [now left|exact K|auto].
Qed.

Lemma merge_items_named ff prot rec :
  (forall s b l stt s', rec s b l = (stt, s') -> named_rel ff b l s s') ->
  forall items s a stt s', merge_items ff prot rec s a items = (stt, s') -> named_rel ff a items s s'.
Proof.
  intros Hrec. induction items as [|[k v] items IH]; intros s a stt s' H; simpl in H.
  - inversion H; subst. apply named_rel_nil.
  - destruct (merge_item ff prot rec s a k v) as [st1 s1] eqn:E.
    assert (R1 : named_rel ff a ((k, v) :: items) s s1).
    { eapply named_rel_incl; [|eapply merge_item_named; eauto]. intros kv [<-|[]]. now left. }
    destruct st1; try (inversion H; subst; exact R1).
    eapply named_rel_trans; [exact R1|].
    eapply named_rel_incl; [|eapply IH; exact H]. intros kv I. now right.
Qed.

Lemma merge_rec_named ff prot fuel :
  forall s a items stt s', merge_rec ff prot fuel s a items = (stt, s') -> named_rel ff a items s s'.
Proof.
  induction fuel as [|f IH]; intros s a items stt s' H; simpl in H.
  - inversion H; subst. apply named_rel_nil.
  - eapply merge_items_named; [exact IH|exact H].
Qed.

Lemma defaults_item_named ff prot rec s a k v stt s' :
  (forall s b l stt s', rec s b l = (stt, s') -> named_rel ff b l s s') ->
  defaults_item ff prot rec s a k v = (stt, s') -> named_rel ff a [(k, v)] s s'.
Proof.
  intros Hrec H.
  destruct (defaults_item_cases _ _ _ _ _ _ _ _ _ H)
    as [[-> _]|(kf & cur & K & _ & [(x & sh & _ & A)|(l & d & -> & _ & A)])].
  - apply named_rel_nil.
  - destruct (assign_tr _ _ _ _ _ _ _ _ A) as [T|T].
    + exists []. split; [exact T|]. intros w [].
    + exists [(a ++ [kf])%list]. split; [exact T|]. intros w [<-|[]].
      eapply nb_here; [now left|exact K].
  - destruct (Hrec _ _ _ _ _ A) as (n & T & N). exists n. split; [exact T|].
    intros w I. eapply nb_deep; [now left|exact K|auto].
Qed.

Lemma defaults_items_named ff prot rec :
  (forall s b l stt s', rec s b l = (stt, s') -> named_rel ff b l s s') ->
  forall items s a stt s', defaults_items ff prot rec s a items = (stt, s') -> named_rel ff a items s s'.
Proof.
  intros Hrec. induction items as [|[k v] items IH]; intros s a stt s' H; simpl in H.
  - inversion H; subst. apply named_rel_nil.
  - destruct (defaults_item ff prot rec s a k v) as [st1 s1] eqn:E.
    assert (R1 : named_rel ff a ((k, v) :: items) s s1).
    { eapply named_rel_incl; [|eapply defaults_item_named; eauto]. intros kv [<-|[]]. now left. }
    destruct st1; try (inversion H; subst; exact R1).
    eapply named_rel_trans; [exact R1|].
    eapply named_rel_incl; [|eapply IH; exact H]. intros kv I. now right.
Qed.

Lemma defaults_rec_named ff prot fuel :
  forall s a items stt s', defaults_rec ff prot fuel s a items = (stt, s') -> named_rel ff a items s s'.
Proof.
  induction fuel as [|f IH]; intros s a items stt s' H; simpl in H.
  - inversion H; subst. apply named_rel_nil.
  - eapply defaults_items_named; [exact IH|exact H].
Qed.

(** a key without braces (or a non-string key) names itself *)
Definition lit_key (k : val) : Prop :=
  match k with
  | VStr s => no_brace s = true
  | VInt _ | VNone | VBytes _ => True
  | _ => False
  end.

Lemma lit_key_formats_to_itself f c k kf :
  lit_key k -> format_value (S f) c k = Ok kf -> kf = k.
Proof.
  unfold format_value. destruct k; simpl; try contradiction; intros L H; try (now inversion H).
  rewrite keep_type_no_brace in H by exact L. now inversion H.
Qed.

(** * 8. Top-level corollaries and counter-examples *)
Lemma merge_top_frame ff fuel root add stt s' :
  merge_top ff fuel root add = (stt, s') -> s_sh s' = NoShare ->
  forall p, (forall w, In w (s_tr s') -> disjoint p w) ->
    lookup_path (VDict (s_root s')) p = lookup_path (VDict root) p.
Proof.
  intros H N p D. destruct (merge_rec_frame _ _ _ _ _ _ _ _ H N) as (_ & new & T & L).
  simpl in T. rewrite app_nil_r in T. subst new. now apply L.
Qed.

Lemma merge_top_named ff fuel root add stt s' :
  merge_top ff fuel root add = (stt, s') -> forall w, In w (s_tr s') -> named_by ff [] add w.
Proof.
  intros H w I. destruct (merge_rec_named _ _ _ _ _ _ _ _ H) as (new & T & N).
  simpl in T. rewrite app_nil_r in T. subst new. now apply N.
Qed.

Lemma defaults_top_frame ff fuel root add stt s' :
  defaults_top ff fuel root add = (stt, s') -> s_sh s' = NoShare ->
  forall p, (forall w, In w (s_tr s') -> disjoint p w) ->
    lookup_path (VDict (s_root s')) p = lookup_path (VDict root) p.
Proof.
  intros H N p D. destruct (defaults_rec_frame _ _ _ _ _ _ _ _ H N) as (_ & new & T & L).
  simpl in T. rewrite app_nil_r in T. subst new. now apply L.
Qed.

Lemma defaults_top_named ff fuel root add stt s' :
  defaults_top ff fuel root add = (stt, s') -> forall w, In w (s_tr s') -> named_by ff [] add w.
Proof.
  intros H w I. destruct (defaults_rec_named _ _ _ _ _ _ _ _ H) as (new & T & N).
  simpl in T. rewrite app_nil_r in T. subst new. now apply N.
Qed.

(** every existing path keeps its value: a leaf exactly, a mapping stays a mapping *)
Lemma defaults_top_never_overwrites ff fuel root add stt s' :
  defaults_top ff fuel root add = (stt, s') -> s_sh s' = NoShare ->
  forall p x, lookup_path (VDict root) p = Some x ->
    exists x', lookup_path (VDict (s_root s')) p = Some x' /\ keeps x x'.
Proof. intros H N. destruct (defaults_rec_dflt _ _ _ _ _ _ _ _ H N) as (_ & K & _). exact K. Qed.

Lemma defaults_top_keeps_none ff fuel root add stt s' p :
  defaults_top ff fuel root add = (stt, s') -> s_sh s' = NoShare ->
  lookup_path (VDict root) p = Some VNone -> lookup_path (VDict (s_root s')) p = Some VNone.
Proof.
  intros H N L. destruct (defaults_top_never_overwrites _ _ _ _ _ _ H N _ _ L) as (x' & L' & K).
  simpl in K. now subst x'.
Qed.

(** every path it writes was missing *)
Lemma defaults_top_writes_only_missing ff fuel root add stt s' :
  defaults_top ff fuel root add = (stt, s') -> s_sh s' = NoShare ->
  forall w, In w (s_tr s') -> lookup_path (VDict root) w = None.
Proof.
  intros H N w I. destruct (defaults_rec_dflt _ _ _ _ _ _ _ _ H N) as (_ & _ & new & T & M).
  simpl in T. rewrite app_nil_r in T. subst new. now apply M.
Qed.

(** ** Counter-examples (evaluated) *)
(** a value stored by reference ([{lst:ff}]) and a second key formatting to the same key:
    the list object reachable as [lst] is extended although nothing names [lst]. *)
Definition cx_root : dict :=
  [(VStr "lst", VList [VInt 0]); (VStr "kx", VStr "x"); (VStr "dct", VDict [(VStr "p", VInt 1)])].
Definition cx_add_list : dict := [(VStr "x", VStr "{lst:ff}"); (VStr "{kx}", VList [VInt 1])].
Definition cx_add_dict : dict :=
  [(VStr "x", VPy "dct" (EName "dct")); (VStr "{kx}", VDict [(VStr "new", VInt 1)])].

Lemma merge_frame_refuted :
  exists root add p s',
    merge_top FUEL FUEL root add = (SOk, s') /\
    (forall w, In w (s_tr s') -> disjoint p w) /\
    lookup_path (VDict (s_root s')) p <> lookup_path (VDict root) p.
Proof.
  exists cx_root, cx_add_list, [VStr "lst"]. eexists. split; [vm_compute; reflexivity|]. split.
  - intros w I. apply disjointb_spec. simpl in I.
    destruct I as [<-|[<-|[]]]; vm_compute; reflexivity.
  - vm_compute. discriminate.
Qed.

Lemma defaults_frame_refuted :
  exists root add p s',
    defaults_top FUEL FUEL root add = (SOk, s') /\
    (forall w, In w (s_tr s') -> disjoint p w) /\
    lookup_path (VDict root) p = None /\
    lookup_path (VDict (s_root s')) p <> None.
Proof.
  exists cx_root, cx_add_dict, [VStr "dct"; VStr "new"]. eexists.
  split; [vm_compute; reflexivity|]. split; [|split].
  - intros w I. apply disjointb_spec. simpl in I.
    destruct I as [<-|[<-|[]]]; vm_compute; reflexivity.
  - vm_compute. reflexivity.
  - vm_compute. discriminate.
Qed.

(** reading "the paths the incoming mapping names" statically — format the incoming mapping
    against the context as it was BEFORE the merge — is refuted without any sharing: a key
    is formatted against the context as it is at that moment, so it can read a key merged
    a moment earlier. *)
Definition cx2_root : dict := [(VStr "k", VStr "a"); (VStr "a", VInt 1); (VStr "b", VInt 2)].
Definition cx2_add : dict := [(VStr "k", VStr "b"); (VStr "{k}", VInt 9)].

Lemma merge_frame_static_refuted :
  exists root add fadd k s',
    format_value FUEL root (VDict add) = Ok (VDict fadd) /\
    merge_top FUEL FUEL root add = (SOk, s') /\ s_sh s' = NoShare /\
    dict_get k fadd = None /\
    lookup_path (VDict (s_root s')) [k] <> lookup_path (VDict root) [k].
Proof.
  exists cx2_root, cx2_add. eexists. exists (VStr "b"). eexists.
  split; [vm_compute; reflexivity|]. split; [vm_compute; reflexivity|].
  split; [reflexivity|]. split; [vm_compute; reflexivity|]. vm_compute. discriminate.
Qed.

Lemma defaults_rec_item_adds ff prot f s a k v s' :
  defaults_item ff prot (defaults_rec ff prot f) s a k v = (SOk, s') -> s_sh s' = NoShare ->
  exists kf cur', fmt ff s k = Ok kf /\ cur_dict s' a = Some cur' /\ dict_has kf cur' = true.
Proof. apply defaults_item_adds. intros. eapply defaults_rec_dflt; eauto. Qed.
