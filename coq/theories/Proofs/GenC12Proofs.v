(** Proofs/GenC12Proofs.v — Tie B for C12: the table transfer point -> copy discipline that
    tools/py2coq_c12.py regenerates from the CURRENT source (Gen/GenC12.v, [gen_transfer]) is the
    table Model/Alias.v assumes ([model_discipline]); hence the machine built from the source's
    table IS the model's [step], and the C12 invariant holds for it.  Removing a copy.deepcopy /
    list(..) / formatting at any transfer point changes [gen_transfer] and breaks these proofs. *)
From Coq Require Import List String.
From PV Require Import Alias AliasProofs GenC12.
Import ListNotations.

(* for ALL transfer points *)
Lemma gen_transfer_is_model : forall tp, gen_transfer tp = model_discipline tp.
Proof. intros []; reflexivity. Qed.

(* no transfer point of the source hands over the shared object itself *)
Lemma gen_no_byref : forall tp, gen_transfer tp <> ByRef.
Proof. intros [] H; discriminate H. Qed.

(* the machine built from the generated table is the model's machine, for all states and operations *)
Lemma gen_machine_is_model : forall dh p o, step_of gen_transfer dh p o = step dh p o.
Proof. intros dh p o. unfold step. apply step_of_ext. exact gen_transfer_is_model. Qed.

(* ... and, independently of the hand-written table, it never writes the definition heap: *)
Lemma gen_machine_read_only : forall ops dh p, pinv [] p -> read_only (step_of gen_transfer) dh p ops.
Proof.
  induction ops as [|o r IH]; intros dh p Hp; cbn; [exact I|].
  destruct (step_of gen_transfer dh p o) as [dh1 p1] eqn:Es.
  destruct (step_of_ok gen_transfer gen_no_byref _ _ _ _ _ Es Hp) as [A B].
  cbn. split; [assumption|]. apply IH. assumption.
Qed.

Lemma gen_machine_run_unchanged : forall dh r,
  fst (exec (step_of gen_transfer) dh (start r) (r_ops r)) = dh.
Proof.
  intros dh r. apply read_only_exec. apply gen_machine_read_only. apply start_ok.
Qed.

(* whole runs of the generated machine are the model's runs *)
Lemma gen_exec_is_model : forall ops dh p, exec (step_of gen_transfer) dh p ops = run dh p ops.
Proof.
  induction ops as [|o r IH]; intros dh p; cbn; [reflexivity|].
  rewrite gen_machine_is_model. destruct (step dh p o) as [dh1 p1]. apply IH.
Qed.
