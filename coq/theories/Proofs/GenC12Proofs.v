(* Proofs/GenC12Proofs.v - placeholder *)
