(** Proofs/AliasProofs.v — lemmas about the heap machine of Model/Alias.v (property C12). *)
From Coq Require Import List String Ascii ZArith Bool Arith Lia.
From PV Require Import Alias.
Import ListNotations.
Open Scope string_scope.
Open Scope list_scope.

(* ================================================================ A. interleaving *)
Section InterleaveProofs.
  Context {S Pv O : Type} (stp : S -> Pv -> O -> S * Pv).

  Lemma read_only_exec : forall ops s p,
    read_only stp s p ops -> fst (exec stp s p ops) = s.
  Proof.
    induction ops as [|o r IH]; intros s p H; cbn in *; [reflexivity|].
    destruct H as [H1 H2]. destruct (stp s p o) as [s1 p1] eqn:E. cbn in *. subst s1.
    apply IH. exact H2.
  Qed.

  Lemma proj_cons_same : forall t (o : O) r, proj t ((t, o) :: r) = o :: proj t r.
  Proof. intros. unfold proj. cbn. rewrite Nat.eqb_refl. reflexivity. Qed.

  Lemma proj_cons_other : forall t u (o : O) r, u <> t -> proj t ((u, o) :: r) = proj t r.
  Proof.
    intros. unfold proj. cbn. destruct (Nat.eqb u t) eqn:E; [apply Nat.eqb_eq in E; contradiction|reflexivity].
  Qed.

  (* under EVERY schedule, if each thread (alone) only reads the shared part, the shared part
     is untouched and each thread ends in the private state it reaches when run alone *)
  Theorem interleaving : forall sch s ps,
    (forall t, read_only stp s (ps t) (proj t sch)) ->
    fst (sched_run stp s ps sch) = s /\
    forall t, snd (sched_run stp s ps sch) t = snd (exec stp s (ps t) (proj t sch)).
  Proof.
    induction sch as [|[u o] r IH]; intros s ps H.
    - cbn. split; [reflexivity|]. intro t. reflexivity.
    - cbn [sched_run]. pose proof (H u) as Hu. rewrite proj_cons_same in Hu. cbn in Hu.
      destruct Hu as [Hs Hr]. destruct (stp s (ps u) o) as [s1 p1] eqn:E. cbn in Hs, Hr. subst s1.
      assert (H' : forall t, read_only stp s (set_thread u p1 ps t) (proj t r)).
      { intro t. unfold set_thread. destruct (Nat.eqb t u) eqn:Et.
        - apply Nat.eqb_eq in Et. subst t. exact Hr.
        - apply Nat.eqb_neq in Et. pose proof (H t) as Ht.
          rewrite proj_cons_other in Ht by congruence. exact Ht. }
      destruct (IH s _ H') as [I1 I2]. split; [exact I1|].
      intro t. rewrite I2. unfold set_thread. destruct (Nat.eqb t u) eqn:Et.
      + apply Nat.eqb_eq in Et. subst t. rewrite proj_cons_same. cbn. rewrite E. reflexivity.
      + apply Nat.eqb_neq in Et. rewrite proj_cons_other by congruence. reflexivity.
  Qed.
End InterleaveProofs.

(* ================================================================ B. histories *)
Lemma run_is_exec : forall ops dh p, run dh p ops = exec step dh p ops.
Proof. induction ops as [|o r IH]; intros; cbn; [reflexivity|]. destruct (step dh p o). apply IH. Qed.

(* if no run of the history changes the definition heap, every run yields exactly what it
   yields when it is the only run ever made *)
Lemma history_unchanged : forall rs dh,
  Forall (fun r => fst (run1 dh r) = dh) rs ->
  history dh rs = (dh, map (fun r => snd (run1 dh r)) rs).
Proof.
  induction rs as [|r rest IH]; intros dh H; cbn; [reflexivity|].
  inversion H as [|? ? H1 H2]; subst. destruct (run1 dh r) as [dh1 out] eqn:E. cbn in H1. subst dh1.
  rewrite (IH dh H2). reflexivity.
Qed.

Lemma rerun_equal : forall rs dh i j r,
  Forall (fun r => fst (run1 dh r) = dh) rs ->
  nth_error rs i = Some r -> nth_error rs j = Some r ->
  nth_error (snd (history dh rs)) i = Some (snd (run1 dh r)) /\
  nth_error (snd (history dh rs)) j = Some (snd (run1 dh r)).
Proof.
  intros rs dh i j r H Hi Hj. rewrite (history_unchanged rs dh H). cbn.
  split; [apply (map_nth_error (fun r => snd (run1 dh r)) i rs Hi)|apply (map_nth_error (fun r => snd (run1 dh r)) j rs Hj)].
Qed.

(* ================================================================ C. the invariant *)
Definition cellfree (c : cell) : bool := match c with CPtr (D _) => false | _ => true end.
Definition objfree (o : obj) : bool :=
  match o with
  | OList l => forallb cellfree l
  | ODict d => forallb (fun kc => cellfree (snd kc)) d
  end.
(* no object of the run's own heap points into the definition region *)
Definition heapfree (h : heap) : Prop := Forall (fun o => objfree o = true) h.
(* a key not in T is not bound to a definition object *)
Definition ctxfree (T : list string) (cx : list (string * cell)) : Prop :=
  forall k c, aget k cx = Some c -> tainted T k = false -> cellfree c = true.

Lemma tree_ind' (Q : tree -> Prop)
  (hi : forall z, Q (TInt z)) (hr : forall m k, Q (TRef m k))
  (hl : forall l, Forall Q l -> Q (TList l))
  (hd : forall d, Forall (fun kt => Q (snd kt)) d -> Q (TDict d)) : forall t, Q t.
Proof.
  fix IH 1. intro t. destruct t as [z|m k|l|d].
  - apply hi.
  - apply hr.
  - apply hl. induction l as [|x r IHl]; constructor; [apply IH|exact IHl].
  - apply hd. induction d as [|[k x] r IHd]; constructor; [apply IH|exact IHd].
Qed.

(* ---------------- association lists *)
Lemma aget_aset : forall A k k' (v : A) d,
  aget k (aset k' v d) = if String.eqb k k' then Some v else aget k d.
Proof.
  induction d as [|[k2 v2] r IH]; cbn.
  - destruct (String.eqb k k'); reflexivity.
  - destruct (String.eqb k' k2) eqn:E2; cbn.
    + apply String.eqb_eq in E2. subst k2. destruct (String.eqb k k'); reflexivity.
    + destruct (String.eqb k k2) eqn:E3.
      * apply String.eqb_eq in E3. subst k2. rewrite String.eqb_sym in E2. rewrite E2. reflexivity.
      * exact IH.
Qed.

Lemma aget_adel : forall A k k' (d : list (string * A)),
  aget k (adel k' d) = if String.eqb k k' then None else aget k d.
Proof.
  induction d as [|[k2 v2] r IH]; cbn.
  - destruct (String.eqb k k'); reflexivity.
  - destruct (String.eqb k' k2) eqn:E2.
    + apply String.eqb_eq in E2. subst k2. rewrite IH. destruct (String.eqb k k'); reflexivity.
    + cbn. destruct (String.eqb k k2) eqn:E3.
      * apply String.eqb_eq in E3. subst k2. rewrite String.eqb_sym in E2. rewrite E2. reflexivity.
      * exact IH.
Qed.

Lemma forallb_aset : forall (f : cell -> bool) k c d,
  forallb (fun kc => f (snd kc)) d = true -> f c = true ->
  forallb (fun kc : string * cell => f (snd kc)) (aset k c d) = true.
Proof.
  induction d as [|[k2 v2] r IH]; cbn; intros H Hc.
  - rewrite Hc. reflexivity.
  - apply andb_true_iff in H. destruct H as [H1 H2]. destruct (String.eqb k k2); cbn.
    + rewrite Hc, H2. reflexivity.
    + rewrite H1. cbn. apply IH; assumption.
Qed.

Lemma forallb_aget : forall (f : cell -> bool) k c d,
  forallb (fun kc : string * cell => f (snd kc)) d = true -> aget k d = Some c -> f c = true.
Proof.
  induction d as [|[k2 v2] r IH]; cbn; intros H Hg; [discriminate|].
  apply andb_true_iff in H. destruct H as [H1 H2]. destruct (String.eqb k k2).
  - inversion Hg; subst. exact H1.
  - apply IH; assumption.
Qed.

(* ---------------- heaps *)
Lemma Forall_upd : forall (Q : obj -> Prop) n o h, Forall Q h -> Q o -> Forall Q (upd n o h).
Proof.
  intros Q n o h. revert n. induction h as [|x r IH]; intros n H Ho; destruct n; cbn; try constructor;
    inversion H; subst; auto.
Qed.

Lemma Forall_nth : forall (Q : obj -> Prop) n o h, Forall Q h -> nth_error h n = Some o -> Q o.
Proof. intros Q n o h H Hn. rewrite Forall_forall in H. apply H. eapply nth_error_In. exact Hn. Qed.

Lemma heapfree_app : forall h o, heapfree h -> objfree o = true -> heapfree (h ++ [o]).
Proof. intros. apply Forall_app. split; [assumption|constructor; [assumption|constructor]]. Qed.

(* ---------------- taint sets *)
Lemma tainted_taint_false : forall T k k2,
  tainted (taint k T) k2 = false -> String.eqb k2 k = false /\ tainted T k2 = false.
Proof.
  intros T k k2 H. unfold taint in H. destruct (tainted T k) eqn:E.
  - split; [|exact H]. destruct (String.eqb k2 k) eqn:E2; [|reflexivity].
    apply String.eqb_eq in E2. subst. congruence.
  - unfold tainted in H. cbn in H. apply orb_false_iff in H. exact H.
Qed.

Lemma tainted_untaint_false : forall T k k2,
  tainted (untaint k T) k2 = false -> String.eqb k2 k = true \/ tainted T k2 = false.
Proof.
  induction T as [|x r IH]; intros k k2 H; cbn in *; [right; reflexivity|].
  destruct (String.eqb k x) eqn:E; cbn in H.
  - apply String.eqb_eq in E. subst x. destruct (String.eqb k2 k) eqn:E2; [left; reflexivity|].
    unfold tainted. cbn. unfold tainted in IH. destruct (IH k k2 H) as [C|C]; [congruence|right; exact C].
  - unfold tainted in *. cbn in *. apply orb_false_iff in H. destruct H as [H1 H2]. rewrite H1. cbn.
    apply IH. exact H2.
Qed.

Lemma ctxfree_set_untaint : forall T cx k c,
  ctxfree T cx -> cellfree c = true -> ctxfree (untaint k T) (aset k c cx).
Proof.
  intros T cx k c H Hc k2 c2 Hg Ht. rewrite aget_aset in Hg. destruct (String.eqb k2 k) eqn:E.
  - inversion Hg; subst. exact Hc.
  - destruct (tainted_untaint_false _ _ _ Ht) as [C|C]; [congruence|]. eapply H; eassumption.
Qed.

Lemma ctxfree_set_taint : forall T cx k c, ctxfree T cx -> ctxfree (taint k T) (aset k c cx).
Proof.
  intros T cx k c H k2 c2 Hg Ht. destruct (tainted_taint_false _ _ _ Ht) as [E Ht2].
  rewrite aget_aset, E in Hg. eapply H; eassumption.
Qed.

Lemma ctxfree_taint : forall T cx k, ctxfree T cx -> ctxfree (taint k T) cx.
Proof.
  intros T cx k H k2 c2 Hg Ht. destruct (tainted_taint_false _ _ _ Ht) as [E Ht2]. eapply H; eassumption.
Qed.

Lemma ctxfree_set : forall T cx k c, ctxfree T cx -> cellfree c = true -> ctxfree T (aset k c cx).
Proof.
  intros T cx k c H Hc k2 c2 Hg Ht. rewrite aget_aset in Hg. destruct (String.eqb k2 k).
  - inversion Hg; subst. exact Hc.
  - eapply H; eassumption.
Qed.

Lemma ctxfree_del : forall T cx k, ctxfree T cx -> ctxfree (untaint k T) (adel k cx).
Proof.
  intros T cx k H k2 c2 Hg Ht. rewrite aget_adel in Hg. destruct (String.eqb k2 k) eqn:E; [discriminate|].
  destruct (tainted_untaint_false _ _ _ Ht) as [C|C]; [congruence|]. eapply H; eassumption.
Qed.

(* ---------------- deep copy creates only private pointers *)
Definition memo_ok (m : memo) : Prop :=
  Forall (fun ab : id * id => match snd ab with P _ => True | D _ => False end) m.

Lemma mfind_ok : forall m i j, memo_ok m -> mfind i m = Some j -> cellfree (CPtr j) = true.
Proof.
  induction m as [|[a b] r IH]; cbn; intros i j H Hf; [discriminate|].
  inversion H; subst. destruct (id_eqb i a).
  - inversion Hf; subst. cbn in *. destruct j; [contradiction|reflexivity].
  - eapply IH; eassumption.
Qed.

Section CopyOk.
  Context (go : heap -> memo -> cell -> option (heap * memo * cell)).
  Hypothesis go_ok : forall h m c h' m' c', go h m c = Some (h', m', c') ->
    heapfree h -> memo_ok m -> heapfree h' /\ memo_ok m' /\ cellfree c' = true.

  Lemma copy_cells_ok : forall l h m h' m' cs, copy_cells go l h m = Some (h', m', cs) ->
    heapfree h -> memo_ok m -> heapfree h' /\ memo_ok m' /\ forallb cellfree cs = true.
  Proof.
    induction l as [|c r IH]; cbn; intros h m h' m' cs H Hh Hm.
    - inversion H; subst. auto.
    - destruct (go h m c) as [[[h1 m1] c1]|] eqn:E; [|discriminate].
      destruct (go_ok _ _ _ _ _ _ E Hh Hm) as [A [B C]].
      destruct (copy_cells go r h1 m1) as [[[h2 m2] cs2]|] eqn:E2; [|discriminate].
      inversion H; subst. destruct (IH _ _ _ _ _ E2 A B) as [A2 [B2 C2]].
      cbn. rewrite C, C2. auto.
  Qed.

  Lemma copy_pairs_ok : forall l h m h' m' cs, copy_pairs go l h m = Some (h', m', cs) ->
    heapfree h -> memo_ok m ->
    heapfree h' /\ memo_ok m' /\ forallb (fun kc : string * cell => cellfree (snd kc)) cs = true.
  Proof.
    induction l as [|[k c] r IH]; cbn; intros h m h' m' cs H Hh Hm.
    - inversion H; subst. auto.
    - destruct (go h m c) as [[[h1 m1] c1]|] eqn:E; [|discriminate].
      destruct (go_ok _ _ _ _ _ _ E Hh Hm) as [A [B C]].
      destruct (copy_pairs go r h1 m1) as [[[h2 m2] cs2]|] eqn:E2; [|discriminate].
      inversion H; subst. destruct (IH _ _ _ _ _ E2 A B) as [A2 [B2 C2]].
      cbn. rewrite C, C2. auto.
  Qed.
End CopyOk.

Lemma copy_ok : forall fuel dh h m c h' m' c', copy fuel dh h m c = Some (h', m', c') ->
  heapfree h -> memo_ok m -> heapfree h' /\ memo_ok m' /\ cellfree c' = true.
Proof.
  induction fuel as [|f IH]; intros dh h m c h' m' c' H Hh Hm; destruct c as [z|i]; cbn in H.
  - inversion H; subst. auto.
  - destruct (mfind i m) as [j|] eqn:Ef; [|discriminate]. inversion H; subst.
    split; [assumption|]. split; [assumption|]. eapply mfind_ok; eassumption.
  - inversion H; subst. auto.
  - destruct (mfind i m) as [j|] eqn:Ef.
    + inversion H; subst. split; [assumption|]. split; [assumption|]. eapply mfind_ok; eassumption.
    + destruct (hget dh h i) as [[l|d]|]; [| |discriminate].
      * destruct (copy_cells (copy f dh) l h m) as [[[h1 m1] cs]|] eqn:E; [|discriminate].
        inversion H; subst.
        destruct (copy_cells_ok (copy f dh) (fun h m c h' m' c' => IH dh h m c h' m' c') _ _ _ _ _ _ E Hh Hm)
          as [A [B C]].
        split; [apply heapfree_app; assumption|]. split; [constructor; [exact I|assumption]|reflexivity].
      * destruct (copy_pairs (copy f dh) d h m) as [[[h1 m1] cs]|] eqn:E; [|discriminate].
        inversion H; subst.
        destruct (copy_pairs_ok (copy f dh) (fun h m c h' m' c' => IH dh h m c h' m' c') _ _ _ _ _ _ E Hh Hm)
          as [A [B C]].
        split; [apply heapfree_app; assumption|]. split; [constructor; [exact I|assumption]|reflexivity].
Qed.

(* ---------------- formatting allocates only private, definition-free objects *)
Definition fmt_spec (T : list string) (f : tree -> priv -> priv * cell) (t : tree) : Prop :=
  forall p p' c, f t p = (p', c) ->
    ctx p' = ctx p /\ trace p' = trace p /\
    (heapfree (ph p) -> ctxfree T (ctx p) -> byref_tainted T t = false -> running p' = true ->
     heapfree (ph p') /\ cellfree c = true).

Lemma fmt_cells_ok : forall T f l, Forall (fmt_spec T f) l ->
  forall p p' cs, fmt_cells f l p = (p', cs) ->
    ctx p' = ctx p /\ trace p' = trace p /\
    (heapfree (ph p) -> ctxfree T (ctx p) -> existsb (byref_tainted T) l = false -> running p' = true ->
     heapfree (ph p') /\ forallb cellfree cs = true).
Proof.
  intros T f l H. induction H as [|t r Ht Hr IH]; intros p p' cs E; cbn in E.
  - inversion E; subst. repeat split; auto.
  - destruct (f t p) as [p1 c] eqn:E1. destruct (Ht _ _ _ E1) as [A [B C]].
    destruct (running p1) eqn:R1.
    + destruct (fmt_cells f r p1) as [p2 cs2] eqn:E2. inversion E; subst.
      destruct (IH _ _ _ E2) as [A2 [B2 C2]].
      split; [congruence|]. split; [congruence|].
      intros Hh Hc Hb Hr'. cbn in Hb. apply orb_false_iff in Hb. destruct Hb as [Hb1 Hb2].
      destruct (C Hh Hc Hb1 eq_refl) as [Hh1 Hc1].
      rewrite <- A in Hc. destruct (C2 Hh1 Hc Hb2 Hr') as [Hh2 Hcs].
      split; [assumption|]. cbn. rewrite Hc1, Hcs. reflexivity.
    + inversion E; subst. split; [assumption|]. split; [assumption|].
      intros _ _ _ Hr'. congruence.
Qed.

Lemma fmt_pairs_ok : forall T f l, Forall (fun kt => fmt_spec T f (snd kt)) l ->
  forall p p' cs, fmt_pairs f l p = (p', cs) ->
    ctx p' = ctx p /\ trace p' = trace p /\
    (heapfree (ph p) -> ctxfree T (ctx p) ->
     existsb (fun kt => byref_tainted T (snd kt)) l = false -> running p' = true ->
     heapfree (ph p') /\ forallb (fun kc : string * cell => cellfree (snd kc)) cs = true).
Proof.
  intros T f l H. induction H as [|[k t] r Ht Hr IH]; intros p p' cs E; cbn in E.
  - inversion E; subst. repeat split; auto.
  - cbn in Ht. destruct (f t p) as [p1 c] eqn:E1. destruct (Ht _ _ _ E1) as [A [B C]].
    destruct (running p1) eqn:R1.
    + destruct (fmt_pairs f r p1) as [p2 cs2] eqn:E2. inversion E; subst.
      destruct (IH _ _ _ E2) as [A2 [B2 C2]].
      split; [congruence|]. split; [congruence|].
      intros Hh Hc Hb Hr'. cbn in Hb. apply orb_false_iff in Hb. destruct Hb as [Hb1 Hb2].
      destruct (C Hh Hc Hb1 eq_refl) as [Hh1 Hc1].
      rewrite <- A in Hc. destruct (C2 Hh1 Hc Hb2 Hr') as [Hh2 Hcs].
      split; [assumption|]. cbn. rewrite Hc1, Hcs. reflexivity.
    + inversion E; subst. split; [assumption|]. split; [assumption|].
      intros _ _ _ Hr'. congruence.
Qed.

Lemma fmt_ok : forall T fuel dh t, fmt_spec T (fmt fuel dh) t.
Proof.
  intros T fuel dh. induction t as [z|m k|l IH|d IH] using tree_ind'; intros p p' c E; cbn [fmt] in E.
  - inversion E; subst. repeat split; auto.
  - destruct (aget k (ctx p)) as [c0|] eqn:Eg.
    + destruct m.
      * destruct (copy fuel dh (ph p) [] c0) as [[[h m'] c']|] eqn:Ec; inversion E; subst; cbn.
        -- split; [reflexivity|]. split; [reflexivity|]. intros Hh _ _ _.
           destruct (copy_ok _ _ _ _ _ _ _ _ Ec Hh (Forall_nil _)) as [A [_ C]]. auto.
        -- split; [reflexivity|]. split; [reflexivity|]. intros _ _ _ R. discriminate.
      * inversion E; subst. split; [reflexivity|]. split; [reflexivity|].
        intros Hh Hc Hb _. cbn in Hb. split; [assumption|]. eapply Hc; eassumption.
      * inversion E; subst. split; [reflexivity|]. split; [reflexivity|].
        intros Hh Hc Hb _. cbn in Hb. split; [assumption|]. eapply Hc; eassumption.
    + inversion E; subst. cbn. split; [reflexivity|]. split; [reflexivity|]. intros _ _ _ R. discriminate.
  - destruct (fmt_cells (fmt fuel dh) l p) as [p1 cs] eqn:E1.
    destruct (fmt_cells_ok T _ _ IH _ _ _ E1) as [A [B C]].
    destruct (running p1) eqn:R1.
    + unfold alloc in E. inversion E; subst. cbn. split; [assumption|]. split; [assumption|].
      intros Hh Hc Hb _. cbn in Hb. destruct (C Hh Hc Hb eq_refl) as [Hh1 Hcs].
      split; [apply heapfree_app; assumption|reflexivity].
    + inversion E; subst. split; [assumption|]. split; [assumption|]. intros _ _ _ R. congruence.
  - destruct (fmt_pairs (fmt fuel dh) d p) as [p1 cs] eqn:E1.
    destruct (fmt_pairs_ok T _ _ IH _ _ _ E1) as [A [B C]].
    destruct (running p1) eqn:R1.
    + unfold alloc in E. inversion E; subst. cbn. split; [assumption|]. split; [assumption|].
      intros Hh Hc Hb _. cbn in Hb. destruct (C Hh Hc Hb eq_refl) as [Hh1 Hcs].
      split; [apply heapfree_app; assumption|reflexivity].
    + inversion E; subst. split; [assumption|]. split; [assumption|]. intros _ _ _ R. congruence.
Qed.

(* ---------------- the invariant of a run's private state *)
Definition pinv (T : list string) (p : priv) : Prop :=
  running p = true -> heapfree (ph p) /\ ctxfree T (ctx p).

Definition target_ok (T : list string) (l : loc) (k : string) : Prop :=
  match l with
  | LCtx => tainted T k = false
  | LObj (P _) => True
  | LObj (D _) => False
  end.

Definition loc_priv (l : loc) : Prop := match l with LObj (D _) => False | _ => True end.

Lemma target_ok_priv : forall T l k, target_ok T l k -> loc_priv l.
Proof. intros T [|[n|n]] k H; cbn in *; auto. Qed.

Lemma cellfree_ptr : forall i, cellfree (CPtr i) = true -> exists n, i = P n.
Proof. intros [n|n] H; [discriminate|eauto]. Qed.

Lemma lget_free : forall T dh p l k c,
  heapfree (ph p) -> ctxfree T (ctx p) -> target_ok T l k -> lget dh p l k = Some c -> cellfree c = true.
Proof.
  intros T dh p [|[n|n]] k c Hh Hc Ht Hg; cbn in *.
  - eapply Hc; eassumption.
  - contradiction.
  - destruct (nth_error (ph p) n) as [[l|d]|] eqn:En; try discriminate.
    pose proof (Forall_nth _ _ _ _ Hh En) as Ho. cbn in Ho. eapply forallb_aget; eassumption.
Qed.

Lemma lset_ok : forall T l k c dh p dh' p',
  lset l k c dh p = (dh', p') -> loc_priv l -> cellfree c = true ->
  heapfree (ph p) -> ctxfree T (ctx p) ->
  dh' = dh /\ (running p' = true -> heapfree (ph p') /\ ctxfree T (ctx p')).
Proof.
  intros T [|[n|n]] k c dh p dh' p' E Hl Hc Hh Hx; cbn in *.
  - inversion E; subst. split; [reflexivity|]. intros _. cbn. split; [assumption|]. apply ctxfree_set; assumption.
  - contradiction.
  - destruct (nth_error (ph p) n) as [[l|d]|] eqn:En; inversion E; subst; (split; [reflexivity|]); cbn; intro R;
      try discriminate.
    split; [|assumption]. apply Forall_upd; [assumption|]. cbn.
    pose proof (Forall_nth _ _ _ _ Hh En) as Ho. cbn in Ho. apply forallb_aset; assumption.
Qed.

Lemma fmt_set_ok : forall T fuel l k v dh p dh' p',
  fmt_set fuel l k v dh p = (dh', p') -> loc_priv l -> byref_tainted T v = false ->
  heapfree (ph p) -> ctxfree T (ctx p) ->
  dh' = dh /\ (running p' = true -> heapfree (ph p') /\ ctxfree T (ctx p')).
Proof.
  intros T fuel l k v dh p dh' p' E Hl Hb Hh Hx. unfold fmt_set in E.
  destruct (fmt fuel dh v p) as [p1 c] eqn:Ef. destruct (fmt_ok T fuel dh v _ _ _ Ef) as [A [B C]].
  destruct (running p1) eqn:R1.
  - destruct (C Hh Hx Hb eq_refl) as [Hh1 Hc1]. rewrite <- A in Hx.
    eapply lset_ok; eassumption.
  - inversion E; subst. split; [reflexivity|]. intro R. congruence.
Qed.

Definition step_post (T : list string) (dh dh' : heap) (p' : priv) : Prop :=
  dh' = dh /\ pinv T p'.

Lemma sub_pairs_ok : forall T (f : string -> tree -> heap -> priv -> heap * priv) ps,
  Forall (fun kv : string * tree => byref_tainted T (snd kv) = false ->
            forall dh p dh' p', f (fst kv) (snd kv) dh p = (dh', p') -> pinv T p -> step_post T dh dh' p') ps ->
  existsb (fun kt => byref_tainted T (snd kt)) ps = false ->
  forall dh p dh' p', sub_pairs f ps dh p = (dh', p') -> pinv T p -> step_post T dh dh' p'.
Proof.
  intros T f ps H. induction H as [|[k v] r Hkv Hr IH]; intros Hb dh p dh' p' E Hp; cbn in E.
  - inversion E; subst. split; [reflexivity|assumption].
  - cbn in Hb. apply orb_false_iff in Hb. destruct Hb as [Hb1 Hb2].
    destruct (f k v dh p) as [dh1 p1] eqn:E1. cbn in Hkv.
    destruct (Hkv Hb1 _ _ _ _ E1 Hp) as [A B]. subst dh1.
    eapply IH; eassumption.
Qed.

Definition tree_step_spec (T : list string)
  (f : loc -> string -> tree -> heap -> priv -> heap * priv) (v : tree) : Prop :=
  forall l k dh p dh' p', f l k v dh p = (dh', p') -> byref_tainted T v = false -> target_ok T l k ->
    pinv T p -> step_post T dh dh' p'.

Lemma forallb_app_true : forall A (f : A -> bool) l1 l2,
  forallb f l1 = true -> forallb f l2 = true -> forallb f (l1 ++ l2) = true.
Proof. intros. rewrite forallb_app. rewrite H, H0. reflexivity. Qed.

Lemma merge_tree_ok : forall T fuel v, tree_step_spec T (merge_tree fuel) v.
Proof.
  intros T fuel. induction v as [z|m k0|l0 IH|d IH] using tree_ind';
    intros l k dh p dh' p' E Hb Ht Hp; cbn [merge_tree] in E;
    (destruct (running p) eqn:R; cbn [negb] in E; [|inversion E; subst; split; [reflexivity|assumption]]);
    destruct (Hp R) as [Hh Hx]; pose proof (target_ok_priv _ _ _ Ht) as Hl.
  - destruct (fmt_set_ok T _ _ _ _ _ _ _ _ E Hl Hb Hh Hx) as [A B]. split; [assumption|exact B].
  - destruct (fmt_set_ok T _ _ _ _ _ _ _ _ E Hl Hb Hh Hx) as [A B]. split; [assumption|exact B].
  - (* TList *)
    assert (Hset : forall dh' p', fmt_set fuel l k (TList l0) dh p = (dh', p') -> step_post T dh dh' p').
    { intros dh2 p2 E2. destruct (fmt_set_ok T _ _ _ _ _ _ _ _ E2 Hl Hb Hh Hx) as [A B]. split; assumption. }
    destruct (lget dh p l k) as [[z|i]|] eqn:Eg; try (apply Hset; exact E).
    pose proof (lget_free T _ _ _ _ _ Hh Hx Ht Eg) as Hi. destruct (cellfree_ptr _ Hi) as [n Hn]. subst i.
    cbn [hget] in E. destruct (nth_error (ph p) n) as [[cur|dd]|] eqn:En; try (apply Hset; exact E).
    destruct (fmt fuel dh (TList l0) p) as [p1 c] eqn:Ef.
    destruct (fmt_ok T fuel dh _ _ _ _ Ef) as [A [B C]].
    destruct (running p1) eqn:R1; [|inversion E; subst; split; [reflexivity|intro; congruence]].
    destruct (C Hh Hx Hb eq_refl) as [Hh1 Hc1].
    destruct c as [z|j]; [inversion E; subst; split; [reflexivity|intro; discriminate]|].
    destruct (cellfree_ptr _ Hc1) as [m Hm]. subst j. cbn [hget] in E.
    destruct (nth_error (ph p1) m) as [[new|dd]|] eqn:Em;
      try (inversion E; subst; split; [reflexivity|intro; discriminate]).
    cbn in E. inversion E; subst. split; [reflexivity|]. intros _. cbn. split; [|rewrite A; assumption].
    apply Forall_upd; [assumption|]. cbn. apply forallb_app_true.
    + exact (Forall_nth _ _ _ _ Hh En).
    + exact (Forall_nth _ _ _ _ Hh1 Em).
  - (* TDict *)
    assert (Hset : forall dh' p', fmt_set fuel l k (TDict d) dh p = (dh', p') -> step_post T dh dh' p').
    { intros dh2 p2 E2. destruct (fmt_set_ok T _ _ _ _ _ _ _ _ E2 Hl Hb Hh Hx) as [A B]. split; assumption. }
    destruct (lget dh p l k) as [[z|i]|] eqn:Eg; try (apply Hset; exact E).
    pose proof (lget_free T _ _ _ _ _ Hh Hx Ht Eg) as Hi. destruct (cellfree_ptr _ Hi) as [n Hn]. subst i.
    cbn [hget] in E. destruct (nth_error (ph p) n) as [[cur|dd]|] eqn:En; try (apply Hset; exact E).
    cbn in Hb. eapply sub_pairs_ok; [| exact Hb | exact E | exact Hp].
    eapply Forall_impl; [|exact IH]. intros [k' v'] Hs Hb' dh0 p0 dh1 p1 E1 Hp0. cbn in *.
    eapply Hs; try eassumption. exact I.
Qed.

Lemma defaults_tree_ok : forall T fuel v, tree_step_spec T (defaults_tree fuel) v.
Proof.
  intros T fuel. induction v as [z|m k0|l0 IH|d IH] using tree_ind';
    intros l k dh p dh' p' E Hb Ht Hp; cbn [defaults_tree] in E;
    (destruct (running p) eqn:R; cbn [negb] in E; [|inversion E; subst; split; [reflexivity|assumption]]);
    destruct (Hp R) as [Hh Hx]; pose proof (target_ok_priv _ _ _ Ht) as Hl;
    (destruct (lget dh p l k) as [c0|] eqn:Eg;
     [|destruct (fmt_set_ok T _ _ _ _ _ _ _ _ E Hl Hb Hh Hx) as [A B]; split; assumption]).
  - inversion E; subst. split; [reflexivity|assumption].
  - inversion E; subst. split; [reflexivity|assumption].
  - inversion E; subst. split; [reflexivity|assumption].
  - destruct c0 as [z|i]; [inversion E; subst; split; [reflexivity|assumption]|].
    pose proof (lget_free T _ _ _ _ _ Hh Hx Ht Eg) as Hi. destruct (cellfree_ptr _ Hi) as [n Hn]. subst i.
    cbn [hget] in E. destruct (nth_error (ph p) n) as [[cur|dd]|] eqn:En;
      try (inversion E; subst; split; [reflexivity|assumption]).
    cbn in Hb. eapply sub_pairs_ok; [| exact Hb | exact E | exact Hp].
    eapply Forall_impl; [|exact IH]. intros [k' v'] Hs Hb' dh0 p0 dh1 p1 E1 Hp0. cbn in *.
    eapply Hs; try eassumption. exact I.
Qed.

(* ---------------- one operation *)
Lemma running_set_ctx : forall c p, running (set_ctx c p) = running p. Proof. reflexivity. Qed.
Lemma running_set_ph : forall h p, running (set_ph h p) = running p. Proof. reflexivity. Qed.

Lemma bind_byref_ok : forall T fuel k m k' dh p dh' p',
  m <> RCopy -> fmt_set fuel LCtx k (TRef m k') dh p = (dh', p') ->
  heapfree (ph p) -> ctxfree T (ctx p) -> step_post (taint k T) dh dh' p'.
Proof.
  intros T fuel k m k' dh p dh' p' Hm E Hh Hx. unfold fmt_set in E. cbn [fmt] in E.
  destruct (aget k' (ctx p)) as [c0|].
  - destruct m; [congruence| |]; cbn in E; destruct (running p) eqn:R; inversion E; subst;
      (split; [reflexivity|]); intro R'; try congruence;
      cbn; (split; [assumption|]); apply ctxfree_set_taint; assumption.
  - cbn in E. inversion E; subst. split; [reflexivity|]. intro R. discriminate.
Qed.

Lemma bind_ok : forall T T1 fuel k t dh p dh' p',
  bind_taint T k t = Some T1 -> fmt_set fuel LCtx k t dh p = (dh', p') ->
  heapfree (ph p) -> ctxfree T (ctx p) -> step_post T1 dh dh' p'.
Proof.
  intros T T1 fuel k t dh p dh' p' Hb E Hh Hx.
  assert (Hgen : byref_tainted T t = false -> T1 = untaint k T -> step_post T1 dh dh' p').
  { intros Hf HT. subst T1. unfold fmt_set in E. destruct (fmt fuel dh t p) as [p1 c] eqn:Ef.
    destruct (fmt_ok T fuel dh t _ _ _ Ef) as [A [B C]]. destruct (running p1) eqn:R1.
    - destruct (C Hh Hx Hf eq_refl) as [Hh1 Hc1]. cbn in E. inversion E; subst.
      split; [reflexivity|]. intros _. cbn. split; [assumption|]. rewrite A.
      apply ctxfree_set_untaint; assumption.
    - inversion E; subst. split; [reflexivity|]. intro R. congruence. }
  destruct t as [z|m k'|l|d]; cbn [bind_taint] in Hb.
  - inversion Hb; subst. apply Hgen; reflexivity.
  - destruct m.
    + inversion Hb; subst. apply Hgen; reflexivity.
    + inversion Hb; subst. destruct (tainted T k') eqn:Et; [|apply Hgen; [exact Et|reflexivity]].
      eapply bind_byref_ok; try eassumption. discriminate.
    + inversion Hb; subst. destruct (tainted T k') eqn:Et; [|apply Hgen; [exact Et|reflexivity]].
      eapply bind_byref_ok; try eassumption. discriminate.
  - destruct (byref_tainted T (TList l)) eqn:Ef; [discriminate|]. inversion Hb; subst. apply Hgen; auto.
  - destruct (byref_tainted T (TDict d)) eqn:Ef; [discriminate|]. inversion Hb; subst. apply Hgen; auto.
Qed.

Lemma append_to_ok : forall T dh p c a dh' p',
  append_to dh p c a = (dh', p') -> cellfree c = true -> cellfree a = true ->
  heapfree (ph p) -> ctxfree T (ctx p) -> step_post T dh dh' p'.
Proof.
  intros T dh p c a dh' p' E Hc Ha Hh Hx. unfold append_to in E. destruct c as [z|i].
  - inversion E; subst. split; [reflexivity|]. intro R. discriminate.
  - destruct (cellfree_ptr _ Hc) as [n Hn]. subst i. cbn [hget hput] in E.
    destruct (nth_error (ph p) n) as [[l|d]|] eqn:En; inversion E; subst;
      (split; [reflexivity|]); intro R; try discriminate.
    cbn. split; [|assumption]. apply Forall_upd; [assumption|]. cbn. apply forallb_app_true.
    + exact (Forall_nth _ _ _ _ Hh En).
    + cbn. rewrite Ha. reflexivity.
Qed.

Lemma bind_new_list_ok : forall T k a p,
  cellfree a = true -> heapfree (ph p) -> ctxfree T (ctx p) -> running p = true ->
  pinv T (bind_new_list k a p).
Proof.
  intros T k a p Ha Hh Hx R _. unfold bind_new_list, alloc. cbn. split.
  - apply heapfree_app; [assumption|]. cbn. rewrite Ha. reflexivity.
  - apply ctxfree_set; [assumption|reflexivity].
Qed.

Lemma merge_fold_ok : forall fuel ps T T1 dh p dh' p',
  fold_taint merge_taint T ps = Some T1 ->
  sub_pairs (merge_tree fuel LCtx) ps dh p = (dh', p') -> pinv T p -> step_post T1 dh dh' p'.
Proof.
  induction ps as [|[k v] r IH]; intros T T1 dh p dh' p' Hf E Hp; cbn in Hf, E.
  - inversion Hf; inversion E; subst. split; [reflexivity|assumption].
  - destruct (merge_taint T (k, v)) as [T2|] eqn:Em; [|discriminate].
    destruct (merge_tree fuel LCtx k v dh p) as [dh1 p1] eqn:E1.
    assert (Hs : step_post T2 dh dh1 p1).
    { unfold merge_taint in Em. cbn [fst snd] in Em. destruct v as [z|m k'|l|d].
      - cbn in Em. destruct (tainted T k) eqn:Et; cbn in Em; [discriminate|]. inversion Em; subst.
        exact (merge_tree_ok T2 fuel (TInt z) LCtx k dh p dh1 p1 E1 eq_refl Et Hp).
      - cbn [merge_tree] in E1. destruct (running p) eqn:R; cbn [negb] in E1.
        + destruct (Hp R) as [Hh Hx]. eapply bind_ok; eassumption.
        + inversion E1; subst. split; [reflexivity|]. intro R'. congruence.
      - destruct (tainted T k || byref_tainted T (TList l)) eqn:Eo; [discriminate|]. inversion Em; subst.
        apply orb_false_iff in Eo. destruct Eo as [Et Eb].
        exact (merge_tree_ok T2 fuel (TList l) LCtx k dh p dh1 p1 E1 Eb Et Hp).
      - destruct (tainted T k || byref_tainted T (TDict d)) eqn:Eo; [discriminate|]. inversion Em; subst.
        apply orb_false_iff in Eo. destruct Eo as [Et Eb].
        exact (merge_tree_ok T2 fuel (TDict d) LCtx k dh p dh1 p1 E1 Eb Et Hp). }
    destruct Hs as [A B]. subst dh1. eapply IH; eassumption.
Qed.

Lemma defaults_fold_ok : forall fuel ps T T1 dh p dh' p',
  fold_taint defaults_taint T ps = Some T1 ->
  sub_pairs (defaults_tree fuel LCtx) ps dh p = (dh', p') -> pinv T p -> step_post T1 dh dh' p'.
Proof.
  induction ps as [|[k v] r IH]; intros T T1 dh p dh' p' Hf E Hp; cbn in Hf, E.
  - inversion Hf; inversion E; subst. split; [reflexivity|assumption].
  - destruct (defaults_taint T (k, v)) as [T2|] eqn:Em; [|discriminate].
    destruct (defaults_tree fuel LCtx k v dh p) as [dh1 p1] eqn:E1.
    assert (Hs : step_post T2 dh dh1 p1).
    { unfold defaults_taint in Em. cbn [fst snd] in Em. destruct (tainted T k) eqn:Et; [discriminate|].
      assert (Hplain : byref_tainted T v = false -> T2 = T -> step_post T2 dh dh1 p1).
      { intros Hb HT. subst T2. exact (defaults_tree_ok T fuel v LCtx k dh p dh1 p1 E1 Hb Et Hp). }
      destruct v as [z|m k'|l|d].
      - inversion Em; subst. apply Hplain; reflexivity.
      - assert (Hby : forall mm, mm <> RCopy -> m = mm ->
                  T2 = (if tainted T k' then taint k T else T) -> step_post T2 dh dh1 p1).
        { intros mm Hne Hm HT. subst mm. destruct (tainted T k') eqn:Et'.
          - (* the default may bind k to a definition object: k becomes tainted *)
            subst T2. cbn [defaults_tree] in E1. destruct (running p) eqn:R; cbn [negb] in E1;
              [|inversion E1; subst; split; [reflexivity|intro; congruence]].
            destruct (Hp R) as [Hh Hx]. cbn [lget] in E1. destruct (aget k (ctx p)) as [c0|] eqn:Eg.
            + inversion E1; subst. split; [reflexivity|]. intros _. split; [assumption|].
              apply ctxfree_taint. assumption.
            + eapply bind_byref_ok; eassumption.
          - apply Hplain; [|assumption]. destruct m; [congruence| |]; cbn; assumption. }
        destruct m.
        + inversion Em; subst. apply Hplain; reflexivity.
        + inversion Em; subst. eapply (Hby RFlat); [discriminate|reflexivity|reflexivity].
        + inversion Em; subst. eapply (Hby RPy); [discriminate|reflexivity|reflexivity].
      - destruct (byref_tainted T (TList l)) eqn:Eo; [discriminate|]. inversion Em; subst. apply Hplain; auto.
      - destruct (byref_tainted T (TDict d)) eqn:Eo; [discriminate|]. inversion Em; subst. apply Hplain; auto. }
    destruct Hs as [A B]. subst dh1. eapply IH; eassumption.
Qed.

Ltac dead := solve [split; [reflexivity|]; let R := fresh "R" in intro R; cbn in R; first [discriminate | congruence]].

Lemma walk_free : forall dh h path c c',
  heapfree h -> cellfree c = true -> walk dh h c path = inl c' -> cellfree c' = true.
Proof.
  intros dh h. induction path as [|s rest IH]; intros c c' Hh Hc E; cbn in E.
  - inversion E; subst. exact Hc.
  - destruct c as [z|i]; [discriminate|]. destruct (cellfree_ptr _ Hc) as [n Hn]. subst i. cbn [hget] in E.
    destruct (nth_error h n) as [[l|d]|] eqn:En; [| |destruct s; discriminate].
    + destruct s; [|discriminate].
      destruct (nth_error l (List.length l - 1)) as [c1|] eqn:El; [|discriminate].
      apply (IH c1 c' Hh); [|exact E].
      pose proof (Forall_nth _ _ _ _ Hh En) as Ho. cbn in Ho. rewrite forallb_forall in Ho.
      apply Ho. eapply nth_error_In. exact El.
    + destruct s as [|k]; [discriminate|].
      destruct (aget k d) as [c1|] eqn:Eg; [|discriminate].
      apply (IH c1 c' Hh); [|exact E].
      pose proof (Forall_nth _ _ _ _ Hh En) as Ho. cbn in Ho. eapply forallb_aget; eassumption.
Qed.

(* the HISTORICAL machine under the discipline; [step] (below, F) reuses it with T = [] *)
Lemma aliasing_step_ok : forall T T1 o dh p dh' p',
  check_op T o = Some T1 -> step_aliasing dh p o = (dh', p') -> pinv T p -> step_post T1 dh dh' p'.
Proof.
  intros T T1 o dh p dh' p' Hc E Hp. unfold step_aliasing in E.
  destruct (running p) eqn:R; cbn [negb] in E; [|inversion E; subst; split; [reflexivity|intro; congruence]].
  destruct (Hp R) as [Hh Hx].
  destruct o as [tp k c|k|k t|k k'|k t|m k t|k z|k s z|ps|ps|k k' n|k z| |t|e|k k' path]; cbn [check_op] in Hc.
  - (* InjectIn *) inversion Hc; inversion E; subst. split; [reflexivity|]. intros _. cbn.
    split; [assumption|apply ctxfree_set_taint; assumption].
  - (* Unset *) inversion Hc; inversion E; subst. split; [reflexivity|]. intros _. cbn.
    split; [assumption|apply ctxfree_del; assumption].
  - (* SetFmt *) eapply bind_ok; eassumption.
  - (* CopyRef *) destruct (aget k' (ctx p)) as [c|] eqn:Eg; inversion E; subst; [|dead].
    inversion Hc; subst. split; [reflexivity|]. intros _. cbn. split; [assumption|].
    destruct (tainted T k') eqn:Et; [apply ctxfree_set_taint; assumption|].
    apply ctxfree_set_untaint; [assumption|]. eapply Hx; eassumption.
  - (* AppendKey *)
    destruct (tainted T k || byref_tainted T t) eqn:Eo; [discriminate|]. inversion Hc; subst T1.
    apply orb_false_iff in Eo. destruct Eo as [Et Eb].
    destruct (fmt FUEL dh t p) as [p1 a] eqn:Ef. destruct (fmt_ok T FUEL dh t _ _ _ Ef) as [A [B C]].
    destruct (running p1) eqn:R1; [|inversion E; subst; dead].
    destruct (C Hh Hx Eb eq_refl) as [Hh1 Ha]. rewrite <- A in Hx.
    destruct (aget k (ctx p1)) as [c|] eqn:Eg.
    + pose proof (Hx _ _ Eg Et) as Hcf.
      destruct (truthy dh p1 c) as [[|]|]; [| |inversion E; subst; dead].
      * eapply append_to_ok; eassumption.
      * inversion E; subst. split; [reflexivity|]. apply bind_new_list_ok; assumption.
    + inversion E; subst. split; [reflexivity|]. apply bind_new_list_ok; assumption.
  - (* AppendObj *)
    destruct (tainted T k || byref_tainted T t) eqn:Eo; [discriminate|]. inversion Hc; subst T1.
    apply orb_false_iff in Eo. destruct Eo as [Et Eb].
    destruct (aget k (ctx p)) as [c|] eqn:Eg; [|inversion E; subst; dead].
    pose proof (Hx _ _ Eg Et) as Hcf.
    destruct (fmt FUEL dh t p) as [p1 a] eqn:Ef. destruct (fmt_ok T FUEL dh t _ _ _ Ef) as [A [B C]].
    destruct (running p1) eqn:R1; [|inversion E; subst; dead].
    destruct (C Hh Hx Eb eq_refl) as [Hh1 Ha]. rewrite <- A in Hx.
    destruct (truthy dh p1 c) as [[|]|]; [|inversion E; subst; dead|inversion E; subst; dead].
    eapply append_to_ok; eassumption.
  - (* PyAppend *)
    destruct (tainted T k) eqn:Et; [discriminate|]. inversion Hc; subst T1.
    destruct (aget k (ctx p)) as [c|] eqn:Eg; [|inversion E; subst; dead].
    eapply append_to_ok; try eassumption; [eapply Hx; eassumption|reflexivity].
  - (* PySetItem *)
    destruct (tainted T k) eqn:Et; [discriminate|]. inversion Hc; subst T1.
    destruct (aget k (ctx p)) as [[z0|i]|] eqn:Eg; [inversion E; subst; dead| |inversion E; subst; dead].
    pose proof (Hx _ _ Eg Et) as Hcf. destruct (cellfree_ptr _ Hcf) as [n Hn]. subst i.
    cbn [hget hput] in E. destruct (nth_error (ph p) n) as [[l|d]|] eqn:En; inversion E; subst; try dead.
    split; [reflexivity|]. intros _. cbn. split; [|assumption]. apply Forall_upd; [assumption|]. cbn.
    apply forallb_aset; [exact (Forall_nth _ _ _ _ Hh En)|reflexivity].
  - (* Merge *) eapply merge_fold_ok; eassumption.
  - (* Defaults *) eapply defaults_fold_ok; eassumption.
  - (* BindElem *)
    inversion Hc; subst T1.
    destruct (aget k' (ctx p)) as [[z0|i]|] eqn:Eg; [inversion E; subst; dead| |inversion E; subst; dead].
    destruct (tainted T k') eqn:Et.
    + destruct (hget dh (ph p) i) as [[l|d]|]; [|inversion E; subst; dead|inversion E; subst; dead].
      destruct (nth_error l n) as [c|]; inversion E; subst; [|dead].
      split; [reflexivity|]. intros _. cbn. split; [assumption|apply ctxfree_set_taint; assumption].
    + pose proof (Hx _ _ Eg Et) as Hcf. destruct (cellfree_ptr _ Hcf) as [m Hm]. subst i. cbn [hget] in E.
      destruct (nth_error (ph p) m) as [[l|d]|] eqn:En; [|inversion E; subst; dead|inversion E; subst; dead].
      destruct (nth_error l n) as [c|] eqn:El; inversion E; subst; [|dead].
      split; [reflexivity|]. intros _. cbn. split; [assumption|]. apply ctxfree_set_untaint; [assumption|].
      pose proof (Forall_nth _ _ _ _ Hh En) as Ho. cbn in Ho. rewrite forallb_forall in Ho.
      apply Ho. eapply nth_error_In. exact El.
  - (* SetInt *) inversion Hc; inversion E; subst. split; [reflexivity|]. intros _. cbn.
    split; [assumption|apply ctxfree_set_untaint; [assumption|reflexivity]].
  - (* Probe *) inversion Hc; inversion E; subst. split; [reflexivity|]. intros _. cbn. split; assumption.
  - (* SaveError *)
    destruct (tainted T "runErrors" || byref_tainted T t) eqn:Eo; [discriminate|]. inversion Hc; subst T1.
    apply orb_false_iff in Eo. destruct Eo as [Et Eb].
    destruct (fmt FUEL dh t p) as [p1 c] eqn:Ef. destruct (fmt_ok T FUEL dh t _ _ _ Ef) as [A [B C]].
    destruct (running p1) eqn:R1; [|inversion E; subst; dead].
    destruct (C Hh Hx Eb eq_refl) as [Hh1 Hcf]. rewrite <- A in Hx.
    unfold alloc in E. cbn [set_ph ctx ph] in E.
    set (p2 := set_ph (ph p1 ++ [ODict [("customError", c)]]) p1) in *.
    assert (Hh2 : heapfree (ph p2)).
    { cbn. apply heapfree_app; [assumption|]. cbn. rewrite Hcf. reflexivity. }
    assert (Hx2 : ctxfree T (ctx p2)) by exact Hx.
    assert (R2 : running p2 = true) by exact R1.
    change (ctx p1) with (ctx p2) in E.
    destruct (aget "runErrors" (ctx p2)) as [r|] eqn:Eg.
    + eapply append_to_ok; try eassumption; [eapply Hx2; eassumption|reflexivity].
    + inversion E; subst. split; [reflexivity|]. apply bind_new_list_ok; try assumption. reflexivity.
  - (* Raise *) inversion Hc; inversion E; subst. dead.
  - (* BindPath *)
    inversion Hc; subst T1.
    destruct (aget k' (ctx p)) as [c|] eqn:Eg; [|inversion E; subst; dead].
    destruct (walk dh (ph p) c path) as [c'|e] eqn:Ew; inversion E; subst; [|dead].
    split; [reflexivity|]. intros _. cbn. split; [assumption|].
    destruct (tainted T k') eqn:Et; [apply ctxfree_set_taint; assumption|].
    apply ctxfree_set_untaint; [assumption|]. eapply walk_free; [exact Hh| |exact Ew]. eapply Hx; eassumption.
Qed.

(* ---------------- a fresh context *)
Lemma byref_nil : forall t, byref_tainted [] t = false.
Proof.
  induction t as [z|m k|l IH|d IH] using tree_ind'; cbn.
  - reflexivity.
  - destruct m; reflexivity.
  - induction IH as [|x r Hx Hr IHr]; cbn; [reflexivity|]. rewrite Hx. exact IHr.
  - induction IH as [|x r Hx Hr IHr]; cbn; [reflexivity|]. rewrite Hx. exact IHr.
Qed.

Lemma init_ok : forall kvs p, pinv [] p -> pinv [] (init_ctx kvs p).
Proof.
  induction kvs as [|[k t] r IH]; intros p Hp; cbn; [assumption|].
  destruct (running p) eqn:R; cbn [negb]; [|assumption].
  destruct (Hp R) as [Hh Hx].
  destruct (fmt FUEL [] t p) as [p1 c] eqn:Ef. destruct (fmt_ok [] FUEL [] t _ _ _ Ef) as [A [B C]].
  apply IH. destruct (running p1) eqn:R1.
  - destruct (C Hh Hx (byref_nil t) eq_refl) as [Hh1 Hc]. intros _. cbn. split; [assumption|].
    rewrite A. apply ctxfree_set; assumption.
  - intro R'. congruence.
Qed.

Lemma start_ok : forall r, pinv [] (start r).
Proof.
  intro r. apply init_ok. intros _. cbn. split; [constructor|]. intros k c H. discriminate.
Qed.

Lemma finish_closed : forall dh h, closed dh = true -> finish dh h = dh.
Proof.
  intros dh h H. unfold finish, closed in *. destruct (existsb obj_has_P dh); [discriminate|reflexivity].
Qed.

(* ================================================================ E. loaded definitions are closed *)
Lemma closed_app : forall h o, closed h = true -> obj_has_P o = false -> closed (h ++ [o]) = true.
Proof.
  intros h o H Ho. unfold closed in *. rewrite existsb_app. cbn. rewrite Ho.
  apply negb_true_iff in H. rewrite H. reflexivity.
Qed.

Definition dalloc_spec (f : tree -> heap -> heap * cell) (t : tree) : Prop :=
  forall dh dh' c, f t dh = (dh', c) -> closed dh = true -> closed dh' = true /\ cell_has_P c = false.

Lemma dalloc_cells_ok : forall f l, Forall (dalloc_spec f) l ->
  forall dh dh' cs, dalloc_cells f l dh = (dh', cs) -> closed dh = true ->
    closed dh' = true /\ existsb cell_has_P cs = false.
Proof.
  intros f l H. induction H as [|t r Ht Hr IH]; intros dh dh' cs E Hc; cbn in E.
  - inversion E; subst. auto.
  - destruct (f t dh) as [dh1 c] eqn:E1. destruct (dalloc_cells f r dh1) as [dh2 cs2] eqn:E2.
    inversion E; subst. destruct (Ht _ _ _ E1 Hc) as [A B]. destruct (IH _ _ _ E2 A) as [A2 B2].
    split; [assumption|]. cbn. rewrite B, B2. reflexivity.
Qed.

Lemma dalloc_pairs_ok : forall f l, Forall (fun kt => dalloc_spec f (snd kt)) l ->
  forall dh dh' cs, dalloc_pairs f l dh = (dh', cs) -> closed dh = true ->
    closed dh' = true /\ existsb (fun kc : string * cell => cell_has_P (snd kc)) cs = false.
Proof.
  intros f l H. induction H as [|[k t] r Ht Hr IH]; intros dh dh' cs E Hc; cbn in E.
  - inversion E; subst. auto.
  - cbn in Ht. destruct (f t dh) as [dh1 c] eqn:E1. destruct (dalloc_pairs f r dh1) as [dh2 cs2] eqn:E2.
    inversion E; subst. destruct (Ht _ _ _ E1 Hc) as [A B]. destruct (IH _ _ _ E2 A) as [A2 B2].
    split; [assumption|]. cbn. rewrite B, B2. reflexivity.
Qed.

Lemma dalloc_ok : forall t, dalloc_spec dalloc t.
Proof.
  induction t as [z|m k|l IH|d IH] using tree_ind'; intros dh dh' c E Hc; cbn [dalloc] in E.
  - inversion E; subst. auto.
  - inversion E; subst. auto.
  - destruct (dalloc_cells dalloc l dh) as [dh1 cs] eqn:E1. inversion E; subst.
    destruct (dalloc_cells_ok _ _ IH _ _ _ E1 Hc) as [A B]. split; [|reflexivity].
    apply closed_app; assumption.
  - destruct (dalloc_pairs dalloc d dh) as [dh1 cs] eqn:E1. inversion E; subst.
    destruct (dalloc_pairs_ok _ _ IH _ _ _ E1 Hc) as [A B]. split; [|reflexivity].
    apply closed_app; assumption.
Qed.

Lemma load_closed_gen : forall ts dh, closed dh = true -> closed (fst (load ts dh)) = true.
Proof.
  induction ts as [|t r IH]; intros dh Hc; cbn; [assumption|].
  destruct (dalloc t dh) as [dh1 c] eqn:E1. destruct (dalloc_ok t _ _ _ E1 Hc) as [A _].
  specialize (IH dh1 A). destruct (load r dh1) as [dh2 cs]. exact IH.
Qed.

Lemma load_closed : forall ts, closed (fst (load ts [])) = true.
Proof. intro ts. apply load_closed_gen. reflexivity. Qed.


(* ================================================================ F. the machine [step]:
   injection deep-copies (context.update(copy.deepcopy(in))), so EVERY operation list is
   disciplined with the empty taint set — no key is ever bound to a definition object *)
Lemma merge_taint_nil : forall kv, merge_taint [] kv = Some [].
Proof.
  intros [k v]. unfold merge_taint. cbn [fst snd]. destruct v as [z|m k'|l|d].
  - reflexivity.
  - destruct m; reflexivity.
  - cbn [tainted existsb orb]. rewrite (byref_nil (TList l)). reflexivity.
  - cbn [tainted existsb orb]. rewrite (byref_nil (TDict d)). reflexivity.
Qed.

Lemma defaults_taint_nil : forall kv, defaults_taint [] kv = Some [].
Proof.
  intros [k v]. unfold defaults_taint. cbn [fst snd tainted existsb]. destruct v as [z|m k'|l|d].
  - reflexivity.
  - destruct m; reflexivity.
  - rewrite (byref_nil (TList l)). reflexivity.
  - rewrite (byref_nil (TDict d)). reflexivity.
Qed.

Lemma fold_taint_nil : forall A (f : list string -> A -> option (list string)) l,
  (forall x, f [] x = Some []) -> fold_taint f [] l = Some [].
Proof. intros A f l H. induction l as [|x r IH]; cbn; [reflexivity|]. rewrite H. exact IH. Qed.

Lemma check_op_nil : forall o,
  match o with InjectIn _ _ _ => False | _ => True end -> check_op [] o = Some [].
Proof.
  intros o H. destruct o as [tp k c|k|k t|k k'|k t|m k t|k z|k s z|ps|ps|k k' n|k z| |t|e|k k' path]; cbn [check_op];
    try contradiction; try reflexivity.
  - destruct t as [z|m k'|l|d]; cbn [bind_taint].
    + reflexivity.
    + destruct m; reflexivity.
    + rewrite (byref_nil (TList l)). reflexivity.
    + rewrite (byref_nil (TDict d)). reflexivity.
  - cbn [tainted existsb orb]. rewrite (byref_nil t). reflexivity.
  - cbn [tainted existsb orb]. rewrite (byref_nil t). reflexivity.
  - apply fold_taint_nil. exact merge_taint_nil.
  - apply fold_taint_nil. exact defaults_taint_nil.
  - cbn [tainted existsb orb]. rewrite (byref_nil t). reflexivity.
Qed.

Lemma copy_inject_ok : forall fuel k c dh p dh' p',
  match copy fuel dh (ph p) [] c with
  | Some (h, _, c') => (dh, set_ctx (aset k c' (ctx p)) (set_ph h p))
  | None => (dh, unsup p)
  end = (dh', p') -> heapfree (ph p) -> ctxfree [] (ctx p) -> dh' = dh /\ pinv [] p'.
Proof.
  intros fuel k c dh p dh' p' E Hh Hx.
  destruct (copy fuel dh (ph p) [] c) as [[[h m] c']|] eqn:Ec; inversion E; subst.
  - destruct (copy_ok _ _ _ _ _ _ _ _ Ec Hh (Forall_nil _)) as [A [_ C]].
    split; [reflexivity|]. intros _. split; [exact A|]. apply ctxfree_set; assumption.
  - split; [reflexivity|]. intro R'. discriminate.
Qed.

Lemma scalar_cellfree : forall l, forallb scalar_cell l = true -> forallb cellfree l = true.
Proof.
  induction l as [|c r IH]; cbn; intro H; [reflexivity|]. apply andb_true_iff in H. destruct H as [H1 H2].
  rewrite (IH H2). destruct c; [reflexivity|discriminate].
Qed.

(* any discipline other than by-reference hands the context an object of the run's own heap *)
Lemma inject_ok : forall fuel d k c dh p dh' p',
  d <> ByRef -> inject fuel d dh p k c = (dh', p') -> heapfree (ph p) -> ctxfree [] (ctx p) ->
  dh' = dh /\ pinv [] p'.
Proof.
  intros fuel d k c dh p dh' p' Hd E Hh Hx. destruct d; [congruence| | |].
  - (* FreshList *)
    cbn [inject] in E. destruct c as [z|i]; [inversion E; subst; dead|].
    destruct (hget dh (ph p) i) as [[l|dd]|]; [|inversion E; subst; dead|inversion E; subst; dead].
    destruct (forallb scalar_cell l) eqn:Es; [|inversion E; subst; dead].
    unfold alloc in E. cbn in E. inversion E; subst. split; [reflexivity|]. intros _. cbn. split.
    + apply heapfree_app; [assumption|]. cbn. apply scalar_cellfree. assumption.
    + apply ctxfree_set; [assumption|reflexivity].
  - exact (copy_inject_ok fuel k c dh p dh' p' E Hh Hx).
  - exact (copy_inject_ok fuel k c dh p dh' p' E Hh Hx).
Qed.

Lemma step_of_ok : forall tbl, (forall tp, tbl tp <> ByRef) ->
  forall o dh p dh' p', step_of tbl dh p o = (dh', p') -> pinv [] p -> dh' = dh /\ pinv [] p'.
Proof.
  intros tbl Htbl o dh p dh' p' E Hp.
  assert (Hother : match o with InjectIn _ _ _ => False | _ => True end ->
                   step_aliasing dh p o = (dh', p') -> dh' = dh /\ pinv [] p').
  { intros Ho Es. exact (aliasing_step_ok [] [] o dh p dh' p' (check_op_nil o Ho) Es Hp). }
  destruct o as [tp k c|k|k t|k k'|k t|m k t|k z|k s z|ps|ps|k k' n|k z| |t|e|k k' path];
    try (apply Hother; [exact I|exact E]).
  cbn [step_of] in E. destruct (running p) eqn:R; cbn [negb] in E.
  - destruct (Hp R) as [Hh Hx]. exact (inject_ok FUEL (tbl tp) k c dh p dh' p' (Htbl tp) E Hh Hx).
  - inversion E; subst. split; [reflexivity|assumption].
Qed.

Lemma model_no_byref : forall tp, model_discipline tp <> ByRef.
Proof. intros [] H; discriminate H. Qed.

Lemma step_ok : forall o dh p dh' p',
  step dh p o = (dh', p') -> pinv [] p -> dh' = dh /\ pinv [] p'.
Proof. exact (step_of_ok model_discipline model_no_byref). Qed.

(* two tables that agree give the same machine *)
Lemma step_of_ext : forall t1 t2, (forall tp, t1 tp = t2 tp) ->
  forall dh p o, step_of t1 dh p o = step_of t2 dh p o.
Proof. intros t1 t2 H dh p o. destruct o; cbn [step_of]; try reflexivity. rewrite H. reflexivity. Qed.

(* every operation list, from any state satisfying the invariant, only READS the definition heap *)
Lemma all_read_only : forall ops dh p, pinv [] p -> read_only step dh p ops.
Proof.
  induction ops as [|o r IH]; intros dh p Hp; cbn; [exact I|].
  destruct (step dh p o) as [dh1 p1] eqn:Es. destruct (step_ok _ _ _ _ _ Es Hp) as [A B].
  cbn. split; [assumption|]. apply IH. assumption.
Qed.

Lemma run_read_only : forall dh r, read_only step dh (start r) (r_ops r).
Proof. intros dh r. apply all_read_only. apply start_ok. Qed.

Lemma run_unchanged : forall dh r, closed dh = true -> fst (run1 dh r) = dh.
Proof.
  intros dh r Hc. unfold run1. rewrite run_is_exec.
  pose proof (read_only_exec step (r_ops r) dh (start r) (run_read_only dh r)) as H.
  destruct (exec step dh (start r) (r_ops r)) as [dh1 p1]. cbn [fst snd] in *. subst dh1.
  apply finish_closed. assumption.
Qed.

Lemma history_all : forall rs dh, closed dh = true ->
  history dh rs = (dh, map (fun r => snd (run1 dh r)) rs).
Proof.
  intros rs dh Hc. apply history_unchanged. apply Forall_forall. intros r _. apply run_unchanged. assumption.
Qed.

Lemma rerun_all : forall rs dh i j r, closed dh = true ->
  nth_error rs i = Some r -> nth_error rs j = Some r ->
  nth_error (snd (history dh rs)) i = Some (snd (run1 dh r)) /\
  nth_error (snd (history dh rs)) j = Some (snd (run1 dh r)).
Proof.
  intros rs dh i j r Hc Hi Hj. apply rerun_equal; try assumption.
  apply Forall_forall. intros r0 _. apply run_unchanged. assumption.
Qed.

Lemma interleaving_all : forall dh (sch : list (nat * op)) (inits : nat -> list (string * tree)),
  let ps := fun t => init_ctx (inits t) empty_priv in
  fst (sched_run step dh ps sch) = dh /\
  forall t, snd (sched_run step dh ps sch) t = snd (run dh (ps t) (proj t sch)).
Proof.
  intros dh sch inits ps.
  assert (Hro : forall t, read_only step dh (ps t) (proj t sch)).
  { intro t. apply all_read_only. exact (start_ok (mkrun (inits t) [])). }
  destruct (interleaving step sch dh ps Hro) as [A B]. split; [exact A|].
  intro t. rewrite (run_is_exec (proj t sch) dh (ps t)). exact (B t).
Qed.
