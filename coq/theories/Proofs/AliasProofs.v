(** Proofs/AliasProofs.v — lemmas about the heap machine of Model/Alias.v (property C12). *)
From Coq Require Import List String Ascii ZArith Bool Arith Lia.
From PV Require Import Alias.
Import ListNotations.
Open Scope string_scope.
Open Scope list_scope.

(* ================================================================ A. interleaving *)
Section InterleaveProofs.
  Context {S Pv O : Type} (stp : S -> Pv -> O -> S * Pv).

  Lemma read_only_exec : forall ops s p,
    read_only stp s p ops -> fst (exec stp s p ops) = s.
  Proof.
    induction ops as [|o r IH]; intros s p H; cbn in *; [reflexivity|].
    destruct H as [H1 H2]. destruct (stp s p o) as [s1 p1] eqn:E. cbn in *. subst s1.
    apply IH. exact H2.
  Qed.

  Lemma proj_cons_same : forall t (o : O) r, proj t ((t, o) :: r) = o :: proj t r.
  Proof. intros. unfold proj. cbn. rewrite Nat.eqb_refl. reflexivity. Qed.

  Lemma proj_cons_other : forall t u (o : O) r, u <> t -> proj t ((u, o) :: r) = proj t r.
  Proof.
    intros. unfold proj. cbn. destruct (Nat.eqb u t) eqn:E; [apply Nat.eqb_eq in E; contradiction|reflexivity].
  Qed.

  (* under EVERY schedule, if each thread (alone) only reads the shared part, the shared part
     is untouched and each thread ends in the private state it reaches when run alone *)
  Theorem interleaving : forall sch s ps,
    (forall t, read_only stp s (ps t) (proj t sch)) ->
    fst (sched_run stp s ps sch) = s /\
    forall t, snd (sched_run stp s ps sch) t = snd (exec stp s (ps t) (proj t sch)).
  Proof.
    induction sch as [|[u o] r IH]; intros s ps H.
    - cbn. split; [reflexivity|]. intro t. reflexivity.
    - cbn [sched_run]. pose proof (H u) as Hu. rewrite proj_cons_same in Hu. cbn in Hu.
      destruct Hu as [Hs Hr]. destruct (stp s (ps u) o) as [s1 p1] eqn:E. cbn in Hs, Hr. subst s1.
      assert (H' : forall t, read_only stp s (set_thread u p1 ps t) (proj t r)).
      { intro t. unfold set_thread. destruct (Nat.eqb t u) eqn:Et.
        - apply Nat.eqb_eq in Et. subst t. exact Hr.
        - apply Nat.eqb_neq in Et. pose proof (H t) as Ht.
          rewrite proj_cons_other in Ht by congruence. exact Ht. }
      destruct (IH s _ H') as [I1 I2]. split; [exact I1|].
      intro t. rewrite I2. unfold set_thread. destruct (Nat.eqb t u) eqn:Et.
      + apply Nat.eqb_eq in Et. subst t. rewrite proj_cons_same. cbn. rewrite E. reflexivity.
      + apply Nat.eqb_neq in Et. rewrite proj_cons_other by congruence. reflexivity.
  Qed.
End InterleaveProofs.

(* ================================================================ B. histories *)
Lemma run_is_exec : forall ops dh p, run dh p ops = exec step dh p ops.
Proof. induction ops as [|o r IH]; intros; cbn; [reflexivity|]. destruct (step dh p o). apply IH. Qed.

(* if no run of the history changes the definition heap, every run yields exactly what it
   yields when it is the only run ever made *)
Lemma history_unchanged : forall rs dh,
  Forall (fun r => fst (run1 dh r) = dh) rs ->
  history dh rs = (dh, map (fun r => snd (run1 dh r)) rs).
Proof.
  induction rs as [|r rest IH]; intros dh H; cbn; [reflexivity|].
  inversion H as [|? ? H1 H2]; subst. destruct (run1 dh r) as [dh1 out] eqn:E. cbn in H1. subst dh1.
  rewrite (IH dh H2). reflexivity.
Qed.

Lemma rerun_equal : forall rs dh i j r,
  Forall (fun r => fst (run1 dh r) = dh) rs ->
  nth_error rs i = Some r -> nth_error rs j = Some r ->
  nth_error (snd (history dh rs)) i = Some (snd (run1 dh r)) /\
  nth_error (snd (history dh rs)) j = Some (snd (run1 dh r)).
Proof.
  intros rs dh i j r H Hi Hj. rewrite (history_unchanged rs dh H). cbn.
  split; [apply (map_nth_error (fun r => snd (run1 dh r)) i rs Hi)|apply (map_nth_error (fun r => snd (run1 dh r)) j rs Hj)].
Qed.

(* ================================================================ C. the invariant *)
Definition cellfree (c : cell) : bool := match c with CPtr (D _) => false | _ => true end.
Definition objfree (o : obj) : bool :=
  match o with
  | OList l => forallb cellfree l
  | ODict d => forallb (fun kc => cellfree (snd kc)) d
  end.
(* no object of the run's own heap points into the definition region *)
Definition heapfree (h : heap) : Prop := Forall (fun o => objfree o = true) h.
(* a key not in T is not bound to a definition object *)
Definition ctxfree (T : list string) (cx : list (string * cell)) : Prop :=
  forall k c, aget k cx = Some c -> tainted T k = false -> cellfree c = true.

Lemma tree_ind' (Q : tree -> Prop)
  (hi : forall z, Q (TInt z)) (hr : forall m k, Q (TRef m k))
  (hl : forall l, Forall Q l -> Q (TList l))
  (hd : forall d, Forall (fun kt => Q (snd kt)) d -> Q (TDict d)) : forall t, Q t.
Proof.
  fix IH 1. intro t. destruct t as [z|m k|l|d].
  - apply hi.
  - apply hr.
  - apply hl. induction l as [|x r IHl]; constructor; [apply IH|exact IHl].
  - apply hd. induction d as [|[k x] r IHd]; constructor; [apply IH|exact IHd].
Qed.

(* ---------------- association lists *)
Lemma aget_aset : forall A k k' (v : A) d,
  aget k (aset k' v d) = if String.eqb k k' then Some v else aget k d.
Proof.
  induction d as [|[k2 v2] r IH]; cbn.
  - destruct (String.eqb k k'); reflexivity.
  - destruct (String.eqb k' k2) eqn:E2; cbn.
    + apply String.eqb_eq in E2. subst k2. destruct (String.eqb k k'); reflexivity.
    + destruct (String.eqb k k2) eqn:E3.
      * apply String.eqb_eq in E3. subst k2. rewrite String.eqb_sym in E2. rewrite E2. reflexivity.
      * exact IH.
Qed.

Lemma aget_adel : forall A k k' (d : list (string * A)),
  aget k (adel k' d) = if String.eqb k k' then None else aget k d.
Proof.
  induction d as [|[k2 v2] r IH]; cbn.
  - destruct (String.eqb k k'); reflexivity.
  - destruct (String.eqb k' k2) eqn:E2.
    + apply String.eqb_eq in E2. subst k2. rewrite IH. destruct (String.eqb k k'); reflexivity.
    + cbn. destruct (String.eqb k k2) eqn:E3.
      * apply String.eqb_eq in E3. subst k2. rewrite String.eqb_sym in E2. rewrite E2. reflexivity.
      * exact IH.
Qed.

Lemma forallb_aset : forall (f : cell -> bool) k c d,
  forallb (fun kc => f (snd kc)) d = true -> f c = true ->
  forallb (fun kc : string * cell => f (snd kc)) (aset k c d) = true.
Proof.
  induction d as [|[k2 v2] r IH]; cbn; intros H Hc.
  - rewrite Hc. reflexivity.
  - apply andb_true_iff in H. destruct H as [H1 H2]. destruct (String.eqb k k2); cbn.
    + rewrite Hc, H2. reflexivity.
    + rewrite H1. cbn. apply IH; assumption.
Qed.

Lemma forallb_aget : forall (f : cell -> bool) k c d,
  forallb (fun kc : string * cell => f (snd kc)) d = true -> aget k d = Some c -> f c = true.
Proof.
  induction d as [|[k2 v2] r IH]; cbn; intros H Hg; [discriminate|].
  apply andb_true_iff in H. destruct H as [H1 H2]. destruct (String.eqb k k2).
  - inversion Hg; subst. exact H1.
  - apply IH; assumption.
Qed.

(* ---------------- heaps *)
Lemma Forall_upd : forall (Q : obj -> Prop) n o h, Forall Q h -> Q o -> Forall Q (upd n o h).
Proof.
  intros Q n o h. revert n. induction h as [|x r IH]; intros n H Ho; destruct n; cbn; try constructor;
    inversion H; subst; auto.
Qed.

Lemma Forall_nth : forall (Q : obj -> Prop) n o h, Forall Q h -> nth_error h n = Some o -> Q o.
Proof. intros Q n o h H Hn. rewrite Forall_forall in H. apply H. eapply nth_error_In. exact Hn. Qed.

Lemma heapfree_app : forall h o, heapfree h -> objfree o = true -> heapfree (h ++ [o]).
Proof. intros. apply Forall_app. split; [assumption|constructor; [assumption|constructor]]. Qed.

(* ---------------- taint sets *)
Lemma tainted_taint_false : forall T k k2,
  tainted (taint k T) k2 = false -> String.eqb k2 k = false /\ tainted T k2 = false.
Proof.
  intros T k k2 H. unfold taint in H. destruct (tainted T k) eqn:E.
  - split; [|exact H]. destruct (String.eqb k2 k) eqn:E2; [|reflexivity].
    apply String.eqb_eq in E2. subst. congruence.
  - unfold tainted in H. cbn in H. apply orb_false_iff in H. exact H.
Qed.

Lemma tainted_untaint_false : forall T k k2,
  tainted (untaint k T) k2 = false -> String.eqb k2 k = true \/ tainted T k2 = false.
Proof.
  induction T as [|x r IH]; intros k k2 H; cbn in *; [right; reflexivity|].
  destruct (String.eqb k x) eqn:E; cbn in H.
  - apply String.eqb_eq in E. subst x. destruct (String.eqb k2 k) eqn:E2; [left; reflexivity|].
    unfold tainted. cbn. unfold tainted in IH. destruct (IH k k2 H) as [C|C]; [congruence|right; exact C].
  - unfold tainted in *. cbn in *. apply orb_false_iff in H. destruct H as [H1 H2]. rewrite H1. cbn.
    apply IH. exact H2.
Qed.

Lemma ctxfree_set_untaint : forall T cx k c,
  ctxfree T cx -> cellfree c = true -> ctxfree (untaint k T) (aset k c cx).
Proof.
  intros T cx k c H Hc k2 c2 Hg Ht. rewrite aget_aset in Hg. destruct (String.eqb k2 k) eqn:E.
  - inversion Hg; subst. exact Hc.
  - destruct (tainted_untaint_false _ _ _ Ht) as [C|C]; [congruence|]. eapply H; eassumption.
Qed.

Lemma ctxfree_set_taint : forall T cx k c, ctxfree T cx -> ctxfree (taint k T) (aset k c cx).
Proof.
  intros T cx k c H k2 c2 Hg Ht. destruct (tainted_taint_false _ _ _ Ht) as [E Ht2].
  rewrite aget_aset, E in Hg. eapply H; eassumption.
Qed.

Lemma ctxfree_taint : forall T cx k, ctxfree T cx -> ctxfree (taint k T) cx.
Proof.
  intros T cx k H k2 c2 Hg Ht. destruct (tainted_taint_false _ _ _ Ht) as [E Ht2]. eapply H; eassumption.
Qed.

Lemma ctxfree_set : forall T cx k c, ctxfree T cx -> cellfree c = true -> ctxfree T (aset k c cx).
Proof.
  intros T cx k c H Hc k2 c2 Hg Ht. rewrite aget_aset in Hg. destruct (String.eqb k2 k).
  - inversion Hg; subst. exact Hc.
  - eapply H; eassumption.
Qed.

Lemma ctxfree_del : forall T cx k, ctxfree T cx -> ctxfree (untaint k T) (adel k cx).
Proof.
  intros T cx k H k2 c2 Hg Ht. rewrite aget_adel in Hg. destruct (String.eqb k2 k) eqn:E; [discriminate|].
  destruct (tainted_untaint_false _ _ _ Ht) as [C|C]; [congruence|]. eapply H; eassumption.
Qed.

(* ---------------- deep copy creates only private pointers *)
Definition memo_ok (m : memo) : Prop :=
  Forall (fun ab : id * id => match snd ab with P _ => True | D _ => False end) m.

Lemma mfind_ok : forall m i j, memo_ok m -> mfind i m = Some j -> cellfree (CPtr j) = true.
Proof.
  induction m as [|[a b] r IH]; cbn; intros i j H Hf; [discriminate|].
  inversion H; subst. destruct (id_eqb i a).
  - inversion Hf; subst. cbn in *. destruct j; [contradiction|reflexivity].
  - eapply IH; eassumption.
Qed.

Section CopyOk.
  Context (go : heap -> memo -> cell -> option (heap * memo * cell)).
  Hypothesis go_ok : forall h m c h' m' c', go h m c = Some (h', m', c') ->
    heapfree h -> memo_ok m -> heapfree h' /\ memo_ok m' /\ cellfree c' = true.

  Lemma copy_cells_ok : forall l h m h' m' cs, copy_cells go l h m = Some (h', m', cs) ->
    heapfree h -> memo_ok m -> heapfree h' /\ memo_ok m' /\ forallb cellfree cs = true.
  Proof.
    induction l as [|c r IH]; cbn; intros h m h' m' cs H Hh Hm.
    - inversion H; subst. auto.
    - destruct (go h m c) as [[[h1 m1] c1]|] eqn:E; [|discriminate].
      destruct (go_ok _ _ _ _ _ _ E Hh Hm) as [A [B C]].
      destruct (copy_cells go r h1 m1) as [[[h2 m2] cs2]|] eqn:E2; [|discriminate].
      inversion H; subst. destruct (IH _ _ _ _ _ E2 A B) as [A2 [B2 C2]].
      cbn. rewrite C, C2. auto.
  Qed.

  Lemma copy_pairs_ok : forall l h m h' m' cs, copy_pairs go l h m = Some (h', m', cs) ->
    heapfree h -> memo_ok m ->
    heapfree h' /\ memo_ok m' /\ forallb (fun kc : string * cell => cellfree (snd kc)) cs = true.
  Proof.
    induction l as [|[k c] r IH]; cbn; intros h m h' m' cs H Hh Hm.
    - inversion H; subst. auto.
    - destruct (go h m c) as [[[h1 m1] c1]|] eqn:E; [|discriminate].
      destruct (go_ok _ _ _ _ _ _ E Hh Hm) as [A [B C]].
      destruct (copy_pairs go r h1 m1) as [[[h2 m2] cs2]|] eqn:E2; [|discriminate].
      inversion H; subst. destruct (IH _ _ _ _ _ E2 A B) as [A2 [B2 C2]].
      cbn. rewrite C, C2. auto.
  Qed.
End CopyOk.

Lemma copy_ok : forall fuel dh h m c h' m' c', copy fuel dh h m c = Some (h', m', c') ->
  heapfree h -> memo_ok m -> heapfree h' /\ memo_ok m' /\ cellfree c' = true.
Proof.
  induction fuel as [|f IH]; intros dh h m c h' m' c' H Hh Hm; destruct c as [z|i]; cbn in H.
  - inversion H; subst. auto.
  - destruct (mfind i m) as [j|] eqn:Ef; [|discriminate]. inversion H; subst.
    split; [assumption|]. split; [assumption|]. eapply mfind_ok; eassumption.
  - inversion H; subst. auto.
  - destruct (mfind i m) as [j|] eqn:Ef.
    + inversion H; subst. split; [assumption|]. split; [assumption|]. eapply mfind_ok; eassumption.
    + destruct (hget dh h i) as [[l|d]|]; [| |discriminate].
      * destruct (copy_cells (copy f dh) l h m) as [[[h1 m1] cs]|] eqn:E; [|discriminate].
        inversion H; subst.
        destruct (copy_cells_ok (copy f dh) (fun h m c h' m' c' => IH dh h m c h' m' c') _ _ _ _ _ _ E Hh Hm)
          as [A [B C]].
        split; [apply heapfree_app; assumption|]. split; [constructor; [exact I|assumption]|reflexivity].
      * destruct (copy_pairs (copy f dh) d h m) as [[[h1 m1] cs]|] eqn:E; [|discriminate].
        inversion H; subst.
        destruct (copy_pairs_ok (copy f dh) (fun h m c h' m' c' => IH dh h m c h' m' c') _ _ _ _ _ _ E Hh Hm)
          as [A [B C]].
        split; [apply heapfree_app; assumption|]. split; [constructor; [exact I|assumption]|reflexivity].
Qed.

(* ---------------- formatting allocates only private, definition-free objects *)
Definition fmt_spec (T : list string) (f : tree -> priv -> priv * cell) (t : tree) : Prop :=
  forall p p' c, f t p = (p', c) ->
    ctx p' = ctx p /\ trace p' = trace p /\
    (heapfree (ph p) -> ctxfree T (ctx p) -> byref_tainted T t = false -> running p' = true ->
     heapfree (ph p') /\ cellfree c = true).

Lemma fmt_cells_ok : forall T f l, Forall (fmt_spec T f) l ->
  forall p p' cs, fmt_cells f l p = (p', cs) ->
    ctx p' = ctx p /\ trace p' = trace p /\
    (heapfree (ph p) -> ctxfree T (ctx p) -> existsb (byref_tainted T) l = false -> running p' = true ->
     heapfree (ph p') /\ forallb cellfree cs = true).
Proof.
  intros T f l H. induction H as [|t r Ht Hr IH]; intros p p' cs E; cbn in E.
  - inversion E; subst. repeat split; auto.
  - destruct (f t p) as [p1 c] eqn:E1. destruct (Ht _ _ _ E1) as [A [B C]].
    destruct (running p1) eqn:R1.
    + destruct (fmt_cells f r p1) as [p2 cs2] eqn:E2. inversion E; subst.
      destruct (IH _ _ _ E2) as [A2 [B2 C2]].
      split; [congruence|]. split; [congruence|].
      intros Hh Hc Hb Hr'. cbn in Hb. apply orb_false_iff in Hb. destruct Hb as [Hb1 Hb2].
      destruct (C Hh Hc Hb1 eq_refl) as [Hh1 Hc1].
      rewrite <- A in Hc. destruct (C2 Hh1 Hc Hb2 Hr') as [Hh2 Hcs].
      split; [assumption|]. cbn. rewrite Hc1, Hcs. reflexivity.
    + inversion E; subst. split; [assumption|]. split; [assumption|].
      intros _ _ _ Hr'. congruence.
Qed.

Lemma fmt_pairs_ok : forall T f l, Forall (fun kt => fmt_spec T f (snd kt)) l ->
  forall p p' cs, fmt_pairs f l p = (p', cs) ->
    ctx p' = ctx p /\ trace p' = trace p /\
    (heapfree (ph p) -> ctxfree T (ctx p) ->
     existsb (fun kt => byref_tainted T (snd kt)) l = false -> running p' = true ->
     heapfree (ph p') /\ forallb (fun kc : string * cell => cellfree (snd kc)) cs = true).
Proof.
  intros T f l H. induction H as [|[k t] r Ht Hr IH]; intros p p' cs E; cbn in E.
  - inversion E; subst. repeat split; auto.
  - cbn in Ht. destruct (f t p) as [p1 c] eqn:E1. destruct (Ht _ _ _ E1) as [A [B C]].
    destruct (running p1) eqn:R1.
    + destruct (fmt_pairs f r p1) as [p2 cs2] eqn:E2. inversion E; subst.
      destruct (IH _ _ _ E2) as [A2 [B2 C2]].
      split; [congruence|]. split; [congruence|].
      intros Hh Hc Hb Hr'. cbn in Hb. apply orb_false_iff in Hb. destruct Hb as [Hb1 Hb2].
      destruct (C Hh Hc Hb1 eq_refl) as [Hh1 Hc1].
      rewrite <- A in Hc. destruct (C2 Hh1 Hc Hb2 Hr') as [Hh2 Hcs].
      split; [assumption|]. cbn. rewrite Hc1, Hcs. reflexivity.
    + inversion E; subst. split; [assumption|]. split; [assumption|].
      intros _ _ _ Hr'. congruence.
Qed.

Lemma fmt_ok : forall T fuel dh t, fmt_spec T (fmt fuel dh) t.
Proof.
  intros T fuel dh. induction t as [z|m k|l IH|d IH] using tree_ind'; intros p p' c E; cbn [fmt] in E.
  - inversion E; subst. repeat split; auto.
  - destruct (aget k (ctx p)) as [c0|] eqn:Eg.
    + destruct m.
      * destruct (copy fuel dh (ph p) [] c0) as [[[h m'] c']|] eqn:Ec; inversion E; subst; cbn.
        -- split; [reflexivity|]. split; [reflexivity|]. intros Hh _ _ _.
           destruct (copy_ok _ _ _ _ _ _ _ _ Ec Hh (Forall_nil _)) as [A [_ C]]. auto.
        -- split; [reflexivity|]. split; [reflexivity|]. intros _ _ _ R. discriminate.
      * inversion E; subst. split; [reflexivity|]. split; [reflexivity|].
        intros Hh Hc Hb _. cbn in Hb. split; [assumption|]. eapply Hc; eassumption.
      * inversion E; subst. split; [reflexivity|]. split; [reflexivity|].
        intros Hh Hc Hb _. cbn in Hb. split; [assumption|]. eapply Hc; eassumption.
    + inversion E; subst. cbn. split; [reflexivity|]. split; [reflexivity|]. intros _ _ _ R. discriminate.
  - destruct (fmt_cells (fmt fuel dh) l p) as [p1 cs] eqn:E1.
    destruct (fmt_cells_ok T _ _ IH _ _ _ E1) as [A [B C]].
    destruct (running p1) eqn:R1.
    + unfold alloc in E. inversion E; subst. cbn. split; [assumption|]. split; [assumption|].
      intros Hh Hc Hb _. cbn in Hb. destruct (C Hh Hc Hb eq_refl) as [Hh1 Hcs].
      split; [apply heapfree_app; assumption|reflexivity].
    + inversion E; subst. split; [assumption|]. split; [assumption|]. intros _ _ _ R. congruence.
  - destruct (fmt_pairs (fmt fuel dh) d p) as [p1 cs] eqn:E1.
    destruct (fmt_pairs_ok T _ _ IH _ _ _ E1) as [A [B C]].
    destruct (running p1) eqn:R1.
    + unfold alloc in E. inversion E; subst. cbn. split; [assumption|]. split; [assumption|].
      intros Hh Hc Hb _. cbn in Hb. destruct (C Hh Hc Hb eq_refl) as [Hh1 Hcs].
      split; [apply heapfree_app; assumption|reflexivity].
    + inversion E; subst. split; [assumption|]. split; [assumption|]. intros _ _ _ R. congruence.
Qed.
