(** Proofs/AliasProofs.v — placeholder, to be written. *)
