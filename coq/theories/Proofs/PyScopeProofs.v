(** Proofs/PyScopeProofs.v — placeholder, to be written. *)
