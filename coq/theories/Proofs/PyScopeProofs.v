(** Proofs/PyScopeProofs.v — lemmas about Model/PyScope.v (C14). *)
From PV Require Import PyScope.
From Coq Require Import Lia.
Open Scope string_scope.
Open Scope list_scope.

(** * Namespaces *)
Lemma ns_get_set_same k v d : ns_get k (ns_set k v d) = Some v.
Proof.
  induction d as [|[k' v'] r IH]; simpl.
  - now rewrite String.eqb_refl.
  - destruct (String.eqb k k') eqn:E; simpl; rewrite E; auto.
Qed.

Lemma ns_get_set_other k k' v d : k <> k' -> ns_get k (ns_set k' v d) = ns_get k d.
Proof.
  intros N. induction d as [|[k2 v2] r IH]; simpl.
  - apply String.eqb_neq in N. now rewrite N.
  - destruct (String.eqb k' k2) eqn:E; simpl.
    + apply String.eqb_eq in E; subst k2. apply String.eqb_neq in N. now rewrite N.
    + now rewrite IH.
Qed.

Lemma ns_keys_set k k' v d : In k (ns_keys (ns_set k' v d)) <-> k = k' \/ In k (ns_keys d).
Proof.
  induction d as [|[k2 v2] r IH]; simpl.
  - intuition.
  - destruct (String.eqb k' k2) eqn:E; simpl.
    + apply String.eqb_eq in E; subst k2. intuition.
    + rewrite IH. intuition.
Qed.

Lemma ns_update_cons c k v d : ns_update c ((k, v) :: d) = ns_update (ns_set k v c) d.
Proof. reflexivity. Qed.

Lemma ns_get_update_notin k d : forall c, ~ In k (ns_keys d) -> ns_get k (ns_update c d) = ns_get k c.
Proof.
  induction d as [|[k' v'] r IH]; intros c N; [reflexivity|].
  rewrite ns_update_cons, IH.
  - apply ns_get_set_other. intros ->. apply N. now left.
  - intros H. apply N. now right.
Qed.

Lemma ns_keys_update k d : forall c, In k (ns_keys (ns_update c d)) <-> In k (ns_keys c) \/ In k (ns_keys d).
Proof.
  induction d as [|[k' v'] r IH]; intros c.
  - unfold ns_update; simpl. intuition.
  - rewrite ns_update_cons, IH, ns_keys_set. simpl. intuition.
Qed.

(** applying a sequence of save() dicts to a context *)
Definition apply_saves (c : ns) (ds : list ns) : ns := fold_left ns_update ds c.

Lemma apply_saves_app c d1 d2 : apply_saves c (d1 ++ d2) = apply_saves (apply_saves c d1) d2.
Proof. unfold apply_saves. now rewrite fold_left_app. Qed.

Lemma apply_saves_get_untouched k ds : forall c,
  (forall d, In d ds -> ~ In k (ns_keys d)) -> ns_get k (apply_saves c ds) = ns_get k c.
Proof.
  induction ds as [|d r IH]; intros c H; [reflexivity|].
  simpl. rewrite IH.
  - apply ns_get_update_notin. apply H. now left.
  - intros d' Hd. apply H. now right.
Qed.

Lemma apply_saves_keys k ds : forall c,
  In k (ns_keys (apply_saves c ds)) -> In k (ns_keys c) \/ exists d, In d ds /\ In k (ns_keys d).
Proof.
  induction ds as [|d r IH]; intros c H; [now left|].
  simpl in H. apply IH in H. destruct H as [H|[d' [Hd Hk]]].
  - apply ns_keys_update in H. destruct H; [now left|]. right. exists d. split; [now left|assumption].
  - right. exists d'. split; [now right|assumption].
Qed.

(** * The frame relation for expression evaluation: context, save log and imports untouched *)
Definition same_ctx (s s' : state) : Prop := ctx s' = ctx s /\ saves s' = saves s /\ imps s' = imps s.

Lemma same_refl s : same_ctx s s.
Proof. repeat split. Qed.

Lemma same_trans a b c : same_ctx a b -> same_ctx b c -> same_ctx a c.
Proof. unfold same_ctx. intros (A1 & A2 & A3) (B1 & B2 & B3). repeat split; congruence. Qed.

Definition sound {A} (m : M A) : Prop := forall s r s', m s = (r, s') -> same_ctx s s'.

Lemma sound_ret {A} (a : A) : sound (ret a).
Proof. intros s r s' H. inversion H. apply same_refl. Qed.
Lemma sound_raise {A} n m : sound (@raise A n m).
Proof. intros s r s' H. inversion H. apply same_refl. Qed.
Lemma sound_unsup {A} : sound (@unsup A).
Proof. intros s r s' H. inversion H. apply same_refl. Qed.
Lemma sound_get_st : sound get_st.
Proof. intros s r s' H. inversion H. apply same_refl. Qed.

Lemma sound_bind {A B} (m : M A) (f : A -> M B) : sound m -> (forall a, sound (f a)) -> sound (bindM m f).
Proof.
  intros Hm Hf s r s' H. unfold bindM in H.
  destruct (m s) as [[a|n msg|] s1] eqn:E.
  - eapply same_trans; [eapply Hm; eauto|eapply Hf; eauto].
  - inversion H; subst. eapply Hm; eauto.
  - inversion H; subst. eapply Hm; eauto.
Qed.

Lemma sound_modify f : (forall s, same_ctx s (f s)) -> sound (modify f).
Proof. intros Hf s r s' H. inversion H. apply Hf. Qed.

Lemma sound_apply {A} (m : M A) s r s' : sound m -> m s = (r, s') -> same_ctx s s'.
Proof. intros H E. eapply H; eauto. Qed.

Lemma same_set_g s c : same_ctx s (set_g c s).   Proof. repeat split. Qed.
Lemma same_set_cns s c : same_ctx s (set_cns c s). Proof. repeat split. Qed.
Lemma same_set_nsd s c : same_ctx s (set_nsd c s). Proof. repeat split. Qed.
Lemma same_set_frames s c : same_ctx s (set_frames c s). Proof. repeat split. Qed.
Lemma same_set_heap s c : same_ctx s (set_heap c s). Proof. repeat split. Qed.
Lemma same_set_scr s c : same_ctx s (set_scr c s). Proof. repeat split. Qed.
Lemma same_set_loaded s c : same_ctx s (set_loaded c s). Proof. repeat split. Qed.
#[global] Hint Resolve same_refl same_set_g same_set_cns same_set_nsd same_set_frames same_set_heap same_set_scr same_set_loaded : same.

(** functions of the form [fun s => match .. with .. => (r, s) | .. => m s end] *)
Ltac split_state H :=
  repeat match type of H with
         | context [match ?x with _ => _ end] => destruct x eqn:?
         | context [if ?x then _ else _] => destruct x eqn:?
         end.

Ltac pure_sound :=
  let s := fresh "s" in let r := fresh "r" in let s' := fresh "s'" in let H := fresh "H" in
  intros s r s' H; cbv beta in H; split_state H;
  try (inversion H; subst; auto with same; fail).

Ltac state_cases tac :=
  let s := fresh "s" in let r := fresh "r" in let s' := fresh "s'" in let H := fresh "H" in
  intros s r s' H; cbv beta in H; split_state H;
  first [ solve [inversion H; subst; auto with same] | revert H; tac ].

Lemma sound_load_global E x : sound (load_global E x).
Proof. unfold load_global, from_builtins. pure_sound. Qed.
Lemma sound_load_name E x : sound (load_name E x).
Proof. unfold load_name, from_builtins. pure_sound. Qed.

Lemma sound_load_var E x : sound (load_var E x).
Proof.
  unfold load_var. intros s r s' H. split_state H; try (inversion H; subst; auto with same; fail).
  - eapply sound_load_global; eauto.
  - eapply sound_load_name; eauto.
Qed.

Lemma sound_alloc o : sound (alloc o).
Proof. unfold alloc. pure_sound. Qed.
Lemma sound_heap_extend r vs : sound (heap_extend r vs).
Proof. unfold heap_extend. pure_sound. Qed.
Lemma sound_bind_local x v : sound (bind_local x v).
Proof. unfold bind_local. pure_sound. Qed.

Lemma sound_bin_add a b : sound (bin_add a b).
Proof.
  unfold bin_add. destruct a, b; try (destruct (as_int _); try destruct (as_int _));
    try apply sound_ret; try apply sound_raise.
  intros s r s' H. split_state H; try (inversion H; subst; auto with same; fail).
  all: revert H; apply sound_bind; [apply sound_alloc|intros; apply sound_ret].
Qed.

Lemma sound_do_binop op a b : sound (do_binop op a b).
Proof.
  destruct op; simpl.
  - apply sound_bin_add.
  - pure_sound.
  - destruct a, b; try (destruct (as_int _); try destruct (as_int _));
      try apply sound_ret; try apply sound_raise; pure_sound.
Qed.

Lemma sound_inplace_add a b : sound (inplace_add a b).
Proof.
  unfold inplace_add. destruct a; try apply sound_bin_add.
  destruct b; try apply sound_bin_add.
  - pure_sound.
  - intros s r s' H. split_state H; try (inversion H; subst; auto with same; fail).
    all: revert H; apply sound_bind; [apply sound_heap_extend|intros; apply sound_ret].
Qed.

Lemma sound_call_native n vs : sound (call_native n vs).
Proof.
  unfold call_native.
  repeat match goal with
         | |- sound (if ?c then _ else _) => destruct c
         | |- sound (match ?x with _ => _ end) => destruct x
         end;
    try apply sound_ret; try apply sound_raise; try apply sound_unsup;
    try (apply sound_bind; [apply sound_alloc|intros; apply sound_ret]);
    try (state_cases ltac:(apply sound_bind; [apply sound_alloc|intros; apply sound_ret])).
Qed.

Lemma sound_get_attr E v a : sound (get_attr E v a).
Proof.
  unfold get_attr. destruct v;
    repeat match goal with
           | |- sound (if ?c then _ else _) => destruct c
           | |- sound (match ?x with _ => _ end) => destruct x
           end;
    try apply sound_ret; try apply sound_raise; try apply sound_unsup; pure_sound.
Qed.

Lemma sound_check_list v : sound (check_list v).
Proof.
  unfold check_list. destruct v;
    repeat match goal with
           | |- sound (if ?c then _ else _) => destruct c
           end;
    try apply sound_ret; try apply sound_raise; try apply sound_unsup; pure_sound.
Qed.

Lemma sound_eval_list (ev1 : expr -> M value) es :
  (forall e, In e es -> sound (ev1 e)) -> sound (eval_list ev1 es).
Proof.
  induction es as [|e r IH]; intros H; simpl; [apply sound_ret|].
  apply sound_bind; [apply H; now left|intros v].
  apply sound_bind; [apply IH; intros e' He'; apply H; now right|intros; apply sound_ret].
Qed.

Lemma sound_loop_list n : forall r idx body, (forall v, sound (body v)) -> sound (loop_list n r idx body).
Proof.
  induction n as [|n IH]; intros r idx body Hb; simpl; [apply sound_unsup|].
  intros s res s' H. split_state H; try (inversion H; subst; auto with same; fail).
  revert H. apply sound_bind; [apply Hb|intros; apply IH; assumption].
Qed.

Lemma sound_iterate lb v body : (forall x, sound (body x)) -> sound (iterate lb v body).
Proof.
  intros Hb. unfold iterate. destruct v; try apply sound_raise; try apply sound_unsup.
  intros s res s' H. split_state H; try (inversion H; subst; auto with same; fail).
  revert H. apply sound_loop_list; assumption.
Qed.

Lemma sound_comp_rest (ev1 : expr -> M value) lb cl : forall emit,
  (forall c, In c cl -> sound (ev1 (snd c))) -> sound emit -> sound (comp_rest ev1 lb cl emit).
Proof.
  induction cl as [|[x it] r IH]; intros emit H He; simpl; [assumption|].
  apply sound_bind; [apply (H (x, it)); now left|intros v].
  apply sound_iterate. intros item.
  apply sound_bind; [apply sound_bind_local|intros _].
  apply IH; [intros c Hc; apply H; now right|assumption].
Qed.

(** * Generic soundness of expression evaluation.
    [okE E e]: the static situation in which [e] is evaluated under [E] never reaches the
    context through a store.  Instantiated twice below (exec: always; eval: no module-level [:=]). *)
Section EvalSound.
  Variable okE : env -> expr -> Prop.
  Hypothesis ok_walrus : forall E x e1, okE E (XWalrus x e1) -> (forall v, sound (store_var E x v)) /\ okE E e1.
  Hypothesis ok_bin : forall E op a b, okE E (XBin op a b) -> okE E a /\ okE E b.
  Hypothesis ok_list : forall E es, okE E (XList es) -> forall e, In e es -> okE E e.
  Hypothesis ok_lam : forall E ps body args, okE E (XLam ps body args) ->
    (forall e, In e args -> okE E e) /\ okE (in_function E) body.
  Hypothesis ok_comp : forall E elt cl, okE E (XComp elt cl) ->
    let E' := if cls E then in_function E else E in
    (forall c, In c cl -> okE E (snd c) /\ okE E' (snd c)) /\ okE E' elt.
  Hypothesis ok_call : forall E f args, okE E (XCall f args) -> okE E f /\ (forall e, In e args -> okE E e).
  Hypothesis ok_fn_body : forall E f args body, okE E (XCall f args) -> okE (in_function E) body.
  Hypothesis ok_attr : forall E e a, okE E (XAttr e a) -> okE E e.
  Hypothesis ok_append : forall E l x, okE E (XAppend l x) -> okE E l /\ okE E x.

  Lemma sound_call_lambda ev E ps body vs :
    sound (ev (in_function E) body) -> sound (call_lambda ev E ps body vs).
  Proof.
    intros H. unfold call_lambda. destruct (negb _); [apply sound_raise|].
    apply sound_bind; [apply sound_modify; auto with same|intros _].
    apply sound_bind; [assumption|intros v].
    apply sound_bind; [apply sound_modify; auto with same|intros _; apply sound_ret].
  Qed.

  Lemma sound_call_def ev E ps body vs :
    sound (ev (in_function E) body) -> sound (call_def ev E ps body vs).
  Proof.
    intros H. unfold call_def. destruct (negb _); [apply sound_raise|].
    apply sound_bind; [apply sound_get_st|intros s0].
    apply sound_bind; [apply sound_modify; auto with same|intros _].
    apply sound_bind; [assumption|intros v].
    apply sound_bind; [apply sound_modify; auto with same|intros _; apply sound_ret].
  Qed.

  Lemma sound_apply_value ev E fv vs :
    (forall body, sound (ev (in_function E) body)) -> sound (apply_value ev E fv vs).
  Proof.
    intros H. unfold apply_value. destruct fv; try apply sound_raise.
    - apply sound_call_native.
    - intros s r s' Hr. split_state Hr; try (inversion Hr; subst; auto with same; fail).
      revert Hr. apply sound_call_def. apply H.
  Qed.

  Lemma sound_eval_comp ev lb E elt cl :
    (forall E' e, okE E' e -> sound (ev E' e)) -> okE E (XComp elt cl) -> sound (eval_comp ev lb E elt cl).
  Proof.
    intros Hev Hok. apply ok_comp in Hok. cbv zeta in Hok. destruct Hok as [Hcl Helt].
    unfold eval_comp. destruct cl as [|[x1 it1] rest]; [apply sound_unsup|].
    apply sound_bind; [apply Hev; apply (Hcl (x1, it1)); now left|intros v1].
    apply sound_bind; [apply sound_alloc|intros r].
    apply sound_bind; [apply sound_modify; auto with same|intros _].
    apply sound_bind.
    - apply sound_iterate. intros item.
      apply sound_bind; [apply sound_bind_local|intros _].
      apply sound_comp_rest.
      + intros c Hc. apply Hev. apply Hcl. now right.
      + apply sound_bind; [apply Hev; assumption|intros v; apply sound_heap_extend].
    - intros _. apply sound_bind; [apply sound_modify; auto with same|intros _; apply sound_ret].
  Qed.

  Theorem sound_eval : forall fuel E e, okE E e -> sound (eval fuel E e).
  Proof.
    induction fuel as [|f IH]; intros E e Hok; [apply sound_unsup|].
    destruct e as [ | b0 | z | s0 | x | op a b | es | ps body args | elt cl | x e1 | fe args | e1 a | l x ]; cbn [eval].
    - apply sound_ret.
    - apply sound_ret.
    - apply sound_ret.
    - apply sound_ret.
    - apply sound_load_var.
    - apply ok_bin in Hok. destruct Hok.
      apply sound_bind; [apply IH; assumption|intros va].
      apply sound_bind; [apply IH; assumption|intros vb]. apply sound_do_binop.
    - apply sound_bind.
      + apply sound_eval_list. intros e0 He. apply IH. eapply ok_list; eauto.
      + intros vs. apply sound_bind; [apply sound_alloc|intros; apply sound_ret].
    - apply ok_lam in Hok. destruct Hok as [Ha Hb].
      apply sound_bind.
      + apply sound_eval_list. intros e0 He. apply IH. auto.
      + intros vs. apply sound_call_lambda. apply IH. assumption.
    - apply sound_eval_comp; [intros; apply IH|]; assumption.
    - apply ok_walrus in Hok. destruct Hok as [Hs He].
      apply sound_bind; [apply IH; assumption|intros v].
      apply sound_bind; [apply Hs|intros; apply sound_ret].
    - pose proof (fun body => ok_fn_body E fe args body Hok) as Hbody. apply ok_call in Hok. destruct Hok as [Hf Ha].
      apply sound_bind; [apply IH; assumption|intros fv].
      apply sound_bind.
      + apply sound_eval_list. intros e' He'. apply IH. auto.
      + intros vs. apply sound_apply_value. intros body. apply IH. apply Hbody.
    - apply ok_attr in Hok.
      apply sound_bind; [apply IH; assumption|intros v; apply sound_get_attr].
    - apply ok_append in Hok. destruct Hok.
      apply sound_bind; [apply IH; assumption|intros lv].
      apply sound_bind; [apply sound_check_list|intros r].
      apply sound_bind; [apply IH; assumption|intros xv].
      apply sound_bind; [apply sound_heap_extend|intros; apply sound_ret].
  Qed.
End EvalSound.

(** * No store of the fragment reaches the context: STORE_NAME goes to the class namespace, the
    per-evaluation scratch map (eval) or the globals copy (exec); STORE_GLOBAL to the dict part of
    the per-evaluation namespace object (eval) or the globals copy (exec). *)
Lemma sound_store_var E x v : sound (store_var E x v).
Proof.
  unfold store_var, store_global, store_name.
  intros s r s' H. split_state H; inversion H; subst; auto with same.
Qed.

Theorem sound_eval_all : forall fuel E e, sound (eval fuel E e).
Proof.
  intros fuel E e.
  apply (sound_eval (fun _ _ => True)); auto; clear.
  intros E x e1 _. split; [intros v; apply sound_store_var|exact I].
Qed.

Lemma sound_store_var_plain E x v : gk E = GPlain -> sound (store_var E x v).
Proof. intros _. apply sound_store_var. Qed.

Theorem sound_eval_plain : forall fuel E e, gk E = GPlain -> sound (eval fuel E e).
Proof. intros fuel E e _. apply sound_eval_all. Qed.

(** * Top-level statements about [run_eval] *)
Lemma same_fresh_l s s' : same_ctx (fresh_namespace s) s' -> same_ctx s s'.
Proof. unfold same_ctx. simpl. auto. Qed.
Lemma same_fresh_r s s' : same_ctx s s' -> same_ctx s (fresh_namespace s').
Proof. unfold same_ctx. simpl. auto. Qed.

Theorem run_eval_frame mt b e s : same_ctx s (snd (run_eval mt b e s)).
Proof.
  unfold run_eval. destruct (wf_expr _ _ _ e); [|apply same_refl].
  destruct (eval FUEL (eval_env mt b e) e (fresh_namespace s)) as [r s'] eqn:E. simpl.
  apply same_fresh_r, same_fresh_l. eapply sound_eval_all; exact E.
Qed.

(** nothing of one evaluation's namespace object is left for the next *)
Theorem run_eval_namespace_dropped mt b e s :
  wf_expr [] false false e = true ->
  scr (snd (run_eval mt b e s)) = [] /\ nsd (snd (run_eval mt b e s)) = [].
Proof.
  intros W. unfold run_eval. rewrite W.
  destruct (eval FUEL (eval_env mt b e) e (fresh_namespace s)) as [r s']. split; reflexivity.
Qed.

(** * Statements of a py block *)

(** names a statement may hand to save() *)
Definition stmt_targets (st : stmt) : list string :=
  match st with SSave names kws => names ++ map fst kws | _ => [] end.

Definition step_rel (T : list string) (s s' : state) : Prop :=
  exists ds, saves s' = saves s ++ ds /\ ctx s' = apply_saves (ctx s) ds
             /\ Forall (fun d => incl (ns_keys d) T) ds /\ imps s' = imps s.

Lemma step_refl T s : step_rel T s s.
Proof. exists []. rewrite app_nil_r. repeat split. constructor. Qed.

Lemma step_of_same T s s' : same_ctx s s' -> step_rel T s s'.
Proof. intros (A & B & C). exists []. rewrite app_nil_r. repeat split; auto. Qed.

Lemma step_trans T a b c : step_rel T a b -> step_rel T b c -> step_rel T a c.
Proof.
  intros (d1 & A1 & A2 & A3 & A4) (d2 & B1 & B2 & B3 & B4). exists (d1 ++ d2).
  repeat split.
  - rewrite B1, A1. now rewrite app_assoc.
  - rewrite B2, A2. now rewrite apply_saves_app.
  - apply Forall_app. split; assumption.
  - congruence.
Qed.

Lemma step_mono T T' s s' : incl T T' -> step_rel T s s' -> step_rel T' s s'.
Proof.
  intros I (ds & A & B & C & D). exists ds. repeat split; auto.
  eapply Forall_impl; [|exact C]. intros d Hd k Hk. apply I. apply Hd. exact Hk.
Qed.

Definition ssound (T : list string) {A} (m : M A) : Prop := forall s r s', m s = (r, s') -> step_rel T s s'.

Lemma ssound_of_sound T {A} (m : M A) : sound m -> ssound T m.
Proof. intros H s r s' E. apply step_of_same. eapply H; eauto. Qed.

Lemma ssound_bind T {A B} (m : M A) (f : A -> M B) :
  ssound T m -> (forall a, ssound T (f a)) -> ssound T (bindM m f).
Proof.
  intros Hm Hf s r s' H. unfold bindM in H.
  destruct (m s) as [[a|n msg|] s1] eqn:E.
  - eapply step_trans; [eapply Hm; eauto|eapply Hf; eauto].
  - inversion H; subst. eapply Hm; eauto.
  - inversion H; subst. eapply Hm; eauto.
Qed.

Lemma collect_saved_keys names gl : forall d0 d,
  collect_saved names gl d0 = inr d -> incl (ns_keys d) (ns_keys d0 ++ names).
Proof.
  induction names as [|x r IH]; intros d0 d H; simpl in H.
  - inversion H; subst. rewrite app_nil_r. apply incl_refl.
  - destruct (ns_get x gl); [|discriminate]. apply IH in H.
    intros k Hk. apply H in Hk. apply in_app_or in Hk. apply in_or_app.
    destruct Hk as [Hk|Hk].
    + apply ns_keys_set in Hk. destruct Hk as [->|Hk]; [right; now left|now left].
    + right. now right.
Qed.

Lemma sound_eval_kws (ev1 : expr -> M value) kws :
  (forall c, In c kws -> sound (ev1 (snd c))) -> sound (eval_kws ev1 kws).
Proof.
  induction kws as [|[k e] r IH]; intros H; simpl; [apply sound_ret|].
  apply sound_bind; [apply (H (k, e)); now left|intros v].
  apply sound_bind; [apply IH; intros c Hc; apply H; now right|intros; apply sound_ret].
Qed.

Lemma eval_kws_keys (ev1 : expr -> M value) kws : forall s kvs s',
  eval_kws ev1 kws s = (Ok kvs, s') -> map fst kvs = map fst kws.
Proof.
  induction kws as [|[k e] r IH]; intros s kvs s' H; simpl in H.
  - inversion H; reflexivity.
  - unfold bindM in H. destruct (ev1 e s) as [[v| |] s1]; try discriminate.
    destruct (eval_kws ev1 r s1) as [[vs| |] s2] eqn:E; try discriminate.
    inversion H; subst. simpl. f_equal. eapply IH; eauto.
Qed.

Lemma ssound_do_save T names kvs :
  incl (names ++ map fst kvs) T -> ssound T (do_save names kvs).
Proof.
  intros I s r s' H. unfold do_save in H.
  destruct (collect_saved names (g s) []) as [x|d] eqn:C.
  - inversion H; subst. apply step_refl.
  - inversion H; subst. exists [ns_update d kvs]. simpl. repeat split.
    constructor; [|constructor].
    intros k Hk. apply I. apply ns_keys_update in Hk. apply in_or_app.
    destruct Hk as [Hk|Hk]; [left|right; exact Hk].
    apply collect_saved_keys in C. apply C in Hk. simpl in Hk. exact Hk.
Qed.

Lemma sound_class_body (ev1 : expr -> M value) attrs :
  (forall c, In c attrs -> sound (ev1 (snd c))) -> sound (class_body ev1 attrs).
Proof.
  induction attrs as [|[a e] r IH]; intros H; simpl; [apply sound_ret|].
  apply sound_bind; [apply (H (a, e)); now left|intros v].
  apply sound_bind; [apply sound_modify; auto with same|intros _].
  apply IH. intros c Hc. apply H. now right.
Qed.

Lemma sound_store_all E bs : sound (store_all E bs).
Proof.
  induction bs as [|[x v] r IH]; simpl; [apply sound_ret|].
  apply sound_bind; [apply sound_store_var|intros; exact IH].
Qed.

Theorem ssound_exec_stmt T fuel E st :
  gk E = GPlain -> incl (stmt_targets st) T -> ssound T (exec_stmt fuel E st).
Proof.
  intros G I. destruct st; simpl.
  - apply ssound_of_sound. apply sound_bind; [apply sound_eval_plain; assumption|intros; apply sound_store_var_plain; assumption].
  - apply ssound_of_sound. apply sound_bind; [apply sound_load_var|intros old].
    apply sound_bind; [apply sound_eval_plain; assumption|intros v].
    apply sound_bind; [apply sound_inplace_add|intros; apply sound_store_var_plain; assumption].
  - apply ssound_of_sound. apply sound_bind; [pure_sound|intros; apply sound_store_all].
  - apply ssound_of_sound. apply sound_bind; [pure_sound|intros; apply sound_store_all].
  - apply ssound_of_sound. apply sound_bind; [pure_sound|intros; apply sound_store_all].
  - apply ssound_of_sound. apply sound_bind; [pure_sound|intros; apply sound_store_all].
  - apply ssound_of_sound. apply sound_bind; [apply sound_alloc|intros; apply sound_store_var_plain; assumption].
  - apply ssound_of_sound. apply sound_bind; [apply sound_modify; auto with same|intros _].
    apply sound_bind; [apply sound_class_body; intros; apply sound_eval_plain; assumption|intros _].
    apply sound_bind; [apply sound_get_st|intros s1].
    apply sound_bind; [apply sound_alloc|intros; apply sound_store_var_plain; assumption].
  - (* save *)
    apply ssound_bind; [apply ssound_of_sound, sound_load_var|intros fv].
    intros s r s' H. unfold bindM in H.
    destruct (eval_kws (eval fuel E) kws s) as [[kvs| |] s1] eqn:EK.
    + assert (S1 : same_ctx s s1).
      { eapply (sound_eval_kws (eval fuel E) kws); [|exact EK].
        intros; apply sound_eval_plain; assumption. }
      apply eval_kws_keys in EK.
      eapply step_trans; [apply step_of_same; exact S1|].
      destruct fv; try (inversion H; subst; apply step_refl).
      destruct (String.eqb name "<save>").
      * eapply ssound_do_save; [|exact H]. simpl in I. rewrite EK. exact I.
      * destruct (String.eqb name "<builtins>"); inversion H; subst; apply step_refl.
    + inversion H; subst. apply step_of_same.
      eapply (sound_eval_kws (eval fuel E) kws); [|exact EK]. intros; apply sound_eval_plain; assumption.
    + inversion H; subst. apply step_of_same.
      eapply (sound_eval_kws (eval fuel E) kws); [|exact EK]. intros; apply sound_eval_plain; assumption.
  - apply ssound_of_sound. apply sound_bind; [apply sound_eval_plain; assumption|intros; apply sound_ret].
  - apply ssound_of_sound. rewrite G. pure_sound.
Qed.

Definition block_targets (b : list stmt) : list string := flat_map stmt_targets b.

Theorem ssound_exec_block fuel E b :
  gk E = GPlain -> ssound (block_targets b) (exec_block fuel E b).
Proof.
  intros G. induction b as [|st r IH]; simpl.
  - intros s res s' H. inversion H. apply step_refl.
  - apply ssound_bind.
    + eapply ssound_exec_stmt; [assumption|]. unfold block_targets. simpl. apply incl_appl, incl_refl.
    + intros _ s res s' H. eapply step_mono; [|eapply IH; eauto].
      unfold block_targets. simpl. apply incl_appr, incl_refl.
Qed.

(** the exec no-leak theorem on [run_exec] *)
Theorem run_exec_frame mt b blk c h :
  let s' := snd (run_exec mt b blk c h) in
  ctx s' = apply_saves c (saves s')
  /\ Forall (fun d => incl (ns_keys d) (block_targets blk)) (saves s').
Proof.
  cbv zeta. unfold run_exec. destruct (forallb wf_stmt blk).
  - destruct (exec_block FUEL (exec_env mt b) blk (exec_state c h)) as [r s'] eqn:E. simpl.
    apply ssound_exec_block in E; [|reflexivity].
    destruct E as (ds & A & B & C & D). simpl in A, B. rewrite A, B. split; [reflexivity|assumption].
  - simpl. split; [reflexivity|constructor].
Qed.

Corollary run_exec_key_untouched mt b blk c h k :
  ~ In k (block_targets blk) ->
  ns_get k (ctx (snd (run_exec mt b blk c h))) = ns_get k c.
Proof.
  intros N. destruct (run_exec_frame mt b blk c h) as [A B]. rewrite A.
  apply apply_saves_get_untouched. intros d Hd Hk.
  rewrite Forall_forall in B. apply N. eapply B; eauto.
Qed.

Corollary run_exec_new_keys mt b blk c h k :
  In k (ns_keys (ctx (snd (run_exec mt b blk c h)))) -> In k (ns_keys c) \/ In k (block_targets blk).
Proof.
  intros H. destruct (run_exec_frame mt b blk c h) as [A B]. rewrite A in H.
  apply apply_saves_keys in H. destruct H as [H|[d [Hd Hk]]]; [now left|right].
  rewrite Forall_forall in B. eapply B; eauto.
Qed.

(** * Reads *)
Lemma find_local_notlocal x fs : forall c c', find_local x fs c = LNotLocal -> find_local x fs c' = LNotLocal.
Proof.
  induction fs as [|f r IH]; intros c c' H; simpl in *; [reflexivity|].
  destruct (fv_get x (fvars f)) as [[v|]|].
  - discriminate.
  - destruct c; discriminate.
  - eapply IH; eauto.
Qed.

Theorem load_ctx_key E x v s :
  gk E = GChain -> cls E = false -> find_local x (frames s) false = LNotLocal ->
  ns_get x (scr s) = None -> ns_get x (ctx s) = Some v -> load_var E x s = (Ok v, s).
Proof.
  intros G C L Sc H. unfold load_var. rewrite L.
  unfold load_global, load_name, chain_get. rewrite G, C, Sc, H. destruct (_ || _); reflexivity.
Qed.

Theorem load_import E x v s :
  gk E = GChain -> cls E = false -> find_local x (frames s) false = LNotLocal ->
  ns_get x (scr s) = None -> ns_get x (ctx s) = None -> ns_get x (imps s) = Some v ->
  load_var E x s = (Ok v, s).
Proof.
  intros G C L Sc H I. unfold load_var. rewrite L.
  unfold load_global, load_name, chain_get. rewrite G, C, Sc, H, I. destruct (_ || _); reflexivity.
Qed.

Theorem load_builtin E x v s :
  gk E = GChain -> cls E = false -> find_local x (frames s) false = LNotLocal ->
  ns_get x (scr s) = None -> ns_get x (ctx s) = None -> ns_get x (imps s) = None ->
  ns_get x (nsd s) = None -> ns_get x (bi E) = Some v -> load_var E x s = (Ok v, s).
Proof.
  intros G C L Sc H I D B. unfold load_var. rewrite L.
  unfold load_global, load_name, chain_get, from_builtins. rewrite G, C, Sc, H, I, D, B.
  destruct (_ || _); reflexivity.
Qed.

Theorem load_exec_global E x v s :
  gk E = GPlain -> cls E = false -> find_local x (frames s) false = LNotLocal ->
  ns_get x (g s) = Some v -> load_var E x s = (Ok v, s).
Proof.
  intros G C L H. unfold load_var. rewrite L.
  unfold load_global, load_name. rewrite G, C, H. destruct (_ || _); reflexivity.
Qed.

Lemma exec_globals_get c x : x <> "save" -> x <> "__builtins__" -> ns_get x (exec_globals c) = ns_get x c.
Proof. intros A B. unfold exec_globals. rewrite !ns_get_set_other; auto. Qed.

(** a context key under any number of enclosing lambdas *)
Definition nest_lam (xs : list string) (e : expr) : expr :=
  fold_right (fun x body => XLam [x] body [XNone]) e xs.

Lemma wtargets_nest xs x : wtargets (nest_lam xs (XName x)) = [].
Proof. destruct xs; reflexivity. Qed.

Lemma set_frames_same s : set_frames (frames s) s = s.
Proof. destruct s; reflexivity. Qed.

Theorem read_under_lambdas k v : forall xs n E s,
  gk E = GChain -> cls E = false -> ~ In k xs ->
  find_local k (frames s) false = LNotLocal -> ns_get k (scr s) = None -> ns_get k (ctx s) = Some v ->
  eval (length xs + S n) E (nest_lam xs (XName k)) s = (Ok v, s).
Proof.
  induction xs as [|x r IH]; intros n E s G C N L Sc H.
  - simpl. apply load_ctx_key; assumption.
  - cbn [length nest_lam fold_right plus eval eval_list].
    fold (nest_lam r (XName k)).
    assert (F : eval (length r + S n) E XNone s = (Ok PNone, s)).
    { destruct (length r + S n)%nat eqn:Z; [lia|reflexivity]. }
    unfold bindM at 1. unfold bindM at 1. rewrite F. unfold bindM at 1. cbn [ret].
    unfold call_lambda. cbn [length Nat.eqb negb]. unfold bindM, modify.
    rewrite (IH n (in_function E)); try assumption; try reflexivity.
    + cbn [frames set_frames tl]. f_equal. destruct s; reflexivity.
    + intros I. apply N. now right.
    + cbn [frames set_frames find_local fn_frame fvars combine map app].
      rewrite wtargets_nest. cbn [filter map app fv_get].
      assert (Q : String.eqb k x = false). { apply String.eqb_neq. intros ->. apply N. now left. }
      rewrite Q. cbn [fk orb]. eapply find_local_notlocal; eauto.
Qed.

(** * In-place mutation through a context name *)
Lemma nth_error_list_upd {A} (l : list A) : forall i x y, nth_error l i = Some y -> nth_error (list_upd l i x) i = Some x.
Proof.
  induction l as [|a r IH]; intros [|i] x y H; simpl in *; try discriminate; auto.
  eapply IH; eauto.
Qed.

Theorem exec_append_visible mt b c h k r items z :
  ns_get k c = Some (PRef r) -> nth_error h r = Some (OList items) ->
  k <> "save" -> k <> "__builtins__" ->
  let res := run_exec mt b [SExpr (XAppend (XName k) (XInt z))] c h in
  fst res = Ok tt /\ ctx (snd res) = c
  /\ nth_error (heap (snd res)) r = Some (OList (items ++ [PInt z])).
Proof.
  intros H Hh N1 N2. cbv zeta. unfold run_exec.
  assert (W : forallb wf_stmt [SExpr (XAppend (XName k) (XInt z))] = true).
  { simpl. apply String.eqb_neq in N2. rewrite N2. reflexivity. }
  rewrite W. change FUEL with (S (S 78)).
  cbn [exec_block exec_stmt eval]. unfold bindM.
  assert (L : load_var (exec_env mt b) k (exec_state c h) = (Ok (PRef r), exec_state c h)).
  { apply load_exec_global; try reflexivity. simpl. rewrite exec_globals_get; assumption. }
  rewrite L. cbn [check_list]. cbn [heap exec_state]. rewrite Hh. cbn [ret].
  unfold heap_extend. cbn [heap exec_state]. rewrite Hh. cbn [ret fst snd ctx set_heap heap].
  repeat split. eapply nth_error_list_upd; eauto.
Qed.

Theorem eval_append_visible mt b c i h k r items z :
  ns_get k c = Some (PRef r) -> nth_error h r = Some (OList items) -> k <> "__builtins__" ->
  let res := run_eval mt b (XAppend (XName k) (XInt z)) (eval_state c i h) in
  fst res = Ok PNone /\ ctx (snd res) = c
  /\ nth_error (heap (snd res)) r = Some (OList (items ++ [PInt z])).
Proof.
  intros H Hh N2. cbv zeta. unfold run_eval.
  assert (W : wf_expr [] false false (XAppend (XName k) (XInt z)) = true).
  { simpl. apply String.eqb_neq in N2. rewrite N2. reflexivity. }
  rewrite W. change FUEL with (S (S 78)).
  cbn [eval]. unfold bindM.
  assert (L : load_var (eval_env mt b (XAppend (XName k) (XInt z))) k (fresh_namespace (eval_state c i h))
              = (Ok (PRef r), fresh_namespace (eval_state c i h))).
  { apply load_ctx_key; try reflexivity. exact H. }
  rewrite L. cbn [check_list]. cbn [heap eval_state fresh_namespace set_frames set_scr set_nsd]. rewrite Hh. cbn [ret].
  unfold heap_extend. cbn [heap eval_state fresh_namespace set_frames set_scr set_nsd]. rewrite Hh.
  cbn [ret fst snd ctx set_heap heap fresh_namespace set_frames set_scr set_nsd].
  repeat split. eapply nth_error_list_upd; eauto.
Qed.

(** * Imports *)
Lemma mem_app_r x l y : mem x l = true -> mem x (l ++ [y]) = true.
Proof. induction l as [|a r IH]; simpl; [discriminate|]. destruct (String.eqb x a); simpl; auto. Qed.

Lemma mem_app_last x l : mem x (l ++ [x]) = true.
Proof. induction l as [|a r IH]; simpl; [now rewrite String.eqb_refl|]. rewrite IH. apply orb_true_r. Qed.

(** a successful import of a chain leaves every module of the chain (and everything imported
    before) in sys.modules *)
Lemma load_chain_loaded mt ms : forall ld ld',
  load_chain mt ms ld = (true, ld') ->
  (forall x, In x ms -> mem x ld' = true) /\ (forall x, mem x ld = true -> mem x ld' = true).
Proof.
  induction ms as [|m r IH]; intros ld ld' H; simpl in H.
  - inversion H; subst. split; [intros x []|auto].
  - destruct (mod_get m mt); [|discriminate].
    apply IH in H. destruct H as [H1 H2]. split.
    + intros x [->|Hx]; [|auto]. apply H2.
      destruct (mem x ld) eqn:E; [assumption|apply mem_app_last].
    + intros x Hx. apply H2. destruct (mem m ld); [assumption|apply mem_app_r; assumption].
Qed.

(** an imported submodule is reachable as an attribute of its package *)
Lemma mod_attr_submodule mt ld m a attrs sub :
  mod_get m mt = Some attrs -> a <> "<self>" -> ns_get a attrs = None ->
  mod_get (m ++ "." ++ a)%string mt = Some sub -> mem (m ++ "." ++ a)%string ld = true ->
  mod_attr mt ld m a = Some (mod_value mt (m ++ "." ++ a)%string).
Proof.
  intros H N A S L. unfold mod_attr. rewrite H. apply String.eqb_neq in N. rewrite N, A, S, L. reflexivity.
Qed.

(** and a submodule that was never imported is not *)
Lemma mod_attr_not_imported mt ld m a attrs :
  mod_get m mt = Some attrs -> ns_get a attrs = None -> mem (m ++ "." ++ a)%string ld = false ->
  mod_attr mt ld m a = None.
Proof.
  intros H A L. unfold mod_attr. rewrite H, A, L.
  destruct (String.eqb a "<self>"); [reflexivity|].
  destruct (mod_get (m ++ "." ++ a)%string mt); reflexivity.
Qed.

(** dict.update re-binds: a name of the merged dict reads as the merged dict's object afterwards *)
Lemma ns_get_update_in k v d : forall c,
  NoDup (ns_keys d) -> ns_get k d = Some v -> ns_get k (ns_update c d) = Some v.
Proof.
  induction d as [|[k' v'] r IH]; intros c N H; [discriminate|].
  simpl in H. inversion N as [|? ? Hn Hr]; subst. rewrite ns_update_cons.
  destruct (String.eqb k k') eqn:E.
  - apply String.eqb_eq in E; subst k'. inversion H; subst.
    rewrite ns_get_update_notin by assumption. apply ns_get_set_same.
  - apply IH; assumption.
Qed.

(** every name of a from-list is bound to the attribute (or imported sub-module) of the ONE module the
    statement names — never of a sub-module met earlier in the list *)
Lemma from_binds_same_module mt ld key : forall names bs,
  from_binds mt ld key names = Some bs ->
  Forall2 (fun na b => fst b = snd na /\ mod_attr mt ld key (fst na) = Some (snd b)) names bs.
Proof.
  induction names as [|[n a] r IH]; intros bs H; simpl in H.
  - inversion H. constructor.
  - destruct (mod_attr mt ld key n) eqn:A; [|discriminate].
    destruct (from_binds mt ld key r) eqn:B; [|discriminate].
    inversion H; subst. constructor; [split; [reflexivity|exact A]|apply IH; reflexivity].
Qed.

(** a pyimport step never looks at the context: what it merges into the imports namespace is the
    same whatever keys the context holds at that moment — so an imported name that a context key
    hides is still there when the key goes away *)
Lemma session_import_ignores_context mt b blk r s c' :
  match pyimport_ns mt blk [] (loaded s) with
  | Some (stepns, ld) =>
      run_session mt b (AImport blk :: r) (set_ctx c' s)
      = run_session mt b r (set_ctx c' (set_loaded ld (set_imps (ns_update (imps s) stepns) s)))
  | None => run_session mt b (AImport blk :: r) (set_ctx c' s) = None
  end.
Proof.
  simpl. destruct (pyimport_ns mt blk [] (loaded s)) as [[stepns ld]|]; reflexivity.
Qed.

Lemma ns_get_del_other k k' d : k <> k' -> ns_get k (ns_del k' d) = ns_get k d.
Proof.
  intros N. induction d as [|[k2 v2] r IH]; simpl; [reflexivity|].
  destruct (String.eqb k' k2) eqn:E; simpl.
  - apply String.eqb_eq in E; subst k2. apply String.eqb_neq in N. now rewrite N.
  - now rewrite IH.
Qed.

Lemma ns_get_del_nodup k d : NoDup (ns_keys d) -> ns_get k (ns_del k d) = None.
Proof.
  induction d as [|[k2 v2] r IH]; simpl; intros N; [reflexivity|].
  inversion N as [|? ? Hn Hr]; subst.
  destruct (String.eqb k k2) eqn:E; simpl.
  - apply String.eqb_eq in E; subst k2.
    clear IH N Hr. induction r as [|[k3 v3] r IH]; simpl in *; [reflexivity|].
    destruct (String.eqb k k3) eqn:E3; [apply String.eqb_eq in E3; subst; exfalso; apply Hn; now left|].
    apply IH. intros H. apply Hn. now right.
  - rewrite E. apply IH. assumption.
Qed.

(** the sequence of round 8: a pyimport step binds [k] while the context has a key [k]; the key is
    dropped; a read of [k] — from any scope — now resolves to the import *)
Theorem import_survives_hidden_key E k v stepns s :
  gk E = GChain -> cls E = false -> find_local k (frames s) false = LNotLocal ->
  ns_get k (scr s) = None -> NoDup (ns_keys (ctx s)) -> NoDup (ns_keys stepns) ->
  ns_get k stepns = Some v ->
  let s' := set_ctx (ns_del k (ctx s)) (set_imps (ns_update (imps s) stepns) s) in
  load_var E k s' = (Ok v, s').
Proof.
  intros G C L S Nc Ns H. cbv zeta. apply load_import; try assumption.
  - simpl. apply ns_get_del_nodup. assumption.
  - simpl. apply ns_get_update_in; assumption.
Qed.

(** save() takes effect at the moment of the call: whatever the rest of the block does — also when it
    raises — a key the rest does not save again keeps the value it has when the rest starts *)
Theorem rest_of_block_keeps_saved fuel E rest s1 r s' k :
  gk E = GPlain -> exec_block fuel E rest s1 = (r, s') ->
  ~ In k (block_targets rest) -> ns_get k (ctx s') = ns_get k (ctx s1).
Proof.
  intros G H N. apply (ssound_exec_block fuel E rest G) in H.
  destruct H as (ds & A & B & C & D). rewrite B.
  apply apply_saves_get_untouched. intros d Hd Hk.
  rewrite Forall_forall in C. apply N. eapply C; eauto.
Qed.

(** the state right after [save(k=z)] has [k] in the context *)
Lemma save_kw_writes_now names k z s :
  collect_saved names (g s) [] = inr [] ->
  do_save names [(k, PInt z)] s
  = (Ok tt, set_ctx_saves (ns_set k (PInt z) (ctx s)) (saves s ++ [[(k, PInt z)]]) s).
Proof. intros H. unfold do_save. rewrite H. reflexivity. Qed.
